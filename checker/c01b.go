package main

import (
	"regexp"
	"sort"
	"strings"
)

// C01.R6 — conflict clauses have something to conflict with.
//
// SQLite's INSERT OR REPLACE / OR IGNORE / ON CONFLICT only replace or skip when the inserted row
// collides with a PRIMARY KEY or UNIQUE constraint (or an explicitly given rowid). Without one the
// statement silently appends. The bookkeeping rows the store relies on after a restart (schema
// version, counters) are written this way, so an upsert without a conflict target turns "the one
// row" into "one more row" and the reader (LIMIT 1 / WHERE id = 1) keeps seeing the oldest.

var (
	reCreateTable = regexp.MustCompile(`(?is)^\s*CREATE\s+TABLE\s+(?:IF\s+NOT\s+EXISTS\s+)?([A-Za-z_][A-Za-z0-9_]*)\s*\((.*)\)\s*(WITHOUT\s+ROWID)?\s*$`)
	reUniqueIndex = regexp.MustCompile(`(?is)^\s*CREATE\s+UNIQUE\s+INDEX\s+(?:IF\s+NOT\s+EXISTS\s+)?[A-Za-z_][A-Za-z0-9_]*\s+ON\s+([A-Za-z_][A-Za-z0-9_]*)\s*\(([^)]*)\)`)
	reUpsert      = regexp.MustCompile(`(?is)^\s*(INSERT\s+OR\s+(?:REPLACE|IGNORE)|REPLACE)\s+INTO\s+([A-Za-z_][A-Za-z0-9_]*)\s*\(([^)]*)\)`)
	reOnConflict  = regexp.MustCompile(`(?is)^\s*INSERT\s+INTO\s+([A-Za-z_][A-Za-z0-9_]*)\s*\(([^)]*)\).*\bON\s+CONFLICT\s*(?:\(([^)]*)\))?`)
	reConstraint  = regexp.MustCompile(`(?is)^\s*(?:CONSTRAINT\s+\S+\s+)?(PRIMARY\s+KEY|UNIQUE)\s*\(([^)]*)\)`)
)

// splitStatements splits at semicolons outside parentheses and quotes.
func splitStatements(s string) []string {
	var out []string
	depth, last := 0, 0
	quote := byte(0)
	for i := 0; i < len(s); i++ {
		ch := s[i]
		if quote != 0 {
			if ch == quote {
				quote = 0
			}
			continue
		}
		switch ch {
		case '\'', '"':
			quote = ch
		case '(':
			depth++
		case ')':
			depth--
		case ';':
			if depth == 0 {
				out = append(out, s[last:i])
				last = i + 1
			}
		}
	}
	return append(out, s[last:])
}

func splitCols(s string) []string {
	var out []string
	for _, c := range strings.Split(s, ",") {
		c = strings.ToLower(strings.TrimSpace(c))
		if f := strings.Fields(c); len(f) > 0 {
			out = append(out, strings.Trim(f[0], "\"`"))
		}
	}
	return out
}

func subset(a, b []string) bool {
	have := map[string]bool{}
	for _, x := range b {
		have[x] = true
	}
	for _, x := range a {
		if !have[x] {
			return false
		}
	}
	return len(a) > 0
}

func checkUpsertTargets(c *Ctx, rule string) {
	p := c.P
	type tbl struct {
		unique   [][]string
		noRowid  bool
		declared string
	}
	tables := map[string]map[string]*tbl{} // backend -> table
	get := func(backend, name string) *tbl {
		name = strings.ToLower(name)
		if tables[backend] == nil {
			tables[backend] = map[string]*tbl{}
		}
		if tables[backend][name] == nil {
			tables[backend][name] = &tbl{}
		}
		return tables[backend][name]
	}
	type sub struct {
		s    *SQLStmt
		text string
	}
	var subs []sub
	for _, s := range p.SQL().Stmts {
		for _, t := range splitStatements(s.Text) {
			if strings.TrimSpace(t) != "" {
				subs = append(subs, sub{s, sqNorm(t)})
			}
		}
	}
	for _, x := range subs {
		if m := reCreateTable.FindStringSubmatch(x.text); m != nil {
			t := get(x.s.Backend, m[1])
			t.declared = x.s.Pos
			t.noRowid = m[3] != ""
			for _, item := range sqSplitTop(m[2], ",") {
				item = strings.TrimSpace(item)
				if cm := reConstraint.FindStringSubmatch(item); cm != nil {
					t.unique = append(t.unique, splitCols(cm[2]))
					continue
				}
				up := strings.ToUpper(item)
				if strings.Contains(up, "PRIMARY KEY") || regexp.MustCompile(`\bUNIQUE\b`).MatchString(up) {
					if f := strings.Fields(item); len(f) > 0 {
						t.unique = append(t.unique, []string{strings.ToLower(strings.Trim(f[0], "\"`"))})
					}
				}
			}
		}
		if m := reUniqueIndex.FindStringSubmatch(x.text); m != nil {
			t := get(x.s.Backend, m[1])
			t.unique = append(t.unique, splitCols(m[2]))
		}
	}
	n := 0
	seen := map[string]int{}
	for _, x := range subs {
		var table, cols, form string
		if m := reUpsert.FindStringSubmatch(x.text); m != nil {
			form, table, cols = strings.ToUpper(sqNorm(m[1])), m[2], m[3]
		} else if m := reOnConflict.FindStringSubmatch(x.text); m != nil {
			form, table, cols = "ON CONFLICT", m[1], m[2]
			if strings.TrimSpace(m[3]) != "" {
				cols = m[3] // the named conflict target must itself be unique
			}
		} else {
			continue
		}
		n++
		key := x.s.Backend + "." + x.s.Fn.Name() + ":" + form + " " + strings.ToLower(table)
		seen[key]++
		if seen[key] > 1 {
			key += "#" + itoa(seen[key])
		}
		t := tables[x.s.Backend][strings.ToLower(table)]
		if t == nil || t.declared == "" {
			c.Undecided(rule, key, x.s.Pos, "no CREATE TABLE for "+table+" found among the embedded statements of this backend")
			continue
		}
		inserted := splitCols(cols)
		sets := append([][]string{}, t.unique...)
		if x.s.Backend == "sqlite" && !t.noRowid {
			sets = append(sets, []string{"rowid"}, []string{"oid"}, []string{"_rowid_"})
		}
		hit := ""
		for _, u := range sets {
			if subset(u, inserted) {
				hit = strings.Join(u, ",")
				break
			}
		}
		var decl []string
		for _, u := range t.unique {
			decl = append(decl, "("+strings.Join(u, ",")+")")
		}
		sort.Strings(decl)
		if hit != "" {
			c.Ok(rule, key, x.s.Pos, "inserted columns include the unique key ("+hit+"): the conflict clause can fire")
		} else {
			c.Fail(rule, key, x.s.Pos, form+" into "+table+"("+strings.Join(inserted, ",")+") names no PRIMARY KEY/UNIQUE column or rowid (declared unique: "+strings.Join(decl, " ")+" at "+t.declared+"): nothing can conflict, so every execution appends a row and single-row readers keep returning the oldest one")
		}
	}
	// single-row tables: read by a singleton reader (SELECT … LIMIT 1 without WHERE, or WHERE <col> = <constant>);
	// every INSERT into such a table must carry a conflict clause (checked above) — a plain INSERT appends a second
	// row and the reader keeps returning the first
	reSelect := regexp.MustCompile(`(?is)^\s*SELECT\s+.*?\s+FROM\s+([A-Za-z_][A-Za-z0-9_]*)\s*(.*)$`)
	rePlainInsert := regexp.MustCompile(`(?is)^\s*INSERT\s+INTO\s+([A-Za-z_][A-Za-z0-9_]*)\b`)
	singleRow := map[string]string{}
	for _, x := range subs {
		if m := reSelect.FindStringSubmatch(x.text); m != nil {
			rest := strings.ToUpper(m[2])
			noWhere := !strings.Contains(rest, "WHERE") && !strings.Contains(rest, "ORDER BY") && !strings.Contains(rest, "GROUP BY") && regexp.MustCompile(`LIMIT\s+1\b`).MatchString(rest)
			constWhere := regexp.MustCompile(`^WHERE\s+[A-Z_]+\s*=\s*[0-9]+\s*;?$`).MatchString(strings.TrimSpace(rest))
			if noWhere || constWhere {
				singleRow[x.s.Backend+"."+strings.ToLower(m[1])] = x.s.Pos
			}
		}
	}
	nSingle := 0
	for _, x := range subs {
		m := rePlainInsert.FindStringSubmatch(x.text)
		if m == nil {
			continue
		}
		reader, isSingle := singleRow[x.s.Backend+"."+strings.ToLower(m[1])]
		if !isSingle {
			continue
		}
		nSingle++
		hasConflict := reOnConflict.MatchString(x.text)
		fnName := "?"
		if x.s.Fn != nil {
			fnName = x.s.Fn.Name()
		}
		c.Check(hasConflict, rule, x.s.Backend+"."+fnName+":INSERT into single-row table "+strings.ToLower(m[1])+" pins the row", x.s.Pos,
			"insert carries a conflict clause",
			"plain INSERT into "+m[1]+", which is read as a single row at "+reader+": every execution appends a row and the reader keeps returning the oldest (an upgraded database forgets its schema version / counters)")
	}
	c.Count("single-row tables (singleton readers)", len(singleRow))
	c.Count("statements with a conflict clause", n)
	c.Floor(rule, "statements with a conflict clause", n, 2)
}
