package main

import (
	"fmt"
	"go/ast"
	"go/token"
	"go/types"
	"sort"
	"strings"
)

// ---------------------------------------------------------------------------
// R4 keyword / field agreement

type emitSite struct {
	key   string
	words []string
	pos   token.Pos
	fn    string
	node  ast.Node
}

// unwrapSpelling strips the formatter's spelling wrappers (string,bool)->string / string->string and conversions.
func (m *cfgModel) unwrapSpelling(e ast.Expr) ast.Expr {
	for {
		e = ast.Unparen(e)
		ce, ok := e.(*ast.CallExpr)
		if !ok || len(ce.Args) == 0 {
			return e
		}
		fn, _, conv := m.callee(ce)
		if conv {
			e = ce.Args[0]
			continue
		}
		if fn != nil && m.decls[fn] != nil {
			sig := fn.Type().(*types.Signature)
			if sig.Results().Len() == 1 && isStringT(sig.Results().At(0).Type()) && sig.Params().Len() >= 1 && isStringT(sig.Params().At(0).Type()) {
				e = ce.Args[0]
				continue
			}
		}
		return e
	}
}

// resolveField maps an expression to the syntax-tree field whose value it is.
func (m *cfgModel) resolveField(e ast.Expr, fd *ast.FuncDecl, depth int) (string, bool) {
	e = ast.Unparen(e)
	switch x := e.(type) {
	case *ast.SelectorExpr:
		if k, _, ok := m.fieldKey(x); ok {
			return k, true
		}
	case *ast.IndexExpr:
		return m.resolveField(x.X, fd, depth)
	case *ast.Ident:
		if depth > 3 {
			return "", false
		}
		v, _ := m.info.Uses[x].(*types.Var)
		if v == nil {
			return "", false
		}
		var out string
		found := false
		ast.Inspect(fd.Body, func(n ast.Node) bool {
			switch s := n.(type) {
			case *ast.RangeStmt:
				if id, ok := s.Value.(*ast.Ident); ok && m.info.Defs[id] == v {
					if k, ok := m.resolveField(s.X, fd, depth+1); ok {
						out, found = k, true
					}
				}
			case *ast.AssignStmt:
				if len(s.Lhs) == len(s.Rhs) {
					for i, l := range s.Lhs {
						if id, ok := l.(*ast.Ident); ok && (m.info.Defs[id] == v) {
							if k, ok := m.resolveField(s.Rhs[i], fd, depth+1); ok {
								out, found = k, true
							}
						}
					}
				}
			}
			return true
		})
		return out, found
	}
	return "", false
}

func literalWords(s string) []string {
	// verbs are separators: "%smethod %s" spells the word "method" after an indent argument
	var b strings.Builder
	for i := 0; i < len(s); i++ {
		if s[i] == '%' && i+1 < len(s) {
			b.WriteByte(' ')
			i++
			continue
		}
		b.WriteByte(s[i])
	}
	var out []string
	for _, w := range strings.Fields(b.String()) {
		w = strings.Trim(w, "{}@")
		if w == "" {
			continue
		}
		out = append(out, w)
	}
	return out
}

func (m *cfgModel) emitSites(fns map[*types.Func]bool) []emitSite {
	var out []emitSite
	for f := range fns {
		fd := m.decls[f]
		ast.Inspect(fd.Body, func(n ast.Node) bool {
			ce, ok := n.(*ast.CallExpr)
			if !ok {
				return true
			}
			fn, _, _ := m.callee(ce)
			if fn == nil || m.emitKind(fn) != "sink" {
				return true
			}
			if fn.Pkg().Path() == "fmt" && fn.Name() == "Fprintf" && len(ce.Args) >= 2 {
				format, ok := m.stringConst(ce.Args[1])
				if !ok {
					return true
				}
				// split the format at verbs
				var prefixes []string
				for i := 0; i < len(format); i++ {
					if format[i] != '%' {
						continue
					}
					if i+1 < len(format) && format[i+1] == '%' {
						i++
						continue
					}
					prefixes = append(prefixes, format[:i])
				}
				// a verb filled from a local that only ever holds string constants spells a keyword: its words are
				// the alternatives ("secret" / "secret_ref" chosen into a variable before one Fprintf)
				keywordAlts := func(a ast.Expr) []string {
					id, ok := ast.Unparen(a).(*ast.Ident)
					if !ok {
						return nil
					}
					v, ok := m.info.Uses[id].(*types.Var)
					if !ok || v.IsField() || v.Parent() == m.pkg.Types.Scope() {
						return nil
					}
					rhs := rhsOf(m.info, fd, v)
					if len(rhs) == 0 {
						return nil
					}
					var alts []string
					for _, r := range rhs {
						sv, ok := m.stringConst(r)
						if !ok {
							return nil
						}
						alts = append(alts, literalWords(sv)...)
					}
					return alts
				}
				var carried []string
				for k, a := range ce.Args[2:] {
					if k >= len(prefixes) {
						break
					}
					if alts := keywordAlts(a); alts != nil {
						carried = append(carried, alts...)
						continue
					}
					if key, ok := m.resolveField(m.unwrapSpelling(a), fd, 0); ok {
						words := literalWords(prefixes[k])
						words = append(words, carried...)
						out = append(out, emitSite{key, words, a.Pos(), f.Name(), ce})
					}
				}
				return true
			}
			if strings.HasPrefix(fn.Name(), "Write") && len(ce.Args) == 1 {
				// the argument may be a concatenation: literal parts before an operand are its words
				var operands []ast.Expr
				var flat func(e ast.Expr)
				flat = func(e ast.Expr) {
					e = ast.Unparen(e)
					if be, ok := e.(*ast.BinaryExpr); ok && be.Op == token.ADD {
						flat(be.X)
						flat(be.Y)
						return
					}
					operands = append(operands, e)
				}
				flat(ce.Args[0])
				var before []string
				for _, op := range operands {
					if lit, ok := m.stringConst(op); ok {
						before = append(before, literalWords(lit)...)
						continue
					}
					key, ok := m.resolveField(m.unwrapSpelling(op), fd, 0)
					if !ok {
						continue
					}
					words := append([]string{}, before...)
					if len(words) == 0 {
						// the nearest preceding sibling statement writing a literal
						if es, ok := m.parent[ce].(*ast.ExprStmt); ok {
							if blk, ok := m.parent[es].(*ast.BlockStmt); ok {
								for i, s := range blk.List {
									if s != es || i == 0 {
										continue
									}
									if pes, ok := blk.List[i-1].(*ast.ExprStmt); ok {
										if pce, ok := pes.X.(*ast.CallExpr); ok && len(pce.Args) >= 1 {
											if lit, ok := m.stringConst(pce.Args[len(pce.Args)-1]); ok {
												words = literalWords(lit)
											}
										}
									}
								}
							}
						}
					}
					out = append(out, emitSite{key, words, op.Pos(), f.Name(), ce})
				}
			}
			return true
		})
	}
	sort.Slice(out, func(i, j int) bool { return out[i].pos < out[j].pos })
	return out
}

type storeSite struct {
	key    string
	guards [][]string
	pos    token.Pos
	fn     string
	node   ast.Node
	base   string // printed base expression of the selector
}

// stringGuards returns the disjunctive literal sets of string tests enclosing n inside its declaration.
func (m *cfgModel) stringGuards(n ast.Node) [][]string {
	var out [][]string
	child := n
	for cur := m.parent[n]; cur != nil; child, cur = cur, m.parent[cur] {
		switch x := cur.(type) {
		case *ast.FuncDecl:
			return out
		case *ast.CaseClause:
			sw, _ := m.parent[m.parent[cur]].(*ast.SwitchStmt)
			if sw == nil || sw.Tag == nil {
				continue
			}
			if t := m.info.TypeOf(sw.Tag); t == nil || !isStringT(t) {
				continue
			}
			var lits []string
			for _, e := range x.List {
				if v, ok := m.stringConst(e); ok {
					lits = append(lits, v)
				}
			}
			if len(lits) > 0 {
				out = append(out, lits)
			}
		case *ast.IfStmt:
			if x.Body != child {
				continue
			}
			for _, conj := range splitAnd(x.Cond) {
				if lits := m.equalityLits(conj); len(lits) > 0 {
					out = append(out, lits)
				}
			}
		}
	}
	return out
}

func splitAnd(e ast.Expr) []ast.Expr {
	e = ast.Unparen(e)
	if be, ok := e.(*ast.BinaryExpr); ok && be.Op == token.LAND {
		return append(splitAnd(be.X), splitAnd(be.Y)...)
	}
	return []ast.Expr{e}
}

// equalityLits: e is `X == "a"` or a disjunction of such on token text; returns the literals.
func (m *cfgModel) equalityLits(e ast.Expr) []string {
	e = ast.Unparen(e)
	be, ok := e.(*ast.BinaryExpr)
	if !ok {
		return nil
	}
	switch be.Op {
	case token.LOR:
		a, b := m.equalityLits(be.X), m.equalityLits(be.Y)
		if a == nil || b == nil {
			return nil
		}
		return append(a, b...)
	case token.EQL:
		if v, ok := m.stringConst(be.Y); ok {
			if se, ok := ast.Unparen(be.X).(*ast.SelectorExpr); ok && se.Sel.Name == "text" {
				return []string{v}
			}
		}
	}
	return nil
}

func (m *cfgModel) storeSites(fns map[*types.Func]bool) []storeSite {
	var out []storeSite
	for f := range fns {
		fd := m.decls[f]
		ast.Inspect(fd.Body, func(n ast.Node) bool {
			switch x := n.(type) {
			case *ast.AssignStmt:
				for _, l := range x.Lhs {
					l = ast.Unparen(l)
					for {
						if ix, ok := l.(*ast.IndexExpr); ok {
							l = ix.X
							continue
						}
						break
					}
					if se, ok := l.(*ast.SelectorExpr); ok {
						if k, _, ok := m.fieldKey(se); ok {
							out = append(out, storeSite{k, m.stringGuards(x), x.Pos(), f.Name(), x, types.ExprString(se.X)})
						}
					}
				}
			case *ast.CompositeLit:
				t := m.info.TypeOf(x)
				if t == nil {
					return true
				}
				if pt, ok := t.(*types.Pointer); ok {
					t = pt.Elem()
				}
				nn, ok := t.(*types.Named)
				if !ok || nn.Obj().Pkg() != m.pkg.Types || !m.astTypes[nn.Obj().Name()] {
					return true
				}
				for _, e := range x.Elts {
					if kv, ok := e.(*ast.KeyValueExpr); ok {
						if id, ok := kv.Key.(*ast.Ident); ok {
							out = append(out, storeSite{nn.Obj().Name() + "." + id.Name, m.stringGuards(kv), kv.Pos(), f.Name(), kv, "literal"})
						}
					}
				}
			}
			return true
		})
	}
	sort.Slice(out, func(i, j int) bool { return out[i].pos < out[j].pos })
	return out
}

func guardsStr(g [][]string) string {
	var parts []string
	for _, s := range g {
		parts = append(parts, strings.Join(s, "|"))
	}
	return "[" + strings.Join(parts, " ∧ ") + "]"
}

func checkKeywordAgreement(c *Ctx, m *cfgModel, fmtFns, parseFns map[*types.Func]bool, rule string) {
	p := c.P
	emits := m.emitSites(fmtFns)
	stores := m.storeSites(parseFns)
	byKey := map[string][]storeSite{}
	for _, s := range stores {
		byKey[s.key] = append(byKey[s.key], s)
	}
	c.Count("formatter value emission sites resolved to a field", len(emits))
	c.Count("parser store sites", len(stores))
	guarded := 0
	seenConstruct := map[string]int{}
	for _, e := range emits {
		construct := fmt.Sprintf("%s:%s after %q", e.fn, e.key, strings.Join(e.words, " "))
		seenConstruct[construct]++
		if seenConstruct[construct] > 1 {
			construct = fmt.Sprintf("%s #%d", construct, seenConstruct[construct])
		}
		ss := byKey[e.key]
		if len(ss) == 0 {
			c.Fail(rule, construct, p.Pos(e.pos), "the formatter spells this field but no code reachable from Parse stores into it")
			continue
		}
		wset := map[string]bool{}
		for _, w := range e.words {
			wset[w] = true
		}
		ok := false
		var tried []string
		best := -1
		for _, s := range ss {
			all := true
			for _, g := range s.guards {
				hit := false
				for _, lit := range g {
					if wset[lit] {
						hit = true
					}
				}
				if !hit {
					all = false
				}
			}
			if all {
				ok = true
				if len(s.guards) > best {
					best = len(s.guards)
				}
			} else {
				tried = append(tried, guardsStr(s.guards)+" at "+p.Pos(s.pos))
			}
		}
		if ok {
			if best > 0 {
				guarded++
			}
			c.Ok(rule, construct, p.Pos(e.pos), fmt.Sprintf("parser stores %s under a clause whose %d string guard(s) are all among the formatter's words", e.key, best))
		} else {
			c.Fail(rule, construct, p.Pos(e.pos), "the formatter writes "+e.key+" after the words ["+strings.Join(e.words, " ")+"] but every parser store into that field sits under other keywords: "+strings.Join(tried, "; "))
		}
	}
	c.Count("emission sites matched to a keyword-guarded parser clause", guarded)
	c.Floor(rule, "emission sites", len(emits), 140)
	c.Floor(rule, "keyword-guarded matches", guarded, 120)
}

// ---------------------------------------------------------------------------
// R5 order and determinism

func checkFormatOrder(c *Ctx, m *cfgModel, fmtFns map[*types.Func]bool, rule string) {
	p := c.P
	nRange, nCalls, nIdx := 0, 0, 0
	var fns []*types.Func
	for f := range fmtFns {
		fns = append(fns, f)
	}
	sort.Slice(fns, func(i, j int) bool { return m.decls[fns[i]].Pos() < m.decls[fns[j]].Pos() })
	for _, f := range fns {
		fd := m.decls[f]
		bad := 0
		ast.Inspect(fd.Body, func(n ast.Node) bool {
			switch x := n.(type) {
			case *ast.RangeStmt:
				nRange++
				if t := m.info.TypeOf(x.X); t != nil {
					if _, isMap := t.Underlying().(*types.Map); isMap {
						bad++
						c.Fail(rule, f.Name()+":range over map", p.Pos(x.Pos()), "map iteration order is random: formatting twice can differ and list order is not preserved")
					}
				}
			case *ast.ForStmt:
				if ids, ok := x.Post.(*ast.IncDecStmt); ok && ids.Tok == token.DEC {
					bad++
					c.Fail(rule, f.Name()+":descending loop", p.Pos(x.Pos()), "a descending loop in the formatter emits a list in reverse order")
				}
			case *ast.CallExpr:
				nCalls++
				if fn, _, _ := m.callee(x); fn != nil && fn.Pkg() != nil {
					pk := fn.Pkg().Path()
					if pk == "sort" || pk == "math/rand" || pk == "math/rand/v2" || pk == "crypto/rand" || (pk == "slices" && (strings.HasPrefix(fn.Name(), "Sort") || fn.Name() == "Reverse")) || (pk == "time" && fn.Name() == "Now") || (pk == "os" && (fn.Name() == "Getenv" || fn.Name() == "LookupEnv" || fn.Name() == "ReadFile")) {
						bad++
						c.Fail(rule, f.Name()+":calls "+pk+"."+fn.Name(), p.Pos(x.Pos()), "the formatter reorders or depends on something other than the syntax tree")
					}
				}
			case *ast.AssignStmt:
				for _, l := range x.Lhs {
					// writes into an element of a function-local slice: X[idx]… = …
					l = ast.Unparen(l)
					var ix *ast.IndexExpr
					cur := l
					for ix == nil {
						switch y := cur.(type) {
						case *ast.SelectorExpr:
							cur = y.X
						case *ast.ParenExpr:
							cur = y.X
						case *ast.IndexExpr:
							ix = y
						default:
							cur = nil
						}
						if cur == nil {
							break
						}
					}
					if ix == nil {
						continue
					}
					id, ok := ast.Unparen(ix.X).(*ast.Ident)
					if !ok {
						continue
					}
					v, _ := m.info.Uses[id].(*types.Var)
					if v == nil || v.IsField() {
						continue
					}
					if _, isSlice := v.Type().Underlying().(*types.Slice); !isSlice {
						continue
					}
					if v.Pos() < fd.Body.Pos() || v.Pos() > fd.Body.End() {
						continue // parameter or package variable
					}
					nIdx++
					construct := f.Name() + ":write into " + id.Name + "[" + types.ExprString(ix.Index) + "]"
					if isLenMinusOne(m, ix.Index, v) {
						c.Ok(rule, construct, p.Pos(x.Pos()), "only the last element of the locally built slice is extended: elements stay in syntax-tree order")
					} else {
						bad++
						c.Fail(rule, construct, p.Pos(x.Pos()), "an element other than the last of a slice built from a syntax-tree list is extended: items are regrouped and emitted out of source order")
					}
				}
			}
			return true
		})
		if bad == 0 {
			c.Ok(rule, f.Name()+":deterministic in-order emission", p.Pos(fd.Pos()), "no map iteration, sort, descending loop, clock/random/env source")
		}
	}
	c.Count("formatter range statements inspected", nRange)
	c.Count("formatter calls inspected", nCalls)
	c.Count("formatter writes into elements of local slices", nIdx)
	c.Floor(rule, "range statements", nRange, 20)
	c.Floor(rule, "element writes into local slices", nIdx, 1)
}

func isLenMinusOne(m *cfgModel, e ast.Expr, v *types.Var) bool {
	be, ok := ast.Unparen(e).(*ast.BinaryExpr)
	if !ok || be.Op != token.SUB {
		return false
	}
	if lit, ok := ast.Unparen(be.Y).(*ast.BasicLit); !ok || lit.Value != "1" {
		return false
	}
	ce, ok := ast.Unparen(be.X).(*ast.CallExpr)
	if !ok || len(ce.Args) != 1 {
		return false
	}
	if _, b, _ := m.callee(ce); b != "len" {
		return false
	}
	id, ok := ast.Unparen(ce.Args[0]).(*ast.Ident)
	return ok && m.info.Uses[id] == v
}

// ---------------------------------------------------------------------------
// R6 set-flag pairing

func checkSetFlagPairing(c *Ctx, m *cfgModel, fmtFns, parseFns map[*types.Func]bool, rule string) {
	p := c.P
	hasSet := func(key string) (string, bool) {
		parts := strings.SplitN(key, ".", 2)
		tn, ok := m.pkg.Types.Scope().Lookup(parts[0]).(*types.TypeName)
		if !ok {
			return "", false
		}
		st, ok := tn.Type().Underlying().(*types.Struct)
		if !ok {
			return "", false
		}
		for i := 0; i < st.NumFields(); i++ {
			if st.Field(i).Name() == parts[1]+"Set" && isFlagType(st.Field(i).Type()) {
				return parts[0] + "." + parts[1] + "Set", true
			}
		}
		return "", false
	}
	// parser side
	stores := m.storeSites(parseFns)
	nP := 0
	for _, s := range stores {
		as, ok := s.node.(*ast.AssignStmt)
		if !ok {
			continue
		}
		parts := strings.SplitN(s.key, ".", 2)
		if strings.HasSuffix(parts[1], "Set") || strings.HasSuffix(parts[1], "Quoted") {
			continue
		}
		flag, ok := hasSet(s.key)
		if !ok {
			continue
		}
		// the enclosing scope: innermost case clause, else the function body
		var scope ast.Node
		for cur := m.parent[as]; cur != nil; cur = m.parent[cur] {
			if cc, ok := cur.(*ast.CaseClause); ok {
				scope = cc
				break
			}
			if fd, ok := cur.(*ast.FuncDecl); ok {
				scope = fd.Body
				break
			}
		}
		found := false
		ast.Inspect(scope, func(n ast.Node) bool {
			if a2, ok := n.(*ast.AssignStmt); ok {
				for i, l := range a2.Lhs {
					if se, ok := ast.Unparen(l).(*ast.SelectorExpr); ok {
						if k, _, ok := m.fieldKey(se); ok && k == flag && types.ExprString(se.X) == s.base && i < len(a2.Rhs) {
							if id, ok := a2.Rhs[i].(*ast.Ident); ok && id.Name == "true" {
								found = true
							}
						}
					}
				}
			}
			return true
		})
		nP++
		construct := fmt.Sprintf("%s:store %s.%s sets %sSet", s.fn, s.base, parts[1], parts[1])
		c.Check(found, rule, construct, p.Pos(s.pos),
			"the clause storing the value also sets the presence flag the formatter tests",
			"the parser stores "+s.key+" without setting "+flag+" in the same clause: the formatter, which emits the directive only under that flag, drops it")
	}
	c.Count("parser value stores with a presence flag", nP)
	c.Floor(rule, "parser value stores with a presence flag", nP, 100)

	// formatter side
	nF := 0
	for _, e := range m.emitSites(fmtFns) {
		// nearest enclosing if whose condition is a bare presence flag
		child := e.node
		for cur := m.parent[e.node]; cur != nil; child, cur = cur, m.parent[cur] {
			if _, ok := cur.(*ast.FuncDecl); ok {
				break
			}
			is, ok := cur.(*ast.IfStmt)
			if !ok || is.Body != child {
				continue
			}
			se, ok := ast.Unparen(is.Cond).(*ast.SelectorExpr)
			if !ok {
				break
			}
			k, v, ok := m.fieldKey(se)
			if !ok || !isFlagType(v.Type()) || !strings.HasSuffix(k, "Set") {
				break
			}
			nF++
			want := e.key + "Set"
			construct := fmt.Sprintf("%s:emission of %s under %s", e.fn, e.key, k)
			c.Check(k == want, rule, construct, p.Pos(e.pos),
				"guarded by the field's own presence flag",
				"the directive for "+e.key+" is written only when "+k+" is set, not when "+want+" is: a present directive is dropped (or an absent one invented) by a rewrite")
			break
		}
	}
	c.Count("formatter emissions guarded by a bare presence flag", nF)
	c.Floor(rule, "formatter emissions guarded by a bare presence flag", nF, 80)
}
