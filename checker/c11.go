package main

import (
	"fmt"
	"go/token"
	"go/types"
	"sort"
	"strings"

	"golang.org/x/tools/go/ssa"
)

func init() { register("C11", checkC11) }

func isStoreInvoke(ci ssa.CallInstruction) bool {
	com := ci.Common()
	return com.IsInvoke() && namedPkgPath(com.Value.Type()) == queuePath
}

// authorizeEdges: for fn, the edges on which the server's Authorize hook accepted, plus the
// hook-not-configured (nil) edges. calls = the Authorize call sites.
func authorizeEdges(fn *ssa.Function, serverType string) (through []Edge, fail []Edge, calls []ssa.CallInstruction) {
	calls = allCalls(fn, func(ci ssa.CallInstruction) bool { return isFieldCall(ci, serverType, "Authorize") })
	ok, fl, _ := GuardEdges(fn, calls, BoolTrue)
	through = append(through, ok...)
	fail = fl
	for _, b := range fn.Blocks {
		for i := range b.Succs {
			a, isIf := edgeAtom(Edge{b, i})
			if isIf && isNilConst(a.Y) && a.Op == token.EQL {
				if tn, f, ok := fieldOfLoad(a.X); ok && tn == serverType && f == "Authorize" {
					through = append(through, Edge{b, i})
				}
			}
		}
	}
	return
}

func checkC11(c *Ctx) {
	p := c.P
	c.Rule("C11.R1", "authorize dominates every effect: in the Pull and Admin HTTP handlers and in every WorkerService RPC, each call that can reach a queue.Store method or a handler is reachable only through the true edge of Authorize; the false edge answers 401/Unauthenticated and returns")
	c.Rule("C11.R2", "wiring: the Authorize hooks of the three servers are assigned from runtimeState methods; each runtimeState authorizer replaces (never ORs) the global authorizer by the addressed route's override")
	c.Rule("C11.R3", "bearer comparison (three sibling implementations): true only behind subtle.ConstantTimeCompare(presented, allowed)==1 over the whole token or the empty-allowlist test; missing/wrong-scheme/empty values give false")
	c.Rule("C11.R4", "compile-time allowlist: the 'pull_api requires auth token allowlist' error is appended exactly when pull routes exist, the global list is empty and some pull route has no own tokens")
	c.Rule("C11.R5", "token bytes reach the authorizers untransformed from secrets.LoadRef (the only step that rejects empty values), so a compiled non-empty allowlist stays non-empty at run time")
	c.Rule("C11.R6", "one key: per API, the key with which the wired authorizer selects the per-route token override and the key with which the wired resolver finds the route are the same symbolic term over the request (same normalisation chain), or the resolver looks up exactly the endpoint that was presented to the authorizer")

	// ---- R1: HTTP servers ----
	for _, pkg := range []string{"pullapi", "admin"} {
		fn := p.Func(pkg, "(*Server).ServeHTTP")
		if fn == nil {
			c.Fail("C11.R1", pkg+".ServeHTTP", "", "anchor not found")
			continue
		}
		through, fail, calls := authorizeEdges(fn, "Server")
		key := pkg + ".Server.ServeHTTP"
		if len(calls) == 0 {
			c.Fail("C11.R1", key+":authorize-consulted", p.Pos(fn.Pos()), "the handler never calls its Authorize hook")
			continue
		}
		memo := map[*ssa.Function]bool{}
		n, bad := 0, false
		for _, ci := range allCalls(fn, func(ci ssa.CallInstruction) bool {
			if isStoreInvoke(ci) {
				return true
			}
			cf := ci.Common().StaticCallee()
			if cf == nil || !IsModuleFunc(cf) {
				return !ci.Common().IsInvoke() && !isFieldCall(ci, "Server", "Authorize") && fieldCallOnServer(ci) // other hooks
			}
			// handler methods and anything that can reach the Store
			if cf.Signature.Recv() != nil && namedName(cf.Signature.Recv().Type()) == "Server" {
				return true
			}
			return p.FuncReaches(cf, isStoreInvoke, memo)
		}) {
			n++
			if okp, path := p.MustPass(fn, ci, through); !okp {
				bad = true
				c.Fail("C11.R1", key+":effect-behind-authorize", p.InstrPos(ci), "a handler/Store call is reachable without Authorize having accepted", path...)
			}
			if okn, path := p.NoPathFrom(fail, ci, nil); !okn {
				bad = true
				c.Fail("C11.R1", key+":reject-has-no-effect", p.InstrPos(ci), "a handler/Store call is reachable after Authorize rejected", path...)
			}
		}
		if !bad {
			c.Ok("C11.R1", key+":effects-behind-authorize", p.InstrPos(calls[0]), fmt.Sprintf("%d handler/Store/hook call(s), all only behind the accept edge", n))
		}
		c.Count("C11.R1."+pkg+"_effect_calls", n)
		// 401 on the reject edge
		ok401 := false
		for _, s := range responseSinks(fn) {
			if len(fail) > 0 && fail[0].To().Dominates(s.Instr.Block()) && (s.Kind == respHelperErr || s.Kind == respStatusConst) && s.Status == 401 {
				ok401 = true
			}
		}
		c.Check(ok401, "C11.R1", key+":reject=>401", p.InstrPos(calls[0]), "reject edge answers 401", "the reject edge of Authorize does not answer 401")
	}
	// ---- R1: gRPC ----
	iface := p.Named("workerapi/proto", "WorkerServiceServer")
	if iface == nil {
		// generated package path
		for path, pk := range p.ByPath {
			if strings.HasPrefix(path, modPath+"/internal/workerapi") && pk.Types.Scope().Lookup("WorkerServiceServer") != nil {
				iface, _ = pk.Types.Scope().Lookup("WorkerServiceServer").Type().(*types.Named)
			}
		}
	}
	nRPC := 0
	if iface != nil {
		it := iface.Underlying().(*types.Interface)
		for i := 0; i < it.NumMethods(); i++ {
			m := it.Method(i)
			if !token.IsExported(m.Name()) {
				continue
			}
			fn := p.Func("workerapi", "(*Server)."+m.Name())
			if fn == nil {
				c.Fail("C11.R1", "workerapi.Server."+m.Name(), "", "RPC method not implemented on *Server")
				continue
			}
			nRPC++
			key := "workerapi.Server." + m.Name()
			// the authorize-and-resolve step: a call to a Server method that reaches the Authorize hook
			memo := map[*ssa.Function]bool{}
			gate := allCalls(fn, func(ci ssa.CallInstruction) bool {
				cf := ci.Common().StaticCallee()
				return cf != nil && IsModuleFunc(cf) && p.FuncReaches(cf, func(x ssa.CallInstruction) bool { return isFieldCall(x, "Server", "Authorize") }, memo)
			})
			if dThrough, dFail, dCalls := authorizeEdges(fn, "Server"); len(dCalls) > 0 && len(gate) == 0 {
				// the authorize step is part of the RPC method itself
				memo2 := map[*ssa.Function]bool{}
				bad := false
				n := 0
				for _, ci := range allCalls(fn, func(ci ssa.CallInstruction) bool {
					if isStoreInvoke(ci) {
						return true
					}
					cf := ci.Common().StaticCallee()
					return cf != nil && IsModuleFunc(cf) && p.FuncReaches(cf, isStoreInvoke, memo2)
				}) {
					n++
					if okp, path := p.MustPass(fn, ci, dThrough); !okp {
						bad = true
						c.Fail("C11.R1", key+":effect-behind-authorize", p.InstrPos(ci), "a call that can reach the Store is reachable without Authorize having accepted", path...)
					}
					if okn, path := p.NoPathFrom(dFail, ci, nil); !okn {
						bad = true
						c.Fail("C11.R1", key+":reject-has-no-effect", p.InstrPos(ci), "a Store-reaching call is reachable after Authorize rejected", path...)
					}
				}
				if !bad {
					c.Ok("C11.R1", key+":effects-behind-authorize", p.InstrPos(dCalls[0]), fmt.Sprintf("%d Store-reaching call(s), all behind Authorize's accept edge", n))
				}
				unauth := false
				for _, sc := range allCalls(fn, func(ci ssa.CallInstruction) bool { return calleeIs(ci, "google.golang.org/grpc/status", "", "Error") }) {
					if code, ok := intConst(sc.Common().Args[0]); ok && code == 16 && len(dFail) > 0 && dFail[0].To().Dominates(sc.Block()) {
						unauth = true
					}
				}
				c.Check(unauth, "C11.R1", key+":reject=>Unauthenticated", p.InstrPos(dCalls[0]), "reject answers codes.Unauthenticated", "the reject edge of Authorize does not answer codes.Unauthenticated")
				continue
			}
			if len(gate) == 0 {
				c.Fail("C11.R1", key+":authorize-consulted", p.Pos(fn.Pos()), "the RPC never reaches the Authorize hook")
				continue
			}
			okE, failE, _ := GuardEdges(fn, gate, ErrNil)
			memo2 := map[*ssa.Function]bool{}
			bad := false
			n := 0
			for _, ci := range allCalls(fn, func(ci ssa.CallInstruction) bool {
				if isStoreInvoke(ci) {
					return true
				}
				cf := ci.Common().StaticCallee()
				if cf == nil || !IsModuleFunc(cf) {
					return false
				}
				for _, g := range gate {
					if g == ci {
						return false
					}
				}
				return p.FuncReaches(cf, isStoreInvoke, memo2)
			}) {
				n++
				if okp, path := p.MustPass(fn, ci, okE); !okp {
					bad = true
					c.Fail("C11.R1", key+":effect-behind-authorize", p.InstrPos(ci), "a call that can reach the Store is reachable without the authorize step having succeeded", path...)
				}
				if okn, path := p.NoPathFrom(failE, ci, nil); !okn {
					bad = true
					c.Fail("C11.R1", key+":reject-has-no-effect", p.InstrPos(ci), "a Store-reaching call is reachable after the authorize step failed", path...)
				}
			}
			if !bad {
				c.Ok("C11.R1", key+":effects-behind-authorize", p.InstrPos(gate[0]), fmt.Sprintf("%d Store-reaching call(s), all behind the authorize step's ok edge", n))
			}
			// the gate itself: ok return only behind Authorize true (or hook nil); the reject returns Unauthenticated
			for _, g := range gate {
				gf := g.Common().StaticCallee()
				through, _, calls := authorizeEdges(gf, "Server")
				if len(calls) == 0 {
					continue
				}
				okG := true
				for _, r := range returnsOf(gf) {
					if errResultKind(r) == "nil" {
						if okp, _ := p.MustPass(gf, r, through); !okp {
							okG = false
						}
					}
				}
				c.Check(okG, "C11.R1", "workerapi."+gf.Name()+":ok-only-after-authorize", p.Pos(gf.Pos()), "nil error only behind Authorize's accept edge", "the authorize step can succeed without Authorize having accepted")
				unauth := false
				for _, sc := range allCalls(gf, func(ci ssa.CallInstruction) bool { return calleeIs(ci, "google.golang.org/grpc/status", "", "Error") }) {
					if code, ok := intConst(sc.Common().Args[0]); ok && code == 16 {
						unauth = true
					}
				}
				c.Check(unauth, "C11.R1", "workerapi."+gf.Name()+":reject=>Unauthenticated", p.Pos(gf.Pos()), "reject answers codes.Unauthenticated", "no codes.Unauthenticated answer in the authorize step")
			}
		}
	}
	c.Floor("C11.R1", "worker_rpcs", nRPC, 4)

	// ---- R2 wiring ----
	w := p.wiringTable()
	for _, q := range []string{"pullapi.Server", "workerapi.Server", "admin.Server"} {
		ts := w[fieldKey{q, "Authorize"}]
		var names []string
		okW := len(ts) > 0
		for _, t := range ts {
			if t.Signature.Recv() == nil || namedName(t.Signature.Recv().Type()) != "runtimeState" {
				if t.Pkg != nil && strings.HasSuffix(t.Pkg.Pkg.Path(), "/internal/app") {
					okW = false
				}
				continue
			}
			names = append(names, t.Name())
			// override replaces: the value finally called is a phi/cell of (global, route override), never both called
			nCalls := 0
			for _, b := range t.Blocks {
				for _, ins := range b.Instrs {
					if ci, ok := ins.(ssa.CallInstruction); ok {
						if _, isDefer := ins.(*ssa.Defer); isDefer {
							continue
						}
						com := ci.Common()
						if !com.IsInvoke() && com.StaticCallee() == nil {
							if _, isB := com.Value.(*ssa.Builtin); !isB {
								if sig, ok := com.Value.Type().Underlying().(*types.Signature); ok && sig.Results().Len() == 1 && types.Identical(sig.Results().At(0).Type(), types.Typ[types.Bool]) {
									nCalls++
								}
							}
						}
					}
				}
			}
			c.Check(nCalls == 1, "C11.R2", "app.runtimeState."+t.Name()+":single-effective-authorizer", p.Pos(t.Pos()), "exactly one authorizer value is invoked (route override replaces the global one)", fmt.Sprintf("%d authorizer invocations: verdicts of several allowlists could be combined", nCalls))
		}
		c.Check(okW && len(names) > 0, "C11.R2", "app:"+q+".Authorize<-runtimeState", "", "hook assigned from runtimeState."+strings.Join(dedup(names), ","), "Authorize hook of "+q+" is not wired to a runtimeState method")
	}

	// ---- R3 bearer comparison ----
	nB := 0
	for _, pkg := range []string{"pullapi", "workerapi", "admin"} {
		ctor := p.Func(pkg, "BearerTokenAuthorizer")
		if ctor == nil {
			c.Fail("C11.R3", pkg+".BearerTokenAuthorizer", "", "constructor not found")
			continue
		}
		// the authorizer the constructor hands out: the function literal(s) it returns, or the method behind a
		// method value of a small type
		authFns := append([]*ssa.Function(nil), ctor.AnonFuncs...)
		if len(authFns) == 0 {
			for _, r := range returnsOf(ctor) {
				if len(r.Results) == 1 {
					for _, t := range funcValueTargets(r.Results[0], 0) {
						authFns = append(authFns, unwrapBound(t))
					}
				}
			}
		}
		for _, fn := range authFns {
			fn := p.View(fn) // the comparison loop may live in a helper of the package
			nB++
			key := pkg + ".BearerTokenAuthorizer$closure"
			var cmp, empty []Edge
			for _, b := range fn.Blocks {
				for i := range b.Succs {
					a, ok := edgeAtom(Edge{b, i})
					if !ok {
						continue
					}
					if a.Op == token.EQL && isIntConst(a.Y, 1) {
						if call, ok := a.X.(*ssa.Call); ok && calleeIs(call, "crypto/subtle", "", "ConstantTimeCompare") {
							cmp = append(cmp, Edge{b, i})
						}
					}
					if a.Op == token.EQL && isBoolTrue(a.Y) {
						if call, ok := a.X.(*ssa.Call); ok && calleeIs(call, "crypto/hmac", "", "Equal") {
							cmp = append(cmp, Edge{b, i}) // hmac.Equal is ConstantTimeCompare == 1
						}
					}
					if a.Op == token.EQL && isIntConst(a.Y, 0) && lenArg(a.X) != nil {
						empty = append(empty, Edge{b, i})
					}
				}
			}
			bad := false
			nTrue := 0
			// the verdict may be slices.ContainsFunc(allowed, pred) with pred a constant-time match on the token
			type predCmp struct {
				call *ssa.Call
				mc   *ssa.MakeClosure
				fn   *ssa.Function
			}
			var predCmps []predCmp
			var isMatchAny func(v ssa.Value) bool
			isMatchAny = func(v ssa.Value) bool {
				call, ok := v.(*ssa.Call)
				if !ok || len(call.Call.Args) != 2 {
					return false
				}
				g := call.Call.StaticCallee()
				if g == nil || g.Origin() == nil || g.Origin().Pkg == nil || g.Origin().Pkg.Pkg.Path() != "slices" || g.Origin().Name() != "ContainsFunc" {
					return false
				}
				ts := funcValueTargets(call.Call.Args[1], 0)
				if len(ts) == 0 {
					return false
				}
				for _, t := range ts {
					if !trueOnlyOnConstantTimeMatch(p, t) {
						// a predicate over the presented values that itself answers with a match over the allowlist
						nested := true
						nRet := 0
						for _, r2 := range returnsOf(p.View(t)) {
							if len(r2.Results) != 1 {
								nested = false
								continue
							}
							nRet++
							if cst, ok := r2.Results[0].(*ssa.Const); ok && cst.Value != nil && cst.Value.String() == "false" {
								continue
							}
							if !isMatchAny(r2.Results[0]) {
								nested = false
							}
						}
						if !nested || nRet == 0 {
							return false
						}
					}
					mc, _ := call.Call.Args[1].(*ssa.MakeClosure)
					for _, cc := range allCalls(t, func(ci ssa.CallInstruction) bool {
						return calleeIs(ci, "crypto/subtle", "", "ConstantTimeCompare") || calleeIs(ci, "crypto/hmac", "", "Equal")
					}) {
						if c2, ok := cc.(*ssa.Call); ok {
							predCmps = append(predCmps, predCmp{c2, mc, t})
						}
					}
				}
				return true
			}
			for _, r := range returnsOf(fn) {
				if len(r.Results) == 1 && isMatchAny(r.Results[0]) {
					nTrue++
					continue
				}
				if !blockReturnsConstBool(r.Block(), true) {
					if cst, ok := r.Results[0].(*ssa.Const); !ok || cst.Value.String() != "true" {
						if _, isConst := r.Results[0].(*ssa.Const); !isConst {
							bad = true
							c.Fail("C11.R3", key+":verdict-constant", p.InstrPos(r), "verdict is not a constant decided by the comparison edges")
						}
						continue
					}
				}
				nTrue++
				if okp, path := p.MustPass(fn, r, append(append([]Edge{}, cmp...), empty...)); !okp {
					bad = true
					c.Fail("C11.R3", key+":true-only-after-compare", p.InstrPos(r), "true is returned without a constant-time match (or the empty-allowlist test)", path...)
				}
			}
			// the compared value is the whole presented token: arg0 of ConstantTimeCompare derives from a []byte conversion of the token string
			okWhole := len(cmp) > 0 || len(predCmps) > 0
			for _, pc := range predCmps {
				// the presented token inside the predicate is a captured variable: look at what was captured
				for _, arg := range pc.call.Call.Args {
					v := arg
					if fv, ok := arg.(*ssa.FreeVar); ok && pc.mc != nil {
						for i, f2 := range pc.fn.FreeVars {
							if f2 == fv && i < len(pc.mc.Bindings) {
								v = pc.mc.Bindings[i]
							}
						}
					}
					for _, s := range sourcesOf(v) {
						if s.Kind == "transform" && s.Desc == "reslice" {
							okWhole = false
						}
					}
				}
			}
			for _, e := range cmp {
				a, _ := edgeAtom(e)
				call := a.X.(*ssa.Call)
				for _, s := range sourcesOf(call.Call.Args[0]) {
					if s.Kind == "transform" && s.Desc == "reslice" {
						okWhole = false
					}
				}
			}
			if !bad && nTrue > 0 {
				c.Ok("C11.R3", key+":true-only-after-compare", p.Pos(fn.Pos()), fmt.Sprintf("%d accepting return(s), each behind ConstantTimeCompare==1 or the empty allowlist", nTrue))
			}
			c.Check(okWhole, "C11.R3", key+":whole-token-compared", p.Pos(fn.Pos()), "the full presented token is compared", "the comparison runs on a slice of the presented token (prefix/suffix match)")
		}
	}
	c.Floor("C11.R3", "bearer_authorizer_closures", nB, 3)

	checkPullAllowlistCompile(c, "C11.R4")
	checkTokenProvenance(c, "C11.R5")
	checkOneKey(c, "C11.R6")
}

func isNamedLocal(v ssa.Value) bool {
	switch x := v.(type) {
	case *ssa.Phi:
		return x.Comment != ""
	case *ssa.UnOp:
		if a, ok := x.X.(*ssa.Alloc); ok {
			return a.Comment != ""
		}
	}
	return false
}

func ivalsContain(in []ival, n int64) bool {
	for _, v := range in {
		if v.lo <= n && n <= v.hi {
			return true
		}
	}
	return false
}

func fieldCallOnServer(ci ssa.CallInstruction) bool {
	tn, _, ok := fieldOfLoad(ci.Common().Value)
	return ok && tn == "Server"
}

func checkPullAllowlistCompile(c *Ctx, rule string) {
	p := c.P
	compile := p.Func("config", "Compile")
	if compile == nil {
		c.Fail(rule, "config.Compile", "", "anchor not found")
		return
	}
	// the append of the error text
	var site ssa.Instruction
	var holder *ssa.Function
	for fn := range p.Reach(compile) {
		if fn.Pkg == nil || fn.Pkg.Pkg.Path() != modPath+"/internal/config" {
			continue
		}
		for _, b := range fn.Blocks {
			for _, ins := range b.Instrs {
				for _, op := range ins.Operands(nil) {
					if op == nil || *op == nil {
						continue
					}
					if s, ok := constString(*op); ok && strings.Contains(s, "pull_api requires auth token allowlist") {
						site, holder = ins, fn
					}
				}
			}
		}
	}
	if site == nil {
		c.Fail(rule, "config.Compile:pull-allowlist-error", p.Pos(compile.Pos()), "the compile error 'pull_api requires auth token allowlist' no longer exists")
		return
	}
	// guards on the path: len(<global tokens>) == 0, a has-pull-routes flag and a route-without-own-tokens flag
	var globalEmpty []Edge
	var flags []Edge
	for _, b := range holder.Blocks {
		for i := range b.Succs {
			a, ok := edgeAtom(Edge{b, i})
			if !ok {
				continue
			}
			if a.Op == token.EQL && isIntConst(a.Y, 0) {
				if l := lenArg(a.X); l != nil && valueMentionsField(l, "AuthTokens", 0) {
					globalEmpty = append(globalEmpty, Edge{b, i})
				}
			}
			if isBoolTrue(a.Y) && a.Op == token.EQL {
				flags = append(flags, Edge{b, i})
			}
		}
	}
	okG, _ := p.MustPass(holder, site, globalEmpty)
	c.Check(okG && len(globalEmpty) > 0, rule, "config."+holder.Name()+":error-behind-empty-global-list", p.InstrPos(site), "error only when the global pull_api token list is empty", "the allowlist error is not tied to an empty global token list")
	// must-reach: starting at the guard of the allowlist block, every path on which all tested
	// boolean locals are true and the global list is empty runs through the error site.
	var lenBlock *ssa.BasicBlock
	for _, e := range globalEmpty {
		lenBlock = e.From
	}
	start := lenBlock
	for k := 0; k < 4 && start != nil; k++ {
		id := start.Idom()
		if id == nil {
			break
		}
		ifi, ok := id.Instrs[len(id.Instrs)-1].(*ssa.If)
		if !ok {
			break
		}
		a := condAtom(ifi.Cond, true)
		if !(isBoolTrue(a.Y) && isNamedLocal(a.X)) && !isNilConst(a.Y) {
			break
		}
		start = id
	}
	nScenario, skipped := 0, 0
	var flagNames []string
	for _, pa := range enumeratePaths(start, 2000) {
		consistent := true
		for sym, val := range pa.State.bools {
			if strings.HasSuffix(sym, "!=nil") {
				continue
			}
			flagNames = append(flagNames, sym)
			if !val {
				consistent = false
			}
		}
		for sym, iv := range pa.State.ints {
			if strings.HasPrefix(sym, "len(") && !ivalsContain(iv, 0) {
				consistent = false
			}
		}
		if !consistent {
			continue
		}
		nScenario++
		hit := false
		for _, b := range pa.Blocks {
			if b == site.Block() {
				hit = true
			}
		}
		if !hit {
			skipped++
		}
	}
	flagNames = dedup(flagNames)
	c.Check(nScenario > 0 && skipped == 0 && len(flagNames) >= 2, rule, "config."+holder.Name()+":error-reached-when-routes-lack-tokens", p.InstrPos(site),
		fmt.Sprintf("%d path(s) with {%s}=true and an empty global list, all append the error", nScenario, strings.Join(flagNames, ",")),
		fmt.Sprintf("with {%s}=true and an empty global token list, %d of %d path(s) skip the allowlist error: a pull route can compile without any token", strings.Join(flagNames, ","), skipped, nScenario))
	// the "a pull route lacks its own tokens" flag is set on a len(...)==0 edge
	nSet := 0
	for _, b := range holder.Blocks {
		for _, ins := range b.Instrs {
			var cell ssa.Value
			var val ssa.Value
			if st, ok := ins.(*ssa.Store); ok {
				cell, val = st.Addr, st.Val
			}
			if cell == nil {
				continue
			}
			if cst, ok := val.(*ssa.Const); !ok || cst.Value == nil || cst.Value.String() != "true" {
				continue
			}
			if a, ok := cell.(*ssa.Alloc); ok {
				for _, fnm := range flagNames {
					if a.Comment == fnm {
						nSet++
					}
				}
			}
		}
	}
	c.Count(rule+".pull_flag_sets", nSet)
}

// checkTokenProvenance: every [][]byte handed to a BearerTokenAuthorizer constructor in package app is
// built by appending secrets.LoadRef results unchanged.
func checkTokenProvenance(c *Ctx, rule string) {
	p := c.P
	n := 0
	isCtor := func(ci ssa.CallInstruction) bool {
		cf := ci.Common().StaticCallee()
		return cf != nil && cf.Name() == "BearerTokenAuthorizer" && IsModuleFunc(cf)
	}
	// The list may be built by a helper of the package: each construction site is examined in the view of its own
	// function and in the views of the functions it is expanded into; one view in which the construction of the list
	// is visible and clean decides it.
	type occ struct {
		fn *ssa.Function
		ci ssa.CallInstruction
	}
	var order []ssa.Instruction
	occs := map[ssa.Instruction][]occ{}
	for _, fn := range p.FuncsInPkg("app") {
		if fn.Parent() != nil {
			continue
		}
		v := p.View(fn)
		for _, ci := range allCalls(v, isCtor) {
			src := p.SourceInstr(ci)
			if _, seen := occs[src]; !seen {
				order = append(order, src)
			}
			occs[src] = append(occs[src], occ{v, ci})
		}
	}
	sort.Slice(order, func(i, j int) bool { return order[i].Pos() < order[j].Pos() })
	for _, src := range order {
		n++
		home := src.Parent()
		key := fmt.Sprintf("app.%s:%s(tokens)#%d", home.Name(), FuncName(src.(ssa.CallInstruction).Common().StaticCallee()), n)
		var firstWhy, firstPos string
		decided := false
		for _, o := range occs[src] {
			arg := o.ci.Common().Args[0]
			apps := appendSitesOf(arg, o.fn)
			if len(apps) == 0 {
				if firstWhy == "" {
					firstWhy, firstPos = "cannot find how the token list is built", p.InstrPos(o.ci)
				}
				continue
			}
			bad := ""
			for _, ap := range apps {
				call := ap.(*ssa.Call)
				elems, ok := varargElems(call.Call.Args[1])
				if !ok {
					continue
				}
				for _, e := range elems {
					ss := p.sourcesThroughWrappers(e, 0)
					okSrc := allSourcesMatch(ss, func(s vsource) bool { return s.Kind == "call" && strings.Contains(s.Desc, "secrets.LoadRef#0") })
					if !okSrc && bad == "" {
						bad = "a token is added to the allowlist that is not the untouched result of secrets.LoadRef: " + sourcesString(ss)
						firstPos = p.InstrPos(ap)
					}
				}
			}
			if bad != "" {
				// the construction is visible here and it is not clean: that decides it
				firstWhy = bad
				break
			}
			c.Ok(rule, key, p.InstrPos(o.ci), fmt.Sprintf("%d append site(s), each adding secrets.LoadRef's result unchanged", len(apps)))
			decided = true
			break
		}
		if !decided {
			c.Fail(rule, key, firstPos, firstWhy)
		}
	}
	c.Floor(rule, "authorizer_constructions", n, 5)
	// … and inside the constructors: the configured tokens are tested for emptiness and copied as given. A transformation
	// there (trimming, case folding) can turn a non-empty configured token into an empty one, which the constructor then
	// drops — and an empty allowlist means "no tokens configured: allow"
	ctors := map[*ssa.Function]bool{}
	for _, src := range order {
		if cf := src.(ssa.CallInstruction).Common().StaticCallee(); cf != nil {
			ctors[p.Orig(cf)] = true
		}
	}
	nC := 0
	for _, cf := range sortedFuncs(ctors) {
		if len(cf.Params) == 0 {
			continue
		}
		nC++
		v := p.View(cf)
		prm := v.Params[0]
		bad := ""
		pos := p.Pos(cf.Pos())
		for _, b := range v.Blocks {
			for _, ins := range b.Instrs {
				call, ok := ins.(*ssa.Call)
				if !ok {
					continue
				}
				if _, isB := call.Call.Value.(*ssa.Builtin); isB {
					continue
				}
				if g := call.Call.StaticCallee(); g != nil {
					o := g
					if g.Origin() != nil {
						o = g.Origin()
					}
					if o.Pkg != nil && (o.Pkg.Pkg.Path() == "bytes" || o.Pkg.Pkg.Path() == "slices") && o.Name() == "Clone" {
						continue // a copy, byte for byte
					}
				}
				for _, a := range call.Call.Args {
					if dependsOn(a, prm, map[ssa.Value]bool{}) && bad == "" {
						bad = callDesc(call)
						pos = p.InstrPos(call)
					}
				}
			}
		}
		c.Check(bad == "", rule, FuncName(cf)+":configured tokens are kept as given", pos,
			"the constructor only measures and copies the configured tokens",
			"the constructor passes the configured tokens through "+bad+" before its emptiness test: a configured token that the transformation empties (whitespace only) is dropped, the allowlist becomes empty and every request is authorized")
	}
	c.Floor(rule, "authorizer constructors", nC, 3)
}
