package main

import (
	"fmt"
	"go/token"
	"strings"

	"golang.org/x/tools/go/ssa"
)

// counterClass: "A" when f counts exactly {queued, leased}, "D" for {queued, leased, delivered}.
func counterClass(p *Program) func(*ssa.Function) string {
	memo := map[*ssa.Function]string{}
	m := p.SQL()
	return func(f *ssa.Function) string {
		if v, ok := memo[f]; ok {
			return v
		}
		memo[f] = ""
		res := f.Signature.Results()
		if res.Len() == 0 || !strings.Contains(res.At(0).Type().String(), "int") || f.Signature.Params().Len() > 2 {
			return ""
		}
		var set sset
		// memory: states compared with == in the body
		for _, b := range f.Blocks {
			for i := range b.Succs {
				a, ok := edgeAtom(Edge{b, i})
				if ok && a.Op == token.EQL {
					x := a.X
					for {
						if ct, ok := x.(*ssa.ChangeType); ok {
							x = ct.X
							continue
						}
						if cv, ok := x.(*ssa.Convert); ok {
							x = cv.X
							continue
						}
						break
					}
					if _, f, ok := fieldOfLoad(x); ok && f == "State" {
						if cs, ok := constState(a.Y); ok {
							set |= cs
						}
					}
				}
			}
		}
		// SQL: statements of this function
		for _, s := range m.Stmts {
			if s.Fn != f || s.Verb() != "SELECT" {
				continue
			}
			if ws, has, _ := m.whereStateSet(s); has {
				set |= ws
			}
			for _, w := range s.St.where {
				if strings.Contains(strings.ToUpper(w), " OR ") && strings.HasPrefix(strings.ToLower(w), "state") {
					for _, part := range strings.Split(w, " OR ") {
						part = strings.TrimSpace(strings.TrimSuffix(strings.TrimPrefix(part, "("), ")"))
						if mm := reStateEq.FindStringSubmatch(part); mm != nil {
							if vs, ok := m.constList(s, mm[1]); ok {
								for _, v := range vs {
									set |= ssOf(v)
								}
							}
						}
					}
				}
			}
			if strings.HasPrefix(s.Table(), "queue_counters") {
				for _, col := range s.St.selectCols {
					set |= ssOf(strings.ToLower(strings.TrimSpace(col)))
				}
			}
		}
		switch set {
		case ssParse("queued", "leased"):
			memo[f] = "A"
		case ssParse("queued", "leased", "delivered"):
			memo[f] = "D"
		}
		return memo[f]
	}
}

func checkDepthComparatorImpl(c *Ctx, rule string) {
	p := c.P
	classify := counterClass(p)
	total := 0
	for _, be := range []string{"memory", "sqlite", "postgres"} {
		tn := backendStoreType[be]
		var roots []*ssa.Function
		for _, fn := range p.MethodsOf("queue", tn) {
			if isEnqueueOp(fn.Name()) {
				roots = append(roots, fn)
			}
		}
		// the max-depth field: the int field of the store compared in these functions whose name contains "depth" and not "dlq"
		maxField := p.rolesOf(tn).maxDepth
		lc := &linCtx{p: p, classify: classify, maxField: maxField, params: map[*ssa.Parameter][]linForm{}}
		n := 0
		seenBlock := map[*ssa.BasicBlock]bool{}
		for _, root := range roots {
			for fn := range p.Reach(root) {
				if fn.Pkg == nil || fn.Pkg.Pkg.Path() != queuePath {
					continue
				}
				for _, b := range fn.Blocks {
					if seenBlock[b] || len(b.Instrs) == 0 {
						continue
					}
					ifi, ok := b.Instrs[len(b.Instrs)-1].(*ssa.If)
					if !ok {
						continue
					}
					seenBlock[b] = true
					aT := condAtom(ifi.Cond, true)
					lf := lc.forms(aT.X, 0)
					rf := lc.forms(aT.Y, 0)
					// `need == 0` on a value clamped at zero (max(…, 0)) is `need <= 0`; `!= 0` is `> 0`
					eqAsLE := false
					switch aT.Op {
					case token.GEQ, token.GTR, token.LEQ, token.LSS:
					case token.EQL, token.NEQ:
						hasZero := false
						for _, l := range lf {
							if len(l.c) == 0 && l.k == 0 {
								hasZero = true
							}
						}
						if !isIntConst(aT.Y, 0) || !hasZero {
							continue
						}
						eqAsLE = true
					default:
						continue
					}
					involves := false
					allLinear := true
					type cmpForm struct {
						f linForm
						k int64
					}
					var fullForms [2][]cmpForm // per polarity
					for pol, want := range []bool{true, false} {
						a := condAtom(ifi.Cond, want)
						if eqAsLE {
							if a.Op == token.EQL {
								a.Op = token.LEQ
							} else {
								a.Op = token.GTR
							}
						}
						for _, l := range lf {
							for _, r := range rf {
								f, k, ok := normGE(l, r, a.Op)
								if !ok {
									allLinear = false
									continue
								}
								if f.c["M"] != 0 {
									involves = true
								}
								fullForms[pol] = append(fullForms[pol], cmpForm{f, k})
							}
						}
					}
					if !involves {
						continue
					}
					// only admission decisions: a queue-full error return is reachable from exactly one successor
					if reachesQueueFull(b.Succs[0]) == reachesQueueFull(b.Succs[1]) && !returnsQueueFullDirectly(b.Succs[0]) && !returnsQueueFullDirectly(b.Succs[1]) {
						continue
					}
					foreign := false
					for pol := 0; pol < 2; pol++ {
						for _, cf := range fullForms[pol] {
							for s, v := range cf.f.c {
								if v != 0 && s != "A" && s != "D" && s != "N" && s != "M" {
									foreign = true
								}
							}
						}
					}
					if foreign {
						c.Note("%s: %s.%s tests %s — an admission test over other quantities (e.g. droppable messages), not the depth comparator", rule, be, fn.Name(), describeCond(aT))
						continue
					}
					// the `max_depth > 0` feature test and clamps of the derived value are not admission decisions
					onlyM := true
					for _, cf := range fullForms[0] {
						for s, v := range cf.f.c {
							if s != "M" && v != 0 {
								onlyM = false
							}
						}
					}
					if onlyM {
						continue
					}
					n++
					total++
					key := fmt.Sprintf("%s.%s:depth-test@%s", be, fn.Name(), describeCond(aT))
					if !allLinear {
						c.Undecided(rule, key, p.InstrPos(ifi), "the depth test is not linear over {active, n, max_depth}")
						continue
					}
					accepted := func(cf cmpForm) (bool, string) {
						f := cf.f
						// drop zero/constant-only alternatives (e.g. the clamped 0)
						nz := false
						for _, v := range f.c {
							if v != 0 {
								nz = true
							}
						}
						if !nz {
							return true, "const"
						}
						cnt := ""
						switch {
						case f.c["A"] == 1 && f.c["D"] == 0:
							cnt = "A"
						case f.c["D"] == 1 && f.c["A"] == 0:
							cnt = "D"
						default:
							return false, f.String()
						}
						if f.c["M"] != -1 {
							return false, f.String()
						}
						for s, v := range f.c {
							if s != "A" && s != "D" && s != "M" && s != "N" && v != 0 {
								return false, f.String()
							}
						}
						slack := cf.k - f.k // form+… >= k  ⇔  cnt + cN·N - M >= k - c0
						switch {
						case f.c["N"] == 1 && slack == 1:
						case f.c["N"] == 0 && slack == 0:
						default:
							return false, fmt.Sprintf("%s >= %d", f.String(), cf.k)
						}
						if cnt == "D" && be != "memory" {
							return false, "delivered-inclusive count outside the memory backend"
						}
						return true, cnt
					}
					okPol := -1
					var whyBad []string
					for pol := 0; pol < 2; pol++ {
						all := len(fullForms[pol]) > 0
						nonConst := false
						for _, cf := range fullForms[pol] {
							ok, why := accepted(cf)
							if !ok {
								all = false
								whyBad = append(whyBad, why)
							} else if why != "const" {
								nonConst = true
							}
						}
						if all && nonConst {
							okPol = pol
						}
					}
					if okPol >= 0 {
						c.Ok(rule, key, p.InstrPos(ifi), fmt.Sprintf("full ⇔ %s + n − max_depth ≥ 1 (on the %v edge)", map[bool]string{true: "count", false: "count"}[true], okPol == 0))
					} else {
						c.Fail(rule, key, p.InstrPos(ifi), "the depth test is not `active + n − max_depth ≥ 1` on either edge (off-by-one or wrong count): "+strings.Join(dedup(whyBad), " | "))
					}
				}
			}
		}
		floor := 1 // non-vacuity only: Enqueue and EnqueueBatch may share one admission test (in every backend)
		c.Floor(rule, be+"_depth_tests", n, floor)
	}
	// the counters themselves
	nCnt := 0
	for _, fn := range p.FuncsInPkg("queue") {
		if k := classify(fn); k != "" {
			nCnt++
			c.Ok(rule, "queue."+FuncName(fn)+":counts-"+map[string]string{"A": "queued+leased", "D": "queued+leased+delivered"}[k], p.Pos(fn.Pos()), "state set of the counter")
		}
	}
	c.Floor(rule, "active_counters", nCnt, 4)
}

func describeCond(a Atom) string {
	x, _ := symOf(a.X)
	y, _ := symOf(a.Y)
	if x == "" {
		x = a.X.Name()
	}
	if y == "" {
		if n, ok := intConst(a.Y); ok {
			y = fmt.Sprint(n)
		} else {
			y = a.Y.Name()
		}
	}
	return x + a.Op.String() + y
}

// reachesQueueFull: a return of the ErrQueueFull sentinel is reachable from b.
func reachesQueueFull(b *ssa.BasicBlock) bool {
	par := reach([]*ssa.BasicBlock{b}, nil, nil)
	for blk := range par {
		if len(blk.Instrs) == 0 {
			continue
		}
		r, ok := blk.Instrs[len(blk.Instrs)-1].(*ssa.Return)
		if !ok {
			continue
		}
		for _, v := range r.Results {
			if u, ok := v.(*ssa.UnOp); ok {
				if g, ok := u.X.(*ssa.Global); ok && g.Name() == "ErrQueueFull" {
					return true
				}
				if a, ok := u.X.(*ssa.Alloc); ok {
					for _, ins := range blk.Instrs {
						if st, ok := ins.(*ssa.Store); ok && st.Addr == a {
							if u2, ok := st.Val.(*ssa.UnOp); ok {
								if g, ok := u2.X.(*ssa.Global); ok && g.Name() == "ErrQueueFull" {
									return true
								}
							}
						}
					}
				}
			}
		}
	}
	return false
}

// returnsQueueFullDirectly: the block (or its single straight-line successor chain) ends in a return of ErrQueueFull.
func returnsQueueFullDirectly(b *ssa.BasicBlock) bool {
	for i := 0; i < 3 && b != nil; i++ {
		if len(b.Instrs) == 0 {
			return false
		}
		switch b.Instrs[len(b.Instrs)-1].(type) {
		case *ssa.Return:
			par := map[*ssa.BasicBlock]*ssa.BasicBlock{b: nil}
			_ = par
			return blockReturnsGlobal(b, "ErrQueueFull")
		case *ssa.Jump:
			b = b.Succs[0]
		default:
			return false
		}
	}
	return false
}

func blockReturnsGlobal(blk *ssa.BasicBlock, name string) bool {
	r, ok := blk.Instrs[len(blk.Instrs)-1].(*ssa.Return)
	if !ok {
		return false
	}
	for _, v := range r.Results {
		if u, ok := v.(*ssa.UnOp); ok {
			if g, ok := u.X.(*ssa.Global); ok && g.Name() == name {
				return true
			}
			if a, ok := u.X.(*ssa.Alloc); ok {
				for _, ins := range blk.Instrs {
					if st, ok := ins.(*ssa.Store); ok && st.Addr == a {
						if u2, ok := st.Val.(*ssa.UnOp); ok {
							if g, ok := u2.X.(*ssa.Global); ok && g.Name() == name {
								return true
							}
						}
					}
				}
			}
		}
	}
	return false
}
