package main

import (
	"fmt"
	"go/token"
	"go/types"
	"sort"
	"strings"

	"golang.org/x/tools/go/ssa"
)

func init() { register("C17", checkC17) }

// concatLeaves flattens a string concatenation (a + b + c …) into its operands, left to right.
func concatLeaves(v ssa.Value) []ssa.Value {
	if bo, ok := v.(*ssa.BinOp); ok && bo.Op == token.ADD {
		return append(concatLeaves(bo.X), concatLeaves(bo.Y)...)
	}
	// strings.Join([]string{a, b, …}, sep): a + sep + b + sep + …
	if call, ok := v.(*ssa.Call); ok && calleeIs(call, "strings", "", "Join") && len(call.Call.Args) == 2 {
		if _, isConst := call.Call.Args[1].(*ssa.Const); isConst {
			if elems, ok := varargElems(call.Call.Args[0]); ok && len(elems) > 0 {
				var out []ssa.Value
				for i, e := range elems {
					if i > 0 {
						out = append(out, call.Call.Args[1])
					}
					out = append(out, concatLeaves(e)...)
				}
				return out
			}
		}
	}
	return []ssa.Value{v}
}

// timeRelations: relations between the time parameter and fields established along a path,
// as "at<ValidUntil", "at>=ValidFrom", "IsZero(ValidFrom)=false", "HasUntil=false".
func timeRelations(pa predPath) []string {
	var out []string
	for sym, val := range pa.State.bools {
		s := sym
		// (time.Time).Before(a,b) / After / IsZero
		s = strings.ReplaceAll(s, "time.", "")
		switch {
		case strings.HasPrefix(s, "Before("):
			args := strings.Split(strings.TrimSuffix(strings.TrimPrefix(s, "Before("), ")"), ",")
			if len(args) == 2 {
				a, b := lastSeg(args[0]), lastSeg(args[1])
				if val {
					out = append(out, a+"<"+b)
				} else {
					out = append(out, a+">="+b)
				}
			}
		case strings.HasPrefix(s, "After("):
			args := strings.Split(strings.TrimSuffix(strings.TrimPrefix(s, "After("), ")"), ",")
			if len(args) == 2 {
				a, b := lastSeg(args[0]), lastSeg(args[1])
				if val {
					out = append(out, a+">"+b)
				} else {
					out = append(out, a+"<="+b)
				}
			}
		case strings.HasPrefix(s, "IsZero("):
			out = append(out, fmt.Sprintf("IsZero(%s)=%v", lastSeg(strings.TrimSuffix(strings.TrimPrefix(s, "IsZero("), ")")), val))
		case strings.HasPrefix(s, "Equal("):
			out = append(out, fmt.Sprintf("%s=%v", s, val))
		default:
			out = append(out, fmt.Sprintf("%s=%v", lastSeg(s), val))
		}
	}
	sort.Strings(out)
	return out
}

func lastSeg(s string) string {
	if i := strings.LastIndex(s, "."); i >= 0 {
		return s[i+1:]
	}
	return s
}

// validityNormalForm: the set of accepting condition sets of a (version, time) bool predicate,
// with the time argument renamed to "at".
func validityNormalForm(fn *ssa.Function) ([]string, []string) {
	var forms, und []string
	// the time parameter
	atName := ""
	for _, prm := range fn.Params {
		if isTimeTime(prm.Type()) {
			atName = prm.Name()
		}
	}
	for _, pa := range enumeratePaths(fn.Blocks[0], 200) {
		for _, u := range pa.Unknown {
			und = append(und, u)
		}
		for _, half := range boolResultPaths(pa) {
			if !half.Ok {
				und = append(und, "return not understood")
				continue
			}
			if !half.Val {
				continue
			}
			rels := timeRelations(predPath{State: half.St})
			for i := range rels {
				if atName != "" {
					rels[i] = strings.ReplaceAll(rels[i], atName+"<", "at<")
					rels[i] = strings.ReplaceAll(rels[i], atName+">", "at>")
					if strings.HasPrefix(rels[i], atName) {
						rels[i] = "at" + strings.TrimPrefix(rels[i], atName)
					}
				}
				// "no end" spelled as HasUntil=false or IsZero(ValidUntil)=true
				rels[i] = strings.ReplaceAll(rels[i], "IsZero(ValidUntil)=true", "no-until")
				rels[i] = strings.ReplaceAll(rels[i], "HasUntil=false", "no-until")
				rels[i] = strings.ReplaceAll(rels[i], "IsZero(ValidUntil)=false", "has-until")
				rels[i] = strings.ReplaceAll(rels[i], "HasUntil=true", "has-until")
			}
			sort.Strings(rels)
			forms = append(forms, strings.Join(rels, " ∧ "))
		}
	}
	sort.Strings(forms)
	return dedup(forms), dedup(und)
}

func checkC17(c *Ctx) {
	p := c.P
	c.Rule("C17.R1", "canonical string: the MAC input is, in this order, upper-cased method, \\n, escaped path (or /), \\n, decimal Unix seconds of the signing instant, \\n, hex SHA-256 of Delivery.Body; the same timestamp string is set as the timestamp header; both headers are set on every successful return")
	c.Rule("C17.R2", "fail closed: Client.Do is behind the err==nil edge of the signing step, whose success (when signing is configured) is behind version selected, secret loaded and len(secret) > 0")
	c.Rule("C17.R3", "window end types (sibling predicates): both validity predicates accept exactly at >= valid_from and (no end or at < valid_until)")
	c.Rule("C17.R4", "selection: newest_valid replaces on After, oldest_valid on Before, ties on the smaller id; every returned reference comes from a scan of all versions at the signing instant (no shortcut around the scan)")

	c.Rule("C17.R5", "inbound rotation: the ingress verifier chooses the rotating secret set at the signed timestamp of the request (not at its own clock), so a request signed with a version valid when it was signed verifies, and one signed with a version not valid at that instant does not")
	if vfn := p.Func("ingress", "(*HMACAuth).Verify"); vfn != nil {
		checkInboundSecretSelection(c, "C17.R5", vfn, "ingress.HMACAuth.Verify")
	} else {
		c.Fail("C17.R5", "anchor:HMACAuth.Verify", "", "anchor not found")
	}
	// the signing step: function in dispatcher that calls hmac.New and sets request headers
	// (helpers of the package are part of it, except the version selector — (string, error) of two parameters — and
	// the secret loader — ([]byte, error) —, which the rule refers to by role; of the functions that contain the step
	// after expansion, the smallest is the step itself)
	keepSign := func(callee *ssa.Function) bool {
		r := callee.Signature.Results()
		if r.Len() != 2 {
			return false
		}
		if r.At(0).Type().String() == "string" && callee.Signature.Params().Len() == 2 {
			return true
		}
		return r.At(0).Type().String() == "[]byte"
	}
	var sign *ssa.Function
	fnSize := func(f *ssa.Function) int {
		k := 0
		for _, b := range f.Blocks {
			k += len(b.Instrs)
		}
		return k
	}
	for _, fn := range p.FuncsInPkg("dispatcher") {
		if fn.Parent() != nil {
			continue
		}
		v := p.ViewKeeping(fn, keepSign)
		if len(allCalls(v, func(ci ssa.CallInstruction) bool { return calleeIs(ci, "crypto/hmac", "", "New") })) > 0 &&
			len(allCalls(v, func(ci ssa.CallInstruction) bool { return calleeIs(ci, "net/http", "Header", "Set") })) >= 2 {
			if sign == nil || fnSize(v) < fnSize(sign) {
				sign = v
			}
		}
	}
	if sign == nil {
		c.Fail("C17.R1", "dispatcher:signing-step", "", "no function computes an HMAC and sets request headers")
		return
	}
	name := "dispatcher." + sign.Name()
	// MAC input
	var macWrite ssa.CallInstruction
	for _, ci := range allCalls(sign, func(ci ssa.CallInstruction) bool {
		return ci.Common().IsInvoke() && ci.Common().Method.Name() == "Write"
	}) {
		macWrite = ci
	}
	if macWrite == nil {
		c.Fail("C17.R1", name+":mac-write", p.Pos(sign.Pos()), "the MAC is never written")
		return
	}
	in := macWrite.Common().Args[0]
	if cv, ok := in.(*ssa.Convert); ok {
		in = cv.X
	}
	leaves := concatLeaves(in)
	var tsVal ssa.Value
	descr := func(v ssa.Value) string {
		if s, ok := constString(v); ok {
			return fmt.Sprintf("%q", s)
		}
		return sourcesString(sourcesOf(v))
	}
	okCanon := len(leaves) == 7
	var got []string
	for _, l := range leaves {
		got = append(got, descr(l))
	}
	if okCanon {
		sep := func(v ssa.Value) bool { s, ok := constString(v); return ok && (s == "\\n" || s == "\n") }
		m := leaves[0]
		mOK := false
		if call, ok := m.(*ssa.Call); ok && calleeIs(call, "strings", "", "ToUpper") && valueMentionsField(call.Call.Args[0], "Method", 0) {
			mOK = true
		}
		pOK := false
		for _, s := range sourcesOf(leaves[2]) {
			if s.Kind == "call" && strings.Contains(s.Desc, "EscapedPath") {
				pOK = true
			}
		}
		for _, s := range sourcesOf(leaves[2]) {
			if s.Kind == "const" && !strings.Contains(s.Desc, `"/"`) {
				pOK = false
			}
		}
		tOK := false
		if call, ok := leaves[4].(*ssa.Call); ok && calleeIs(call, "strconv", "", "FormatInt") && isIntConst(call.Call.Args[1], 10) && callChainHas(call.Call.Args[0], "time", "Unix", 0) {
			tOK = true
			tsVal = leaves[4]
		}
		hOK := false
		if call, ok := leaves[6].(*ssa.Call); ok && calleeIs(call, "encoding/hex", "", "EncodeToString") && callChainHas(call, "crypto/sha256", "Sum256", 0) {
			// Sum256 of Delivery.Body
			for _, sc := range allCalls(sign, func(ci ssa.CallInstruction) bool { return calleeIs(ci, "crypto/sha256", "", "Sum256") }) {
				if valueMentionsField(sc.Common().Args[0], "Body", 0) {
					hOK = true
				}
			}
		}
		okCanon = mOK && sep(leaves[1]) && pOK && sep(leaves[3]) && tOK && sep(leaves[5]) && hOK
	}
	c.Check(okCanon, "C17.R1", name+":canonical-string", p.InstrPos(macWrite), "ToUpper(method) \\n escaped-path|/ \\n FormatInt(unix,10) \\n hex(sha256(Delivery.Body))", "the MAC input is not METHOD\\npath\\nunix-seconds\\nsha256(body): "+strings.Join(got, " + "))
	// headers
	sets := allCalls(sign, func(ci ssa.CallInstruction) bool { return calleeIs(ci, "net/http", "Header", "Set") })
	var tsSet, sigSet ssa.Instruction
	for _, s := range sets {
		val := s.Common().Args[2]
		if tsVal != nil && val == tsVal {
			tsSet = s
		}
		if call, ok := val.(*ssa.Call); ok && calleeIs(call, "encoding/hex", "", "EncodeToString") {
			// hex(mac.Sum(nil))
			for _, src := range sourcesOf(call.Call.Args[0]) {
				if src.Kind == "call" && strings.Contains(src.Desc, "Sum") {
					sigSet = s
				}
			}
		}
	}
	c.Check(tsSet != nil, "C17.R1", name+":timestamp-header=signed-timestamp", p.Pos(sign.Pos()), "the timestamp header carries the very string that was signed", "the timestamp header is not set to the timestamp string that entered the MAC")
	c.Check(sigSet != nil, "C17.R1", name+":signature-header=hex(mac)", p.Pos(sign.Pos()), "signature header = hex(mac.Sum(nil))", "the signature header is not hex(mac.Sum(nil))")
	// not-configured exit
	var notConf []Edge
	for _, b := range sign.Blocks {
		for i := range b.Succs {
			a, ok := edgeAtom(Edge{b, i})
			if ok && isNilConst(a.Y) && a.Op == token.EQL {
				if _, f, ok := fieldOfLoad(a.X); ok && f == "Sign" {
					notConf = append(notConf, Edge{b, i})
				}
			}
		}
	}
	selCalls := allCalls(sign, func(ci ssa.CallInstruction) bool {
		f := ci.Common().StaticCallee()
		if f == nil || !IsModuleFunc(f) {
			return false
		}
		r := f.Signature.Results()
		return r.Len() == 2 && r.At(0).Type().String() == "string" && f.Signature.Params().Len() == 2
	})
	loadCalls := allCalls(sign, func(ci ssa.CallInstruction) bool {
		f := ci.Common().StaticCallee()
		if f == nil || !IsModuleFunc(f) {
			return false
		}
		r := f.Signature.Results()
		return r.Len() == 2 && r.At(0).Type().String() == "[]byte"
	})
	selOK, _, _ := GuardEdges(sign, selCalls, ErrNil)
	loadOK, _, _ := GuardEdges(sign, loadCalls, ErrNil)
	var nonEmpty []Edge
	for _, b := range sign.Blocks {
		for i := range b.Succs {
			a, ok := edgeAtom(Edge{b, i})
			if ok && isIntConst(a.Y, 0) && (a.Op == token.NEQ || a.Op == token.GTR) {
				if l := lenArg(a.X); l != nil {
					for _, lc := range loadCalls {
						if o, _ := origin(l); o == lc.(ssa.Value) {
							nonEmpty = append(nonEmpty, Edge{b, i})
						}
					}
				}
			}
		}
	}
	nOK := 0
	for _, r := range returnsOf(sign) {
		if errResultKind(r) != "nil" {
			continue
		}
		if okp, _ := p.MustPass(sign, r, notConf); okp && len(notConf) > 0 {
			continue
		}
		nOK++
		for _, g := range []struct {
			n string
			e []Edge
		}{{"version-selected", selOK}, {"secret-loaded", loadOK}, {"secret-non-empty", nonEmpty}} {
			okp, path := p.MustPass(sign, r, g.e)
			key := fmt.Sprintf("%s:success#%d:%s", name, nOK, g.n)
			if okp && len(g.e) > 0 {
				c.Ok("C17.R2", key, p.InstrPos(r), "success only behind this guard")
			} else {
				c.Fail("C17.R2", key, p.InstrPos(r), "the signing step can succeed without "+g.n+" (an unsigned or wrongly signed request would be sent)", path...)
			}
		}
		var through []ssa.Instruction
		if tsSet != nil {
			through = []ssa.Instruction{tsSet}
			okT, _ := p.MustPassInstr(sign, r, through)
			okS := false
			if sigSet != nil {
				okS, _ = p.MustPassInstr(sign, r, []ssa.Instruction{sigSet})
			}
			c.Check(okT && okS, "C17.R1", fmt.Sprintf("%s:success#%d:both-headers-set", name, nOK), p.InstrPos(r), "timestamp and signature headers set before success", "the signing step can succeed without setting both headers")
		}
	}
	c.Check(nOK >= 1, "C17.R2", name+":success-returns", p.Pos(sign.Pos()), fmt.Sprintf("%d signing success return(s)", nOK), "no success return found")
	// Do behind signing ok
	for _, fn := range p.FuncsInPkg("dispatcher") {
		if fn.Parent() == nil {
			// the request may be built and signed in a helper of the sending function; the signing step stays a call
			fn = p.ViewKeeping(fn, func(callee *ssa.Function) bool { return callee == p.Orig(sign) })
		}
		for _, do := range allCalls(fn, func(ci ssa.CallInstruction) bool { return calleeIs(ci, "net/http", "Client", "Do") }) {
			if len(p.InlinedFrom(do)) > 0 {
				continue
			}
			calls := allCalls(fn, func(ci ssa.CallInstruction) bool { return ci.Common().StaticCallee() == p.Orig(sign) })
			okE, _, _ := GuardEdges(fn, calls, ErrNil)
			okp, path := p.MustPass(fn, do, okE)
			if okp && len(okE) > 0 {
				c.Ok("C17.R2", "dispatcher."+fn.Name()+":send-behind-signing-ok", p.InstrPos(do), "request sent only after the signing step returned nil")
			} else {
				c.Fail("C17.R2", "dispatcher."+fn.Name()+":send-behind-signing-ok", p.InstrPos(do), "a request can be sent although the signing step failed or was skipped", path...)
			}
		}
	}

	// ---- R3 ----
	var preds []*ssa.Function
	for _, pkg := range []string{"dispatcher", "secrets"} {
		for _, fn := range p.FuncsInPkg(pkg) {
			if fn.Parent() != nil {
				continue
			}
			ps, rs := fn.Signature.Params(), fn.Signature.Results()
			nParams := ps.Len()
			if fn.Signature.Recv() != nil {
				nParams++
			}
			if nParams != 2 || rs.Len() != 1 || !types.Identical(rs.At(0).Type(), types.Typ[types.Bool]) {
				continue
			}
			hasTime, hasVer := false, false
			for _, prm := range fn.Params {
				if isTimeTime(prm.Type()) {
					hasTime = true
				}
				if strings.Contains(namedName(prm.Type()), "Version") {
					hasVer = true
				}
			}
			if hasTime && hasVer {
				preds = append(preds, fn)
			}
		}
	}
	c.Floor("C17.R3", "validity_predicates", len(preds), 2)
	want := []string{"IsZero(ValidFrom)=false ∧ at<ValidUntil ∧ at>=ValidFrom ∧ has-until", "IsZero(ValidFrom)=false ∧ at>=ValidFrom ∧ no-until"}
	for _, fn := range preds {
		forms, und := validityNormalForm(fn)
		key := FuncName(fn) + ":accepts[valid_from, valid_until)"
		if len(und) > 0 {
			c.Undecided("C17.R3", key, p.Pos(fn.Pos()), "guards not understood: "+strings.Join(und, "; "))
			continue
		}
		c.Check(strings.Join(forms, " | ") == strings.Join(want, " | "), "C17.R3", key, p.Pos(fn.Pos()), strings.Join(forms, " | "), "validity window is {"+strings.Join(forms, " | ")+"}; must be {"+strings.Join(want, " | ")+"} (valid_from inclusive, valid_until exclusive)")
	}

	// ---- R4 ----
	for _, sc := range selCalls {
		sel := sc.Common().StaticCallee()
		sname := "dispatcher." + sel.Name()
		byEval := checkSelectionByEvaluation(c, "C17.R4", sname, sel, preds)
		var newE, oldE []Edge
		for _, b := range sel.Blocks {
			for i := range b.Succs {
				a, ok := edgeAtom(Edge{b, i})
				if ok && a.Op == token.EQL {
					if s, isC := constString(a.Y); isC && s == "newest_valid" {
						newE = append(newE, Edge{b, i})
					} else if isC && s == "oldest_valid" {
						oldE = append(oldE, Edge{b, i})
					}
				}
			}
		}
		var afterCalls, beforeCalls, idLess []ssa.Instruction
		var equalTrue []Edge
		for _, b := range sel.Blocks {
			for _, ins := range b.Instrs {
				if call, ok := ins.(*ssa.Call); ok && len(call.Call.Args) == 2 {
					_, f0, ok0 := fieldOfLoad(call.Call.Args[0])
					_, f1, ok1 := fieldOfLoad(call.Call.Args[1])
					if ok0 && ok1 && f0 == "ValidFrom" && f1 == "ValidFrom" {
						if calleeIs(call, "time", "Time", "After") {
							afterCalls = append(afterCalls, call)
						}
						if calleeIs(call, "time", "Time", "Before") {
							beforeCalls = append(beforeCalls, call)
						}
					}
				}
				if bo, ok := ins.(*ssa.BinOp); ok && bo.Op == token.LSS {
					_, f0, ok0 := fieldOfLoad(bo.X)
					_, f1, ok1 := fieldOfLoad(bo.Y)
					if ok0 && ok1 && f0 == "ID" && f1 == "ID" {
						idLess = append(idLess, bo)
					}
				}
			}
			for i := range b.Succs {
				a, ok := edgeAtom(Edge{b, i})
				if ok && isBoolTrue(a.Y) && a.Op == token.EQL {
					if call, ok := a.X.(*ssa.Call); ok && calleeIs(call, "time", "Time", "Equal") {
						equalTrue = append(equalTrue, Edge{b, i})
					}
				}
			}
		}
		okNew := len(afterCalls) > 0
		for _, ac := range afterCalls {
			if okp, _ := routeLoopMustPass(p, sel, ac, newE); !okp {
				okNew = false
			}
		}
		okOld := len(beforeCalls) > 0
		for _, bc := range beforeCalls {
			if okp, _ := routeLoopMustPass(p, sel, bc, oldE); !okp {
				okOld = false
			}
		}
		if !byEval {
		c.Check(okNew && len(newE) > 0, "C17.R4", sname+":newest_valid=>After", p.Pos(sel.Pos()), "newest_valid compares candidate.ValidFrom.After(selected.ValidFrom)", "newest_valid does not replace on After")
		c.Check(okOld && len(oldE) > 0, "C17.R4", sname+":oldest_valid=>Before", p.Pos(sel.Pos()), "oldest_valid compares candidate.ValidFrom.Before(selected.ValidFrom)", "oldest_valid does not replace on Before")
		okTie := len(idLess) > 0 && len(equalTrue) > 0
		for _, il := range idLess {
			if okp, _ := routeLoopMustPass(p, sel, il, equalTrue); !okp {
				okTie = false
			}
		}
		c.Check(okTie, "C17.R4", sname+":tie=>smaller-id", p.Pos(sel.Pos()), "equal ValidFrom resolved by the smaller id", "ties are not resolved by the smaller id behind ValidFrom.Equal")
		}
		// every successful return either is the no-versions exit or lies after the exhausted scan over the versions
		var scanHeader *ssa.BasicBlock
		for _, b := range sel.Blocks {
			for _, ins := range b.Instrs {
				if call, ok := ins.(*ssa.Call); ok {
					if f := call.Call.StaticCallee(); f != nil {
						for _, pf := range preds {
							if pf == f {
								scanHeader = loopHeaderOf(b)
							}
						}
					}
				}
			}
		}
		var noVersions []Edge
		for _, b := range sel.Blocks {
			for i := range b.Succs {
				a, ok := edgeAtom(Edge{b, i})
				if ok && a.Op == token.EQL && isIntConst(a.Y, 0) {
					if l := lenArg(a.X); l != nil && valueMentionsField(l, "SecretVersions", 0) {
						noVersions = append(noVersions, Edge{b, i})
					}
				}
			}
		}
		if scanHeader == nil {
			c.Fail("C17.R4", sname+":scans-versions-at-signing-time", p.Pos(sel.Pos()), "the selection does not evaluate the validity predicate in a scan over the versions")
		} else {
			bad := false
			n := 0
			for _, r := range returnsOf(sel) {
				if errResultKind(r) != "nil" {
					continue
				}
				n++
				if okp, _ := p.MustPass(sel, r, noVersions); okp && len(noVersions) > 0 {
					continue
				}
				// must pass through the scan loop header
				stop := map[*ssa.BasicBlock]bool{scanHeader: true}
				par := reach([]*ssa.BasicBlock{sel.Blocks[0]}, nil, stop)
				if _, reached := par[r.Block()]; reached && r.Block() != scanHeader {
					bad = true
					c.Fail("C17.R4", sname+":scans-versions-at-signing-time", p.InstrPos(r), "a secret reference is returned without scanning the versions valid at the signing instant (a remembered choice can outlive its rule)", p.blockPath(par, r.Block())...)
				}
			}
			if !bad {
				c.Ok("C17.R4", sname+":scans-versions-at-signing-time", p.Pos(sel.Pos()), fmt.Sprintf("%d successful return(s): the no-versions exit or after the full scan", n))
			}
		}
		// the instant handed to the selection is the signing instant that produced the timestamp
		okAt := false
		if tsVal != nil {
			at := sc.Common().Args[1]
			if call, ok := tsVal.(*ssa.Call); ok {
				if callChainHasValue(call.Call.Args[0], at, 0) {
					okAt = true
				}
			}
		}
		c.Check(okAt, "C17.R4", name+":selection-at-signing-instant", p.InstrPos(sc), "versions are selected at the instant whose Unix seconds are signed", "the secret version is selected at a different instant than the one that is signed")
	}
	c.Floor("C17.R4", "selection_functions", len(selCalls), 1)
}

func callChainHasValue(v, target ssa.Value, depth int) bool {
	if depth > 6 || v == nil {
		return false
	}
	if v == target {
		return true
	}
	if call, ok := v.(*ssa.Call); ok {
		for _, a := range call.Call.Args {
			if callChainHasValue(a, target, depth+1) {
				return true
			}
		}
	}
	return false
}
