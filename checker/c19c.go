package main

// C19.R8 — the formatter withholds nothing the parser produced.
//
// A directive with an empty value ("auth forward \"\"", "auth token \"\"", "match { method \"\" }") and an empty
// block ("metrics { }") are part of the parsed tree and the compiler gives them meaning (a validation error, a
// listener enabled with defaults). A formatter that skips them turns a configuration the validator rejects into one
// it accepts with the auth directive gone, or switches a listener off. Rule: in the functions that write the
// formatter's output, a condition that decides WHETHER something is written (an if with a branch that writes and a
// branch that does not, or an if that ends the iteration/function before the write) may test only presence:
//   - nil tests, presence/shape flags (bool fields, []bool elements), len() and index arithmetic,
//   - emptiness of a scalar string field whose struct has no <Field>Set flag (absent and empty are then the same
//     tree, so nothing the compiler could distinguish is dropped),
//   - bool locals/parameters/helpers that are themselves built from such tests.
// Any other test — the content of an element, a dereferenced block compared with a value — is reported.

import (
	"fmt"
	"go/ast"
	"go/token"
	"go/types"
	"strings"

	"golang.org/x/tools/go/ssa"
)

type guardChecker struct {
	compReads map[string]bool
	m       *cfgModel
	fmtFns  map[*types.Func]bool
	writers map[*types.Func]bool
	busy    map[types.Object]bool
}

func isBufferPtr(t types.Type) bool {
	pt, ok := t.(*types.Pointer)
	if !ok {
		return false
	}
	n, ok := pt.Elem().(*types.Named)
	if !ok || n.Obj().Pkg() == nil {
		return false
	}
	pp, nm := n.Obj().Pkg().Path(), n.Obj().Name()
	return (pp == "bytes" && nm == "Buffer") || (pp == "strings" && nm == "Builder")
}

// isEmitCall: a statement-level call that writes output — a sink, or a call of a writer function of the package.
func (g *guardChecker) isEmitCall(call *ast.CallExpr) bool {
	fn, _, _ := g.m.callee(call)
	if fn == nil {
		return false
	}
	if g.m.emitKind(fn) == "sink" {
		return true
	}
	return g.writers[fn]
}

func (g *guardChecker) emitsSome(n ast.Node) bool {
	if n == nil {
		return false
	}
	found := false
	ast.Inspect(n, func(x ast.Node) bool {
		if found {
			return false
		}
		if _, ok := x.(*ast.FuncLit); ok {
			return false
		}
		if ce, ok := x.(*ast.CallExpr); ok && g.isEmitCall(ce) {
			found = true
		}
		return !found
	})
	return found
}

// emitsAlways: every execution of the statement writes something.
func (g *guardChecker) emitsAlways(n ast.Stmt) bool {
	switch s := n.(type) {
	case nil:
		return false
	case *ast.BlockStmt:
		for _, st := range s.List {
			if g.emitsAlways(st) {
				return true
			}
			// a statement that may leave the block before a later write
			if leaves(st) {
				return false
			}
		}
		return false
	case *ast.ExprStmt:
		ce, ok := s.X.(*ast.CallExpr)
		return ok && g.isEmitCall(ce)
	case *ast.IfStmt:
		return g.emitsAlways(s.Body) && s.Else != nil && g.emitsAlways(s.Else)
	}
	return false
}

func leaves(st ast.Stmt) bool {
	out := false
	ast.Inspect(st, func(x ast.Node) bool {
		switch b := x.(type) {
		case *ast.FuncLit:
			return false
		case *ast.ReturnStmt:
			out = true
		case *ast.BranchStmt:
			if b.Tok == token.CONTINUE || b.Tok == token.BREAK || b.Tok == token.GOTO {
				out = true
			}
		}
		return !out
	})
	return out
}

func endsInSkip(b *ast.BlockStmt) bool {
	if b == nil || len(b.List) == 0 {
		return false
	}
	switch s := b.List[len(b.List)-1].(type) {
	case *ast.ReturnStmt:
		return true
	case *ast.BranchStmt:
		return s.Tok == token.CONTINUE || s.Tok == token.BREAK
	}
	return false
}

func isIntType(t types.Type) bool {
	b, ok := t.Underlying().(*types.Basic)
	return ok && b.Info()&types.IsInteger != 0
}

func isBoolType(t types.Type) bool {
	b, ok := t.Underlying().(*types.Basic)
	return ok && b.Info()&types.IsBoolean != 0
}

func isStringType(t types.Type) bool {
	b, ok := t.Underlying().(*types.Basic)
	return ok && b.Info()&types.IsString != 0
}

// callArgs: the argument expressions bound to parameter v of fd at every call in the formatter.
func (g *guardChecker) callArgs(fd *ast.FuncDecl, v *types.Var) ([]ast.Expr, []*ast.FuncDecl, bool) {
	idx, owner := paramIndex(g.m.info, fd, v)
	if idx < 0 || owner != nil {
		return nil, nil, false
	}
	obj, _ := g.m.info.Defs[fd.Name].(*types.Func)
	var args []ast.Expr
	var in []*ast.FuncDecl
	for f := range g.fmtFns {
		cfd := g.m.decls[f]
		ast.Inspect(cfd.Body, func(n ast.Node) bool {
			ce, ok := n.(*ast.CallExpr)
			if !ok {
				return true
			}
			if fn, _, _ := g.m.callee(ce); fn == obj && idx < len(ce.Args) {
				args = append(args, ce.Args[idx])
				in = append(in, cfd)
			}
			return true
		})
	}
	return args, in, true
}

// intFree: an integer expression that carries no directive content (lengths, indices, literals).
func (g *guardChecker) intFree(e ast.Expr, fd *ast.FuncDecl, depth int) bool {
	if depth > 6 {
		return false
	}
	info := g.m.info
	if tv, ok := info.Types[e]; ok && tv.Value != nil {
		return true
	}
	switch x := ast.Unparen(e).(type) {
	case *ast.BasicLit:
		return true
	case *ast.CallExpr:
		if _, b, _ := g.m.callee(x); (b == "len" || b == "cap") && len(x.Args) == 1 {
			// the length of a list is presence; the length of a string is its content
			if t := info.TypeOf(x.Args[0]); t != nil && !isStringType(t) {
				return true
			}
		}
	case *ast.BinaryExpr:
		return g.intFree(x.X, fd, depth+1) && g.intFree(x.Y, fd, depth+1)
	case *ast.Ident:
		v, _ := info.Uses[x].(*types.Var)
		if v == nil {
			return false
		}
		if g.busy[v] {
			return true
		}
		g.busy[v] = true
		defer delete(g.busy, v)
		// range key
		isKey := false
		ast.Inspect(fd, func(n ast.Node) bool {
			if rs, ok := n.(*ast.RangeStmt); ok {
				if id, ok := rs.Key.(*ast.Ident); ok && info.Defs[id] == v {
					isKey = true
				}
			}
			return !isKey
		})
		if isKey {
			return true
		}
		if args, in, ok := g.callArgs(fd, v); ok {
			for i, a := range args {
				if !g.intFree(a, in[i], depth+1) {
					return false
				}
			}
			return len(args) > 0
		}
		rhs := rhsOf(info, fd, v)
		if len(rhs) == 0 {
			return false
		}
		for _, r := range rhs {
			if !g.intFree(r, fd, depth+1) {
				return false
			}
		}
		return true
	}
	return false
}

// hasSetFlag: the struct declaring field v also declares <name>Set.
func (g *guardChecker) hasSetFlag(key string) bool {
	parts := strings.SplitN(key, ".", 2)
	tn, ok := g.m.pkg.Types.Scope().Lookup(parts[0]).(*types.TypeName)
	if !ok {
		return false
	}
	st, ok := tn.Type().Underlying().(*types.Struct)
	if !ok {
		return false
	}
	for i := 0; i < st.NumFields(); i++ {
		if st.Field(i).Name() == parts[1]+"Set" {
			return true
		}
	}
	return false
}

// presenceOnly decides whether bool expression e tests presence only; otherwise it returns the offending atom.
func (g *guardChecker) presenceOnly(e ast.Expr, fd *ast.FuncDecl, depth int, scope ast.Node) (bool, string) {
	info := g.m.info
	bad := func(x ast.Expr) (bool, string) {
		// content the compiler never reads (comments) carries no meaning a rewrite could lose
		fields := map[string]bool{}
		g.mentionedFields(x, fd, fields, 0, map[*types.Var]bool{})
		if len(fields) > 0 {
			none := true
			for k := range fields {
				if g.compReads[k] {
					none = false
				}
			}
			if none {
				return true, ""
			}
		}
		return false, types.ExprString(x)
	}
	if depth > 6 {
		return bad(e)
	}
	if tv, ok := info.Types[e]; ok && tv.Value != nil {
		return true, ""
	}
	switch x := ast.Unparen(e).(type) {
	case *ast.UnaryExpr:
		if x.Op == token.NOT {
			return g.presenceOnly(x.X, fd, depth, scope)
		}
	case *ast.BinaryExpr:
		switch x.Op {
		case token.LAND, token.LOR:
			if ok, a := g.presenceOnly(x.X, fd, depth, scope); !ok {
				return false, a
			}
			return g.presenceOnly(x.Y, fd, depth, scope)
		case token.EQL, token.NEQ, token.LSS, token.LEQ, token.GTR, token.GEQ:
			tx, ty := info.TypeOf(x.X), info.TypeOf(x.Y)
			if tx == nil || ty == nil {
				return bad(x)
			}
			// nil test
			if b, ok := ty.(*types.Basic); ok && b.Kind() == types.UntypedNil {
				return true, ""
			}
			if b, ok := tx.(*types.Basic); ok && b.Kind() == types.UntypedNil {
				return true, ""
			}
			// a character of already formatted text compared with a constant (re-indenting, splitting lines): no
			// field of the configuration is a rune, so this is layout, not a directive's content
			isRuneT := func(t types.Type) bool {
				b, ok := t.(*types.Basic)
				return ok && (b.Kind() == types.Int32 || b.Kind() == types.UntypedRune)
			}
			if isRuneT(tx) && isRuneT(ty) {
				if tv, ok := info.Types[x.Y]; ok && tv.Value != nil {
					return true, ""
				}
				if tv, ok := info.Types[x.X]; ok && tv.Value != nil {
					return true, ""
				}
			}
			if isIntType(tx) && isIntType(ty) {
				if g.intFree(x.X, fd, depth+1) && g.intFree(x.Y, fd, depth+1) {
					return true, ""
				}
				return bad(x)
			}
			if isStringType(tx) && isStringType(ty) && (x.Op == token.EQL || x.Op == token.NEQ) {
				side, other := x.X, x.Y
				if tv, ok := info.Types[side]; ok && tv.Value != nil {
					side, other = other, side
				}
				otv, ok := info.Types[other]
				if !ok || otv.Value == nil {
					return bad(x)
				}
				switch s := ast.Unparen(side).(type) {
				case *ast.SelectorExpr:
					// a scalar field without a presence flag compared with "": absent and empty are one tree
					// — provided the guarded statements write nothing but that field's own directive
					if k, v, ok := g.m.fieldKey(s); ok && isStringType(v.Type()) && !g.hasSetFlag(k) && otv.Value.ExactString() == `""` && scope != nil {
						only := true
						ast.Inspect(scope, func(n ast.Node) bool {
							if ce, ok := n.(*ast.CallExpr); ok {
								if fn, _, _ := g.m.callee(ce); fn != nil && g.writers[fn] {
									only = false // a block writer emits more than this field
								}
							}
							if se, ok := n.(*ast.SelectorExpr); ok {
								if k2, v2, ok := g.m.fieldKey(se); ok && k2 != k && k2 != k+"Quoted" {
									// the path to the field (x.Block.F selects Block first) is not content
									if _, isPtr := v2.Type().(*types.Pointer); !isPtr {
										only = false
									}
								}
							}
							return only
						})
						if only {
							return true, ""
						}
					}
				case *ast.Ident:
					v, _ := info.Uses[s].(*types.Var)
					if v == nil {
						return bad(x)
					}
					// a parameter that only ever receives constants (a block keyword)
					if args, _, ok := g.callArgs(fd, v); ok && len(args) > 0 {
						for _, a := range args {
							if tv, ok := info.Types[a]; !ok || tv.Value == nil {
								return bad(x)
							}
						}
						return true, ""
					}
				}
				return bad(x)
			}
			return bad(x)
		}
	case *ast.SelectorExpr:
		if _, v, ok := g.m.fieldKey(x); ok && isBoolType(v.Type()) {
			return true, ""
		}
		// field of a function-local struct (grouping records) — resolved by its stores? keep strict
		return bad(x)
	case *ast.IndexExpr:
		if se, ok := ast.Unparen(x.X).(*ast.SelectorExpr); ok {
			if _, v, ok := g.m.fieldKey(se); ok && isFlagType(v.Type()) {
				return true, ""
			}
		}
		if id, ok := ast.Unparen(x.X).(*ast.Ident); ok {
			// a []bool parameter that receives flag slices
			if v, _ := info.Uses[id].(*types.Var); v != nil && isFlagType(v.Type()) {
				if args, _, ok := g.callArgs(fd, v); ok && len(args) > 0 {
					for _, a := range args {
						se, ok := ast.Unparen(a).(*ast.SelectorExpr)
						if !ok {
							return bad(x)
						}
						if _, fv, ok := g.m.fieldKey(se); !ok || !isFlagType(fv.Type()) {
							return bad(x)
						}
					}
					return true, ""
				}
			}
		}
		return bad(x)
	case *ast.Ident:
		v, _ := info.Uses[x].(*types.Var)
		if v == nil || !isBoolType(v.Type()) {
			return bad(x)
		}
		if g.busy[v] {
			return true, ""
		}
		g.busy[v] = true
		defer delete(g.busy, v)
		if args, in, ok := g.callArgs(fd, v); ok {
			if len(args) == 0 {
				return bad(x)
			}
			for i, a := range args {
				if ok, at := g.presenceOnly(a, in[i], depth+1, nil); !ok {
					return false, at
				}
			}
			return true, ""
		}
		rhs := rhsOf(info, fd, v)
		if len(rhs) == 0 {
			return bad(x)
		}
		for _, r := range rhs {
			if ok, at := g.presenceOnly(r, fd, depth+1, nil); !ok {
				return false, at
			}
		}
		return true, ""
	case *ast.CallExpr:
		fn, _, _ := g.m.callee(x)
		cfd := g.m.decls[fn]
		if fn == nil || cfd == nil {
			return bad(x)
		}
		if g.busy[fn] {
			return true, ""
		}
		g.busy[fn] = true
		defer delete(g.busy, fn)
		okAll, at := true, ""
		n := 0
		ast.Inspect(cfd.Body, func(nn ast.Node) bool {
			switch s := nn.(type) {
			case *ast.FuncLit:
				return false
			case *ast.ReturnStmt:
				if len(s.Results) != 1 {
					okAll, at = false, types.ExprString(x)
					return false
				}
				n++
				if ok, a := g.presenceOnly(s.Results[0], cfd, depth+1, nil); !ok {
					okAll, at = false, a
				}
			case *ast.IfStmt:
				// a helper's own early returns are decisions too
				if endsInSkip(s.Body) {
					if ok, a := g.presenceOnly(s.Cond, cfd, depth+1, nil); !ok {
						okAll, at = false, a
					}
				}
			}
			return okAll
		})
		if n == 0 {
			return bad(x)
		}
		return okAll, at
	}
	return bad(e)
}

// mentionedFields collects the syntax-tree fields an expression depends on, through locals and range variables.
func (g *guardChecker) mentionedFields(e ast.Node, fd *ast.FuncDecl, out map[string]bool, depth int, seen map[*types.Var]bool) {
	if depth > 6 || e == nil {
		return
	}
	info := g.m.info
	ast.Inspect(e, func(n ast.Node) bool {
		switch x := n.(type) {
		case *ast.SelectorExpr:
			if k, _, ok := g.m.fieldKey(x); ok {
				out[k] = true
			}
		case *ast.Ident:
			v, _ := info.Uses[x].(*types.Var)
			if v == nil || v.IsField() || seen[v] {
				return true
			}
			seen[v] = true
			for _, r := range rhsOf(info, fd, v) {
				g.mentionedFields(r, fd, out, depth+1, seen)
			}
			ast.Inspect(fd, func(nn ast.Node) bool {
				if rs, ok := nn.(*ast.RangeStmt); ok {
					for _, kv := range []ast.Expr{rs.Key, rs.Value} {
						if id, ok := kv.(*ast.Ident); ok && info.Defs[id] == v {
							g.mentionedFields(rs.X, fd, out, depth+1, seen)
						}
					}
				}
				return true
			})
		}
		return true
	})
}

func checkFormatterWithholdsNothing(c *Ctx, m *cfgModel, fmtFns, compFns map[*types.Func]bool, rule string) {
	p := c.P
	g := &guardChecker{m: m, fmtFns: fmtFns, writers: map[*types.Func]bool{}, busy: map[types.Object]bool{}, compReads: map[string]bool{}}
	for _, o := range m.occurrences(compFns) {
		if !m.isWriteOnly(o.sel) {
			g.compReads[o.key] = true
		}
	}
	// writer functions: take or own an output buffer and contain a sink call, or call a writer
	for f := range fmtFns {
		fd := m.decls[f]
		has := false
		ast.Inspect(fd, func(n ast.Node) bool {
			switch x := n.(type) {
			case *ast.Ident:
				if v, ok := m.info.Defs[x].(*types.Var); ok && isBufferPtr(v.Type()) {
					has = true
				}
			case *ast.CompositeLit, *ast.ValueSpec:
				_ = x
			}
			return !has
		})
		if !has {
			// a local "var b bytes.Buffer"
			ast.Inspect(fd, func(n ast.Node) bool {
				if id, ok := n.(*ast.Ident); ok {
					if v, ok := m.info.Defs[id].(*types.Var); ok {
						if nn, ok := v.Type().(*types.Named); ok && nn.Obj().Pkg() != nil && ((nn.Obj().Pkg().Path() == "bytes" && nn.Obj().Name() == "Buffer") || (nn.Obj().Pkg().Path() == "strings" && nn.Obj().Name() == "Builder")) {
							has = true
						}
					}
				}
				return !has
			})
		}
		if has {
			g.writers[f] = true
		}
	}
	c.Count("formatter functions that write output", len(g.writers))
	nGuards := 0
	seenConstruct := map[string]int{}
	for f := range g.writers {
		fd := m.decls[f]
		// what follows an if in its statement list: `if c { write A; continue }; write B` is a choice between two
		// spellings of the same element, not a decision whether it is written
		rest := map[*ast.IfStmt][]ast.Stmt{}
		ast.Inspect(fd.Body, func(n ast.Node) bool {
			var list []ast.Stmt
			switch x := n.(type) {
			case *ast.BlockStmt:
				list = x.List
			case *ast.CaseClause:
				list = x.Body
			}
			for i, st := range list {
				if is, ok := st.(*ast.IfStmt); ok {
					rest[is] = list[i+1:]
				}
			}
			return true
		})
		ast.Inspect(fd.Body, func(n ast.Node) bool {
			if _, ok := n.(*ast.FuncLit); ok {
				return false
			}
			is, ok := n.(*ast.IfStmt)
			if !ok {
				return true
			}
			if is.Else == nil && endsInSkip(is.Body) && g.emitsAlways(is.Body) && g.emitsAlways(&ast.BlockStmt{List: rest[is]}) {
				return true // both alternatives write
			}
			bodySome := g.emitsSome(is.Body)
			elseSome := is.Else != nil && g.emitsSome(is.Else)
			skip := endsInSkip(is.Body) && !bodySome
			var elseStmt ast.Stmt
			if is.Else != nil {
				elseStmt = is.Else
			}
			decides := skip || ((bodySome || elseSome) && !(g.emitsAlways(is.Body) && elseStmt != nil && g.emitsAlways(elseStmt)))
			if !decides {
				return true
			}
			nGuards++
			var scope ast.Node
			if !skip && bodySome && !elseSome {
				scope = is.Body
			}
			ok2, atom := g.presenceOnly(is.Cond, fd, 0, scope)
			what := "writes"
			if skip {
				what = "skips the rest"
			}
			base := fmt.Sprintf("%s:guard %s", f.Name(), strings.Join(strings.Fields(types.ExprString(is.Cond)), " "))
			seenConstruct[base]++
			construct := base
			if k := seenConstruct[base]; k > 1 {
				construct = fmt.Sprintf("%s#%d", base, k)
			}
			c.Check(ok2, rule, construct, p.Pos(is.Pos()),
				"the condition that decides whether the formatter "+what+" tests presence only",
				fmt.Sprintf("the formatter decides whether it %s on the content test %q: a parsed directive or block with that content (an empty value, an empty block) is dropped by a rewrite although the compiler gives it meaning (a validation error, a default-enabled listener)", what, atom))
			return true
		})
	}
	c.Count("formatter conditions that decide whether something is written", nGuards)
	c.Floor(rule, "formatter conditions that decide whether something is written", nGuards, 150)
}

// C19.R9 — the formatter writes every character it was given: no conversion in the code reachable from the formatter
// narrows a rune to a byte (which keeps the low byte of every non-ASCII code point: the text still parses, with other
// names and secrets in it), unless a dominating test has established that the rune is ASCII.
func checkNoRuneNarrowing(c *Ctx, rule string) {
	p := c.P
	root := p.funcOrig("config", "Format")
	if root == nil {
		c.Fail(rule, "anchor:config.Format", "", "anchor not found")
		return
	}
	nFn, nConv := 0, 0
	for fn := range p.Reach(root) {
		if fn.Pkg == nil || fn.Pkg.Pkg.Path() != pkgPath("config") {
			continue
		}
		nFn++
		for _, b := range fn.Blocks {
			for _, ins := range b.Instrs {
				cv, ok := ins.(*ssa.Convert)
				if !ok {
					continue
				}
				from, ok1 := cv.X.Type().Underlying().(*types.Basic)
				to, ok2 := cv.Type().Underlying().(*types.Basic)
				if !ok1 || !ok2 || from.Kind() != types.Int32 || (to.Kind() != types.Uint8 && to.Kind() != types.Int8) {
					continue
				}
				if _, isC := cv.X.(*ssa.Const); isC {
					continue
				}
				nConv++
				ascii := false
				for _, pc := range dominatingConds(b, nil) {
					a := condAtom(pc.Cond, pc.Val)
					if stripConv(a.X) != stripConv(cv.X) {
						continue
					}
					if n, isN := intConst(a.Y); isN && ((a.Op == token.LSS && n <= 128) || (a.Op == token.LEQ && n <= 127)) {
						ascii = true
					}
				}
				c.Check(ascii, rule, fmt.Sprintf("config.%s:rune narrowed to a byte #%d only when ASCII", fn.Name(), nConv), p.InstrPos(cv),
					"behind a test that the rune is below 0x80",
					"the formatter path converts a rune to a byte without knowing it is ASCII: every non-ASCII character of a value (a user name, a password, a path) is replaced by its low byte — the rewritten file still parses and compiles, to a different configuration")
			}
		}
	}
	if nConv == 0 {
		c.Ok(rule, "config:no rune is narrowed to a byte on the formatter path", p.Pos(root.Pos()), fmt.Sprintf("%d functions reachable from Format inspected, no rune→byte conversion", nFn))
	}
	c.Floor(rule, "formatter functions inspected", nFn, 10)
}
