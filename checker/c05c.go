package main

import (
	"fmt"
	"go/token"
	"strings"

	"golang.org/x/tools/go/ssa"
)

// C05.R6 — the memory store's scan index covers every stored message.
//
// Dequeue walks MemoryStore.order, not the item table. An id is appended to it once, when the message is
// stored; if it ever drops out while the message is still in the table, that message — whatever state it is in
// now and returns to later (lease expiry, nack, requeue) — is never offered again. Decided structurally:
//  (a) every insertion into the item table is followed, in the same function, by an append of that id to the index;
//  (b) every other assignment to the index is a rebuild that keeps an id under exactly one condition — the id is
//      present in the item table — or the reset to empty behind len(items) == 0.

func checkOrderIndexIntegrity(c *Ctx, rule string) {
	p := c.P
	ro := p.rolesOf("MemoryStore")
	nIns, nRebuild := 0, 0
	for _, fn := range p.MethodsOf("queue", "MemoryStore") {
		for _, b := range fn.Blocks {
			for _, ins := range b.Instrs {
				switch x := ins.(type) {
				case *ssa.MapUpdate:
					if _, f, ok := fieldOfLoad(x.Map); !ok || f != ro.items {
						continue
					}
					nIns++
					// an append of the same key to order reachable after it (same block or dominated successor)
					found := false
					for _, bb := range fn.Blocks {
						for _, i2 := range bb.Instrs {
							st, ok := i2.(*ssa.Store)
							if !ok {
								continue
							}
							fa, ok := st.Addr.(*ssa.FieldAddr)
							if !ok {
								continue
							}
							if _, f, _ := fieldAddrName(fa); f != ro.order {
								continue
							}
							if call, ok := st.Val.(*ssa.Call); ok {
								if bi, ok := call.Call.Value.(*ssa.Builtin); ok && bi.Name() == "append" {
									if bb == b || b.Dominates(bb) {
										found = true
									}
								}
							}
						}
					}
					c.Check(found, rule, fmt.Sprintf("memory.%s:stored message is appended to the scan index#%d", fn.Name(), nIns), p.InstrPos(x),
						"insert into the item table is followed by an append to the index", "a message is stored without being appended to the index Dequeue scans")
				case *ssa.Store:
					fa, ok := x.Addr.(*ssa.FieldAddr)
					if !ok {
						continue
					}
					if tn, f, _ := fieldAddrName(fa); tn != "MemoryStore" || f != ro.order {
						continue
					}
					// append(order, id): growth
					if call, ok := x.Val.(*ssa.Call); ok {
						if bi, ok := call.Call.Value.(*ssa.Builtin); ok && bi.Name() == "append" {
							if _, f, ok := fieldOfLoad(call.Call.Args[0]); ok && f == ro.order {
								continue
							}
						}
					}
					nRebuild++
					construct := fmt.Sprintf("memory.%s:index rebuild#%d keeps every stored id", fn.Name(), nRebuild)
					// reset to empty: order[:0] behind len(items) == 0
					if sl, ok := x.Val.(*ssa.Slice); ok {
						if _, f, ok := fieldOfLoad(sl.X); ok && f == ro.order {
							emptyOK := false
							for _, pc := range dominatingConds(b, nil) {
								if bo, ok := pc.Cond.(*ssa.BinOp); ok {
									a := condAtom(bo, pc.Val)
									if call, ok := a.X.(*ssa.Call); ok {
										if bi, ok := call.Call.Value.(*ssa.Builtin); ok && bi.Name() == "len" {
											if _, f2, ok := fieldOfLoad(call.Call.Args[0]); ok && f2 == ro.items && a.Op == token.EQL && isIntConst(a.Y, 0) {
												emptyOK = true
											}
										}
									}
								}
							}
							c.Check(emptyOK, rule, construct, p.InstrPos(x), "index emptied only when the item table is empty", "the index is truncated although the item table may hold messages")
							continue
						}
					}
					// rebuild: value is an accumulator whose appends are guarded only by presence in items
					okAcc, why, apps := isAccumulator(x.Val, map[ssa.Value]bool{})
					if !okAcc {
						c.Fail(rule, construct, p.InstrPos(x), "the index is replaced by a value that is not a filtered copy of itself ("+why+")")
						continue
					}
					bad := ""
					for _, app := range apps {
						h := loopHeaderOf(app.Block())
						for _, pc := range dominatingConds(app.Block(), h) {
							// allowed: items[id] != nil (lookup in items compared with nil) and the range loop's own bound test
							desc := shortVal(pc.Cond)
							switch cnd := pc.Cond.(type) {
							case *ssa.BinOp:
								a := condAtom(cnd, pc.Val)
								if lk, ok := a.X.(*ssa.Lookup); ok {
									if _, f, ok := fieldOfLoad(lk.X); ok && f == ro.items && isNilConst(a.Y) && a.Op == token.NEQ {
										continue
									}
								}
								if ex, ok := a.X.(*ssa.Extract); ok {
									if lk, ok := ex.Tuple.(*ssa.Lookup); ok {
										if _, f, ok := fieldOfLoad(lk.X); ok && f == ro.items {
											continue
										}
									}
								}
								// loop bound: index < len
								if a.Op == token.LSS || a.Op == token.GEQ {
									if _, isPhi := a.X.(*ssa.BinOp); isPhi || strings.HasPrefix(a.X.Name(), "t") {
										if _, isLen := a.Y.(*ssa.Call); isLen {
											continue
										}
									}
								}
								desc = fmt.Sprintf("%s %s %s", shortVal(a.X), a.Op, shortVal(a.Y))
							case *ssa.Extract:
								if lk, ok := cnd.Tuple.(*ssa.Lookup); ok {
									if _, f, ok := fieldOfLoad(lk.X); ok && f == ro.items {
										continue
									}
								}
							}
							bad = desc
						}
					}
					// and conversely: once an id is known to be present, every path of the iteration reaches the append
					// (a disjunctive extra test such as `state == queued || state == leased` has no single dominating edge)
					for _, app := range apps {
						h := loopHeaderOf(app.Block())
						if h == nil {
							continue
						}
						body := loopBody(h)
						var present []*ssa.BasicBlock
						for bb := range body {
							for i := range bb.Succs {
								a, ok := edgeAtom(Edge{bb, i})
								if !ok {
									continue
								}
								isItems := false
								if lk, ok := a.X.(*ssa.Lookup); ok {
									if _, f, ok := fieldOfLoad(lk.X); ok && f == ro.items && isNilConst(a.Y) && a.Op == token.NEQ {
										isItems = true
									}
								}
								if ex, ok := a.X.(*ssa.Extract); ok && ex.Index == 1 {
									if lk, ok := ex.Tuple.(*ssa.Lookup); ok {
										if _, f, ok := fieldOfLoad(lk.X); ok && f == ro.items && ((a.Op == token.EQL && isBoolTrue(a.Y)) || (a.Op == token.NEQ && !isBoolTrue(a.Y))) {
											isItems = true
										}
									}
								}
								if isItems {
									present = append(present, bb.Succs[i])
								}
							}
						}
						if len(present) == 0 {
							continue
						}
						stop := map[*ssa.BasicBlock]bool{app.Block(): true}
						par := reach(present, nil, stop)
						if _, back := par[h]; back && !stop[h] {
							for _, st := range present {
								if st == app.Block() {
									continue
								}
							}
							bad = "an id that is present in the item table can still skip the append (a further test between the presence check and the append)"
						}
					}
					c.Check(bad == "", rule, construct, p.InstrPos(x), "an id is kept iff it is present in the item table",
						"the rebuild keeps an id only under an extra condition ("+bad+"): a stored message that fails it drops out of the index Dequeue scans and is never offered again, even after it returns to queued")
				}
			}
		}
	}
	c.Floor(rule, "inserts into the item table", nIns, 2)
	c.Floor(rule, "index rebuilds", nRebuild, 2)
}
