package main

import (
	"fmt"
	"go/token"
	"sort"
	"strings"

	"golang.org/x/tools/go/ssa"
)

// C15.R8 — the per-route hooks of the admin server select the route the same way.
//
// Publishing consults several independent callbacks for one route name: does it exist and what are its targets,
// is publishing enabled, is it managed, what are its limits. Only the first refuses an unknown route; the others
// fall back to permissive defaults. They therefore must agree on which compiled route a name denotes: if one of
// them matches more loosely (prefix/pattern) than the others (exact ==), a spelling exists for which the route
// "exists" while its publish switches, ownership and limits are those of no route at all.

func routeSelectionKinds(p *Program, fn *ssa.Function) []string {
	kinds := map[string]bool{}
	var strParams []ssa.Value
	for _, pr := range fn.Params {
		if isStringT(pr.Type()) {
			strParams = append(strParams, pr)
		}
	}
	isParamish := func(v ssa.Value) bool {
		for _, sp := range strParams {
			if v == sp || sameOriginLoad(v, sp) {
				return true
			}
			// TrimSpace(param)
			if call, ok := v.(*ssa.Call); ok && len(call.Call.Args) == 1 && (call.Call.Args[0] == sp || sameOriginLoad(call.Call.Args[0], sp)) {
				return true
			}
		}
		return false
	}
	isRoutePath := func(v ssa.Value) bool {
		tn, f, ok := fieldOfLoad(v)
		return ok && f == "Path" && strings.Contains(tn, "Route")
	}
	for g := range p.Reach(fn) {
		if g.Package() != fn.Package() {
			continue
		}
		for _, b := range g.Blocks {
			for _, ins := range b.Instrs {
				switch x := ins.(type) {
				case *ssa.BinOp:
					if (x.Op == token.EQL || x.Op == token.NEQ) && ((isRoutePath(x.X) && isStringT(x.Y.Type())) || (isRoutePath(x.Y) && isStringT(x.X.Type()))) {
						if _, isConst := x.Y.(*ssa.Const); !isConst {
							kinds["=="] = true
						}
					}
				case *ssa.Call:
					callee := x.Call.StaticCallee()
					if callee == nil || len(x.Call.Args) < 2 {
						continue
					}
					hasPath, hasParam := false, false
					for _, a := range x.Call.Args {
						if isRoutePath(a) {
							hasPath = true
						}
						if isStringT(a.Type()) && !isRoutePath(a) {
							hasParam = true
						}
					}
					_ = isParamish
					if hasPath && hasParam && callee.Signature.Results().Len() == 1 && callee.Signature.Results().At(0).Type().String() == "bool" {
						name := callee.Name()
						if callee.Pkg != nil {
							name = callee.Pkg.Pkg.Name() + "." + name
						}
						kinds["call "+name] = true
					}
				case *ssa.Lookup:
					// exact lookup in a map keyed by route path
					if _, f, ok := fieldOfLoad(x.X); ok && isStringT(x.Index.Type()) && strings.Contains(strings.ToLower(f), "route") {
						kinds["=="] = true
					}
				}
			}
		}
	}
	var out []string
	for k := range kinds {
		out = append(out, k)
	}
	sort.Strings(out)
	return out
}

func checkRouteHookAgreement(c *Ctx, rule string) {
	p := c.P
	w := p.wiringTable()
	type hook struct {
		field string
		fn    *ssa.Function
		kinds []string
	}
	var hooks []hook
	for k, fns := range w {
		if k.typ != "admin.Server" || !strings.Contains(k.field, "ForRoute") {
			continue
		}
		for _, fn := range fns {
			if fn.Signature.Recv() == nil || namedName(fn.Signature.Recv().Type()) != "runtimeState" {
				continue
			}
			hooks = append(hooks, hook{k.field, fn, routeSelectionKinds(p, fn)})
		}
	}
	sort.Slice(hooks, func(i, j int) bool { return hooks[i].field < hooks[j].field })
	// the majority kind is the reference (today: exact ==)
	count := map[string]int{}
	for _, h := range hooks {
		count[strings.Join(h.kinds, "+")]++
	}
	ref, best := "", 0
	for k, n := range count {
		if n > best || (n == best && k < ref) {
			ref, best = k, n
		}
	}
	for _, h := range hooks {
		got := strings.Join(h.kinds, "+")
		if got == "" {
			c.Ok(rule, "admin.Server."+h.field+"<-"+h.fn.Name()+":route selection", p.Pos(h.fn.Pos()), "does not select a route by path (no comparison found)")
			continue
		}
		c.Check(got == ref, rule, "admin.Server."+h.field+"<-"+h.fn.Name()+":route selection agrees with its siblings", p.Pos(h.fn.Pos()),
			"selects the route by "+got,
			fmt.Sprintf("this hook selects the compiled route by %s while %d sibling hook(s) use %s: a route name exists for one and not for the others, so publishing to it is checked against the switches, ownership and limits of no route", got, best, ref))
	}
	c.Floor(rule, "per-route admin hooks wired to runtimeState", len(hooks), 5)
}
