package main

import (
	"fmt"
	"go/token"
	"go/types"
	"sort"
	"strings"

	"golang.org/x/tools/go/ssa"
)

func init() { register("C13", checkC13) }

// transClass names the machine edge a transition construct is (also for by-id statements without a state conjunct).
func transClass(t Trans) string {
	if name, ok := matchTransition(t); ok {
		return name
	}
	if !t.HasFrom {
		switch {
		case t.Kind == "delete":
			return "ack(remove)"
		case t.To == "queued":
			return "expire/nack"
		case t.To == "delivered":
			return "ack(retain)"
		case t.To == "dead":
			return "dead-letter"
		}
	}
	return "?" + t.Kind + "->" + t.To
}

func checkC13(c *Ctx) {
	p := c.P
	c.Rule("C13.R1", "transition-table parity: per Store method, the set of machine edges (and, for operator mutations, the exact from-sets) implemented by memory, SQLite and Postgres are equal")
	c.Rule("C13.R2", "normalisation parity: per Store method, the comparisons and replacement constants applied to Limit, Batch, LeaseTTL, MaxWait and delay are the same in memory and SQLite")
	c.Rule("C13.R3", "selection/ordering parity: for every listing/selection operation the SQL ORDER BY keys equal the memory sort comparator (primary key, tie-break, directions) and the filter criteria are the same set")
	c.Rule("C13.R4", "conflict classification parity: in every backend ErrLeaseExpired is returned only behind the lease-expired test; every other lease conflict is ErrLeaseNotFound")
	c.Rule("C13.R5", "optional interfaces: MemoryStore and SQLiteStore both implement BatchEnqueuer, LeaseBatchStore and BacklogTrendStore")
	c.Rule("C13.R6", "sentinel-error and admission parity: per Store method the sentinel errors that can be returned, and the counts used by the admission test, are the same in memory and SQLite")
	c.Rule("C13.R7", "retention parity: per pruned state, the age field compared with the cut-off, the boundary (closed/open) and the retention setting the cut-off derives from are the same in the memory store and SQLite (Postgres differences are noted)")
	c.Rule("C13.R8", "error precedence parity: on the enqueue paths the capacity refusal (ErrQueueFull) is decided before any duplicate-id test in the memory store, as in SQLite where the duplicate only surfaces at the INSERT — a call refused for both reasons gets the same error from both")

	// ---- R1 ----
	type rowKey struct{ root, class string }
	perBackend := map[string]map[rowKey]sset{}
	for _, be := range []string{"memory", "sqlite", "postgres"} {
		perBackend[be] = map[rowKey]sset{}
		for _, t := range transOf(p, be) {
			if t.Kind == "touch" || t.Kind == "insert" {
				continue
			}
			cl := transClass(t)
			if cl == "prune/drop-oldest" {
				continue
			}
			k := rowKey{t.Root, cl}
			from := t.From
			if !t.HasFrom {
				from = 0
			}
			perBackend[be][k] |= from
		}
	}
	var roots []string
	for r := range opPatterns {
		roots = append(roots, r)
	}
	sort.Strings(roots)
	for _, root := range roots {
		classes := func(be string) []string {
			var out []string
			for k := range perBackend[be] {
				if k.root == root {
					out = append(out, k.class)
				}
			}
			sort.Strings(out)
			return out
		}
		mem, sq, pg := classes("memory"), classes("sqlite"), classes("postgres")
		okMS := strings.Join(mem, ",") == strings.Join(sq, ",")
		c.Check(okMS, "C13.R1", "Store."+root+":edges(memory=sqlite)", "", "{"+strings.Join(mem, ", ")+"}", fmt.Sprintf("memory implements {%s} but SQLite implements {%s}", strings.Join(mem, ", "), strings.Join(sq, ", ")))
		if len(pg) > 0 || len(sq) > 0 {
			okSP := strings.Join(pg, ",") == strings.Join(sq, ",")
			if !okSP {
				c.Note("C13.R1: Postgres implements {%s} for %s where SQLite implements {%s} (not armed: cannot be demonstrated without a server)", strings.Join(pg, ", "), root, strings.Join(sq, ", "))
			}
		}
		// operator mutations: exact from-sets
		if strings.HasPrefix(root, "Cancel") || strings.HasPrefix(root, "Requeue") || strings.HasPrefix(root, "Resume") || strings.HasSuffix(root, "Dead") && !strings.HasPrefix(root, "Mark") {
			for k, fm := range perBackend["memory"] {
				if k.root != root {
					continue
				}
				fs, ok := perBackend["sqlite"][k]
				if !ok {
					continue
				}
				c.Check(fm == fs, "C13.R1", "Store."+root+":from-set("+k.class+")", "", "memory = SQLite = "+fm.String(), fmt.Sprintf("from-set differs: memory %s, SQLite %s", fm, fs))
				if fp, ok := perBackend["postgres"][k]; ok && fp != fs {
					c.Note("C13.R1: Postgres from-set for %s/%s is %s, SQLite %s", root, k.class, fp, fs)
				}
			}
		}
	}

	checkNormalisationParity(c, "C13.R2")
	checkOrderingParity(c, "C13.R3")
	checkConflictClassParity(c, "C13.R4")

	// ---- R5 ----
	pk := p.Pkg("queue")
	for _, in := range []string{"BatchEnqueuer", "LeaseBatchStore", "BacklogTrendStore", "Store"} {
		obj := pk.Types.Scope().Lookup(in)
		if obj == nil {
			c.Fail("C13.R5", "queue."+in, "", "interface no longer exists")
			continue
		}
		it, _ := obj.Type().Underlying().(*types.Interface)
		for _, tn := range []string{"MemoryStore", "SQLiteStore"} {
			T := p.Named("queue", tn)
			c.Check(T != nil && it != nil && types.Implements(types.NewPointer(T), it), "C13.R5", "queue.*"+tn+" implements "+in, "", "types.Implements holds", "*"+tn+" does not implement "+in+" (callers fall back to a non-atomic path on this backend only)")
		}
	}

	checkSentinelParity(c, "C13.R6")
	checkRetentionParity(c, "C13.R7")
	checkErrorPrecedence(c, "C13.R8")
	c.Rule("C13.R9", "the memory store offers what SQLite offers: its dequeue scan index keeps every stored message (the analysis of C05.R6, claimed here because a message that drops out of the index is still listed as queued but never dequeued, while SQLite selects from the table itself)")
	checkOrderIndexIntegrity(c, "C13.R9")
	c.Rule("C13.R10", "terminal timestamps agree: per operation and terminal target state (delivered, dead, canceled) the class of value written to next_run_at / NextRunAt — now, now+delay, zero, unchanged — is the same in the memory store and SQLite; and per operation that can release a lease (expiry sweep, expired-lease conflict of single and batched settle calls) both backends stamp the released message from the same source — now, or the lease deadline")
	checkTerminalTimeParity(c, "C13.R10")
	c.Rule("C13.R11", "both backends refuse on the depth they hold now: the memory store counts its table on every enqueue; the SQLite store answers ErrQueueFull only after reading the depth from the database in the same call (the analysis of C12.R6, claimed here because a remembered verdict makes SQLite refuse where memory admits after the same calls)")
	checkRefusalReadsStoredDepth(c, "C13.R11")
}

// requestFieldOf: the request field (or Duration parameter) a value derives from, through phis/cells/conversions.
func requestFieldOf(v ssa.Value, depth int, seen map[ssa.Value]bool) string {
	if depth > 8 || v == nil || seen[v] {
		return ""
	}
	seen[v] = true
	switch x := v.(type) {
	case *ssa.Parameter:
		if namedName(x.Type()) == "Duration" {
			return "param:" + x.Name()
		}
	case *ssa.Phi:
		for _, e := range x.Edges {
			if f := requestFieldOf(e, depth+1, seen); f != "" {
				return f
			}
		}
	case *ssa.Convert:
		return requestFieldOf(x.X, depth+1, seen)
	case *ssa.ChangeType:
		return requestFieldOf(x.X, depth+1, seen)
	case *ssa.Call:
		// a clamp spelled min(limit, 1000) / max(limit, 1) keeps the field's role
		if builtinCall(x, "min") != nil || builtinCall(x, "max") != nil {
			for _, a := range x.Call.Args {
				if f := requestFieldOf(a, depth+1, seen); f != "" {
					return f
				}
			}
		}
	case *ssa.Field:
		st := x.X.Type().Underlying().(*types.Struct)
		if strings.HasSuffix(namedName(x.X.Type()), "Request") {
			return st.Field(x.Field).Name()
		}
	case *ssa.UnOp:
		if x.Op == token.MUL {
			if tn, f, ok := fieldOfLoad(x); ok && strings.HasSuffix(tn, "Request") {
				return f
			}
			if a, ok := x.X.(*ssa.Alloc); ok {
				if sp := spilledParam(a); sp != nil {
					return requestFieldOf(sp, depth+1, seen)
				}
				for _, ref := range *a.Referrers() {
					if st, ok := ref.(*ssa.Store); ok && st.Addr == a {
						if f := requestFieldOf(st.Val, depth+1, seen); f != "" {
							return f
						}
					}
				}
			}
		}
	}
	return ""
}

var normFields = map[string]bool{"Limit": true, "Batch": true, "LeaseTTL": true, "MaxWait": true, "param:delay": true, "param:extendBy": true}

// normalisationFacts: "Field<=0", "Field>1000", "Field:=100" facts of a function and its same-type helpers.
func normalisationFacts(p *Program, root *ssa.Function) map[string]bool {
	facts := map[string]bool{}
	for fn := range p.Reach(root) {
		if fn.Pkg == nil || fn.Pkg.Pkg.Path() != queuePath {
			continue
		}
		if fn.Signature.Recv() != nil && root.Signature.Recv() != nil && namedName(fn.Signature.Recv().Type()) != namedName(root.Signature.Recv().Type()) {
			continue
		}
		for _, b := range fn.Blocks {
			if len(b.Instrs) > 0 {
				if ifi, ok := b.Instrs[len(b.Instrs)-1].(*ssa.If); ok {
					a := condAtom(ifi.Cond, true)
					if n, isC := intConst(a.Y); isC {
						if f := requestFieldOf(a.X, 0, map[ssa.Value]bool{}); normFields[f] {
							// integers: `x <= n` is `x < n+1`, `x >= n` is `x > n-1` — one spelling per test
							op := a.Op
							switch op {
							case token.LEQ:
								op, n = token.LSS, n+1
							case token.GEQ:
								op, n = token.GTR, n-1
							}
							facts[fmt.Sprintf("%s%s%d", strings.TrimPrefix(f, "param:"), op, n)] = true
						}
					}
				}
			}
			for _, ins := range b.Instrs {
				if st, ok := ins.(*ssa.Store); ok {
					if a, ok := st.Addr.(*ssa.Alloc); ok {
						if n, isC := intConst(st.Val); isC {
							// a constant written into the cell of a (captured) request parameter
							for _, ref := range *a.Referrers() {
								if s2, ok := ref.(*ssa.Store); ok && s2.Addr == a && s2 != st {
									if f := requestFieldOf(s2.Val, 0, map[ssa.Value]bool{}); normFields[f] {
										facts[fmt.Sprintf("%s:=%d", strings.TrimPrefix(f, "param:"), n)] = true
									}
								}
							}
						}
					}
					if fv, ok := st.Addr.(*ssa.FreeVar); ok {
						if n, isC := intConst(st.Val); isC && namedName(st.Val.Type()) == "Duration" {
							facts[fmt.Sprintf("%s:=%d", fv.Name(), n)] = true
						}
					}
				}
				// a clamp spelled with the builtins: max(x, c) is `if x < c { x = c }`, min(x, c) is `if x > c { x = c }`
				if call, ok := ins.(*ssa.Call); ok {
					isMax, isMin := builtinCall(call, "max") != nil, builtinCall(call, "min") != nil
					if (isMax || isMin) && len(call.Call.Args) == 2 {
						for i := 0; i < 2; i++ {
							n, isC := intConst(call.Call.Args[1-i])
							if !isC {
								continue
							}
							if f := requestFieldOf(call.Call.Args[i], 0, map[ssa.Value]bool{}); normFields[f] {
								name := strings.TrimPrefix(f, "param:")
								if isMax {
									facts[fmt.Sprintf("%s<%d", name, n)] = true
								} else {
									facts[fmt.Sprintf("%s>%d", name, n)] = true
								}
								facts[fmt.Sprintf("%s:=%d", name, n)] = true
							}
						}
					}
				}
				phi, ok := ins.(*ssa.Phi)
				if !ok {
					continue
				}
				f := requestFieldOf(phi, 0, map[ssa.Value]bool{})
				if !normFields[f] {
					continue
				}
				for _, e := range phi.Edges {
					if n, isC := intConst(e); isC {
						facts[fmt.Sprintf("%s:=%d", strings.TrimPrefix(f, "param:"), n)] = true
					}
				}
			}
		}
	}
	return facts
}

func checkNormalisationParity(c *Ctx, rule string) {
	p := c.P
	n := 0
	for _, m := range p.MethodsOf("queue", "MemoryStore") {
		if !token.IsExported(m.Name()) {
			continue
		}
		s := p.Func("queue", "(*SQLiteStore)."+m.Name())
		if s == nil {
			continue
		}
		fm := normalisationFacts(p, m)
		fs := normalisationFacts(p, s)
		if len(fm) == 0 && len(fs) == 0 {
			continue
		}
		n++
		var onlyM, onlyS, both []string
		for f := range fm {
			if fs[f] {
				both = append(both, f)
			} else {
				onlyM = append(onlyM, f)
			}
		}
		for f := range fs {
			if !fm[f] {
				onlyS = append(onlyS, f)
			}
		}
		sort.Strings(both)
		sort.Strings(onlyM)
		sort.Strings(onlyS)
		c.Check(len(onlyM) == 0 && len(onlyS) == 0, rule, "Store."+m.Name()+":clamps(memory=sqlite)", p.Pos(m.Pos()), strings.Join(both, " "),
			fmt.Sprintf("request normalisation differs: only memory {%s}, only SQLite {%s} (common: %s)", strings.Join(onlyM, " "), strings.Join(onlyS, " "), strings.Join(both, " ")))
	}
	c.Floor(rule, "methods_with_normalisation", n, 6)
}

// sortKeys extracts the comparator of a sort.Slice closure: [(field, dir)…] primary first.
func sortKeys(cl *ssa.Function) ([]string, bool) {
	if keys, ok := comparatorKeys(cl); ok {
		return keys, true
	}
	return sortKeysByShape(cl)
}

func sortKeysByShape(cl *ssa.Function) ([]string, bool) {
	// tie: Equal(a.F, b.F) true edge -> return a.G > b.G ; else return a.F.After(b.F)
	var keys []string
	var tieField, tieDir, primField, primDir string
	for _, b := range cl.Blocks {
		r, ok := b.Instrs[len(b.Instrs)-1].(*ssa.Return)
		if !ok || len(r.Results) != 1 {
			continue
		}
		v := r.Results[0]
		switch x := v.(type) {
		case *ssa.BinOp:
			_, f, ok := fieldOfLoad(x.X)
			if !ok {
				return nil, false
			}
			switch x.Op {
			case token.GTR:
				tieField, tieDir = f, "DESC"
			case token.LSS:
				tieField, tieDir = f, "ASC"
			default:
				return nil, false
			}
		case *ssa.Call:
			if len(x.Call.Args) != 2 {
				return nil, false
			}
			_, f, ok := fieldOfLoad(x.Call.Args[0])
			if !ok {
				return nil, false
			}
			switch {
			case calleeIs(x, "time", "Time", "After"):
				primField, primDir = f, "DESC"
			case calleeIs(x, "time", "Time", "Before"):
				primField, primDir = f, "ASC"
			default:
				return nil, false
			}
		default:
			return nil, false
		}
	}
	if primField == "" {
		return nil, false
	}
	keys = append(keys, primField+" "+primDir)
	if tieField != "" {
		keys = append(keys, tieField+" "+tieDir)
	}
	return keys, true
}

var colOfField = map[string]string{"ReceivedAt": "received_at", "ID": "id", "receivedAt": "received_at", "id": "id", "NextRunAt": "next_run_at", "CreatedAt": "created_at"}

func checkOrderingParity(c *Ctx, rule string) {
	p := c.P
	m := p.SQL()
	n := 0
	for _, mf := range p.MethodsOf("queue", "MemoryStore") {
		// memory comparators reachable from this method (its own closures and its unexported helpers)
		var memOrders []string
		for fn := range p.Reach(mf) {
			if fn.Pkg == nil || fn.Pkg.Pkg.Path() != queuePath {
				continue
			}
			if top := topLevel(fn); top != mf && p.SharedBy(top) >= 4 {
				continue // shared maintenance helper (retention prune) — not part of this operation's result order
			}
			for _, ci := range allCalls(fn, func(ci ssa.CallInstruction) bool { _, ok := sortComparatorArg(ci); return ok }) {
				cmpArg, _ := sortComparatorArg(ci)
				for _, t := range funcValueTargets(cmpArg, 0) {
					alts, ok := comparatorKeyAlternatives(p.View(t))
					if !ok {
						if keys, ok2 := sortKeys(t); ok2 {
							alts, ok = [][]string{keys}, true
						}
					}
					if !ok {
						memOrders = append(memOrders, "?")
						continue
					}
					for _, keys := range alts {
						var cols []string
						for _, k := range keys {
							f := strings.Fields(k)
							cols = append(cols, colOfField[f[0]]+" "+f[1])
						}
						memOrders = append(memOrders, strings.Join(cols, ", "))
					}
				}
			}
		}
		if !token.IsExported(mf.Name()) || len(memOrders) == 0 {
			continue
		}
		sfn := p.Func("queue", "(*SQLiteStore)."+mf.Name())
		if sfn == nil {
			continue
		}
		// only listing/selection operations of the message table
		if !(strings.HasPrefix(mf.Name(), "List") || strings.HasSuffix(mf.Name(), "ByFilter")) || strings.Contains(mf.Name(), "Trend") || strings.Contains(mf.Name(), "Attempt") {
			continue
		}
		var sqlOrders []string
		var sqlStmt *SQLStmt
		reachS := p.Reach(sfn)
		for _, s := range m.Stmts {
			if s.Backend != "sqlite" || s.Verb() != "SELECT" || s.Table() != "queue_items" || s.Fn == nil || !reachS[s.Fn] || s.St.orderBy == "" {
				continue
			}
			if s.Fn != sfn && p.SharedBy(s.Fn) >= 4 {
				continue
			}
			sqlStmt = s
			sqlOrders = append(sqlOrders, expandAlternatives(strings.ToLower(s.St.orderBy))...)
		}
		if sqlStmt == nil {
			continue
		}
		n++
		norm := func(in []string) []string {
			var out []string
			for _, o := range in {
				o = strings.Join(strings.Fields(strings.ToLower(o)), " ")
				out = append(out, o)
			}
			sort.Strings(out)
			return dedup(out)
		}
		mo, so := norm(memOrders), norm(sqlOrders)
		c.Check(strings.Join(mo, " | ") == strings.Join(so, " | "), rule, "Store."+mf.Name()+":order(memory=sqlite)", sqlStmt.Pos, strings.Join(mo, " | "),
			fmt.Sprintf("ordering differs: memory sorts by {%s}, SQLite orders by {%s} — pages cut by LIMIT contain different messages when keys tie", strings.Join(mo, " | "), strings.Join(so, " | ")))
		// filter criteria: SQL optional conjunct columns vs memory loop conditions on item fields
		sqlCols := map[string]bool{}
		for _, w := range append(append([]string{}, sqlStmt.St.where...), sqlStmt.St.optWhere...) {
			f := strings.Fields(strings.ToLower(w))
			if len(f) > 0 && f[0] != "1" {
				sqlCols[f[0]] = true
			}
		}
		memCols := map[string]bool{}
		for fn := range p.Reach(mf) {
			if fn.Pkg == nil || fn.Pkg.Pkg.Path() != queuePath || (fn != mf && p.SharedBy(fn) >= 4) {
				continue
			}
			for _, b := range fn.Blocks {
				if len(b.Instrs) == 0 {
					continue
				}
				ifi, ok := b.Instrs[len(b.Instrs)-1].(*ssa.If)
				if !ok {
					continue
				}
				a := condAtom(ifi.Cond, true)
				for _, v := range []ssa.Value{a.X, a.Y} {
					if tn, f, ok := fieldOfLoad(v); ok && tn == "Envelope" {
						switch f {
						case "Route", "Target", "State":
							memCols[strings.ToLower(f)] = true
						}
					}
					if call, ok := v.(*ssa.Call); ok && calleeIs(call, "time", "Time", "Before") {
						if _, f, ok := fieldOfLoad(call.Call.Args[0]); ok && f == "ReceivedAt" {
							memCols["received_at"] = true
						}
					}
				}
				// membership of env.State in an allowed set (slices.Contains(set, env.State))
				if call, ok := a.X.(*ssa.Call); ok && len(call.Call.Args) == 2 {
					g := call.Call.StaticCallee()
					if g != nil && g.Origin() != nil {
						g = g.Origin()
					}
					if g != nil && g.Pkg != nil && g.Pkg.Pkg.Path() == "slices" && g.Name() == "Contains" {
						if _, f, ok := fieldOfLoad(call.Call.Args[1]); ok && f == "State" {
							memCols["state"] = true
						}
					}
				}
				// membership of env.State in an allowed set
				if ex, ok := a.X.(*ssa.Extract); ok {
					if lk, ok := ex.Tuple.(*ssa.Lookup); ok {
						if _, f, ok := fieldOfLoad(lk.Index); ok && f == "State" {
							memCols["state"] = true
						}
					}
				}
			}
		}
		var mc, sc []string
		for k := range memCols {
			mc = append(mc, k)
		}
		for k := range sqlCols {
			sc = append(sc, k)
		}
		sort.Strings(mc)
		sort.Strings(sc)
		c.Check(strings.Join(mc, ",") == strings.Join(sc, ","), rule, "Store."+mf.Name()+":filters(memory=sqlite)", sqlStmt.Pos, "criteria {"+strings.Join(mc, ",")+"}",
			fmt.Sprintf("filter criteria differ: memory tests {%s}, SQLite tests {%s}", strings.Join(mc, ","), strings.Join(sc, ",")))
	}
	c.Floor(rule, "listing_operations_compared", n, 4)
}

// expandAlternatives expands ⦃a|b|c⦄ alternatives positionally (all groups take the same index).
func expandAlternatives(s string) []string {
	if !strings.Contains(s, "⦃") {
		return []string{s}
	}
	n := 0
	rest := s
	for {
		i := strings.Index(rest, "⦃")
		if i < 0 {
			break
		}
		j := strings.Index(rest[i:], "⦄")
		alts := strings.Split(rest[i+len("⦃"):i+j], "|")
		if len(alts) > n {
			n = len(alts)
		}
		rest = rest[i+j+len("⦄"):]
	}
	var out []string
	for k := 0; k < n; k++ {
		cur := s
		for strings.Contains(cur, "⦃") {
			i := strings.Index(cur, "⦃")
			j := strings.Index(cur[i:], "⦄")
			alts := strings.Split(cur[i+len("⦃"):i+j], "|")
			pick := alts[len(alts)-1]
			if k < len(alts) {
				pick = alts[k]
			}
			cur = cur[:i] + pick + cur[i+j+len("⦄"):]
		}
		out = append(out, cur)
	}
	return out
}

func returnsGlobal(r *ssa.Return, name string) bool {
	for _, v := range r.Results {
		if u, ok := v.(*ssa.UnOp); ok {
			if g, ok := u.X.(*ssa.Global); ok && g.Name() == name {
				return true
			}
			if a, ok := u.X.(*ssa.Alloc); ok {
				for _, ins := range r.Block().Instrs {
					if st, ok := ins.(*ssa.Store); ok && st.Addr == a {
						if u2, ok := st.Val.(*ssa.UnOp); ok {
							if g, ok := u2.X.(*ssa.Global); ok && g.Name() == name {
								return true
							}
						}
					}
				}
			}
		}
	}
	return false
}

func checkConflictClassParity(c *Ctx, rule string) {
	p := c.P
	// functions whose `true` result means "expired": every true return is behind an expired edge
	expiredPred := map[*ssa.Function]bool{}
	for _, fn := range p.FuncsInPkg("queue") {
		res := fn.Signature.Results()
		if res.Len() < 1 || !types.Identical(res.At(0).Type(), types.Typ[types.Bool]) {
			continue
		}
		xe := expiredBeforeEdges(fn)
		if len(xe) == 0 {
			continue
		}
		all, any := true, false
		for _, r := range returnsOf(fn) {
			if cst, ok := r.Results[0].(*ssa.Const); ok && cst.Value != nil && cst.Value.String() == "true" {
				any = true
				if okp, _ := p.MustPass(fn, r, xe); !okp {
					all = false
				}
			}
		}
		if all && any {
			expiredPred[fn] = true
		}
	}
	n := 0
	for _, be := range []string{"memory", "sqlite", "postgres"} {
		seen := map[*ssa.Function]bool{}
		for _, root := range p.MethodsOf("queue", backendStoreType[be]) {
			if !isLeaseOp(root.Name()) {
				continue
			}
			for fn := range p.Reach(root) {
				if seen[fn] || fn.Pkg == nil || fn.Pkg.Pkg.Path() != queuePath {
					continue
				}
				seen[fn] = true
				var rets []*ssa.Return
				for _, r := range returnsOf(fn) {
					if returnsGlobal(r, "ErrLeaseExpired") {
						rets = append(rets, r)
					}
				}
				if len(rets) == 0 {
					continue
				}
				through := expiredBeforeEdges(fn)
				for _, b := range fn.Blocks {
					for i := range b.Succs {
						a, ok := edgeAtom(Edge{b, i})
						if !ok || !isBoolTrue(a.Y) || a.Op != token.EQL {
							continue
						}
						switch x := a.X.(type) {
						case *ssa.Call:
							if f := x.Call.StaticCallee(); f != nil && expiredPred[f] {
								through = append(through, Edge{b, i})
							}
							if calleeIs(x, "errors", "", "Is") {
								if u, ok := x.Call.Args[1].(*ssa.UnOp); ok {
									if g, ok := u.X.(*ssa.Global); ok && g.Name() == "ErrLeaseExpired" {
										through = append(through, Edge{b, i})
									}
								}
							}
						case *ssa.Extract:
							if call, ok := x.Tuple.(*ssa.Call); ok {
								if f := call.Call.StaticCallee(); f != nil && expiredPred[f] && x.Index == 0 {
									through = append(through, Edge{b, i})
								}
							}
						}
						// item.expired flag
						if _, f, ok := fieldOfLoad(a.X); ok && strings.EqualFold(f, "expired") {
							through = append(through, Edge{b, i})
						}
					}
				}
				for i, r := range rets {
					n++
					okp, path := p.MustPass(fn, r, through)
					key := fmt.Sprintf("%s.%s:ErrLeaseExpired#%d", be, fn.Name(), i+1)
					if okp && len(through) > 0 {
						c.Ok(rule, key, p.InstrPos(r), "returned only behind the lease-expired test")
					} else {
						c.Fail(rule, key, p.InstrPos(r), "ErrLeaseExpired can be returned without the lease having been found expired (other backends answer ErrLeaseNotFound here)", path...)
					}
				}
			}
		}
	}
	c.Floor(rule, "expired_returns", n, 3) // one per backend; duplicated return sites may be shared by a helper
}

var sentinelNames = []string{"ErrQueueFull", "ErrMemoryPressure", "ErrEnvelopeExists", "ErrLeaseNotFound", "ErrLeaseExpired"}

// sentinelsOf: sentinel error globals loaded in functions reachable from root within the same backend.
// sentinelsOf: the sentinel errors an operation can hand to its caller — sentinel loads that flow into an error
// result of the operation (through merges, result cells, %w-wrapping and the error results of the package functions
// it calls). A sentinel a helper reports and the operation consumes (errors.Is → a per-item conflict) is not one.
func sentinelsOf(p *Program, root *ssa.Function) []string {
	found := map[string]bool{}
	p.returnedSentinels(p.Orig(root), found, map[*ssa.Function]bool{})
	var out []string
	for s := range found {
		out = append(out, s)
	}
	sort.Strings(out)
	return out
}

func (p *Program) returnedSentinels(fn *ssa.Function, found map[string]bool, busy map[*ssa.Function]bool) {
	if fn == nil || busy[fn] || len(fn.Blocks) == 0 {
		return
	}
	busy[fn] = true
	v := p.View(fn)
	seen := map[ssa.Value]bool{}
	var trace func(x ssa.Value)
	trace = func(x ssa.Value) {
		if x == nil || seen[x] {
			return
		}
		seen[x] = true
		switch y := x.(type) {
		case *ssa.Phi:
			for _, e := range y.Edges {
				trace(e)
			}
		case *ssa.MakeInterface:
			trace(y.X)
		case *ssa.ChangeInterface:
			trace(y.X)
		case *ssa.ChangeType:
			trace(y.X)
		case *ssa.UnOp:
			if y.Op != token.MUL {
				return
			}
			switch a := y.X.(type) {
			case *ssa.Global:
				for _, sn := range sentinelNames {
					if a.Name() == sn && a.Pkg != nil && a.Pkg.Pkg.Path() == queuePath {
						found[sn] = true
					}
				}
			case *ssa.Alloc:
				for _, ref := range *a.Referrers() {
					if st, ok := ref.(*ssa.Store); ok && st.Addr == a {
						trace(st.Val)
					}
				}
			}
		case *ssa.Extract:
			if call, ok := y.Tuple.(*ssa.Call); ok {
				if f := call.Call.StaticCallee(); f != nil && IsModuleFunc(f) {
					p.returnedSentinels(p.Orig(f), found, busy)
				}
			}
		case *ssa.Call:
			if calleeIs(y, "fmt", "", "Errorf") {
				if elems, ok := errorfElems(y); ok {
					for _, e := range elems {
						trace(e)
					}
				}
				return
			}
			if f := y.Call.StaticCallee(); f != nil && IsModuleFunc(f) {
				p.returnedSentinels(p.Orig(f), found, busy)
			}
		}
	}
	for _, r := range returnsOf(v) {
		for _, res := range r.Results {
			if isErrorT(res.Type()) {
				trace(res)
			}
		}
	}
	delete(busy, fn)
}

func sentinelsOfLoose(p *Program, root *ssa.Function) []string {
	found := map[string]bool{}
	for fn := range p.Reach(root) {
		if fn.Pkg == nil || fn.Pkg.Pkg.Path() != queuePath {
			continue
		}
		for _, b := range fn.Blocks {
			for _, ins := range b.Instrs {
				u, ok := ins.(*ssa.UnOp)
				if !ok {
					continue
				}
				if g, ok := u.X.(*ssa.Global); ok {
					for _, s := range sentinelNames {
						if g.Name() == s {
							// a sentinel that is only compared (errors.Is) is not "returned": require a use other than as errors.Is argument
							for _, ref := range *u.Referrers() {
								if ci, ok := ref.(ssa.CallInstruction); ok && calleeIs(ci, "errors", "", "Is") {
									continue
								}
								found[s] = true
							}
						}
					}
				}
			}
		}
	}
	var out []string
	for s := range found {
		out = append(out, s)
	}
	sort.Strings(out)
	return out
}

func checkSentinelParity(c *Ctx, rule string) {
	p := c.P
	n := 0
	for _, m := range p.MethodsOf("queue", "MemoryStore") {
		if !token.IsExported(m.Name()) {
			continue
		}
		s := p.Func("queue", "(*SQLiteStore)."+m.Name())
		if s == nil {
			continue
		}
		sm, ss := sentinelsOf(p, m), sentinelsOf(p, s)
		if len(sm) == 0 && len(ss) == 0 {
			continue
		}
		n++
		inS := map[string]bool{}
		for _, x := range ss {
			inS[x] = true
		}
		inM := map[string]bool{}
		for _, x := range sm {
			inM[x] = true
		}
		okAll := true
		for _, x := range sm {
			if !inS[x] {
				okAll = false
				c.Fail(rule, "Store."+m.Name()+":sentinel-only-in-memory:"+x, p.Pos(m.Pos()), "the memory backend can return "+x+" from "+m.Name()+" but SQLite never does")
			}
		}
		for _, x := range ss {
			if !inM[x] {
				okAll = false
				c.Fail(rule, "Store."+m.Name()+":sentinel-only-in-sqlite:"+x, p.Pos(s.Pos()), "the SQLite backend can return "+x+" from "+m.Name()+" but memory never does")
			}
		}
		if okAll {
			c.Ok(rule, "Store."+m.Name()+":sentinels(memory=sqlite)", p.Pos(m.Pos()), "{"+strings.Join(sm, ",")+"}")
		}
	}
	c.Floor(rule, "methods_with_sentinels", n, 6)
	// admission counts: the counter classes used by the depth test
	classify := counterClass(p)
	for _, name := range []string{"Enqueue", "EnqueueBatch"} {
		use := func(tn string) []string {
			set := map[string]bool{}
			if root := p.Func("queue", "(*"+tn+")."+name); root != nil {
				for fn := range p.Reach(root) {
					for _, ci := range allCalls(fn, func(ssa.CallInstruction) bool { return true }) {
						if f := ci.Common().StaticCallee(); f != nil {
							if k := classify(f); k != "" {
								set[map[string]string{"A": "queued+leased", "D": "queued+leased+delivered"}[k]] = true
							}
						}
					}
				}
			}
			var out []string
			for k := range set {
				out = append(out, k)
			}
			sort.Strings(out)
			return out
		}
		um, us := use("MemoryStore"), use("SQLiteStore")
		for _, k := range um {
			in := false
			for _, k2 := range us {
				if k == k2 {
					in = true
				}
			}
			if !in {
				c.Fail(rule, "Store."+name+":admission-count-only-in-memory:"+k, "", "the memory backend's admission test also bounds "+k+", SQLite's does not")
			}
		}
		if strings.Join(um, ",") == strings.Join(us, ",") {
			c.Ok(rule, "Store."+name+":admission-counts(memory=sqlite)", "", strings.Join(um, ","))
		}
	}
}

func topLevel(fn *ssa.Function) *ssa.Function {
	for fn.Parent() != nil {
		fn = fn.Parent()
	}
	return fn
}
