package main

import (
	"fmt"
	"go/token"
	"go/types"

	"golang.org/x/tools/go/ssa"
)

// C07.R5 — the received header map is read-only until it has been copied into the envelope.
//
// ServeHTTP runs the authenticators first and builds Envelope.Headers from r.Header afterwards, so anything in
// package ingress that writes the inbound map — directly, or through another holder the map was stored into by
// reference — changes what is stored. Inbound = the Header field of a *http.Request that is a parameter.

func isHTTPRequestPtr(t types.Type) bool {
	pt, ok := t.(*types.Pointer)
	return ok && namedName(pt.Elem()) == "Request" && namedPkgPath(pt.Elem()) == "net/http"
}

func inboundHeaderLoad(v ssa.Value) bool {
	u, ok := v.(*ssa.UnOp)
	if !ok || u.Op != token.MUL {
		return false
	}
	fa, ok := u.X.(*ssa.FieldAddr)
	if !ok {
		return false
	}
	if _, f, _ := fieldAddrName(fa); f != "Header" {
		return false
	}
	base := fa.X
	if pr, ok := base.(*ssa.Parameter); ok {
		return isHTTPRequestPtr(pr.Type())
	}
	if ld, ok := base.(*ssa.UnOp); ok {
		if al, ok := ld.X.(*ssa.Alloc); ok {
			if sp := spilledParam(al); sp != nil {
				return isHTTPRequestPtr(sp.Type())
			}
		}
	}
	return false
}

func checkInboundHeadersReadOnly(c *Ctx, rule string) {
	p := c.P
	nFuncs, nLoads := 0, 0
	for _, fn := range p.FuncsInPkg("ingress") {
		hasReq := false
		for _, pr := range fn.Params {
			if isHTTPRequestPtr(pr.Type()) {
				hasReq = true
			}
		}
		if !hasReq {
			continue
		}
		nFuncs++
		isMut := func(ci ssa.CallInstruction) (ssa.Value, bool) {
			g := ci.Common().StaticCallee()
			if g == nil || g.Signature.Recv() == nil || namedName(g.Signature.Recv().Type()) != "Header" || namedPkgPath(g.Signature.Recv().Type()) != "net/http" {
				return nil, false
			}
			switch g.Name() {
			case "Set", "Add", "Del":
				return ci.Common().Args[0], true
			}
			return nil, false
		}
		// holders the inbound map was stored into by reference
		aliasHolders := map[ssa.Value]ssa.Instruction{} // FieldAddr base -> the aliasing store
		bad := 0
		for _, b := range fn.Blocks {
			for _, ins := range b.Instrs {
				switch x := ins.(type) {
				case *ssa.UnOp:
					if inboundHeaderLoad(x) {
						nLoads++
					}
				case *ssa.Store:
					val := x.Val
					if ct, ok := val.(*ssa.ChangeType); ok {
						val = ct.X
					}
					if !inboundHeaderLoad(val) {
						continue
					}
					if fa, ok := x.Addr.(*ssa.FieldAddr); ok {
						aliasHolders[fa.X] = x
					} else if _, isLocal := x.Addr.(*ssa.Alloc); !isLocal {
						aliasHolders[x.Addr] = x
					}
				case *ssa.MapUpdate:
					if inboundHeaderLoad(x.Map) {
						bad++
						c.Fail(rule, fmt.Sprintf("ingress.%s:writes the received header map", fn.Name()), p.InstrPos(x), "the inbound request's Header map is updated in place before the envelope's headers are copied from it")
					}
				}
			}
		}
		for _, ci := range allCalls(fn, nil) {
			recv, ok := isMut(ci)
			if !ok {
				continue
			}
			if inboundHeaderLoad(recv) {
				bad++
				c.Fail(rule, fmt.Sprintf("ingress.%s:writes the received header map", fn.Name()), p.InstrPos(ci), "Header.Set/Add/Del on the inbound request's headers: stored headers are no longer the received headers")
				continue
			}
			// a write to a holder that aliases the inbound map
			if u, ok := recv.(*ssa.UnOp); ok {
				if fa, ok := u.X.(*ssa.FieldAddr); ok {
					if st, aliased := aliasHolders[fa.X]; aliased {
						bad++
						c.Fail(rule, fmt.Sprintf("ingress.%s:writes the received header map through an alias", fn.Name()), p.InstrPos(ci),
							"the inbound Header map was stored by reference at "+p.InstrPos(st)+" and is then modified through that holder: the extra/overwritten headers end up in the stored envelope")
					}
				}
			}
		}
		if bad == 0 {
			c.Ok(rule, fmt.Sprintf("ingress.%s:received headers are only read", fn.Name()), p.Pos(fn.Pos()), "no Set/Add/Del/update on r.Header or on a holder it was stored into")
		}
	}
	c.Count("ingress functions taking the inbound request", nFuncs)
	c.Floor(rule, "functions taking the inbound request", nFuncs, 4)
	c.Floor(rule, "reads of the inbound header map", nLoads, 3)
}
