package main

// C15.R9 — "headers … are valid HTTP header names/values".
//
// The header validator decides validity byte by byte. In the inlined view of the validator every read of one
// element of a header name (map key) or header value (map value) is followed by a decision that only compares that
// element with constants; the comparisons partition the element's domain into an accept class (the loop goes on to
// the next element, or the validator returns nil) and a reject class (the validator returns an error). The rule
// extracts the two classes as unions of intervals (K5) and compares the accept class with the byte classes of
// RFC 7230 — the ones net/http enforces when the stored message is later delivered:
//
//	field-name  = 1*tchar        tchar = ALPHA / DIGIT / one of  ! # $ % & ' * + - . ^ _ ` | ~
//	field-value = bytes other than CTLs (HTAB allowed) and DEL
//
// The extraction looks at comparisons only, so it does not depend on whether the classes are written as if-chains,
// switches, range cases, a constant string searched with strings.IndexByte/IndexRune/ContainsRune, or split over
// unexported helpers.

import (
	"fmt"
	"go/constant"
	"go/token"
	"go/types"
	"math"
	"strings"

	"golang.org/x/tools/go/ssa"
)

var tcharOracle = func() []ival {
	var out []ival
	out = append(out, ival{'0', '9'}, ival{'A', 'Z'}, ival{'a', 'z'})
	for _, b := range "!#$%&'*+-.^_`|~" {
		out = append(out, ival{int64(b), int64(b)})
	}
	return mergeIvals(out)
}()

func fieldValueOracle(max int64) []ival {
	return mergeIvals([]ival{{'\t', '\t'}, {0x20, 0x7e}, {0x80, max}})
}

type elemRead struct {
	val  ssa.Value // the element (byte or rune)
	blk  *ssa.BasicBlock
	role string // "name" | "value"
	max  int64
	pos  token.Pos
}

func stripConv(v ssa.Value) ssa.Value {
	for {
		switch x := v.(type) {
		case *ssa.Convert:
			v = x.X
		case *ssa.ChangeType:
			v = x.X
		default:
			return v
		}
	}
}

// headerStringRole: does the string (or byte slice) derive from the key or from the value of the ranged-over map?
func headerStringRole(v ssa.Value, param *ssa.Parameter, depth int) string {
	if depth > 12 {
		return ""
	}
	switch x := stripConv(v).(type) {
	case *ssa.Extract:
		if nx, ok := x.Tuple.(*ssa.Next); ok && !nx.IsString {
			if rg, ok := nx.Iter.(*ssa.Range); ok && rg.X == param {
				switch x.Index {
				case 1:
					return "name"
				case 2:
					return "value"
				}
			}
		}
	case *ssa.Call:
		if f := x.Call.StaticCallee(); f != nil && f.Pkg != nil && (f.Pkg.Pkg.Path() == "strings" || f.Pkg.Pkg.Path() == "bytes" || f.Pkg.Pkg.Path() == "net/textproto" || f.Pkg.Pkg.Path() == "net/http") && len(x.Call.Args) >= 1 {
			return headerStringRole(x.Call.Args[0], param, depth+1)
		}
	case *ssa.Slice:
		return headerStringRole(x.X, param, depth+1)
	case *ssa.Phi:
		role := ""
		for _, e := range x.Edges {
			r := headerStringRole(e, param, depth+1)
			if r == "" || (role != "" && r != role) {
				return ""
			}
			role = r
		}
		return role
	}
	return ""
}

// elemClasses explores the decision that follows an element read. Conditions that compare the element with constants
// narrow the element's interval set; every other condition is followed both ways.
func elemClasses(er elemRead) (accept, reject []ival, problems []string) {
	h := loopHeaderOf(er.blk)
	if h == nil {
		return nil, nil, []string{"the element is not read inside a loop"}
	}
	body := loopBody(h)
	dom := []ival{{0, er.max}}
	steps := 0
	var dfs func(b *ssa.BasicBlock, cur []ival, onPath map[*ssa.BasicBlock]bool)
	dfs = func(b *ssa.BasicBlock, cur []ival, onPath map[*ssa.BasicBlock]bool) {
		steps++
		if steps > 20000 {
			problems = append(problems, "decision too large")
			return
		}
		if len(cur) == 0 {
			return
		}
		if b == h && len(onPath) > 0 {
			accept = append(accept, cur...)
			return
		}
		if onPath[b] {
			if b == er.blk {
				// a rotated loop: the block that reads the element is re-entered for the next element
				accept = append(accept, cur...)
				return
			}
			problems = append(problems, fmt.Sprintf("an inner loop (block %d) takes part in the decision", b.Index))
			return
		}
		onPath[b] = true
		defer delete(onPath, b)
		switch t := b.Instrs[len(b.Instrs)-1].(type) {
		case *ssa.Return:
			if len(t.Results) == 0 {
				problems = append(problems, "return without a verdict")
				return
			}
			res := t.Results[len(t.Results)-1]
			switch {
			case isNilConst(res):
				accept = append(accept, cur...)
			case isErrorT(res.Type()):
				reject = append(reject, cur...)
			default:
				if cst, ok := res.(*ssa.Const); ok && cst.Value != nil && cst.Value.Kind() == constant.Bool {
					if constant.BoolVal(cst.Value) {
						accept = append(accept, cur...)
					} else {
						reject = append(reject, cur...)
					}
				} else {
					problems = append(problems, "verdict is not a constant")
				}
			}
		case *ssa.If:
			if !body[b] {
				problems = append(problems, fmt.Sprintf("the decision leaves the loop at block %d before a verdict", b.Index))
				return
			}
			for i, s := range b.Succs {
				with, related := elemAtom(condAtom(t.Cond, i == 0), er.val)
				if !related {
					// the latch of a rotated loop: one way back to the element read, the other out of the loop when the
					// elements are exhausted — this element passed
					if other := b.Succs[1-i]; !body[s] && (other == h || other == er.blk) {
						accept = append(accept, cur...)
						continue
					}
					dfs(s, cur, onPath)
					continue
				}
				dfs(s, intersectIvals(append([]ival{}, cur...), with), onPath)
			}
		default:
			if !body[b] && len(b.Succs) > 0 {
				// left the per-element loop without a verdict (break + flag): what follows no longer concerns this element alone
				problems = append(problems, fmt.Sprintf("the decision leaves the loop at block %d before a verdict", b.Index))
				return
			}
			for _, s := range b.Succs {
				dfs(s, cur, onPath)
			}
		}
	}
	dfs(er.blk, dom, map[*ssa.BasicBlock]bool{})
	return mergeIvals(accept), mergeIvals(reject), problems
}

// elemAtom: the interval set on which the atom holds, when the atom compares the element with a constant or tests
// its membership in a constant string.
func elemAtom(a Atom, elem ssa.Value) ([]ival, bool) {
	all := ival{math.MinInt64, math.MaxInt64}
	cmp := func(op token.Token, n int64) []ival {
		switch op {
		case token.EQL:
			return []ival{{n, n}}
		case token.NEQ:
			return []ival{{all.lo, n - 1}, {n + 1, all.hi}}
		case token.LSS:
			return []ival{{all.lo, n - 1}}
		case token.LEQ:
			return []ival{{all.lo, n}}
		case token.GTR:
			return []ival{{n + 1, all.hi}}
		case token.GEQ:
			return []ival{{n, all.hi}}
		}
		return nil
	}
	points := func(s string) []ival {
		var out []ival
		for _, r := range s {
			out = append(out, ival{int64(r), int64(r)})
		}
		return mergeIvals(out)
	}
	complement := func(in []ival) []ival {
		var out []ival
		lo := all.lo
		for _, v := range in {
			if v.lo > lo {
				out = append(out, ival{lo, v.lo - 1})
			}
			lo = v.hi + 1
		}
		out = append(out, ival{lo, all.hi})
		return out
	}
	x := stripConv(a.X)
	if x == elem {
		if n, ok := intConst(a.Y); ok {
			if r := cmp(a.Op, n); r != nil {
				return r, true
			}
		}
		return nil, false
	}
	if n, ok := intConst(a.X); ok && stripConv(a.Y) == elem {
		if r := cmp(flipSides(a.Op), n); r != nil {
			return r, true
		}
		return nil, false
	}
	call, ok := x.(*ssa.Call)
	if !ok || len(call.Call.Args) != 2 || stripConv(call.Call.Args[1]) != elem {
		return nil, false
	}
	set, isC := constString(call.Call.Args[0])
	if !isC {
		return nil, false
	}
	switch {
	case calleeIs(call, "strings", "", "IndexByte"), calleeIs(call, "strings", "", "IndexRune"):
		n, ok := intConst(a.Y)
		if !ok {
			return nil, false
		}
		// the index is -1 (absent) or >= 0 (present)
		found := false
		switch {
		case a.Op == token.GEQ && n == 0, a.Op == token.GTR && n == -1, a.Op == token.NEQ && n == -1:
			found = true
		case a.Op == token.LSS && n == 0, a.Op == token.LEQ && n == -1, a.Op == token.EQL && n == -1:
			found = false
		default:
			return nil, false
		}
		if found {
			return points(set), true
		}
		return complement(points(set)), true
	case calleeIs(call, "strings", "", "ContainsRune"):
		if !isBoolTrue(a.Y) {
			return nil, false
		}
		if a.Op == token.EQL {
			return points(set), true
		}
		return complement(points(set)), true
	}
	return nil, false
}

func checkHeaderByteClasses(c *Ctx, rule string) {
	p := c.P
	var validators []*ssa.Function
	for _, fn := range p.FuncsInPkg("httpheader") {
		if fn.Parent() != nil || fn.Object() == nil || !fn.Object().Exported() {
			continue
		}
		ps, rs := fn.Signature.Params(), fn.Signature.Results()
		if ps.Len() != 1 || rs.Len() != 1 || !isErrorT(rs.At(0).Type()) {
			continue
		}
		if m, ok := ps.At(0).Type().Underlying().(*types.Map); !ok || !isStringT(m.Key()) || !isStringT(m.Elem()) {
			continue
		}
		if len(p.CallSitesOf(fn)) == 0 {
			continue
		}
		validators = append(validators, fn)
	}
	c.Floor(rule, "header map validators", len(validators), 1)
	for _, orig := range validators {
		fn := p.View(orig)
		name := FuncName(orig)
		if len(fn.Params) == 0 {
			continue
		}
		param := fn.Params[0]
		var reads []elemRead
		direct := map[string]bool{}
		for _, b := range fn.Blocks {
			for _, ins := range b.Instrs {
				switch x := ins.(type) {
				case *ssa.Index:
					if role := headerStringRole(x.X, param, 0); role != "" {
						reads = append(reads, elemRead{x, b, role, 255, x.Pos()})
					}
				case *ssa.Lookup:
					if _, isMap := x.X.Type().Underlying().(*types.Map); !isMap {
						if role := headerStringRole(x.X, param, 0); role != "" {
							reads = append(reads, elemRead{x, b, role, 255, x.Pos()})
						}
					}
				case *ssa.UnOp:
					if ia, ok := x.X.(*ssa.IndexAddr); ok && x.Op == token.MUL {
						if role := headerStringRole(ia.X, param, 0); role != "" {
							reads = append(reads, elemRead{x, b, role, 255, x.Pos()})
						}
					}
				case *ssa.Extract:
					if nx, ok := x.Tuple.(*ssa.Next); ok && nx.IsString && x.Index == 2 {
						if rg, ok := nx.Iter.(*ssa.Range); ok {
							if role := headerStringRole(rg.X, param, 0); role != "" {
								reads = append(reads, elemRead{x, b, role, unicodeMax, x.Pos()})
							}
						}
					}
				case *ssa.Call:
					// the check handed to x/net's httpguts, which implements exactly these classes
					if f := x.Call.StaticCallee(); f != nil && f.Pkg != nil && strings.HasSuffix(f.Pkg.Pkg.Path(), "golang.org/x/net/http/httpguts") && len(x.Call.Args) == 1 {
						role := headerStringRole(x.Call.Args[0], param, 0)
						if (role == "name" && f.Name() == "ValidHeaderFieldName") || (role == "value" && f.Name() == "ValidHeaderFieldValue") {
							direct[role] = true
						}
					}
				}
			}
		}
		for _, role := range []string{"name", "value"} {
			key := fmt.Sprintf("%s:accepted header %s bytes", name, role)
			if direct[role] {
				c.Ok(rule, key, p.Pos(orig.Pos()), "decided by httpguts")
				continue
			}
			var max int64
			var acc []ival
			n := 0
			var und []string
			pos := orig.Pos()
			for _, er := range reads {
				if er.role != role {
					continue
				}
				a, r, problems := elemClasses(er)
				if len(problems) > 0 {
					und = append(und, problems...)
					continue
				}
				if len(intersectIvals(append([]ival{}, a...), r)) > 0 {
					und = append(und, fmt.Sprintf("for elements in %s the verdict depends on something other than the element", ivalsString(intersectIvals(append([]ival{}, a...), r))))
					continue
				}
				if !ivalsEqual(mergeIvals(append(append([]ival{}, a...), r...)), []ival{{0, er.max}}) {
					und = append(und, "the decision does not cover the whole element domain")
					continue
				}
				if len(r) == 0 {
					continue // a loop over the string that rejects nothing (e.g. computing a size)
				}
				if n == 0 {
					acc, max = a, er.max
				} else {
					if er.max < max {
						max = er.max
					}
					acc = intersectIvals(acc, a)
				}
				pos = er.pos
				n++
			}
			if len(und) > 0 {
				c.Undecided(rule, key, p.Pos(pos), strings.Join(und, "; "))
				continue
			}
			if n == 0 {
				c.Fail(rule, key, p.Pos(orig.Pos()), "no per-element decision over the header "+role+" found: nothing restricts its bytes")
				continue
			}
			want := tcharOracle
			if role == "value" {
				want = fieldValueOracle(max)
			}
			acc = intersectIvals(acc, []ival{{0, max}})
			c.Check(ivalsEqual(acc, want), rule, key, p.Pos(pos),
				"accept class = "+ivalsString(acc),
				fmt.Sprintf("the validator accepts header %s bytes %s, RFC 7230 / net/http allow %s: a publish item is accepted (or refused) against the rule the delivery side applies", role, ivalsString(acc), ivalsString(want)))
		}
	}
}

const unicodeMax = 0x10FFFF
