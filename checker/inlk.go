package main

// Inlined views.
//
// An intra-procedural rule (dominance, guard edges, path enumeration, value provenance inside one function) sees a
// different function when a maintainer moves part of a body into an unexported helper, or folds a helper back into
// its callers — although nothing about the behaviour changed. p.View(fn) gives the rule a copy of fn in which every
// static call to an unexported function or method of the same package (and every call of a function literal whose
// closure value is visible) has been replaced by the callee's body, transitively, with the join at the call
// boundary threaded away where the callee returns constants (nil / true / false) or sentinel errors. Exported
// functions, interface calls, calls into other packages, callees with defer and recursive calls stay calls: those
// are the boundaries rules name.
//
// The copy is not part of the program: call-graph questions (Reach, CallSitesOf, FuncReaches) are answered for the
// original (p.Orig). Instructions in the copy keep their source positions, and p.InlinedFrom tells which helper an
// instruction came from.

import (
	"fmt"
	"go/token"
	"go/types"
	"os"
	"sort"

	"golang.org/x/tools/go/ssa"
)

type viewInfo struct {
	res *ssa.HKInlined
}

// sentinelErrors: package-level error variables of the module that are initialised once with errors.New /
// fmt.Errorf and never assigned again — loads of them are never nil.
func (p *Program) sentinelErrors() map[*ssa.Global]bool {
	if p.sentinels != nil {
		return p.sentinels
	}
	stores := map[*ssa.Global]int{}
	good := map[*ssa.Global]bool{}
	for _, fn := range p.SrcFuncs {
		for _, b := range fn.Blocks {
			for _, ins := range b.Instrs {
				st, ok := ins.(*ssa.Store)
				if !ok {
					continue
				}
				g, ok := st.Addr.(*ssa.Global)
				if !ok {
					continue
				}
				stores[g]++
				if call, ok := st.Val.(*ssa.Call); ok && fn.Name() == "init" {
					if calleeIs(call, "errors", "", "New") || calleeIs(call, "fmt", "", "Errorf") {
						good[g] = true
					}
				}
			}
		}
	}
	p.sentinels = map[*ssa.Global]bool{}
	for g := range good {
		if stores[g] == 1 {
			p.sentinels[g] = true
		}
	}
	return p.sentinels
}

func (p *Program) knownNonNil(v ssa.Value) bool {
	switch x := v.(type) {
	case *ssa.UnOp:
		if x.Op == token.MUL {
			if g, ok := x.X.(*ssa.Global); ok {
				return p.sentinelErrors()[g]
			}
		}
	case *ssa.Call:
		if calleeIs(x, "errors", "", "New") || calleeIs(x, "fmt", "", "Errorf") {
			return true
		}
		// status.Error / status.Errorf with a constant code other than OK
		if calleeIs(x, "google.golang.org/grpc/status", "", "Error") || calleeIs(x, "google.golang.org/grpc/status", "", "Errorf") {
			if code, ok := intConst(x.Call.Args[0]); ok && code != 0 {
				return true
			}
		}
		// a module function whose every return yields a non-nil value for its single result
		if f := x.Call.StaticCallee(); f != nil && IsModuleFunc(f) && f.Signature.Results().Len() == 1 {
			return p.neverReturnsNil(f, 0)
		}
	case *ssa.Extract:
		if call, ok := x.Tuple.(*ssa.Call); ok {
			if f := call.Call.StaticCallee(); f != nil && IsModuleFunc(f) {
				return p.neverReturnsNil(f, x.Index)
			}
		}
	case *ssa.MakeInterface, *ssa.Alloc, *ssa.MakeMap, *ssa.MakeSlice, *ssa.MakeChan, *ssa.MakeClosure, *ssa.Function:
		return true
	}
	return false
}

// neverReturnsNil: every return site of f yields a value known to be non-nil for result idx.
func (p *Program) neverReturnsNil(f *ssa.Function, idx int) bool {
	type key struct {
		f   *ssa.Function
		idx int
	}
	if p.nonNilMemo == nil {
		p.nonNilMemo = map[interface{}]bool{}
	}
	k := key{f, idx}
	if v, ok := p.nonNilMemo[k]; ok {
		return v
	}
	p.nonNilMemo[k] = false // cycles: not known
	if len(f.Blocks) == 0 {
		return false
	}
	n := 0
	for _, r := range returnsOf(f) {
		if idx >= len(r.Results) {
			return false
		}
		n++
		if !p.knownNonNil(r.Results[idx]) {
			return false
		}
	}
	if n == 0 {
		return false
	}
	p.nonNilMemo[k] = true
	return true
}

// defaultInline: the callee is an unexported function or method (or a function literal) of the same package.
func defaultInline(root *ssa.Function) func(site *ssa.Call, callee *ssa.Function, chain []*ssa.Function) bool {
	return func(site *ssa.Call, callee *ssa.Function, chain []*ssa.Function) bool {
		if callee.Pkg == nil || callee.Pkg != root.Pkg || len(chain) >= 4 {
			return false
		}
		// a helper that is a critical section of its own (defer mu.Unlock()) is a unit the rules reason about as
		// such (the nonce cache's check-and-record, a limiter's admit): it stays a call
		for _, b := range callee.Blocks {
			for _, ins := range b.Instrs {
				if d, ok := ins.(*ssa.Defer); ok {
					if g := d.Call.StaticCallee(); g != nil && g.Pkg != nil && g.Pkg.Pkg.Path() == "sync" && (g.Name() == "Unlock" || g.Name() == "RUnlock") {
						return false
					}
				}
			}
		}
		if callee.Parent() != nil {
			return true // function literal
		}
		if callee.Synthetic != "" {
			return false
		}
		obj := callee.Object()
		if obj == nil {
			return false
		}
		return !obj.Exported()
	}
}

// ViewKeeping is View with the calls to the given functions left in place.
func (p *Program) ViewKeeping(fn *ssa.Function, keep func(callee *ssa.Function) bool) *ssa.Function {
	if fn == nil || len(fn.Blocks) == 0 {
		return fn
	}
	fn = p.Orig(fn)
	base := defaultInline(fn)
	res := ssa.HKInline(fn, ssa.HKInlineOptions{
		Should: func(site *ssa.Call, callee *ssa.Function, chain []*ssa.Function) bool {
			if keep != nil && keep(callee) {
				return false
			}
			return base(site, callee, chain)
		},
		KnownNonNil: p.knownNonNil,
	})
	if res == nil {
		return fn
	}
	if p.views == nil {
		p.views = map[*ssa.Function]*viewInfo{}
	}
	p.views[res.Fn] = &viewInfo{res}
	if d := os.Getenv("HK_DUMPVIEW"); d != "" && d == fn.Name() {
		res.Fn.WriteTo(stdoutWriter{})
	}
	return res.Fn
}

// View returns the inlined copy of fn (cached).
func (p *Program) View(fn *ssa.Function) *ssa.Function {
	if fn == nil {
		return nil
	}
	fn = p.Orig(fn)
	if p.viewOf == nil {
		p.viewOf = map[*ssa.Function]*ssa.Function{}
	}
	if v, ok := p.viewOf[fn]; ok {
		return v
	}
	v := p.ViewKeeping(fn, nil)
	p.viewOf[fn] = v
	return v
}

// Orig maps a view back to the function it was made from (identity for ordinary functions).
func (p *Program) Orig(fn *ssa.Function) *ssa.Function {
	if fn == nil {
		return nil
	}
	if vi, ok := p.views[fn]; ok {
		return vi.res.Orig
	}
	return fn
}

// InlinedCallees: the helpers expanded into a view (nil for ordinary functions).
func (p *Program) InlinedCallees(fn *ssa.Function) map[*ssa.Function]int {
	if vi, ok := p.views[fn]; ok {
		return vi.res.Inlined
	}
	return nil
}

// IsView reports whether fn is an inlined copy.
func (p *Program) IsView(fn *ssa.Function) bool {
	_, ok := p.views[fn]
	return ok
}

// InlinedFrom returns the chain of helpers an instruction of a view came from (nil for the root's own code).
func (p *Program) InlinedFrom(ins ssa.Instruction) []*ssa.Function {
	if ins == nil || ins.Parent() == nil {
		return nil
	}
	if vi, ok := p.views[ins.Parent()]; ok {
		return vi.res.Origin[ins]
	}
	return nil
}

// FromDeferred: the instruction of a view runs as (part of) a deferred call of an expanded helper — clean-up code,
// which rules that ignore defer statements ignore here too.
func (p *Program) FromDeferred(ins ssa.Instruction) bool {
	if ins == nil || ins.Parent() == nil {
		return false
	}
	if vi, ok := p.views[ins.Parent()]; ok {
		return vi.res.Deferred[ins]
	}
	return false
}

// SourceInstr maps an instruction of a view to the instruction it was cloned from (itself otherwise).
func (p *Program) SourceInstr(ins ssa.Instruction) ssa.Instruction {
	if ins == nil || ins.Parent() == nil {
		return ins
	}
	if vi, ok := p.views[ins.Parent()]; ok {
		if s, ok := vi.res.Source[ins]; ok {
			return s
		}
	}
	return ins
}

// dumpInline: stress test and debugging aid. With no name it inlines every module function and runs the SSA
// sanity checker on each copy; with a name it prints the copy.
func dumpInline(p *Program, name string) {
	bad, n, expanded := 0, 0, 0
	var names []string
	byName := map[string]*ssa.Function{}
	for _, fn := range p.SrcFuncs {
		if len(fn.Blocks) == 0 {
			continue
		}
		k := FuncName(fn)
		names = append(names, k)
		byName[k] = fn
	}
	sort.Strings(names)
	for _, k := range names {
		fn := byName[k]
		if name != "" && k != name && fn.Name() != name {
			continue
		}
		v := p.View(fn)
		n++
		vi := p.views[v]
		if vi == nil {
			continue
		}
		expanded += len(vi.res.Inlined)
		if pr := ssa.HKSanity(v); len(pr) > 0 {
			bad++
			fmt.Printf("SANITY-FAIL %s\n", k)
			for i, l := range pr {
				if i < 4 {
					fmt.Println("   ", l)
				}
			}
		}
		if name != "" {
			v.WriteTo(stdoutWriter{})
			for c, why := range vi.res.Skipped {
				fmt.Printf("skipped %s: %s\n", FuncName(c), why)
			}
			for c, k := range vi.res.Inlined {
				fmt.Printf("inlined %s ×%d\n", FuncName(c), k)
			}
		}
	}
	fmt.Printf("views=%d expanded-callees=%d sanity-failures=%d\n", n, expanded, bad)
}

type stdoutWriter struct{}

func (stdoutWriter) Write(b []byte) (int, error) { fmt.Print(string(b)); return len(b), nil }

var _ = types.Typ
