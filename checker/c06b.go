package main

// C06.R6 — the backoff function: "each retry is scheduled no earlier than min(base·2^(attempt-1), cap)·(1-jitter) and
// no later than that value·(1+jitter)".
//
// The numeric result itself is not decided here (floating point over all configurations). What is decided are four
// dataflow facts of the function that computes the delay, each a necessary condition of the bound, established on
// its inlined view:
//
//	no-wrap    the term that grows with the attempt number is not computed by an integer shift or product (retry.max is
//	           any positive int, so base·2^(attempt-1) exceeds 2^63 ns for accepted configurations; a wrapped product
//	           is negative or small and the retry is scheduled at once) — unless a division/right-shift pre-check
//	           dominates it;
//	exponent   the attempt number enters arithmetic only as attempt-1;
//	cap        every returned delay is, or is the jittered form of, a value bounded by Cap: Cap itself, min(…, Cap),
//	           or a value on an edge where `value <= Cap` (or `Cap <= 0`, cap disabled) holds;
//	jitter     the factor applied to the capped value lies in [1-J, 1+J] for the configured jitter J in [0,1]
//	           (interval arithmetic over forms A + B·J, rand.Float64() in [0,1]).

import (
	"fmt"
	"go/constant"
	"go/token"
	"go/types"
	"math"
	"strings"

	"golang.org/x/tools/go/ssa"
)

type backoffModel struct {
	p       *Program
	fn      *ssa.Function
	attempt *ssa.Parameter
}

func isIntegerT(t types.Type) bool {
	b, ok := t.Underlying().(*types.Basic)
	return ok && b.Info()&types.IsInteger != 0
}

func isFloatT(t types.Type) bool {
	b, ok := t.Underlying().(*types.Basic)
	return ok && b.Info()&types.IsFloat != 0
}

// retryField: v is a read of the named field of the RetryConfig parameter (through conversions).
func (m *backoffModel) retryField(v ssa.Value) string {
	switch x := stripConv(v).(type) {
	case *ssa.Field:
		if namedName(x.X.Type()) == "RetryConfig" {
			return x.X.Type().Underlying().(*types.Struct).Field(x.Field).Name()
		}
	case *ssa.UnOp:
		if fa, ok := x.X.(*ssa.FieldAddr); ok && x.Op == token.MUL {
			if tn, f, ok := fieldAddrName(fa); ok && tn == "RetryConfig" {
				return f
			}
		}
	}
	return ""
}

func builtinCall(v ssa.Value, name string) *ssa.Call {
	c, ok := v.(*ssa.Call)
	if !ok {
		return nil
	}
	if bi, ok := c.Call.Value.(*ssa.Builtin); ok && bi.Name() == name {
		return c
	}
	return nil
}

// dependsOn: v is computed from target (data dependence).
func dependsOn(v, target ssa.Value, seen map[ssa.Value]bool) bool {
	if v == target {
		return true
	}
	if seen[v] {
		return false
	}
	seen[v] = true
	ins, ok := v.(ssa.Instruction)
	if !ok {
		return false
	}
	var rands [8]*ssa.Value
	for _, r := range ins.Operands(rands[:0]) {
		if *r != nil && dependsOn(*r, target, seen) {
			return true
		}
	}
	return false
}

// edgeConds: atoms that hold when control passes from pred to blk.
func edgeConds(pred, blk *ssa.BasicBlock) []Atom {
	var out []Atom
	for _, pc := range dominatingConds(pred, nil) {
		out = append(out, condAtom(pc.Cond, pc.Val))
	}
	if ifi, ok := pred.Instrs[len(pred.Instrs)-1].(*ssa.If); ok && pred.Succs[0] != pred.Succs[1] {
		for i, s := range pred.Succs {
			if s == blk {
				out = append(out, condAtom(ifi.Cond, i == 0))
			}
		}
	}
	return out
}

// capped: v <= Cap whenever the cap is enabled.
func (m *backoffModel) capped(v ssa.Value, seen map[ssa.Value]bool) bool {
	if seen[v] {
		return true // a cycle adds no new source
	}
	seen[v] = true
	defer delete(seen, v)
	v0 := v
	v = stripConv(v)
	if m.retryField(v) == "Cap" {
		return true
	}
	switch x := v.(type) {
	case *ssa.Const:
		if x.Value != nil && (x.Value.Kind() == constant.Int || x.Value.Kind() == constant.Float) {
			return constant.Sign(x.Value) <= 0
		}
	case *ssa.Call:
		if c := builtinCall(x, "min"); c != nil {
			for _, a := range c.Call.Args {
				if m.capped(a, seen) {
					return true
				}
			}
		}
		if c := builtinCall(x, "max"); c != nil {
			for _, a := range c.Call.Args {
				if !m.capped(a, seen) {
					return false
				}
			}
			return true
		}
		if calleeIs(x, "math", "", "Min") {
			return m.capped(x.Call.Args[0], seen) || m.capped(x.Call.Args[1], seen)
		}
	case *ssa.Phi:
		for i, e := range x.Edges {
			if m.capped(e, seen) {
				continue
			}
			ok := m.edgeBounds(x.Block().Preds[i], x.Block(), e, 0)
			for _, a := range []Atom{} {
				ax, ay := stripConv(a.X), stripConv(a.Y)
				// cap disabled on this edge
				if m.retryField(ax) == "Cap" && (a.Op == token.LEQ || a.Op == token.EQL) {
					if cst, isC := ay.(*ssa.Const); isC && cst.Value != nil && constant.Sign(cst.Value) == 0 {
						ok = true
					}
				}
				// value <= Cap / Cap >= value on this edge
				ev := stripConv(e)
				if ax == ev && m.retryField(ay) == "Cap" && (a.Op == token.LEQ || a.Op == token.LSS) {
					ok = true
				}
				if ay == ev && m.retryField(ax) == "Cap" && (a.Op == token.GEQ || a.Op == token.GTR) {
					ok = true
				}
			}
			if !ok {
				return false
			}
		}
		return len(x.Edges) > 0
	}
	_ = v0
	return false
}

// edgeBounds: on the edge pred→blk the value e is known to be <= Cap, or the cap is disabled (Cap <= 0). An edge
// leaving a block that only joins other edges (`if cap > 0 && v > cap { … }` falls through from two tests) is bounded
// when every edge into that block is.
func (m *backoffModel) edgeBounds(pred, blk *ssa.BasicBlock, e ssa.Value, depth int) bool {
	ev := stripConv(e)
	for _, a := range edgeConds(pred, blk) {
		ax, ay := stripConv(a.X), stripConv(a.Y)
		if m.retryField(ax) == "Cap" && (a.Op == token.LEQ || a.Op == token.EQL) {
			if cst, isC := ay.(*ssa.Const); isC && cst.Value != nil && constant.Sign(cst.Value) == 0 {
				return true
			}
		}
		if ax == ev && m.retryField(ay) == "Cap" && (a.Op == token.LEQ || a.Op == token.LSS) {
			return true
		}
		if ay == ev && m.retryField(ax) == "Cap" && (a.Op == token.GEQ || a.Op == token.GTR) {
			return true
		}
	}
	if depth < 4 && len(pred.Instrs) == 1 && len(pred.Preds) > 0 {
		if _, isJump := pred.Instrs[0].(*ssa.Jump); isJump {
			for _, pp := range pred.Preds {
				if !m.edgeBounds(pp, pred, e, depth+1) {
					return false
				}
			}
			return true
		}
	}
	return false
}

// aff: a value in A + B·J.
type aff struct {
	alo, ahi, blo, bhi float64
	ok             bool
}

func affConst(c float64) aff { return aff{c, c, 0, 0, true} }

func mulIv(alo, ahi, blo, bhi float64) (float64, float64) {
	c := []float64{alo * blo, alo * bhi, ahi * blo, ahi * bhi}
	lo, hi := c[0], c[0]
	for _, x := range c[1:] {
		lo, hi = math.Min(lo, x), math.Max(hi, x)
	}
	return lo, hi
}

func (m *backoffModel) jitterLike(v ssa.Value) bool {
	v = stripConv(v)
	if m.retryField(v) == "Jitter" {
		return true
	}
	// the jitter clamped into [0,1]: min(Jitter, 1), max(…, 0), or the phi of `if j > 1 { j = 1 }`
	if c, ok := v.(*ssa.Call); ok {
		if builtinCall(c, "min") != nil || builtinCall(c, "max") != nil || calleeIs(c, "math", "", "Min") || calleeIs(c, "math", "", "Max") {
			n := 0
			for _, a := range c.Call.Args {
				if m.jitterLike(a) {
					n++
				} else if cst, isC := stripConv(a).(*ssa.Const); !isC || cst.Value == nil {
					return false
				}
			}
			return n == 1
		}
	}
	if phi, ok := v.(*ssa.Phi); ok {
		n := 0
		for _, e := range phi.Edges {
			if m.jitterLike(e) {
				n++
			} else if cst, isC := stripConv(e).(*ssa.Const); !isC || cst.Value == nil {
				return false
			}
		}
		return n >= 1
	}
	return false
}

func (m *backoffModel) eval(v ssa.Value, depth int) aff {
	if depth > 16 {
		return aff{}
	}
	if m.jitterLike(v) {
		return aff{0, 0, 1, 1, true}
	}
	switch x := stripConv(v).(type) {
	case *ssa.Const:
		if x.Value != nil && (x.Value.Kind() == constant.Int || x.Value.Kind() == constant.Float) {
			f, _ := constant.Float64Val(x.Value)
			return affConst(f)
		}
	case *ssa.Call:
		if f := x.Call.StaticCallee(); f != nil && f.Name() == "Float64" && f.Pkg != nil && strings.HasPrefix(f.Pkg.Pkg.Path(), "math/rand") {
			return aff{0, 1, 0, 0, true}
		}
	case *ssa.UnOp:
		if x.Op == token.SUB {
			a := m.eval(x.X, depth+1)
			if a.ok {
				return aff{-a.ahi, -a.alo, -a.bhi, -a.blo, true}
			}
		}
	case *ssa.BinOp:
		a, b := m.eval(x.X, depth+1), m.eval(x.Y, depth+1)
		if !a.ok || !b.ok {
			return aff{}
		}
		switch x.Op {
		case token.ADD:
			return aff{a.alo + b.alo, a.ahi + b.ahi, a.blo + b.blo, a.bhi + b.bhi, true}
		case token.SUB:
			return aff{a.alo - b.ahi, a.ahi - b.alo, a.blo - b.bhi, a.bhi - b.blo, true}
		case token.MUL:
			aJ, bJ := a.blo != 0 || a.bhi != 0, b.blo != 0 || b.bhi != 0
			switch {
			case !aJ && !bJ:
				lo, hi := mulIv(a.alo, a.ahi, b.alo, b.ahi)
				return aff{lo, hi, 0, 0, true}
			case !aJ:
				lo, hi := mulIv(a.alo, a.ahi, b.alo, b.ahi)
				jlo, jhi := mulIv(a.alo, a.ahi, b.blo, b.bhi)
				return aff{lo, hi, jlo, jhi, true}
			case !bJ:
				lo, hi := mulIv(a.alo, a.ahi, b.alo, b.ahi)
				jlo, jhi := mulIv(a.blo, a.bhi, b.alo, b.ahi)
				return aff{lo, hi, jlo, jhi, true}
			}
		}
	}
	return aff{}
}

type backoffVerdict struct {
	ok     bool
	why    string
	factor []ssa.Value // jitter factors (1+δ form) met
	delta  []ssa.Value // jitter deltas (v + v·δ form) met
}

// okResult: v is a constant, a capped value, or a capped value with the jitter applied.
func (m *backoffModel) okResult(v ssa.Value, out *backoffVerdict, seen map[ssa.Value]bool) bool {
	if seen[v] {
		return true
	}
	seen[v] = true
	defer delete(seen, v)
	if m.capped(v, map[ssa.Value]bool{}) {
		return true
	}
	switch x := stripConv(v).(type) {
	case *ssa.Const:
		return true
	case *ssa.Phi:
		for _, e := range x.Edges {
			if !m.okResult(e, out, seen) {
				return false
			}
		}
		return len(x.Edges) > 0
	case *ssa.Call:
		if builtinCall(x, "max") != nil || builtinCall(x, "min") != nil || calleeIs(x, "math", "", "Max") || calleeIs(x, "math", "", "Min") || calleeIs(x, "math", "", "Round") || calleeIs(x, "math", "", "Floor") {
			n := 0
			for _, a := range x.Call.Args {
				if _, isC := stripConv(a).(*ssa.Const); isC {
					continue
				}
				if !m.okResult(a, out, seen) {
					return false
				}
				n++
			}
			return n > 0
		}
	case *ssa.BinOp:
		isCapped := func(u ssa.Value) bool { return m.capped(u, map[ssa.Value]bool{}) }
		jitterOnly := func(u ssa.Value) bool {
			// the factor must not carry base, cap or the attempt number
			ok := true
			var walk func(w ssa.Value, d int)
			walk = func(w ssa.Value, d int) {
				if d > 16 || !ok {
					return
				}
				if w == ssa.Value(m.attempt) {
					ok = false
				}
				if f := m.retryField(w); f != "" && f != "Jitter" {
					ok = false
				}
				if ins, isI := w.(ssa.Instruction); isI {
					var rands [8]*ssa.Value
					for _, r := range ins.Operands(rands[:0]) {
						if *r != nil {
							walk(*r, d+1)
						}
					}
				}
			}
			walk(u, 0)
			return ok
		}
		switch x.Op {
		case token.MUL:
			if isCapped(x.X) && jitterOnly(x.Y) {
				out.factor = append(out.factor, x.Y)
				return true
			}
			if isCapped(x.Y) && jitterOnly(x.X) {
				out.factor = append(out.factor, x.X)
				return true
			}
		case token.ADD:
			// v + v·δ
			for _, pr := range [][2]ssa.Value{{x.X, x.Y}, {x.Y, x.X}} {
				if !isCapped(pr[0]) {
					continue
				}
				if mul, ok := stripConv(pr[1]).(*ssa.BinOp); ok && mul.Op == token.MUL {
					if isCapped(mul.X) && jitterOnly(mul.Y) {
						out.delta = append(out.delta, mul.Y)
						return true
					}
					if isCapped(mul.Y) && jitterOnly(mul.X) {
						out.delta = append(out.delta, mul.X)
						return true
					}
				}
			}
		}
	}
	out.why = "value " + shortVal(v) + " is neither bounded by Cap nor the jittered form of a bounded value"
	return false
}

func checkBackoffFunction(c *Ctx, rule string, orig *ssa.Function) {
	p := c.P
	fn := p.View(orig)
	name := FuncName(orig)
	m := &backoffModel{p: p, fn: fn}
	for _, prm := range fn.Params {
		if isIntegerT(prm.Type()) && namedName(prm.Type()) != "Duration" {
			m.attempt = prm
		}
	}
	if m.attempt == nil {
		c.Undecided(rule, name+":roles", p.Pos(orig.Pos()), "no integer attempt parameter")
		return
	}

	// ---- no-wrap
	nArith := 0
	var wrap []string
	for _, b := range fn.Blocks {
		for _, ins := range b.Instrs {
			bo, ok := ins.(*ssa.BinOp)
			if !ok || (bo.Op != token.SHL && bo.Op != token.MUL) || !isIntegerT(bo.Type()) {
				continue
			}
			if !dependsOn(bo.X, m.attempt, map[ssa.Value]bool{}) && !dependsOn(bo.Y, m.attempt, map[ssa.Value]bool{}) {
				continue
			}
			nArith++
			if _, constBase := stripConv(bo.X).(*ssa.Const); constBase && bo.Op == token.SHL {
				// 1 << n: fine when n is bounded below the word size
				if m.shiftBounded(bo.Y, b) {
					continue
				}
				wrap = append(wrap, fmt.Sprintf("%s: shift count of %s is not bounded below 63", p.InstrPos(bo), shortVal(bo)))
				continue
			}
			if m.overflowPrechecked(b) {
				continue
			}
			wrap = append(wrap, fmt.Sprintf("%s: integer %s of a value that grows with the attempt number", p.InstrPos(bo), bo.Op))
		}
	}
	if len(wrap) > 0 {
		c.Fail(rule, name+":growth does not wrap", p.Pos(orig.Pos()), "the exponential term is computed in wrapping integer arithmetic ("+strings.Join(wrap, "; ")+"): retry.max is any positive int, so for accepted configurations base·2^(attempt-1) passes 2^63 ns, wraps to a negative or small value, and the retry is scheduled immediately instead of after cap·(1-jitter)")
	} else {
		c.Ok(rule, name+":growth does not wrap", p.Pos(orig.Pos()), fmt.Sprintf("%d integer shift/product(s) on the attempt-dependent term, all bounded or pre-checked", nArith))
	}

	// ---- exponent
	var bad []string
	nMinusOne := 0
	var uses func(v ssa.Value, d int)
	uses = func(v ssa.Value, d int) {
		refs := v.Referrers()
		if refs == nil || d > 3 {
			return
		}
		for _, r := range *refs {
			switch x := r.(type) {
			case *ssa.BinOp:
				switch x.Op {
				case token.EQL, token.NEQ, token.LSS, token.LEQ, token.GTR, token.GEQ:
					continue
				case token.SUB:
					if n, ok := numConst(x.Y); ok && n == 1 && x.X == v {
						nMinusOne++
						continue
					}
				case token.ADD:
					if n, ok := numConst(x.Y); ok && n == -1 {
						nMinusOne++
						continue
					}
					if n, ok := numConst(x.X); ok && n == -1 {
						nMinusOne++
						continue
					}
				}
				bad = append(bad, p.InstrPos(x)+": "+shortVal(x))
			case *ssa.Convert:
				uses(x, d+1)
			case *ssa.ChangeType:
				uses(x, d+1)
			case *ssa.DebugRef:
			default:
				if vv, ok := r.(ssa.Value); ok {
					bad = append(bad, p.InstrPos(r)+": "+shortVal(vv))
				} else {
					bad = append(bad, p.InstrPos(r))
				}
			}
		}
	}
	uses(m.attempt, 0)
	switch {
	case len(bad) > 0:
		c.Fail(rule, name+":exponent is attempt-1", p.Pos(orig.Pos()), "the attempt number enters the delay other than as attempt-1 ("+strings.Join(bad, "; ")+"): the first retry must wait base·2^0")
	case nMinusOne > 0:
		c.Ok(rule, name+":exponent is attempt-1", p.Pos(orig.Pos()), fmt.Sprintf("%d use(s), all attempt-1 or comparisons", nMinusOne))
	default:
		c.Ok(rule, name+":exponent is attempt-1", p.Pos(orig.Pos()), "the attempt number is only compared (loop form); the exponent is not decided by this clause")
	}

	// ---- cap and jitter
	out := &backoffVerdict{}
	nRet := 0
	allOK := true
	for _, r := range returnsOf(fn) {
		if len(r.Results) != 1 {
			continue
		}
		nRet++
		if !m.okResult(r.Results[0], out, map[ssa.Value]bool{}) {
			allOK = false
			c.Fail(rule, fmt.Sprintf("%s:return#%d bounded by cap", name, nRet), p.InstrPos(r), "a returned delay is not bounded by min(…, cap)·(1+jitter): "+out.why)
		} else {
			c.Ok(rule, fmt.Sprintf("%s:return#%d bounded by cap", name, nRet), p.InstrPos(r), "constant, capped, or jittered form of a capped value")
		}
	}
	c.Check(nRet > 0, rule, name+":returns", p.Pos(orig.Pos()), fmt.Sprintf("%d return(s)", nRet), "no return found")
	if !allOK {
		return
	}
	for i, f := range out.factor {
		a := m.eval(f, 0)
		key := fmt.Sprintf("%s:jitter factor#%d within [1-J,1+J]", name, i+1)
		if !a.ok {
			c.Undecided(rule, key, p.Pos(f.Pos()), "the factor "+shortVal(f)+" is not an affine form over rand.Float64() and the configured jitter")
			continue
		}
		c.Check(a.alo >= 1 && a.ahi <= 1 && a.blo >= -1 && a.bhi <= 1, rule, key, p.Pos(f.Pos()),
			fmt.Sprintf("factor in [%g,%g] + [%g,%g]·J", a.alo, a.ahi, a.blo, a.bhi),
			fmt.Sprintf("the jitter factor ranges over [%g,%g] + [%g,%g]·J, outside [1-J, 1+J]: a retry can be scheduled earlier than value·(1-jitter) or later than value·(1+jitter)", a.alo, a.ahi, a.blo, a.bhi))
	}
	for i, d := range out.delta {
		a := m.eval(d, 0)
		key := fmt.Sprintf("%s:jitter delta#%d within [-J,J]", name, i+1)
		if !a.ok {
			c.Undecided(rule, key, p.Pos(d.Pos()), "the delta "+shortVal(d)+" is not an affine form over rand.Float64() and the configured jitter")
			continue
		}
		c.Check(a.alo >= 0 && a.ahi <= 0 && a.blo >= -1 && a.bhi <= 1, rule, key, p.Pos(d.Pos()),
			fmt.Sprintf("delta in [%g,%g] + [%g,%g]·J", a.alo, a.ahi, a.blo, a.bhi),
			fmt.Sprintf("the jitter delta ranges over [%g,%g] + [%g,%g]·J, outside [-J, J]", a.alo, a.ahi, a.blo, a.bhi))
	}
}

func numConst(v ssa.Value) (float64, bool) {
	cst, ok := stripConv(v).(*ssa.Const)
	if !ok || cst.Value == nil || (cst.Value.Kind() != constant.Int && cst.Value.Kind() != constant.Float) {
		return 0, false
	}
	f, _ := constant.Float64Val(cst.Value)
	return f, true
}

// shiftBounded: the shift count is min(…, c) with c <= 62, or a comparison count < / <= c (c <= 63 / 62) dominates.
func (m *backoffModel) shiftBounded(count ssa.Value, at *ssa.BasicBlock) bool {
	cv := stripConv(count)
	if c := builtinCall(cv, "min"); c != nil {
		for _, a := range c.Call.Args {
			if n, ok := numConst(a); ok && n <= 62 {
				return true
			}
		}
	}
	for _, pc := range dominatingConds(at, nil) {
		a := condAtom(pc.Cond, pc.Val)
		if stripConv(a.X) != cv {
			continue
		}
		if n, ok := numConst(a.Y); ok {
			if (a.Op == token.LSS && n <= 63) || (a.Op == token.LEQ && n <= 62) {
				return true
			}
		}
	}
	return false
}

// overflowPrechecked: a dominating condition compares against a quotient or a right shift (the overflow pre-check
// idiom `if base > cap>>n` / `if base > max/mult`).
func (m *backoffModel) overflowPrechecked(at *ssa.BasicBlock) bool {
	has := func(v ssa.Value) bool {
		found := false
		var walk func(w ssa.Value, d int)
		walk = func(w ssa.Value, d int) {
			if d > 4 || found {
				return
			}
			if bo, ok := w.(*ssa.BinOp); ok && (bo.Op == token.QUO || bo.Op == token.SHR) {
				found = true
				return
			}
			if ins, ok := w.(ssa.Instruction); ok {
				var rands [8]*ssa.Value
				for _, r := range ins.Operands(rands[:0]) {
					if *r != nil {
						walk(*r, d+1)
					}
				}
			}
		}
		walk(v, 0)
		return found
	}
	for _, pc := range dominatingConds(at, nil) {
		if has(pc.Cond) {
			return true
		}
	}
	return false
}
