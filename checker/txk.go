package main

// Transaction typestate over package queue: begin -> (commit ok -> success) | rollback.

import (
	"fmt"
	"go/token"
	"go/types"
	"strings"

	"golang.org/x/tools/go/ssa"
)

type txModel struct {
	begin, commit, rollback map[*ssa.Function]bool
	txFuncs                 []*ssa.Function
}

func (p *Program) Tx() *txModel {
	if p.txModel != nil {
		return p.txModel
	}
	m := &txModel{begin: map[*ssa.Function]bool{}, commit: map[*ssa.Function]bool{}, rollback: map[*ssa.Function]bool{}}
	for _, s := range p.SQL().Stmts {
		if s.Fn == nil || s.Site.inLit {
			continue
		}
		switch {
		case strings.HasPrefix(s.St.verb, "OTHER:BEGIN"):
			m.begin[s.Fn] = true
		case strings.HasPrefix(s.St.verb, "OTHER:COMMIT"):
			m.commit[s.Fn] = true
		case strings.HasPrefix(s.St.verb, "OTHER:ROLLBACK"):
			m.rollback[s.Fn] = true
		}
	}
	for _, fn := range p.FuncsInPkg("queue") {
		if m.begin[fn] || m.commit[fn] || m.rollback[fn] {
			continue
		}
		if len(allCalls(fn, m.isBegin)) > 0 {
			m.txFuncs = append(m.txFuncs, fn)
		}
	}
	p.txModel = m
	return m
}

func (m *txModel) isBegin(c ssa.CallInstruction) bool {
	if _, isDefer := c.(*ssa.Defer); isDefer {
		return false
	}
	if f := c.Common().StaticCallee(); f != nil && m.begin[f] {
		return true
	}
	return calleeIs(c, "database/sql", "DB", "BeginTx") || calleeIs(c, "database/sql", "Conn", "BeginTx") || calleeIs(c, "database/sql", "DB", "Begin")
}
func (m *txModel) isCommit(c ssa.CallInstruction) bool {
	if f := c.Common().StaticCallee(); f != nil && m.commit[f] {
		return true
	}
	return calleeIs(c, "database/sql", "Tx", "Commit")
}
func (m *txModel) isRollback(c ssa.CallInstruction) bool {
	if f := c.Common().StaticCallee(); f != nil && m.rollback[f] {
		return true
	}
	return calleeIs(c, "database/sql", "Tx", "Rollback")
}

// errResultKind classifies the error result of a return: "nil", "nonnil", "maybe".
func errResultKind(r *ssa.Return) string {
	fn := r.Parent()
	res := fn.Signature.Results()
	idx := -1
	for i := res.Len() - 1; i >= 0; i-- {
		if types.Identical(res.At(i).Type(), types.Universe.Lookup("error").Type()) {
			idx = i
			break
		}
	}
	if idx < 0 || idx >= len(r.Results) {
		return "none"
	}
	v := r.Results[idx]
	return errValueKind(v, r.Block(), 0)
}

func errValueKind(v ssa.Value, at *ssa.BasicBlock, depth int) string {
	if isNilConst(v) {
		return "nil"
	}
	if depth > 4 {
		return "maybe"
	}
	switch x := v.(type) {
	case *ssa.UnOp:
		if x.Op == token.MUL {
			if _, ok := x.X.(*ssa.Global); ok {
				return "nonnil" // sentinel error variable (ErrQueueFull …)
			}
			if a, ok := x.X.(*ssa.Alloc); ok {
				if sv := reachingStore(a, x); sv != nil {
					return errValueKind(sv, at, depth+1)
				}
			}
		}
	case *ssa.MakeInterface:
		return "nonnil"
	case *ssa.Phi:
		kinds := map[string]bool{}
		for i, e := range x.Edges {
			kinds[errValueKind(e, x.Block().Preds[i], depth+1)] = true
		}
		if len(kinds) == 1 {
			for k := range kinds {
				return k
			}
		}
		return "maybe"
	case *ssa.Call:
		// fmt.Errorf / errors.New always return non-nil
		if calleeIs(x, "fmt", "", "Errorf") || calleeIs(x, "errors", "", "New") {
			return "nonnil"
		}
	}
	// is the block only reachable through an edge that established v != nil?
	o, oi := origin(v)
	fn := at.Parent()
	var nn []Edge
	for _, b := range fn.Blocks {
		for si := range b.Succs {
			a, ok := edgeAtom(Edge{b, si})
			if !ok || !isNilConst(a.Y) || a.Op != token.NEQ {
				continue
			}
			ao, ai := origin(a.X)
			if a.X == v || (ao == o && ai == oi) {
				nn = append(nn, Edge{b, si})
			}
		}
	}
	if len(nn) > 0 {
		av := EdgeSet{}
		av.addAll(nn)
		par := reach([]*ssa.BasicBlock{fn.Blocks[0]}, av, nil)
		if _, reached := par[at]; !reached {
			return "nonnil"
		}
	}
	// wrapped error: value computed by a module function from a non-nil error (mapQueueInsertError(err))
	if c, ok := v.(*ssa.Call); ok {
		for _, a := range c.Call.Args {
			if types.Identical(a.Type(), types.Universe.Lookup("error").Type()) && errValueKind(a, at, depth+1) == "nonnil" {
				return "nonnil-wrapped"
			}
		}
	}
	return "maybe"
}

func checkTxTypestate(c *Ctx, rule string) {
	p := c.P
	m := p.Tx()
	c.Count(rule+".begin_primitives", len(m.begin))
	c.Count(rule+".commit_primitives", len(m.commit))
	c.Count(rule+".rollback_primitives", len(m.rollback))
	c.Floor(rule, "tx_functions", len(m.txFuncs), 13)

	// (6) primitives: nil-error return only after the BEGIN/COMMIT exec succeeded
	for _, s := range p.SQL().Stmts {
		if s.Fn == nil {
			continue
		}
		v := s.St.verb
		if !(strings.HasPrefix(v, "OTHER:BEGIN") || strings.HasPrefix(v, "OTHER:COMMIT")) {
			continue
		}
		call := ssaCallAt(s.Fn, s.Site.call.Lparen)
		key := FuncName(s.Fn) + ":primitive-" + strings.ToLower(strings.TrimPrefix(v, "OTHER:"))
		if call == nil {
			c.Undecided(rule, key, s.Pos, "SSA call for SQL site not found")
			continue
		}
		ok, _, untested := GuardEdges(s.Fn, []ssa.CallInstruction{call}, ErrNil)
		if len(untested) > 0 {
			c.Fail(rule, key, s.Pos, "result of BEGIN/COMMIT exec is not tested")
			continue
		}
		bad := false
		for _, r := range returnsOf(s.Fn) {
			if k := errResultKind(r); k == "nil" || k == "maybe" || k == "none" {
				if okp, path := p.MustPass(s.Fn, r, ok); !okp {
					c.Fail(rule, key, p.InstrPos(r), "success return not dominated by the err==nil edge of the exec", path...)
					bad = true
				}
			}
		}
		if !bad {
			c.Ok(rule, key, s.Pos, "every success return passes the err==nil edge of the exec")
		}
	}

	for _, fn := range m.txFuncs {
		name := FuncName(fn)
		// function literals of the function that are called in it (a local "commit and return" closure, say) are part
		// of it; named helpers stay calls
		fn := p.ViewKeeping(fn, func(callee *ssa.Function) bool { return callee.Parent() == nil })
		begins := allCalls(fn, m.isBegin)
		commits := allCalls(fn, m.isCommit)
		bOK, _, bUntested := GuardEdges(fn, begins, ErrNil)
		cOK, _, cUntested := GuardEdges(fn, commits, ErrNil)
		pos := p.InstrPos(begins[0])
		if len(bUntested) > 0 {
			c.Fail(rule, name+":begin-result-tested", pos, "error result of begin is not tested")
			continue
		}
		if len(commits) == 0 {
			c.Fail(rule, name+":commit-exists", pos, "function begins a transaction but never commits")
			continue
		}
		if len(cUntested) > 0 {
			c.Fail(rule, name+":commit-result-tested", p.InstrPos(cUntested[0]), "error result of commit is not tested")
			continue
		}
		// (1) success returns after begin must pass commit-ok
		nret, bad := 0, false
		for _, r := range returnsOf(fn) {
			k := errResultKind(r)
			if k != "nil" && k != "maybe" && k != "none" {
				continue
			}
			// reachable from begin-ok?
			if okN, _ := p.NoPathFrom(bOK, r, nil); okN {
				continue // before begin
			}
			nret++
			if okN, path := p.NoPathFrom(bOK, r, cOK); !okN {
				c.Fail(rule, name+":success-return-after-commit", p.InstrPos(r), fmt.Sprintf("return with error=%s reachable after begin without passing the commit call's err==nil edge", k), path...)
				bad = true
			}
		}
		if !bad {
			c.Ok(rule, name+":success-return-after-commit", pos, fmt.Sprintf("%d success return(s) after begin, each passes commit err==nil", nret))
		}
		// (3) deferred rollback
		var deferred *ssa.Defer
		var flagCells []ssa.Value
		for _, b := range fn.Blocks {
			for _, ins := range b.Instrs {
				d, ok := ins.(*ssa.Defer)
				if !ok {
					continue
				}
				var target *ssa.Function
				var bindings []ssa.Value
				switch v := d.Call.Value.(type) {
				case *ssa.MakeClosure:
					target, _ = v.Fn.(*ssa.Function)
					bindings = v.Bindings
				case *ssa.Function:
					target = v
				}
				isRb := m.isRollback(d)
				if target != nil && !isRb {
					memo := map[*ssa.Function]bool{}
					isRb = p.FuncReaches(target, m.isRollback, memo)
				}
				if isRb {
					deferred = d
					for _, bv := range bindings {
						if pt, ok := bv.Type().(*types.Pointer); ok {
							if bt, ok := pt.Elem().Underlying().(*types.Basic); ok && bt.Kind() == types.Bool {
								flagCells = append(flagCells, bv)
							}
						}
					}
				}
			}
		}
		if deferred == nil {
			c.Fail(rule, name+":deferred-rollback", pos, "no deferred rollback found after begin")
		} else {
			// every return reachable from begin-ok passes the defer
			var starts []*ssa.BasicBlock
			for _, e := range bOK {
				starts = append(starts, e.To())
			}
			stop := map[*ssa.BasicBlock]bool{deferred.Block(): true}
			par := reach(starts, nil, stop)
			okD := true
			for _, r := range returnsOf(fn) {
				if _, reached := par[r.Block()]; reached && r.Block() != deferred.Block() {
					okD = false
					c.Fail(rule, name+":deferred-rollback", p.InstrPos(r), "return after begin not preceded by the deferred rollback", p.blockPath(par, r.Block())...)
				}
			}
			if okD {
				c.Ok(rule, name+":deferred-rollback", p.InstrPos(deferred), "rollback is deferred on every path after begin")
			}
		}
		// (2) committed flag stores
		nflag := 0
		for _, cell := range flagCells {
			for _, b := range fn.Blocks {
				for _, ins := range b.Instrs {
					st, ok := ins.(*ssa.Store)
					if !ok || st.Addr != cell {
						continue
					}
					cv, isC := st.Val.(*ssa.Const)
					if isC && cv.Value != nil && cv.Value.String() == "false" {
						continue
					}
					nflag++
					fkey := fmt.Sprintf("%s:committed-flag-after-commit#%d", name, nflag)
					if okp, path := p.MustPass(fn, st, cOK); !okp {
						c.Fail(rule, fkey, p.InstrPos(st), "rollback-suppressing flag set without passing the commit call's err==nil edge", path...)
					} else {
						c.Ok(rule, fkey, p.InstrPos(st), "flag set only after commit err==nil")
					}
				}
			}
		}
		if deferred != nil && len(flagCells) == 0 && !m.isRollback(deferred) {
			c.Undecided(rule, name+":committed-flag-after-commit", p.InstrPos(deferred), "deferred rollback closure has no recognisable bool flag")
		}
	}

	// (4)+(5) mutation statements: connection discipline and error discipline
	nmut := 0
	for _, s := range p.SQL().Stmts {
		if !s.IsMutation() || s.Fn == nil {
			continue
		}
		nmut++
		key := p.SQL().Key(s)
		// error discipline: a failed write never reaches a success return
		fn := s.Fn
		var call ssa.CallInstruction
		call = ssaCallAt(fn, s.Site.call.Lparen)
		if call == nil {
			for _, a := range allAnon(fn) {
				if cc := ssaCallAt(a, s.Site.call.Lparen); cc != nil {
					call, fn = cc, a
				}
			}
		}
		if call == nil {
			c.Undecided(rule, key+":write-error-checked", s.Pos, "SSA call for SQL site not found")
			continue
		}
		if sc := rowScanOf(fn, call); sc != nil {
			call = sc // QueryRow(...).Scan(...): the error surfaces at Scan
		}
		_, fail, untested := GuardEdges(fn, []ssa.CallInstruction{call}, ErrNil)
		if len(untested) > 0 {
			// returned directly (tail position)?
			if returnsCallError(fn, call) {
				c.Ok(rule, key+":write-error-checked", s.Pos, "error of the write is returned to the caller unchanged")
			} else {
				c.Fail(rule, key+":write-error-checked", s.Pos, "error result of a mutating SQL statement is neither tested nor returned")
			}
		} else {
			bad := false
			for _, r := range returnsOf(fn) {
				if k := errResultKind(r); k == "nil" {
					// accepted idiom: errors.Is(err, sql.ErrNoRows) => "no row matched", not a failed write
					if okN, path := p.NoPathFrom(fail, r, noRowsEdges(fn)); !okN {
						bad = true
						c.Fail(rule, key+":write-error-checked", p.InstrPos(r), "a failed write reaches a success return", path...)
					}
				}
			}
			if !bad {
				c.Ok(rule, key+":write-error-checked", s.Pos, "err!=nil edge of the write never reaches a nil-error return")
			}
		}
		// connection discipline inside transaction functions
		if isTx(m, s.Fn) && strings.HasPrefix(s.Site.recvKind, "db") && s.Table() == "queue_items" {
			begins := allCalls(s.Fn, m.isBegin)
			bOK, _, _ := GuardEdges(s.Fn, begins, ErrNil)
			if okN, _ := p.NoPathFrom(bOK, call, nil); !okN {
				c.Fail(rule, key+":uses-transaction-connection", s.Pos, "mutation on queue_items after begin uses the pool (*sql.DB) instead of the transaction's connection")
			}
		}
	}
	c.Floor(rule, "mutation_statements", nmut, 40)
}

func isTx(m *txModel, fn *ssa.Function) bool {
	for _, f := range m.txFuncs {
		if f == fn {
			return true
		}
	}
	return false
}

func allAnon(fn *ssa.Function) []*ssa.Function {
	var out []*ssa.Function
	var rec func(f *ssa.Function)
	rec = func(f *ssa.Function) {
		for _, a := range f.AnonFuncs {
			out = append(out, a)
			rec(a)
		}
	}
	rec(fn)
	return out
}

// ssaCallAt finds the call instruction of fn whose call position is lparen.
func ssaCallAt(fn *ssa.Function, lparen token.Pos) ssa.CallInstruction {
	for _, b := range fn.Blocks {
		for _, ins := range b.Instrs {
			if c, ok := ins.(ssa.CallInstruction); ok && c.Common().Pos() == lparen {
				return c
			}
		}
	}
	return nil
}

// returnsCallError: the call's error result flows directly into a return.
func returnsCallError(fn *ssa.Function, call ssa.CallInstruction) bool {
	cv, ok := call.(ssa.Value)
	if !ok {
		return false
	}
	for _, r := range returnsOf(fn) {
		for _, res := range r.Results {
			if !types.Identical(res.Type(), types.Universe.Lookup("error").Type()) {
				continue
			}
			o, _ := origin(res)
			if o == cv {
				return true
			}
		}
	}
	return false
}

// rowScanOf: for a QueryRow call, the (*sql.Row).Scan call on its result.
func rowScanOf(fn *ssa.Function, call ssa.CallInstruction) ssa.CallInstruction {
	cv, ok := call.(ssa.Value)
	if !ok || namedName(cv.Type()) != "Row" {
		return nil
	}
	for _, b := range fn.Blocks {
		for _, ins := range b.Instrs {
			c, ok := ins.(ssa.CallInstruction)
			if ok && calleeIs(c, "database/sql", "Row", "Scan") && len(c.Common().Args) > 0 && c.Common().Args[0] == cv {
				return c
			}
		}
	}
	return nil
}

// noRowsEdges: edges on which errors.Is(err, sql.ErrNoRows) is true.
func noRowsEdges(fn *ssa.Function) []Edge {
	calls := allCalls(fn, func(c ssa.CallInstruction) bool {
		if !calleeIs(c, "errors", "", "Is") || len(c.Common().Args) != 2 {
			return false
		}
		u, ok := c.Common().Args[1].(*ssa.UnOp)
		if !ok {
			return false
		}
		g, ok := u.X.(*ssa.Global)
		return ok && g.Name() == "ErrNoRows" && g.Pkg.Pkg.Path() == "database/sql"
	})
	ok, _, _ := GuardEdges(fn, calls, BoolTrue)
	return ok
}
