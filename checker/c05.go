package main

import (
	"fmt"
	"go/constant"
	"go/token"
	"go/types"
	"sort"
	"strings"

	"golang.org/x/tools/go/ssa"
)

func init() { register("C05", checkC05) }

func checkC05(c *Ctx) {
	c.Rule("C05.R1", "sweep before select: in every backend's dequeue step the expired-lease release dominates candidate selection (SQLite: unless the sweep throttle says no); the throttle clock advances only when a sweep is granted, and a sweep is refused only because (now - last sweep) is below the interval")
	c.Rule("C05.R2", "no hidden filter: candidate selection conjuncts are exactly {state=queued, next_run_at<=now, [route], [target]}, ordered by next_run_at, received_at with the batch as LIMIT; the memory candidate loop skips only on those conditions")
	c.Rule("C05.R3", "visibility times: nack stores next_run_at = now+delay with delay clamped >= 0; lease expiry and operator requeue/resume store next_run_at = now; the dispatcher hands the Store, singly or batched, each message's own delay (batches are grouped by delay)")
	c.Rule("C05.R4", "the constant bounding the SQLite sweep throttle is <= 10ms")
	c.Rule("C05.R5", "dispatcher: every dequeued lease reaches a lease action or, on stop, the requeue of the remaining slice; the classification result flows into the apply call")
	checkSweepBeforeSelect(c, "C05.R1")
	checkCandidateFilter(c, "C05.R2")
	checkVisibilityTimes(c, "C05.R3")
	checkActionOwnParameter(c, "C05.R3")
	checkSweepConstant(c, "C05.R4")
	checkDispatcherNoDrop(c, "C05.R5")
	c.Rule("C05.R6", "the memory store's scan index covers every stored message: each insert into the item table appends the id to the order list Dequeue walks, and the list is only rebuilt by keeping exactly the ids present in the item table (or emptied when the table is empty)")
	checkOrderIndexIntegrity(c, "C05.R6")
}

// sqlLeadColumn: the column a WHERE conjunct tests — its first identifier, inside parentheses and a cte: mark.
func sqlLeadColumn(w string) string {
	w = strings.ToLower(strings.TrimSpace(strings.TrimPrefix(w, "cte:")))
	w = strings.TrimLeft(w, "( ")
	i := 0
	for i < len(w) && (w[i] == '_' || w[i] == '.' || (w[i] >= 'a' && w[i] <= 'z') || (w[i] >= '0' && w[i] <= '9')) {
		i++
	}
	col := w[:i]
	if j := strings.LastIndex(col, "."); j >= 0 {
		col = col[j+1:]
	}
	return col
}

// expireStmtFns: functions containing an EXPIRE statement (UPDATE … state=queued WHERE state=leased AND lease_until <= now).
func expireStmts(p *Program, backend string) []*SQLStmt {
	var out []*SQLStmt
	seen := map[*SQLStmt]bool{}
	for _, t := range p.sqlTransitions(backend) {
		if seen[t.Stmt] || t.Kind != "store" || t.To != "queued" || !t.HasFrom || t.From != ssParse("leased") {
			continue
		}
		if _, _, ok := conjOn(t.Stmt, "lease_until"); ok {
			if _, _, hasLease := conjOn(t.Stmt, "lease_id"); !hasLease {
				seen[t.Stmt] = true
				out = append(out, t.Stmt)
			}
		}
	}
	return out
}

func checkSweepBeforeSelect(c *Ctx, rule string) {
	p := c.P
	m := p.SQL()
	for _, be := range []string{"sqlite", "postgres"} {
		exp := expireStmts(p, be)
		if len(exp) == 0 {
			c.Fail(rule, be+":expire-statement", "", "no EXPIRE statement (leased→queued on lease_until <= now) found")
			continue
		}
		expFns := map[*ssa.Function]bool{}
		for _, s := range exp {
			expFns[s.Fn] = true
			// comparator and clock of the sweep
			op, operand, _ := conjOn(s, "lease_until")
			k := "other"
			if ex := m.operandExpr(s, operand); ex != nil {
				k, _ = p.ClockKind(ex, s.Decl)
			}
			c.Check(op == "<=" && k == "now", rule, m.Key(s)+":expired-iff-lease_until<=now", s.Pos, "lease_until <= now", fmt.Sprintf("sweep condition is `lease_until %s %s` (%s); must be `<= now`", op, m.R(s, operand), k))
		}
		// candidate statements of this backend
		var cands []*SQLStmt
		for _, s := range m.Stmts {
			if s.Backend != be || s.Table() != "queue_items" || s.Fn == nil {
				continue
			}
			if strings.HasPrefix(s.St.verb, "WITH-") {
				cands = append(cands, s)
			} else if s.Verb() == "SELECT" {
				if _, _, ok := conjOn(s, "next_run_at"); ok {
					cands = append(cands, s)
				}
			}
		}
		// the transaction function(s) from which both are reached
		tx := p.Tx()
		n := 0
		for _, fn := range tx.txFuncs {
			reachExp := func(ci ssa.CallInstruction) bool {
				f := ci.Common().StaticCallee()
				if f == nil {
					return false
				}
				for g := range p.Reach(f) {
					if expFns[g] {
						return true
					}
				}
				return false
			}
			expCalls := allCalls(fn, reachExp)
			var candSites []ssa.Instruction
			for _, s := range cands {
				if s.Fn == fn {
					if ci := ssaCallAt(fn, s.Site.call.Lparen); ci != nil {
						candSites = append(candSites, ci)
					}
				}
			}
			for _, ci := range allCalls(fn, func(ci ssa.CallInstruction) bool {
				f := ci.Common().StaticCallee()
				if f == nil || !IsModuleFunc(f) {
					return false
				}
				// the callee holds a candidate selection itself or through the package functions it calls (the choice
				// of leasing statement may sit in a step of its own); a search, not a root for the T1 audit
				was := p.auditing
				p.auditing = true
				defer func() { p.auditing = was }()
				reachF := p.Reach(f)
				for _, s := range cands {
					if s.Fn == f || (s.Fn != nil && reachF[s.Fn] && f != fn) {
						return true
					}
				}
				return false
			}) {
				// not the sweep call itself
				isExp := false
				for _, ec := range expCalls {
					if ec == ci {
						isExp = true
					}
				}
				if !isExp {
					candSites = append(candSites, ci)
				}
			}
			if len(expCalls) == 0 || len(candSites) == 0 {
				continue
			}
			n++
			// throttle: a bool call whose true edge dominates the expire call
			var skipEdges []Edge
			var throttle *ssa.Function
			for _, ec := range expCalls {
				for _, b := range fn.Blocks {
					for i := range b.Succs {
						a, ok := edgeAtom(Edge{b, i})
						if !ok || !isBoolTrue(a.Y) {
							continue
						}
						call, ok := a.X.(*ssa.Call)
						if !ok || call.Call.StaticCallee() == nil || !IsModuleFunc(call.Call.StaticCallee()) {
							continue
						}
						if a.Op == token.EQL {
							if okp, _ := p.MustPass(fn, ec, []Edge{{b, i}}); okp {
								throttle = call.Call.StaticCallee()
								skipEdges = append(skipEdges, Edge{b, 1 - i})
							}
						}
					}
				}
			}
			stop := map[*ssa.BasicBlock]bool{}
			for _, ec := range expCalls {
				stop[ec.Block()] = true
			}
			av := EdgeSet{}
			av.addAll(skipEdges)
			par := reach([]*ssa.BasicBlock{fn.Blocks[0]}, av, stop)
			bad := false
			for _, cs := range candSites {
				if _, reached := par[cs.Block()]; reached && !stop[cs.Block()] {
					bad = true
					c.Fail(rule, be+"."+fn.Name()+":sweep-dominates-candidate-selection", p.InstrPos(cs), "candidate selection reachable without the expired-lease sweep (or its throttle decision)", p.blockPath(par, cs.Block())...)
				}
			}
			if !bad {
				d := "unconditionally"
				if throttle != nil {
					d = "unless throttle " + throttle.Name() + " returns false"
				}
				c.Ok(rule, be+"."+fn.Name()+":sweep-dominates-candidate-selection", p.Pos(fn.Pos()), fmt.Sprintf("%d candidate selection site(s) all after the sweep (%s)", len(candSites), d))
			}
			if throttle != nil {
				checkThrottleClock(c, rule, throttle)
				// one throttle for the whole store: the sweep it grants must release every expired lease, not only
				// those of the caller's route/target (the refused callers rely on the sweep that was granted)
				for _, s := range exp {
					var extra []string
					for _, w := range append(append([]string(nil), s.St.where...), s.St.optWhere...) {
						col := sqlLeadColumn(w)
						if col != "state" && col != "lease_until" {
							extra = append(extra, sqNorm(w))
						}
					}
					c.Check(len(extra) == 0, rule, m.Key(s)+":the throttled sweep releases every expired lease", s.Pos,
						"conjuncts on state and lease_until only",
						fmt.Sprintf("the sweep granted by the store-wide throttle %s is narrowed by %s: an expired lease outside that filter is not released, and the throttle refuses the sweep of the caller that would have released it (its message is not offered although it is due)", throttle.Name(), strings.Join(extra, " AND ")))
				}
			}
		}
		c.Check(n > 0, rule, be+":dequeue-transaction-found", "", fmt.Sprintf("%d transaction function(s) with sweep and candidate selection", n), "no transaction function contains both the sweep and the candidate selection")
	}
	// memory: a call reaching the expiry store dominates the lease store
	p.memoryTransitions()
	sf := p.memFlow
	var leaseStore ssa.Instruction
	var fn *ssa.Function
	for i := range sf.Events {
		e := &sf.Events[i]
		if e.Kind == "store" && e.ToStr == "{leased}" {
			leaseStore, fn = e.Instr, e.Fn
		}
	}
	if leaseStore == nil {
		c.Fail(rule, "memory:lease-store", "", "memory lease store not found")
		return
	}
	expCalls := allCalls(fn, func(ci ssa.CallInstruction) bool {
		f := ci.Common().StaticCallee()
		if f == nil || !IsModuleFunc(f) {
			return false
		}
		for i := range sf.Events {
			e := &sf.Events[i]
			if e.Kind == "store" && e.ToStr == "{queued}" && e.From == ssParse("leased") && e.Root == fn.Name() && strings.Contains(e.Chain, f.Name()) {
				return true
			}
		}
		return false
	})
	var through []ssa.Instruction
	for _, ec := range expCalls {
		through = append(through, ec)
	}
	// the sweep expanded into the operation itself: the loop (or statement) that releases expired leases
	for i := range sf.Events {
		e := &sf.Events[i]
		if e.Fn != fn || e.Kind != "store" || e.ToStr != "{queued}" || e.From != ssParse("leased") {
			continue
		}
		if h := loopHeaderOf(e.Instr.Block()); h != nil && !loopBody(h)[leaseStore.Block()] {
			through = append(through, h.Instrs[0])
		} else if h == nil {
			through = append(through, e.Instr)
		}
	}
	okp, path := p.MustPassInstr(fn, leaseStore, through)
	if okp && len(through) > 0 {
		c.Ok(rule, "memory.Dequeue:sweep-dominates-candidate-selection", p.InstrPos(leaseStore), "expired leases are released before candidates are examined")
	} else {
		c.Fail(rule, "memory.Dequeue:sweep-dominates-candidate-selection", p.InstrPos(leaseStore), "memory lease store reachable without releasing expired leases first", path...)
	}
}

// checkThrottleClock: in the throttle predicate, the sweep clock is advanced only on paths that return true.
func checkThrottleClock(c *Ctx, rule string, fn *ssa.Function) {
	p := c.P
	key := FuncName(fn) + ":clock-advances-only-when-granted"
	writers := allCalls(fn, func(ci ssa.CallInstruction) bool {
		f := ci.Common().StaticCallee()
		if f == nil || f.Pkg == nil || f.Pkg.Pkg.Path() != "sync/atomic" {
			return false
		}
		n := f.Name()
		return strings.HasPrefix(n, "Store") || strings.HasPrefix(n, "Swap") || strings.HasPrefix(n, "Add") || strings.HasPrefix(n, "CompareAndSwap")
	})
	// plain field stores count too
	var plain []ssa.Instruction
	for _, b := range fn.Blocks {
		for _, ins := range b.Instrs {
			if st, ok := ins.(*ssa.Store); ok {
				if _, ok := st.Addr.(*ssa.FieldAddr); ok {
					plain = append(plain, st)
				}
			}
		}
	}
	if len(writers) == 0 && len(plain) == 0 {
		c.Fail(rule, key, p.Pos(fn.Pos()), "throttle predicate never advances its clock")
		return
	}
	bad := false
	check := func(w ssa.Instruction, isCAS bool) {
		for _, r := range returnsOf(fn) {
			reachable := r.Block() == w.Block() && instrIndex(w) < instrIndex(r)
			if !reachable {
				par := reach(w.Block().Succs, nil, nil)
				_, reachable = par[r.Block()]
			}
			if !reachable {
				continue
			}
			v := r.Results[0]
			if cst, ok := v.(*ssa.Const); ok && cst.Value != nil && cst.Value.String() == "true" && !isCAS {
				continue
			}
			if isCAS {
				// returning the CAS result itself: clock advanced ⇔ true
				if o, _ := origin(v); o == w.(ssa.Value) {
					continue
				}
			}
			bad = true
			c.Fail(rule, key, p.InstrPos(w), fmt.Sprintf("the sweep clock is written on a path that can return false (return at %s) — a dequeue that does not sweep would still postpone the next sweep", p.InstrPos(r)))
		}
	}
	for _, w := range writers {
		check(w, strings.HasPrefix(w.Common().StaticCallee().Name(), "CompareAndSwap"))
	}
	for _, w := range plain {
		check(w, false)
	}
	if !bad {
		c.Ok(rule, key, p.Pos(fn.Pos()), fmt.Sprintf("%d clock write(s), each only on a granted sweep", len(writers)+len(plain)))
	}
	// the only reason to refuse a sweep is the granularity throttle: every path returning constant false has
	// established (now - last sweep) < interval; state other than the clock (counters, flags) must not suppress the sweep,
	// because leases written by an earlier process expire without this process ever having issued one
	nRef := 0
	for _, pa := range enumeratePaths(fn.Blocks[0], 500) {
		v := resolveOnPath(pa.Ret.Results[0], pa)
		cst, isC := v.(*ssa.Const)
		if !isC || cst.Value == nil || cst.Value.String() != "false" {
			continue
		}
		nRef++
		timeBased := false
		var conds []string
		for _, pc := range pathConds(pa) {
			bo, ok := pc.Cond.(*ssa.BinOp)
			if !ok {
				conds = append(conds, shortVal(pc.Cond))
				continue
			}
			conds = append(conds, fmt.Sprintf("%s %s %s = %v", shortVal(bo.X), bo.Op, shortVal(bo.Y), pc.Val))
			for _, side := range []ssa.Value{bo.X, bo.Y} {
				if sub, ok := side.(*ssa.BinOp); ok && sub.Op == token.SUB {
					nowSide := valueDerivesFromParam(sub.X, fn, 0)
					lastSide := valueReadsReceiverField(sub.Y, 0)
					less := (bo.Op == token.LSS || bo.Op == token.LEQ) == pc.Val
					if side == bo.Y {
						less = (bo.Op == token.GTR || bo.Op == token.GEQ) == pc.Val
					}
					if nowSide && lastSide && less {
						timeBased = true
					}
				}
			}
		}
		c.Check(timeBased, rule, fmt.Sprintf("%s:refusal#%d is the granularity throttle", FuncName(fn), nRef), p.InstrPos(pa.Ret),
			"refuses only when (now - last sweep) is below the interval",
			"a sweep of expired leases can be refused on a path that never compared (now - last sweep) with the interval ["+strings.Join(conds, " ∧ ")+"]: expired leases — including ones inherited from a previous process — may never be released")
	}
	c.Floor(rule, "throttle refusal paths", nRef, 1)
}

func valueDerivesFromParam(v ssa.Value, fn *ssa.Function, depth int) bool {
	if depth > 6 || v == nil {
		return false
	}
	switch x := v.(type) {
	case *ssa.Parameter:
		return x != fn.Params[0] || fn.Signature.Recv() == nil
	case *ssa.Call:
		for _, a := range x.Call.Args {
			if valueDerivesFromParam(a, fn, depth+1) {
				return true
			}
		}
	case *ssa.Convert:
		return valueDerivesFromParam(x.X, fn, depth+1)
	case *ssa.UnOp:
		if al, ok := x.X.(*ssa.Alloc); ok {
			if sp := spilledParam(al); sp != nil {
				return valueDerivesFromParam(sp, fn, depth+1)
			}
		}
		return valueDerivesFromParam(x.X, fn, depth+1)
	}
	return false
}

func valueReadsReceiverField(v ssa.Value, depth int) bool {
	if depth > 6 || v == nil {
		return false
	}
	switch x := v.(type) {
	case *ssa.Call:
		for _, a := range x.Call.Args {
			if valueReadsReceiverField(a, depth+1) {
				return true
			}
		}
	case *ssa.FieldAddr:
		return true
	case *ssa.Convert:
		return valueReadsReceiverField(x.X, depth+1)
	case *ssa.UnOp:
		return valueReadsReceiverField(x.X, depth+1)
	}
	return false
}

func checkCandidateFilter(c *Ctx, rule string) {
	p := c.P
	m := p.SQL()
	n := 0
	for _, s := range m.Stmts {
		if s.Table() != "queue_items" || s.Fn == nil {
			continue
		}
		isCand := strings.HasPrefix(s.St.verb, "WITH-")
		if s.Verb() == "SELECT" {
			if _, _, ok := conjOn(s, "next_run_at"); ok {
				isCand = true
			}
		}
		if !isCand {
			continue
		}
		n++
		key := m.Key(s) + ":candidate"
		allowed := map[string]bool{"state": true, "next_run_at": true, "route": true, "target": true}
		var extra []string
		check := func(w string, opt bool) {
			isCTE := strings.HasPrefix(w, "cte:")
			w = strings.TrimPrefix(w, "cte:")
			if strings.HasPrefix(s.St.verb, "WITH-") && !isCTE && !opt {
				return // the outer UPDATE's own WHERE (id = (SELECT id FROM candidate))
			}
			f := strings.Fields(strings.ToLower(w))
			if len(f) == 0 || !allowed[f[0]] {
				extra = append(extra, w)
			}
		}
		for _, w := range s.St.where {
			check(w, false)
		}
		for _, w := range s.St.optWhere {
			check(w, true)
		}
		c.Check(len(extra) == 0, rule, key+"-conjuncts", s.Pos, "conjuncts ⊆ {state, next_run_at, route, target}", "candidate selection has an additional filter that can hide ready messages: "+strings.Join(extra, " AND "))
		ob := strings.ToLower(strings.TrimPrefix(s.St.orderBy, "cte:"))
		ob = strings.Join(strings.Fields(ob), " ")
		okOrder := strings.HasPrefix(ob, "next_run_at asc, received_at asc") || strings.HasPrefix(ob, "next_run_at, received_at")
		c.Check(okOrder, rule, key+"-order", s.Pos, "ORDER BY "+ob, "candidate order is `"+ob+"`; must start with next_run_at, received_at ascending")
		lim := strings.TrimPrefix(s.St.limit, "cte:")
		c.Check(lim != "", rule, key+"-limit", s.Pos, "LIMIT "+m.R(s, lim), "candidate selection has no LIMIT")
	}
	c.Floor(rule, "sql_candidate_selections", n, 3)

	// memory: conditions in the candidate loop
	p.memoryTransitions()
	sf := p.memFlow
	for i := range sf.Events {
		e := &sf.Events[i]
		if e.Kind != "store" || e.ToStr != "{leased}" {
			continue
		}
		fn := e.Fn
		st := e.Instr
		h := loopHeaderOf(st.Block())
		if h == nil {
			c.Fail(rule, "memory.Dequeue:candidate-loop", p.InstrPos(st), "lease store is not inside a candidate loop")
			continue
		}
		// blocks of the loop that can reach the store without leaving through h
		inLoop := reach([]*ssa.BasicBlock{h}, nil, nil)
		var conds []string
		bad := false
		for _, b := range fn.Blocks {
			if _, ok := inLoop[b]; !ok || !h.Dominates(b) {
				continue
			}
			ifi, ok := b.Instrs[len(b.Instrs)-1].(*ssa.If)
			if !ok {
				continue
			}
			// only conditions on the way to the store
			par := reach([]*ssa.BasicBlock{b}, nil, map[*ssa.BasicBlock]bool{h: true})
			if _, ok := par[st.Block()]; !ok {
				continue
			}
			a := condAtom(ifi.Cond, true)
			desc, okc := memoryCandidateCond(a)
			conds = append(conds, desc)
			if !okc {
				bad = true
				c.Fail(rule, "memory.Dequeue:candidate-loop-condition", p.InstrPos(ifi), "condition in the candidate loop is not one of {nil item, state, route, target, NextRunAt vs now, batch full, range bound}: "+desc)
			}
		}
		sort.Strings(conds)
		if !bad {
			c.Ok(rule, "memory.Dequeue:candidate-loop-conditions", p.InstrPos(st), "loop conditions: "+strings.Join(dedup(conds), "; "))
		}
	}
}

func memoryCandidateCond(a Atom) (string, bool) {
	xs, _ := symOf(a.X)
	ys, _ := symOf(a.Y)
	if c, ok := a.Y.(*ssa.Const); ok {
		if c.Value == nil {
			ys = "nil"
		} else {
			ys = c.Value.ExactString()
		}
	}
	desc := fmt.Sprintf("%s %s %s", xs, a.Op, ys)
	if xs == "" {
		desc = fmt.Sprintf("%s %s %s", a.X.String(), a.Op, ys)
	}
	if call, ok := a.X.(*ssa.Call); ok && len(call.Call.Args) > 0 {
		if calleeIs(call, "time", "Time", "After") || calleeIs(call, "time", "Time", "IsZero") {
			if _, f, ok := fieldOfLoad(call.Call.Args[0]); ok && f == "NextRunAt" {
				return "NextRunAt." + call.Call.StaticCallee().Name() + "(…) " + a.Op.String() + " true", true
			}
		}
	}
	for _, v := range []ssa.Value{a.X, a.Y} {
		for {
			if ct, ok := v.(*ssa.ChangeType); ok {
				v = ct.X
				continue
			}
			break
		}
		if tn, f, ok := fieldOfLoad(v); ok && tn == "Envelope" && (f == "State" || f == "Route" || f == "Target") {
			return "item." + f + " " + a.Op.String() + " …", true
		}
	}
	switch {
	case isNilConst(a.Y): // env == nil
		return desc, true
	case strings.HasSuffix(xs, ".State"):
		return desc, true
	case strings.HasSuffix(xs, ".Route") || strings.HasSuffix(ys, ".Route"):
		return desc, true
	case strings.HasSuffix(xs, ".Target") || strings.HasSuffix(ys, ".Target"):
		return desc, true
	case strings.Contains(xs, "IsZero(") && strings.Contains(xs, ".NextRunAt"):
		return desc, true
	case strings.Contains(xs, "After(") && strings.Contains(xs, ".NextRunAt"):
		return desc, true
	}
	// len(out) >= batch, range index < len
	if bo, ok := a.X.(*ssa.Call); ok {
		if bi, ok := bo.Call.Value.(*ssa.Builtin); ok && bi.Name() == "len" {
			return "len(...) " + a.Op.String() + " …", true
		}
	}
	if _, ok := a.Y.(*ssa.Call); ok {
		if lenArg(a.Y) != nil {
			return "index " + a.Op.String() + " len(...)", true
		}
	}
	if _, ok := a.X.(*ssa.BinOp); ok {
		return "range index", true
	}
	if _, ok := a.X.(*ssa.Phi); ok {
		return "loop variable " + a.Op.String(), true
	}
	return desc, false
}

func checkVisibilityTimes(c *Ctx, rule string) {
	p := c.P
	m := p.SQL()
	n := 0
	seen := map[*SQLStmt]bool{}
	for _, be := range []string{"sqlite", "postgres"} {
		for _, t := range p.sqlTransitions(be) {
			if seen[t.Stmt] || t.Kind != "store" || t.To != "queued" {
				continue
			}
			seen[t.Stmt] = true
			rhs, ok := t.Stmt.St.set["next_run_at"]
			key := m.Key(t.Stmt) + ":next_run_at"
			if !ok {
				c.Fail(rule, key, t.Pos, "transition to queued does not set next_run_at")
				continue
			}
			ex := m.operandExpr(t.Stmt, rhs)
			if ex == nil {
				c.Fail(rule, key, t.Pos, "next_run_at not bound to a Go expression: "+rhs)
				continue
			}
			n++
			k, d := p.ClockKind(ex, t.Stmt.Decl)
			isNack := (t.Root == "Nack" || t.Root == "NackBatch") && t.Stmt.Fn != nil && strings.HasPrefix(t.Stmt.Fn.Name(), "Nack")
			if isNack {
				okClamp := delayClamped(p, t.Stmt)
				c.Check(k == "now+d" && okClamp, rule, key+"=now+delay", t.Pos, "next_run_at = now + "+d+" with the delay clamped at 0", fmt.Sprintf("nack visibility is %s (delay clamp found=%v); must be now+delay with delay >= 0", k, okClamp))
			} else {
				c.Check(k == "now", rule, key+"=now", t.Pos, "next_run_at = now", "requeue/expiry visibility is "+k+"; must be now")
			}
		}
	}
	c.Floor(rule, "sql_transitions_to_queued", n, 12)
	// memory: stores to NextRunAt in blocks that store State = queued
	p.memoryTransitions()
	sf := p.memFlow
	nm := 0
	doneIns := map[ssa.Instruction]bool{}
	for i := range sf.Events {
		e := &sf.Events[i]
		if e.Kind != "store" || e.ToStr != "{queued}" || doneIns[e.Instr] {
			continue
		}
		doneIns[e.Instr] = true
		st := e.Instr.(*ssa.Store)
		ptr := st.Addr.(*ssa.FieldAddr).X
		var val ssa.Value
		// NextRunAt store through the same pointer, in the same block or a successor chain
		blocks := []*ssa.BasicBlock{st.Block()}
		par := reach(st.Block().Succs, nil, nil)
		for b := range par {
			blocks = append(blocks, b)
		}
		for _, b := range blocks {
			for _, ins := range b.Instrs {
				if s2, ok := ins.(*ssa.Store); ok {
					if fa, ok := s2.Addr.(*ssa.FieldAddr); ok && fa.X == ptr {
						if _, f, _ := fieldAddrName(fa); f == "NextRunAt" && val == nil {
							val = s2.Val
						}
					}
				}
			}
		}
		nm++
		key := fmt.Sprintf("memory.%s:%s", e.Fn.Name(), "next_run_at")
		if val == nil {
			c.Fail(rule, key, p.InstrPos(st), "transition to queued does not set NextRunAt")
			continue
		}
		isNack := strings.HasPrefix(e.Fn.Name(), "Nack")
		if isNack {
			// the release of an expired lease inside a nack operation is not the nack itself
			if exp := expiredEdges(e.Fn); len(exp) > 0 {
				if only, _ := p.MustPass(e.Fn, st, exp); only {
					isNack = false
				}
			}
		}
		if call, ok := val.(*ssa.Call); ok && calleeIs(call, "time", "Time", "Add") {
			c.Check(isNack, rule, key+"=now+delay", p.InstrPos(st), "NextRunAt = now.Add(delay)", "non-nack transition to queued delays visibility with Add()")
		} else {
			c.Check(!isNack, rule, key+"=now", p.InstrPos(st), "NextRunAt = now", "nack does not store now.Add(delay)")
		}
	}
	c.Floor(rule, "memory_transitions_to_queued", nm, 8)
}

// delayClamped: the enclosing method contains `if delay < 0 { delay = 0 }` for its Duration parameter.
func delayClamped(p *Program, s *SQLStmt) bool {
	if s.Fn == nil {
		return false
	}
	for _, fn := range append([]*ssa.Function{s.Fn}, allAnon(s.Fn)...) {
		for _, b := range fn.Blocks {
			for i := range b.Succs {
				a, ok := edgeAtom(Edge{b, i})
				if ok && a.Op == token.LSS && isIntConst(a.Y, 0) {
					if namedName(a.X.Type()) == "Duration" {
						return true
					}
				}
			}
			// delay = max(delay, 0)
			for _, ins := range b.Instrs {
				if call, ok := ins.(*ssa.Call); ok {
					if bi, ok := call.Call.Value.(*ssa.Builtin); ok && bi.Name() == "max" && namedName(call.Type()) == "Duration" {
						for _, a := range call.Call.Args {
							if isIntConst(a, 0) {
								return true
							}
						}
					}
				}
			}
		}
	}
	return false
}

func checkSweepConstant(c *Ctx, rule string) {
	p := c.P
	// constants of type time.Duration referenced by the throttle function
	n := 0
	pk := p.Pkg("queue")
	for _, s := range expireStmts(p, "sqlite") {
		_ = s
	}
	for id, obj := range pk.TypesInfo.Uses {
		cst, ok := obj.(*types.Const)
		if !ok || cst.Pkg() != pk.Types || namedName(cst.Type()) != "Duration" {
			continue
		}
		// used inside a bool method of SQLiteStore that touches sync/atomic (the throttle)
		fnObj := enclosingFuncObj(p, pk.TypesInfo, id.Pos(), pk)
		if fnObj == nil {
			continue
		}
		sf := p.SSA.FuncValue(fnObj)
		if sf == nil || sf.Signature.Results().Len() != 1 || !types.Identical(sf.Signature.Results().At(0).Type(), types.Typ[types.Bool]) {
			continue
		}
		if len(allCalls(sf, func(ci ssa.CallInstruction) bool {
			f := ci.Common().StaticCallee()
			return f != nil && f.Pkg != nil && f.Pkg.Pkg.Path() == "sync/atomic"
		})) == 0 {
			continue
		}
		n++
		v, _ := constant.Int64Val(cst.Val())
		c.Check(v > 0 && v <= 10_000_000, rule, "queue."+cst.Name()+"<=10ms", p.Pos(cst.Pos()), fmt.Sprintf("%s = %dns", cst.Name(), v), fmt.Sprintf("sweep throttle bound %s = %dns exceeds the documented 10ms granularity", cst.Name(), v))
	}
	c.Floor(rule, "throttle_constants", n, 1)
}

func enclosingFuncObj(p *Program, info *types.Info, pos token.Pos, pk interface{}) *types.Func {
	p.ensureDecls()
	for obj, fd := range p.declCache {
		if fd.Body != nil && fd.Pos() <= pos && pos <= fd.End() {
			return obj
		}
	}
	return nil
}

func checkDispatcherNoDrop(c *Ctx, rule string) {
	p := c.P
	// the route loop: the function in dispatcher invoking Store.Dequeue
	var loopFn *ssa.Function
	for _, fn := range p.FuncsInPkg("dispatcher") {
		if len(allCalls(fn, func(ci ssa.CallInstruction) bool { return isInvokeOf(ci, queuePath, "Store", "Dequeue") })) > 0 {
			loopFn = fn
		}
	}
	if loopFn == nil {
		c.Fail(rule, "dispatcher:route-loop", "", "no dispatcher function invokes Store.Dequeue")
		return
	}
	name := FuncName(loopFn)
	isSettle := func(ci ssa.CallInstruction) bool {
		com := ci.Common()
		return com.IsInvoke() && namedPkgPath(com.Value.Type()) == queuePath && (storeLeaseMethods[com.Method.Name()] || strings.HasSuffix(com.Method.Name(), "Batch"))
	}
	memo := map[*ssa.Function]bool{}
	settleCalls := allCalls(loopFn, func(ci ssa.CallInstruction) bool {
		f := ci.Common().StaticCallee()
		return f != nil && IsModuleFunc(f) && p.FuncReaches(f, isSettle, memo)
	})
	c.Count(rule+".settle_reaching_calls", len(settleCalls))
	// every return reachable after a successful, non-empty dequeue must be preceded by a settle-reaching call taking the remaining slice
	deq := allCalls(loopFn, func(ci ssa.CallInstruction) bool { return isInvokeOf(ci, queuePath, "Store", "Dequeue") })
	okE, _, _ := GuardEdges(loopFn, deq, ErrNil)
	bad := false
	nRet := 0
	var itemHeader *ssa.BasicBlock
	for _, ci := range allCalls(loopFn, func(ci ssa.CallInstruction) bool {
		f := ci.Common().StaticCallee()
		return f != nil && IsModuleFunc(f) && p.FuncReaches(f, func(x ssa.CallInstruction) bool { return isInvokeOf(x, dispPath, "Deliverer", "Deliver") }, map[*ssa.Function]bool{})
	}) {
		itemHeader = loopHeaderOf(ci.Block())
	}
	for _, r := range returnsOf(loopFn) {
		if okn, _ := p.NoPathFrom(okE, r, nil); okn {
			continue
		}
		if itemHeader == nil || !itemHeader.Dominates(r.Block()) {
			continue // not inside the loop over the dequeued items
		}
		// is this return inside the item loop (after Dequeue ok in the same iteration)? It is if it is reachable from okE without passing the Dequeue call again.
		stop := map[*ssa.BasicBlock]bool{deq[0].Block(): true}
		var starts []*ssa.BasicBlock
		for _, e := range okE {
			starts = append(starts, e.To())
		}
		par := reach(starts, nil, stop)
		if _, in := par[r.Block()]; !in {
			continue
		}
		nRet++
		var through []ssa.Instruction
		for _, sc := range settleCalls {
			if hasSliceArg(sc) {
				through = append(through, sc)
			}
		}
		// the requeue call must be in the return's block or dominate it from after the dequeue
		found := false
		for _, t := range through {
			if t.Block() == r.Block() && instrIndex(t) < instrIndex(r) {
				found = true
			}
		}
		if !found {
			bad = true
			c.Fail(rule, name+":stop-path-requeues-remaining", p.InstrPos(r), "a return inside the item loop is not preceded by the requeue of the remaining leases")
		}
	}
	if !bad {
		c.Ok(rule, name+":stop-path-requeues-remaining", p.Pos(loopFn.Pos()), fmt.Sprintf("%d stop return(s) inside the item loop, each preceded by the requeue of the remaining slice", nRet))
	}
	// every iteration of the item loop reaches a settle-reaching call (or appends the action to the batch list)
	if len(settleCalls) > 0 {
		// item loop header: innermost loop containing the classification call
		var classifyCall ssa.CallInstruction
		for _, ci := range allCalls(loopFn, func(ci ssa.CallInstruction) bool {
			f := ci.Common().StaticCallee()
			return f != nil && IsModuleFunc(f) && p.FuncReaches(f, func(x ssa.CallInstruction) bool { return isInvokeOf(x, dispPath, "Deliverer", "Deliver") }, map[*ssa.Function]bool{})
		}) {
			classifyCall = ci
		}
		if classifyCall == nil {
			c.Fail(rule, name+":classification-call", p.Pos(loopFn.Pos()), "no call reaching Deliverer.Deliver in the route loop")
			return
		}
		// the classification result must flow into a settle-reaching call or into the batch list
		cv := classifyCall.(ssa.Value)
		flows := false
		for _, ref := range *cv.Referrers() {
			switch x := ref.(type) {
			case ssa.CallInstruction:
				for _, sc := range settleCalls {
					if sc == x {
						flows = true
					}
				}
			case *ssa.Store:
				flows = true // stored into the varargs array of append(actions, action) / local
			}
		}
		c.Check(flows, rule, name+":classification-result-applied", p.InstrPos(classifyCall), "the lease action returned by the classification is passed to the apply step", "the classification result is dropped (no lease action applied)")
		h := loopHeaderOf(classifyCall.Block())
		if h != nil {
			// every path around the item loop passes a settle-reaching call or an append to the batch list
			stop := map[*ssa.BasicBlock]bool{h: true}
			for _, sc := range settleCalls {
				stop[sc.Block()] = true
			}
			for _, ci := range allCalls(loopFn, func(ci ssa.CallInstruction) bool {
				bi, ok := ci.Common().Value.(*ssa.Builtin)
				return ok && bi.Name() == "append"
			}) {
				stop[ci.Block()] = true
			}
			okIter := true
			body := loopBody(h)
			for _, b := range loopFn.Blocks {
				if !body[b] {
					stop[b] = true
				}
			}
			for _, s := range h.Succs {
				if (stop[s] && s != h) || !body[s] {
					continue
				}
				par := reach([]*ssa.BasicBlock{s}, nil, stop)
				if _, back := par[h]; back && h.Dominates(s) {
					okIter = false
					c.Fail(rule, name+":every-item-settled", p.Pos(loopFn.Pos()), "an iteration over the dequeued items can finish without applying or queueing a lease action", p.blockPath(par, h)...)
				}
			}
			if okIter {
				c.Ok(rule, name+":every-item-settled", p.Pos(loopFn.Pos()), "every iteration over the dequeued items applies or batches a lease action")
			}
		}
	}
}
