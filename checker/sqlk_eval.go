// K4 (part 1): reconstruct SQL text + argument lists from Go source (AST + types).
package main

import (
	"fmt"
	"go/ast"
	"go/constant"
	"go/token"
	"go/types"
	"strings"

	"golang.org/x/tools/go/packages"
)

// ---- abstract values -------------------------------------------------------

type sqSegKind int

const (
	segConst  sqSegKind = iota // literal SQL text
	segOpaque                // unknown text (e.g. placeholder list)
	segParam                 // reference to a string parameter of the enclosing function
	segOpt                   // optional sub-sequence (added under an if)
	segAlt                   // one of several constant alternatives
)

type sqSeg struct {
	kind sqSegKind
	text string
	sub  []sqSeg
	cond ast.Node
	alts []string
	par  *types.Var
}

type sqArgKind int

const (
	argExpr   sqArgKind = iota
	argOpt            // optional items (appended under an if)
	argRepeat         // appended in a loop
	argSpread         // spread of a slice parameter
)

type sqArg struct {
	kind sqArgKind
	expr ast.Expr
	sub  []sqArg
	cond ast.Node
	par  *types.Var
}

type sqValue struct {
	str  []sqSeg
	args []sqArg
	isS  bool
	isA  bool
}

type sqSite struct {
	inst     bool        // produced by instantiating a parametric helper at a call site
	fn       string
	decl     *types.Func // enclosing top-level function
	inLit    bool        // inside a function literal of decl
	rowsVar  *types.Var  // variable the *sql.Rows result was assigned to
	pos      token.Position
	call     *ast.CallExpr
	query    []sqSeg
	args     []sqArg
	recvKind string // db | conn | tx | sqWrapper:<name>
	scan     []ast.Expr
}

type sqWrapper struct {
	fn        *types.Func
	decl      *ast.FuncDecl
	query     []sqSeg
	args      []sqArg
	recvKind  string
	paramIdx  map[*types.Var]int
	undecided string
}

// sqBind: what a parameter of a parametric helper is bound to at one call site — a constant expression of the caller,
// or a list of them (a variadic tail, a slice literal, a write-once package table).
type sqBind struct {
	scalar ast.Expr
	list   []ast.Expr
	isList bool
}

type sqEval struct {
	env        map[*types.Var]sqBind
	parametric map[*types.Func]*ast.FuncDecl
	instDepth  int
	lastCallSite map[*ast.CallExpr]int
	pendingScans []*ast.CallExpr
	pkg      *packages.Package
	info     *types.Info
	fset     *token.FileSet
	sites    []sqSite
	wrappers map[*types.Func]*sqWrapper
	notes    []string
}

func (e *sqEval) note(pos token.Pos, f string, a ...any) {
	e.notes = append(e.notes, fmt.Sprintf("%s: %s", e.fset.Position(pos), fmt.Sprintf(f, a...)))
}

type sqScope struct {
	vars   map[*types.Var]*sqValue
	parent *sqScope
	fn     string
	params map[*types.Var]int
	decl   *types.Func
	lit    bool
}

func (s *sqScope) declFunc() (*types.Func, bool) {
	lit := false
	for c := s; c != nil; c = c.parent {
		if c.lit {
			lit = true
		}
		if c.decl != nil {
			return c.decl, lit
		}
	}
	return nil, lit
}

func (s *sqScope) lookup(v *types.Var) *sqValue {
	for c := s; c != nil; c = c.parent {
		if x, ok := c.vars[v]; ok {
			return x
		}
	}
	return nil
}

func (s *sqScope) set(v *types.Var, x *sqValue) {
	// assign in the sqScope where it lives, else current
	for c := s; c != nil; c = c.parent {
		if _, ok := c.vars[v]; ok {
			c.vars[v] = x
			return
		}
	}
	s.vars[v] = x
}

func (s *sqScope) isParam(v *types.Var) bool {
	for c := s; c != nil; c = c.parent {
		if _, ok := c.params[v]; ok {
			return true
		}
	}
	return false
}

func (e *sqEval) varOf(x ast.Expr) *types.Var {
	id, ok := x.(*ast.Ident)
	if !ok {
		return nil
	}
	if o, ok := e.info.Uses[id].(*types.Var); ok {
		return o
	}
	if o, ok := e.info.Defs[id].(*types.Var); ok {
		return o
	}
	return nil
}

func sqIsString(t types.Type) bool {
	b, ok := t.Underlying().(*types.Basic)
	return ok && b.Info()&types.IsString != 0
}

func isAnySlice(t types.Type) bool {
	s, ok := t.Underlying().(*types.Slice)
	if !ok {
		return false
	}
	i, ok := s.Elem().Underlying().(*types.Interface)
	return ok && i.Empty()
}

func isBuilder(t types.Type) bool {
	if p, ok := t.(*types.Pointer); ok {
		t = p.Elem()
	}
	n, ok := t.(*types.Named)
	return ok && n.Obj().Pkg() != nil && n.Obj().Pkg().Path() == "strings" && n.Obj().Name() == "Builder"
}

// evalStr evaluates a string-typed expression into segments.
func (e *sqEval) evalStr(sc *sqScope, x ast.Expr) []sqSeg {
	if tv, ok := e.info.Types[x]; ok && tv.Value != nil && tv.Value.Kind() == constant.String {
		return []sqSeg{{kind: segConst, text: constant.StringVal(tv.Value)}}
	}
	switch v := x.(type) {
	case *ast.ParenExpr:
		return e.evalStr(sc, v.X)
	case *ast.BinaryExpr:
		if v.Op == token.ADD {
			return append(e.evalStr(sc, v.X), e.evalStr(sc, v.Y)...)
		}
	case *ast.Ident:
		if obj := e.varOf(v); obj != nil {
			if b, ok := e.env[obj]; ok && !b.isList {
				if cv, ok := e.constStringOf(b.scalar); ok {
					return []sqSeg{{kind: segConst, text: cv}}
				}
			}
			if val := sc.lookup(obj); val != nil && val.isS {
				return append([]sqSeg(nil), val.str...)
			}
			if sc.isParam(obj) {
				return []sqSeg{{kind: segParam, par: obj, text: obj.Name()}}
			}
			return []sqSeg{{kind: segOpaque, text: obj.Name()}}
		}
	case *ast.CallExpr:
		// string(x) / T(x) of a string-typed operand
		if tv, ok := e.info.Types[v.Fun]; ok && tv.IsType() && len(v.Args) == 1 && sqIsString(tv.Type) {
			return e.evalStr(sc, v.Args[0])
		}
		// a placeholder list: strings.Repeat("?,", n)-style, directly or through a one-line helper of the package;
		// with n = len(list bound at this instantiation) the list is known
		if e.isPlaceholderCall(v) {
			if n, ok := e.lenOfBoundList(v); ok {
				ph := make([]string, n)
				for i := range ph {
					ph[i] = "?"
				}
				return []sqSeg{{kind: segConst, text: strings.Join(ph, ", ")}}
			}
			return []sqSeg{{kind: segOpaque, text: "placeholders"}}
		}
		if sel, ok := v.Fun.(*ast.SelectorExpr); ok {
			// b.String()
			if sel.Sel.Name == "String" && len(v.Args) == 0 {
				if obj := e.varOf(sel.X); obj != nil && isBuilder(obj.Type()) {
					if val := sc.lookup(obj); val != nil {
						return append([]sqSeg(nil), val.str...)
					}
				}
			}
			if id, ok := sel.X.(*ast.Ident); ok {
				if pn, ok := e.info.Uses[id].(*types.PkgName); ok {
					switch pn.Imported().Path() + "." + sel.Sel.Name {
					case "fmt.Sprintf":
						if len(v.Args) > 0 {
							f := e.evalStr(sc, v.Args[0])
							if len(f) == 1 && f[0].kind == segConst {
								return []sqSeg{{kind: segConst, text: f[0].text}} // keeps %d verbs; pg numbering handled later
							}
						}
					case "strings.TrimRight", "strings.Repeat", "strings.Join":
						return []sqSeg{{kind: segOpaque, text: "placeholders"}}
					}
				}
			}
		}
	}
	return []sqSeg{{kind: segOpaque, text: types.ExprString(x)}}
}

func (e *sqEval) evalArgsExpr(sc *sqScope, x ast.Expr) ([]sqArg, bool) {
	switch v := x.(type) {
	case *ast.Ident:
		if v.Name == "nil" {
			return nil, true
		}
		if obj := e.varOf(v); obj != nil {
			if val := sc.lookup(obj); val != nil && val.isA {
				return append([]sqArg(nil), val.args...), true
			}
			if sc.isParam(obj) {
				return []sqArg{{kind: argSpread, par: obj}}, true
			}
		}
	case *ast.CompositeLit:
		var out []sqArg
		for _, el := range v.Elts {
			out = append(out, sqArg{kind: argExpr, expr: e.substBound(el)})
		}
		return out, true
	case *ast.CallExpr:
		// a function or method of the package whose body is "return []any{…}": the list it returns (the element
		// expressions live in that function; consumers locate their function by position)
		if fn := e.calleeFunc(v); fn != nil && fn.Pkg() == e.pkg.Types {
			if lit := e.returnedAnyList(fn); lit != nil {
				var out []sqArg
				for _, el := range lit.Elts {
					out = append(out, sqArg{kind: argExpr, expr: el})
				}
				return out, true
			}
		}
		if id, ok := v.Fun.(*ast.Ident); ok {
			switch id.Name {
			case "make":
				return nil, true
			case "append":
				base, ok := e.evalArgsExpr(sc, v.Args[0])
				if !ok {
					return nil, false
				}
				if v.Ellipsis.IsValid() && len(v.Args) == 2 {
					sp, ok := e.evalArgsExpr(sc, v.Args[1])
					if !ok {
						return nil, false
					}
					return append(base, sp...), true
				}
				for _, a := range v.Args[1:] {
					base = append(base, sqArg{kind: argExpr, expr: e.substBound(a)})
				}
				return base, true
			}
		}
	}
	return nil, false
}

// evalBlock walks statements sequentially. loopDepth>0 turns appends into repeats.
func (e *sqEval) evalBlock(sc *sqScope, stmts []ast.Stmt, loop ast.Node) {
	for _, st := range stmts {
		e.evalStmt(sc, st, loop)
	}
}

func (e *sqEval) assign(sc *sqScope, lhs ast.Expr, rhs ast.Expr, tok token.Token, loop ast.Node) {
	obj := e.varOf(lhs)
	if obj == nil {
		return
	}
	switch {
	case sqIsString(obj.Type()):
		if tok == token.ADD_ASSIGN {
			cur := sc.lookup(obj)
			var base []sqSeg
			if cur != nil {
				base = cur.str
			} else if sc.isParam(obj) {
				base = []sqSeg{{kind: segParam, par: obj, text: obj.Name()}}
			}
			sc.set(obj, &sqValue{isS: true, str: append(append([]sqSeg(nil), base...), e.evalStr(sc, rhs)...)})
		} else {
			sc.set(obj, &sqValue{isS: true, str: e.evalStr(sc, rhs)})
		}
	case isAnySlice(obj.Type()):
		items, ok := e.evalArgsExpr(sc, rhs)
		if !ok {
			sc.set(obj, &sqValue{isA: true, args: []sqArg{{kind: argExpr, expr: rhs}}})
			e.note(rhs.Pos(), "undecided args expression %s", types.ExprString(rhs))
			return
		}
		if loop != nil {
			// items appended in a loop: base + repeat(new)
			cur := sc.lookup(obj)
			base := 0
			if cur != nil {
				base = len(cur.args)
			}
			if len(items) >= base {
				rep := items[base:]
				items = append(append([]sqArg(nil), items[:base]...), sqArg{kind: argRepeat, sub: rep})
			}
		}
		sc.set(obj, &sqValue{isA: true, args: items})
	}
}

func (e *sqEval) evalStmt(sc *sqScope, st ast.Stmt, loop ast.Node) {
	switch s := st.(type) {
	case *ast.AssignStmt:
		// scan call expressions on RHS for SQL sites first
		for _, r := range s.Rhs {
			before := len(e.sites)
			e.findCalls(sc, r)
			if ce, ok := r.(*ast.CallExpr); ok && len(e.sites) > before && len(s.Lhs) >= 1 {
				if idx, ok := e.lastCallSite[ce]; ok {
					if obj := e.varOf(s.Lhs[0]); obj != nil {
						e.sites[idx].rowsVar = obj
					}
				}
			}
		}
		if len(s.Lhs) == len(s.Rhs) {
			for i := range s.Lhs {
				e.assign(sc, s.Lhs[i], s.Rhs[i], s.Tok, loop)
			}
		}
	case *ast.DeclStmt:
		if gd, ok := s.Decl.(*ast.GenDecl); ok {
			for _, sp := range gd.Specs {
				if vs, ok := sp.(*ast.ValueSpec); ok {
					for i, n := range vs.Names {
						obj, _ := e.info.Defs[n].(*types.Var)
						if obj == nil {
							continue
						}
						if isBuilder(obj.Type()) {
							sc.vars[obj] = &sqValue{isS: true}
						} else if i < len(vs.Values) {
							e.findCalls(sc, vs.Values[i])
							e.assign(sc, n, vs.Values[i], token.DEFINE, loop)
						} else if sqIsString(obj.Type()) {
							sc.vars[obj] = &sqValue{isS: true}
						} else if isAnySlice(obj.Type()) {
							sc.vars[obj] = &sqValue{isA: true}
						}
					}
				}
			}
		}
	case *ast.ExprStmt:
		if ce, ok := s.X.(*ast.CallExpr); ok {
			if sel, ok := ce.Fun.(*ast.SelectorExpr); ok && sel.Sel.Name == "WriteString" && len(ce.Args) == 1 {
				if obj := e.varOf(sel.X); obj != nil && isBuilder(obj.Type()) {
					cur := sc.lookup(obj)
					var base []sqSeg
					if cur != nil {
						base = cur.str
					}
					sc.set(obj, &sqValue{isS: true, str: append(append([]sqSeg(nil), base...), e.evalStr(sc, ce.Args[0])...)})
					return
				}
			}
		}
		e.findCalls(sc, s.X)
	case *ast.IfStmt:
		if s.Init != nil {
			e.evalStmt(sc, s.Init, loop)
		}
		if taken, known := e.decideLenCond(s.Cond); known {
			// a test on the length of a list that is known at this instantiation: only one arm exists here
			if taken {
				e.evalBlock(sc, s.Body.List, loop)
			} else if s.Else != nil {
				e.evalBlock(sc, sqElseList(s.Else), loop)
			}
			return
		}
		e.findCalls(sc, s.Cond)
		e.branch(sc, s, [][]ast.Stmt{s.Body.List, sqElseList(s.Else)}, loop)
	case *ast.SwitchStmt:
		if s.Init != nil {
			e.evalStmt(sc, s.Init, loop)
		}
		var arms [][]ast.Stmt
		hasDefault := false
		for _, c := range s.Body.List {
			cc := c.(*ast.CaseClause)
			if cc.List == nil {
				hasDefault = true
			}
			arms = append(arms, cc.Body)
		}
		if !hasDefault {
			arms = append(arms, nil)
		}
		e.branch(sc, s, arms, loop)
	case *ast.ForStmt:
		e.evalBlock(sc, s.Body.List, s)
	case *ast.RangeStmt:
		if id, ok := ast.Unparen(s.X).(*ast.Ident); ok {
			if obj := e.varOf(id); obj != nil {
				if b, bound := e.env[obj]; bound && b.isList {
					// a loop over a list that is known at this instantiation: one pass per element
					var lv *types.Var
					if vid, ok := s.Value.(*ast.Ident); ok && vid.Name != "_" {
						lv, _ = e.info.Defs[vid].(*types.Var)
					}
					for _, el := range b.list {
						if lv != nil {
							e.env[lv] = sqBind{scalar: el}
						}
						e.evalBlock(sc, s.Body.List, loop)
					}
					if lv != nil {
						delete(e.env, lv)
					}
					return
				}
			}
		}
		e.findCalls(sc, s.X)
		e.evalBlock(sc, s.Body.List, s)
	case *ast.BlockStmt:
		e.evalBlock(sc, s.List, loop)
	case *ast.ReturnStmt:
		for _, r := range s.Results {
			e.findCalls(sc, r)
		}
	case *ast.DeferStmt:
		e.findCalls(sc, s.Call)
	case *ast.GoStmt:
		e.findCalls(sc, s.Call)
	}
}

func sqElseList(s ast.Stmt) []ast.Stmt {
	switch x := s.(type) {
	case nil:
		return nil
	case *ast.BlockStmt:
		return x.List
	default:
		return []ast.Stmt{x}
	}
}

// branch evaluates arms in child scopes and merges tracked variables:
// suffix-extension of a common base in exactly one arm -> optional; differing full constants -> alternatives.
func (e *sqEval) branch(sc *sqScope, node ast.Node, arms [][]ast.Stmt, loop ast.Node) {
	type snap map[*types.Var]*sqValue
	results := make([]snap, len(arms))
	tracked := map[*types.Var]bool{}
	for i, arm := range arms {
		child := &sqScope{vars: map[*types.Var]*sqValue{}, parent: sc, fn: sc.fn}
		// copy-on-write: shadow every visible tracked var
		for c := sc; c != nil; c = c.parent {
			for v, val := range c.vars {
				if _, ok := child.vars[v]; !ok {
					cp := *val
					child.vars[v] = &cp
				}
			}
		}
		before := map[*types.Var]*sqValue{}
		for v, val := range child.vars {
			before[v] = val
		}
		e.evalBlock(child, arm, loop)
		results[i] = snap{}
		for v, val := range child.vars {
			if before[v] != val {
				results[i][v] = val
				tracked[v] = true
			}
		}
	}
	for v := range tracked {
		base := sc.lookup(v)
		if base == nil {
			continue // declared inside an arm
		}
		if base.isS {
			// collect per-arm values
			var exts [][]sqSeg
			allConst := true
			var consts []string
			changed := 0
			for i := range arms {
				val, ok := results[i][v]
				if !ok {
					exts = append(exts, nil)
					allConst = allConst && len(base.str) == 1 && base.str[0].kind == segConst
					if len(base.str) == 1 {
						consts = append(consts, base.str[0].text)
					}
					continue
				}
				changed++
				if len(val.str) >= len(base.str) && segsEqual(val.str[:len(base.str)], base.str) {
					exts = append(exts, val.str[len(base.str):])
				} else {
					exts = append(exts, nil)
				}
				if len(val.str) == 1 && val.str[0].kind == segConst {
					consts = append(consts, val.str[0].text)
				} else {
					allConst = false
				}
			}
			isSuffix := true
			for i := range arms {
				if val, ok := results[i][v]; ok {
					if !(len(val.str) >= len(base.str) && segsEqual(val.str[:len(base.str)], base.str)) {
						isSuffix = false
					}
				}
			}
			switch {
			case isSuffix:
				out := append([]sqSeg(nil), base.str...)
				for i := range arms {
					if len(exts[i]) > 0 {
						out = append(out, sqSeg{kind: segOpt, sub: exts[i], cond: node})
					}
				}
				sc.set(v, &sqValue{isS: true, str: out})
			case allConst && len(consts) == len(arms):
				sc.set(v, &sqValue{isS: true, str: []sqSeg{{kind: segAlt, alts: consts}}})
			default:
				sc.set(v, &sqValue{isS: true, str: []sqSeg{{kind: segOpaque, text: v.Name() + "(branch)"}}})
				e.note(node.Pos(), "undecided merge of string %s", v.Name())
			}
		}
		if base.isA {
			out := append([]sqArg(nil), base.args...)
			ok := true
			for i := range arms {
				if val, has := results[i][v]; has {
					if len(val.args) >= len(base.args) {
						ext := val.args[len(base.args):]
						if len(ext) > 0 {
							out = append(out, sqArg{kind: argOpt, sub: ext, cond: node})
						}
					} else {
						ok = false
					}
				}
			}
			if !ok {
				e.note(node.Pos(), "undecided merge of args %s", v.Name())
			}
			sc.set(v, &sqValue{isA: true, args: out})
		}
	}
}

func segsEqual(a, b []sqSeg) bool {
	if len(a) != len(b) {
		return false
	}
	for i := range a {
		if a[i].kind != b[i].kind || a[i].text != b[i].text || a[i].cond != b[i].cond {
			return false
		}
	}
	return true
}

// findCalls inspects an expression for SQL call sites and function literals.
func (e *sqEval) findCalls(sc *sqScope, x ast.Node) {
	if x == nil {
		return
	}
	ast.Inspect(x, func(n ast.Node) bool {
		switch v := n.(type) {
		case *ast.FuncLit:
			child := &sqScope{vars: map[*types.Var]*sqValue{}, parent: sc, fn: sc.fn + "$lit", params: map[*types.Var]int{}, lit: true}
			e.evalBlock(child, v.Body.List, nil)
			return false
		case *ast.CallExpr:
			before := len(e.sites)
			e.sqlCall(sc, v)
			if len(e.sites) > before {
				e.lastCallSite[v] = len(e.sites) - 1
			}
			if sel, ok := v.Fun.(*ast.SelectorExpr); ok && sel.Sel.Name == "Scan" {
				e.pendingScans = append(e.pendingScans, v)
			}
		}
		return true
	})
	// resolve scans after the walk (inner call is visited after the outer one)
	for _, sc2 := range e.pendingScans {
		sel := sc2.Fun.(*ast.SelectorExpr)
		switch x := sel.X.(type) {
		case *ast.CallExpr:
			if idx, ok := e.lastCallSite[x]; ok && idx < len(e.sites) {
				e.sites[idx].scan = sc2.Args
			}
		case *ast.Ident:
			if obj := e.varOf(x); obj != nil {
				for i := len(e.sites) - 1; i >= 0; i-- {
					if e.sites[i].rowsVar == obj {
						e.sites[i].scan = sc2.Args
						break
					}
				}
			}
		}
	}
	e.pendingScans = nil
}

// returnedAnyList: fn's body consists of a single return of a []any composite literal.
func (e *sqEval) returnedAnyList(fn *types.Func) *ast.CompositeLit {
	for _, f := range e.pkg.Syntax {
		for _, d := range f.Decls {
			fd, ok := d.(*ast.FuncDecl)
			if !ok || fd.Body == nil || e.info.Defs[fd.Name] != fn {
				continue
			}
			// the list is built by the function's only return statement, its last statement (local preparation of
			// single elements — a NULL-or-value variable, say — may precede it)
			if len(fd.Body.List) == 0 {
				return nil
			}
			nRet := 0
			ast.Inspect(fd.Body, func(n ast.Node) bool {
				switch n.(type) {
				case *ast.FuncLit:
					return false
				case *ast.ReturnStmt:
					nRet++
				}
				return true
			})
			rs, ok := fd.Body.List[len(fd.Body.List)-1].(*ast.ReturnStmt)
			if !ok || len(rs.Results) != 1 || nRet != 1 {
				return nil
			}
			lit, ok := ast.Unparen(rs.Results[0]).(*ast.CompositeLit)
			if !ok {
				return nil
			}
			if t := e.info.TypeOf(lit); t == nil || !isAnySlice(t) {
				return nil
			}
			return lit
		}
	}
	return nil
}

func (e *sqEval) calleeFunc(ce *ast.CallExpr) *types.Func {
	switch f := ce.Fun.(type) {
	case *ast.SelectorExpr:
		if fn, ok := e.info.Uses[f.Sel].(*types.Func); ok {
			return fn
		}
	case *ast.Ident:
		if fn, ok := e.info.Uses[f].(*types.Func); ok {
			return fn
		}
	}
	return nil
}

func sqlRecvKind(fn *types.Func) (string, bool) {
	sig := fn.Type().(*types.Signature)
	if sig.Recv() == nil || fn.Pkg() == nil || fn.Pkg().Path() != "database/sql" {
		return "", false
	}
	switch fn.Name() {
	case "ExecContext", "QueryContext", "QueryRowContext":
	default:
		return "", false
	}
	t := sig.Recv().Type()
	if p, ok := t.(*types.Pointer); ok {
		t = p.Elem()
	}
	return strings.ToLower(t.(*types.Named).Obj().Name()), true
}

func (e *sqEval) sqlCall(sc *sqScope, ce *ast.CallExpr) {
	fn := e.calleeFunc(ce)
	if fn == nil {
		return
	}
	if kind, ok := sqlRecvKind(fn); ok {
		if len(ce.Args) < 2 {
			return
		}
		q := e.evalStr(sc, ce.Args[1])
		var args []sqArg
		if ce.Ellipsis.IsValid() {
			a, ok := e.evalArgsExpr(sc, ce.Args[len(ce.Args)-1])
			if !ok {
				e.note(ce.Pos(), "undecided variadic args %s", types.ExprString(ce.Args[len(ce.Args)-1]))
			}
			args = a
		} else {
			for _, a := range ce.Args[2:] {
				args = append(args, sqArg{kind: argExpr, expr: e.substBound(a)})
			}
		}
		d, lit := sc.declFunc()
		e.sites = append(e.sites, sqSite{fn: sc.fn, decl: d, inLit: lit, pos: e.fset.Position(ce.Pos()), call: ce, query: q, args: args, recvKind: kind})
		return
	}
	if hd, ok := e.parametric[fn]; ok && e.instDepth < 2 {
		if env, ok := e.bindParametric(fn, hd, ce); ok {
			// the helper's statement(s) as executed for this call: its body evaluated with the constant operands of
			// the call bound to its parameters; the statements belong to the calling operation
			saved := e.env
			e.env = env
			e.instDepth++
			d, lit := sc.declFunc()
			child := &sqScope{vars: map[*types.Var]*sqValue{}, fn: sc.fn, params: map[*types.Var]int{}, decl: d, lit: lit}
			before := len(e.sites)
			e.evalBlock(child, hd.Body.List, nil)
			for i := before; i < len(e.sites); i++ {
				e.sites[i].inst = true
				e.sites[i].call = ce
				e.sites[i].pos = e.fset.Position(ce.Pos())
				e.sites[i].fn = sc.fn
				e.sites[i].decl = d
				e.sites[i].inLit = lit
			}
			e.instDepth--
			e.env = saved
			return
		}
	}
	if w, ok := e.wrappers[fn]; ok && w.query != nil {
		// instantiate sqWrapper summary at this call sqSite
		sub := func(p *types.Var) (ast.Expr, bool) {
			idx, ok := w.paramIdx[p]
			if !ok {
				return nil, false
			}
			sig := fn.Type().(*types.Signature)
			if sig.Variadic() && idx == sig.Params().Len()-1 {
				return nil, false
			}
			if idx < len(ce.Args) {
				return ce.Args[idx], true
			}
			return nil, false
		}
		var q []sqSeg
		for _, s := range w.query {
			if s.kind == segParam {
				if ex, ok := sub(s.par); ok {
					q = append(q, e.evalStr(sc, ex)...)
					continue
				}
			}
			q = append(q, s)
		}
		var args []sqArg
		sig := fn.Type().(*types.Signature)
		for _, a := range w.args {
			if a.kind == argSpread {
				idx := w.paramIdx[a.par]
				if sig.Variadic() && idx == sig.Params().Len()-1 {
					if ce.Ellipsis.IsValid() {
						sp, _ := e.evalArgsExpr(sc, ce.Args[len(ce.Args)-1])
						args = append(args, sp...)
					} else {
						for _, x := range ce.Args[idx:] {
							args = append(args, sqArg{kind: argExpr, expr: x})
						}
					}
					continue
				}
				if idx < len(ce.Args) {
					sp, ok := e.evalArgsExpr(sc, ce.Args[idx])
					if ok {
						args = append(args, sp...)
						continue
					}
				}
			}
			args = append(args, a)
		}
		d, lit := sc.declFunc()
		e.sites = append(e.sites, sqSite{fn: sc.fn, decl: d, inLit: lit, pos: e.fset.Position(ce.Pos()), call: ce, query: q, args: args, recvKind: "wrapper:" + fn.Name() + ":" + w.recvKind})
	}
}

// constStringOf: the string value of a constant expression.
func (e *sqEval) constStringOf(x ast.Expr) (string, bool) {
	if tv, ok := e.info.Types[x]; ok && tv.Value != nil && tv.Value.Kind() == constant.String {
		return constant.StringVal(tv.Value), true
	}
	return "", false
}

// substBound: an argument expression with the parameters bound at this instantiation replaced by their constants —
// `to`, `string(to)`, `string(st)` become a literal carrying the constant (registered with the type information, so
// every consumer that asks for the constant value of a bound argument finds it).
func (e *sqEval) substBound(x ast.Expr) ast.Expr {
	if len(e.env) == 0 {
		return x
	}
	inner := ast.Unparen(x)
	if ce, ok := inner.(*ast.CallExpr); ok && len(ce.Args) == 1 {
		if tv, ok := e.info.Types[ce.Fun]; ok && tv.IsType() && sqIsString(tv.Type) {
			inner = ast.Unparen(ce.Args[0])
		}
	}
	id, ok := inner.(*ast.Ident)
	if !ok {
		return x
	}
	obj := e.varOf(id)
	if obj == nil {
		return x
	}
	b, bound := e.env[obj]
	if !bound || b.isList {
		return x
	}
	cv, ok := e.constStringOf(b.scalar)
	if !ok {
		return x
	}
	lit := &ast.BasicLit{ValuePos: x.Pos(), Kind: token.STRING, Value: fmt.Sprintf("%q", cv)}
	e.info.Types[lit] = types.TypeAndValue{Type: types.Typ[types.String], Value: constant.MakeString(cv)}
	return lit
}

// isPlaceholderCall: strings.Repeat/TrimRight/Join building a placeholder list, or a package function whose body is one
// return of such a call.
func (e *sqEval) isPlaceholderCall(v *ast.CallExpr) bool {
	direct := func(c *ast.CallExpr) bool {
		sel, ok := c.Fun.(*ast.SelectorExpr)
		if !ok {
			return false
		}
		id, ok := sel.X.(*ast.Ident)
		if !ok {
			return false
		}
		pn, ok := e.info.Uses[id].(*types.PkgName)
		if !ok || pn.Imported().Path() != "strings" {
			return false
		}
		switch sel.Sel.Name {
		case "TrimRight", "Repeat", "Join", "TrimSuffix":
			return true
		}
		return false
	}
	if direct(v) {
		return true
	}
	fn := e.calleeFunc(v)
	if fn == nil || fn.Pkg() != e.pkg.Types {
		return false
	}
	if sig := fn.Type().(*types.Signature); sig.Results().Len() != 1 || !sqIsString(sig.Results().At(0).Type()) {
		return false
	}
	for _, f := range e.pkg.Syntax {
		for _, d := range f.Decls {
			fd, ok := d.(*ast.FuncDecl)
			if !ok || fd.Body == nil || e.info.Defs[fd.Name] != fn || len(fd.Body.List) != 1 {
				continue
			}
			rs, ok := fd.Body.List[0].(*ast.ReturnStmt)
			if !ok || len(rs.Results) != 1 {
				return false
			}
			c, ok := ast.Unparen(rs.Results[0]).(*ast.CallExpr)
			return ok && direct(c)
		}
	}
	return false
}

// lenOfBoundList: the call's (innermost) len(X) operand names a list bound at this instantiation.
func (e *sqEval) lenOfBoundList(v *ast.CallExpr) (int, bool) {
	n, found := 0, false
	ast.Inspect(v, func(x ast.Node) bool {
		c, ok := x.(*ast.CallExpr)
		if !ok || len(c.Args) != 1 {
			return true
		}
		if id, ok := c.Fun.(*ast.Ident); ok && id.Name == "len" {
			if aid, ok := ast.Unparen(c.Args[0]).(*ast.Ident); ok {
				if obj := e.varOf(aid); obj != nil {
					if b, bound := e.env[obj]; bound && b.isList {
						n, found = len(b.list), true
					}
				}
			}
		}
		return true
	})
	return n, found
}

// decideLenCond: `len(list) OP k` with the list bound at this instantiation.
func (e *sqEval) decideLenCond(cond ast.Expr) (taken, known bool) {
	be, ok := ast.Unparen(cond).(*ast.BinaryExpr)
	if !ok || len(e.env) == 0 {
		return false, false
	}
	lenOf := func(x ast.Expr) (int, bool) {
		c, ok := ast.Unparen(x).(*ast.CallExpr)
		if !ok || len(c.Args) != 1 {
			return 0, false
		}
		id, ok := c.Fun.(*ast.Ident)
		if !ok || id.Name != "len" {
			return 0, false
		}
		aid, ok := ast.Unparen(c.Args[0]).(*ast.Ident)
		if !ok {
			return 0, false
		}
		obj := e.varOf(aid)
		if obj == nil {
			return 0, false
		}
		b, bound := e.env[obj]
		if !bound || !b.isList {
			return 0, false
		}
		return len(b.list), true
	}
	intOf := func(x ast.Expr) (int, bool) {
		if tv, ok := e.info.Types[x]; ok && tv.Value != nil && tv.Value.Kind() == constant.Int {
			v, exact := constant.Int64Val(tv.Value)
			return int(v), exact
		}
		return 0, false
	}
	l, okL := lenOf(be.X)
	r, okR := intOf(be.Y)
	op := be.Op
	if !okL || !okR {
		// k OP len(list)
		l2, okL2 := lenOf(be.Y)
		r2, okR2 := intOf(be.X)
		if !okL2 || !okR2 {
			return false, false
		}
		l, r = l2, r2
		switch op {
		case token.LSS:
			op = token.GTR
		case token.LEQ:
			op = token.GEQ
		case token.GTR:
			op = token.LSS
		case token.GEQ:
			op = token.LEQ
		}
	}
	switch op {
	case token.EQL:
		return l == r, true
	case token.NEQ:
		return l != r, true
	case token.LSS:
		return l < r, true
	case token.LEQ:
		return l <= r, true
	case token.GTR:
		return l > r, true
	case token.GEQ:
		return l >= r, true
	}
	return false, false
}

// enumParam: a parameter whose type is a named string type (State, a column name type) — or a slice/variadic of one.
func enumParam(t types.Type) (isList bool, ok bool) {
	if sl, isSl := t.Underlying().(*types.Slice); isSl {
		t = sl.Elem()
		isList = true
	}
	n, isNamed := types.Unalias(t).(*types.Named)
	if !isNamed || !sqIsString(n) {
		return false, false
	}
	return isList, true
}

// constList: the constant elements of a list operand — a composite literal, or a package-level variable initialised
// with one and never assigned again.
func (e *sqEval) constList(x ast.Expr) ([]ast.Expr, bool) {
	x = ast.Unparen(x)
	if cl, ok := x.(*ast.CompositeLit); ok {
		for _, el := range cl.Elts {
			if _, ok := e.constStringOf(el); !ok {
				return nil, false
			}
		}
		return cl.Elts, true
	}
	if id, ok := x.(*ast.Ident); ok {
		if obj, ok := e.info.Uses[id].(*types.Var); ok && obj.Parent() == e.pkg.Types.Scope() {
			var init ast.Expr
			writes := 0
			for _, f := range e.pkg.Syntax {
				ast.Inspect(f, func(n ast.Node) bool {
					switch y := n.(type) {
					case *ast.ValueSpec:
						for i, nm := range y.Names {
							if e.info.Defs[nm] == obj && i < len(y.Values) {
								init = y.Values[i]
							}
						}
					case *ast.AssignStmt:
						for _, l := range y.Lhs {
							if lid, ok := l.(*ast.Ident); ok && e.info.Uses[lid] == obj {
								writes++
							}
						}
					}
					return true
				})
			}
			if init != nil && writes == 0 {
				return e.constList(init)
			}
		}
	}
	return nil, false
}

// bindParametric: the environment of one call of a parametric helper, if every enumerable parameter is bound to
// constants there.
func (e *sqEval) bindParametric(fn *types.Func, hd *ast.FuncDecl, ce *ast.CallExpr) (map[*types.Var]sqBind, bool) {
	sig := fn.Type().(*types.Signature)
	env := map[*types.Var]sqBind{}
	idx := 0
	var pvars []*types.Var
	for _, f := range hd.Type.Params.List {
		for _, n := range f.Names {
			v, _ := e.info.Defs[n].(*types.Var)
			pvars = append(pvars, v)
		}
		if len(f.Names) == 0 {
			pvars = append(pvars, nil)
		}
	}
	for ; idx < len(pvars); idx++ {
		pv := pvars[idx]
		if pv == nil {
			continue
		}
		isList, ok := enumParam(pv.Type())
		if !ok {
			continue
		}
		if sig.Variadic() && idx == len(pvars)-1 && !ce.Ellipsis.IsValid() {
			var elems []ast.Expr
			for _, a := range ce.Args[min(idx, len(ce.Args)):] {
				if _, ok := e.constStringOf(a); !ok {
					return nil, false
				}
				elems = append(elems, a)
			}
			env[pv] = sqBind{list: elems, isList: true}
			continue
		}
		if idx >= len(ce.Args) {
			return nil, false
		}
		if isList {
			elems, ok := e.constList(ce.Args[idx])
			if !ok {
				return nil, false
			}
			env[pv] = sqBind{list: elems, isList: true}
			continue
		}
		if _, ok := e.constStringOf(ce.Args[idx]); !ok {
			return nil, false
		}
		env[pv] = sqBind{scalar: ce.Args[idx]}
	}
	return env, len(env) > 0
}

// analyzeFunc evaluates one function declaration.
func (e *sqEval) analyzeFunc(fd *ast.FuncDecl) (sitesBefore int, sc *sqScope) {
	sc = &sqScope{vars: map[*types.Var]*sqValue{}, fn: fd.Name.Name, params: map[*types.Var]int{}}
	sc.decl, _ = e.info.Defs[fd.Name].(*types.Func)
	i := 0
	for _, f := range fd.Type.Params.List {
		for _, n := range f.Names {
			if obj, ok := e.info.Defs[n].(*types.Var); ok {
				sc.params[obj] = i
			}
			i++
		}
	}
	sitesBefore = len(e.sites)
	e.evalBlock(sc, fd.Body.List, nil)
	return sitesBefore, sc
}

func hasParamSeg(q []sqSeg) bool {
	for _, s := range q {
		if s.kind == segParam {
			return true
		}
		if s.kind == segOpt && hasParamSeg(s.sub) {
			return true
		}
	}
	return false
}

func renderSegs(q []sqSeg) string {
	var b strings.Builder
	for _, s := range q {
		switch s.kind {
		case segConst:
			b.WriteString(s.text)
		case segOpaque:
			b.WriteString("⟦" + s.text + "⟧")
		case segParam:
			b.WriteString("⟦param:" + s.text + "⟧")
		case segOpt:
			b.WriteString("⟨" + renderSegs(s.sub) + "⟩?")
		case segAlt:
			b.WriteString("⟦" + strings.Join(s.alts, "|") + "⟧")
		}
	}
	return b.String()
}
