package main

import (
	"fmt"
	"go/types"

	"golang.org/x/tools/go/ssa"
)

// C02.R7 — per-row state in scan loops is per-iteration.
//
// The SQL backends decide what to do with a row (leased? expired? which id?) from variables filled by
// rows.Scan and by conditional assignments in the loop body. If such a variable lives outside the loop and is
// written on only some paths of an iteration, the value of an earlier row decides the fate of a later one (a
// valid lease is treated as expired and released, a row is attributed to the wrong id). Rule: in every loop
// that calls (*sql.Rows).Scan, a local cell that is allocated outside the loop and is not read after the loop
// (so it is not an accumulator) must be definitely assigned — by Scan or by a store — before every read in the
// same iteration, field by field.

func isRowsScan(ci ssa.CallInstruction) bool {
	g := ci.Common().StaticCallee()
	return g != nil && g.Name() == "Scan" && g.Signature.Recv() != nil && (namedName(g.Signature.Recv().Type()) == "Rows" || namedName(g.Signature.Recv().Type()) == "Row") && namedPkgPath(g.Signature.Recv().Type()) == "database/sql"
}

// cellOf: the local cell (and field index, -1 for the whole cell) an address refers to.
func cellOf(addr ssa.Value) (*ssa.Alloc, int) {
	switch x := addr.(type) {
	case *ssa.Alloc:
		return x, -1
	case *ssa.FieldAddr:
		if al, ok := x.X.(*ssa.Alloc); ok {
			return al, x.Field
		}
	}
	return nil, 0
}

func checkScanLoopRowState(c *Ctx, rule string) {
	p := c.P
	nLoops, nCells := 0, 0
	for _, fn := range p.FuncsInPkg("queue") {
		// loops containing a Scan call
		headers := map[*ssa.BasicBlock]bool{}
		for _, ci := range allCalls(fn, isRowsScan) {
			if h := loopHeaderOf(ci.Block()); h != nil {
				headers[h] = true
			}
		}
		for h := range headers {
			nLoops++
			body := loopBody(h)
			// definite assignments per (cell, field) inside the loop: instruction list
			type key struct {
				a *ssa.Alloc
				f int
			}
			defs := map[key][]ssa.Instruction{}
			loads := map[key][]ssa.Instruction{}
			cells := map[*ssa.Alloc]bool{}
			note := func(a *ssa.Alloc) {
				if a != nil && !body[a.Block()] && !a.Heap {
					cells[a] = true
				} else if a != nil && !body[a.Block()] {
					cells[a] = true
				}
			}
			for b := range body {
				for _, ins := range b.Instrs {
					switch x := ins.(type) {
					case *ssa.Store:
						if a, f := cellOf(x.Addr); a != nil {
							note(a)
							defs[key{a, f}] = append(defs[key{a, f}], x)
						}
					case *ssa.UnOp:
						if a, f := cellOf(x.X); a != nil {
							note(a)
							loads[key{a, f}] = append(loads[key{a, f}], x)
						}
					case ssa.CallInstruction:
						if isRowsScan(x) {
							// variadic: addresses stored into the argument array
							for _, arg := range x.Common().Args {
								if sl, ok := arg.(*ssa.Slice); ok {
									if arr, ok := sl.X.(*ssa.Alloc); ok {
										for _, ref := range *arr.Referrers() {
											if ia, ok := ref.(*ssa.IndexAddr); ok {
												for _, r2 := range *ia.Referrers() {
													if st, ok := r2.(*ssa.Store); ok && st.Addr == ia {
														v := st.Val
														if mi, ok := v.(*ssa.MakeInterface); ok {
															v = mi.X
														}
														if a, f := cellOf(v); a != nil {
															note(a)
															defs[key{a, f}] = append(defs[key{a, f}], x.(ssa.Instruction))
														}
													}
												}
											}
										}
									}
								}
							}
						}
					}
				}
			}
			loopCells := 0
			defer func() {}()
			for a := range cells {
				// read after the loop → accumulator / result, exempt
				after := false
				for _, ref := range *a.Referrers() {
					if ref.Block() != nil && !body[ref.Block()] && h.Dominates(ref.Block()) && ref.Block() != a.Block() {
						if _, isStore := ref.(*ssa.Store); !isStore {
							after = true
						}
					}
					if fa, ok := ref.(*ssa.FieldAddr); ok {
						for _, r2 := range *fa.Referrers() {
							if r2.Block() != nil && !body[r2.Block()] && h.Dominates(r2.Block()) {
								if _, isStore := r2.(*ssa.Store); !isStore {
									after = true
								}
							}
						}
					}
				}
				if after {
					continue
				}
				// used in the loop at all?
				used := false
				for k := range loads {
					if k.a == a {
						used = true
					}
				}
				if !used {
					continue
				}
				nCells++
				loopCells++
				name := a.Comment
				if name == "" {
					name = a.Name()
				}
				st, isStruct := a.Type().(*types.Pointer).Elem().Underlying().(*types.Struct)
				definitelyAssigned := func(f int, ld ssa.Instruction) bool {
					for _, k := range []key{{a, f}, {a, -1}} {
						for _, d := range defs[k] {
							if d.Block() == ld.Block() {
								if instrIndex(d) < instrIndex(ld) {
									return true
								}
								continue
							}
							if body[d.Block()] && d.Block().Dominates(ld.Block()) && d.Block() != h {
								return true
							}
						}
					}
					return false
				}
				bad := ""
				for k, lds := range loads {
					if k.a != a {
						continue
					}
					for _, ld := range lds {
						if k.f >= 0 {
							if !definitelyAssigned(k.f, ld) {
								fname := itoa(k.f)
								if isStruct {
									fname = st.Field(k.f).Name()
								}
								bad = name + "." + fname + " read at " + p.InstrPos(ld)
							}
							continue
						}
						// whole-cell load: every field (or the cell itself) must be assigned
						if isStruct {
							for fi := 0; fi < st.NumFields(); fi++ {
								if !definitelyAssigned(fi, ld) {
									bad = name + "." + st.Field(fi).Name() + " (copied as part of " + name + " at " + p.InstrPos(ld) + ")"
								}
							}
						} else if !definitelyAssigned(-1, ld) {
							bad = name + " read at " + p.InstrPos(ld)
						}
					}
				}
				c.Check(bad == "", rule, fmt.Sprintf("queue.%s:row variable %s is assigned before it is read in every iteration", fn.Name(), name), p.Pos(a.Pos()),
					"declared outside the scan loop but assigned on every path before each read",
					"the variable lives outside the scan loop and "+bad+" can still hold what an earlier row left there (it is written only on some paths of an iteration): one row's verdict is applied to the next")
			}
			if loopCells == 0 {
				c.Ok(rule, fmt.Sprintf("queue.%s:scan loop at %s keeps its row variables inside the loop", fn.Name(), p.Pos(h.Instrs[0].Pos())), p.Pos(h.Instrs[0].Pos()), "every cell read in the loop is allocated per iteration or is an accumulator read after the loop")
			}
		}
	}
	c.Count("scan loops examined", nLoops)
	c.Count("loop-external cells read inside scan loops (non-accumulators)", nCells)
	c.Floor(rule, "scan loops", nLoops, 10)
}
