package main

import (
	"fmt"
	"go/ast"
	"go/token"
	"go/types"
	"regexp"
	"strconv"
	"strings"

	"golang.org/x/tools/go/ssa"
)

func init() { register("C03", checkC03) }

// operandExpr returns the Go expression bound to a placeholder marker operand.
func (m *SQLModel) operandExpr(s *SQLStmt, operand string) ast.Expr {
	mm := sqMarker.FindStringSubmatch(strings.TrimSpace(operand))
	if mm == nil {
		return nil
	}
	k, _ := strconv.Atoi(mm[1])
	if k >= len(s.B.exprs) {
		return nil
	}
	return s.B.exprs[k]
}

var reCmp = regexp.MustCompile(`^\(?\s*([a-z_]+)\s*(<=|>=|<|>|=)\s*(§\d+§|[^\s()]+)\s*\)?$`)

// conjOn returns the conjunct (unresolved text) of the form `<col> <op> <operand>`.
func conjOn(s *SQLStmt, col string) (op, operand string, ok bool) {
	for _, w := range s.St.where {
		w = strings.TrimPrefix(w, "cte:")
		// (lease_until IS NULL OR lease_until > ?)
		if i := strings.LastIndex(strings.ToUpper(w), " OR "); i >= 0 && strings.HasPrefix(w, "(") {
			w = strings.TrimSuffix(strings.TrimSpace(w[i+4:]), ")")
		}
		mm := reCmp.FindStringSubmatch(strings.ToLower(strings.TrimSpace(w)))
		if mm != nil && mm[1] == col {
			// recover original-case operand
			mm2 := reCmp.FindStringSubmatch(strings.TrimSpace(w))
			if mm2 != nil {
				return mm2[2], mm2[3], true
			}
			return mm[2], mm[3], true
		}
	}
	return "", "", false
}

func checkC03(c *Ctx) {
	p := c.P
	c.Rule("C03.R1", "select-and-lease in one transaction: every LEASE statement and candidate SELECT of the SQL backends executes between begin-ok and commit on the transaction connection; memory leases under the store mutex")
	c.Rule("C03.R2", "lease only from queued and only when due: LEASE constructs have from-set {queued}; candidate selection carries state=queued and next_run_at <= now (now = the operation's clock); memory lease store is behind the not-After(now) edge")
	c.Rule("C03.R3", "every LEASE construct sets a fresh random lease id, attempt = attempt+1 and lease_until = now+ttl; attempt is written nowhere else")
	c.Rule("C03.R4", "every construct that can take a message out of leased clears lease_id/lease_until (SQL) or LeaseID/LeaseUntil and the lease index entry (memory)")
	m := p.SQL()
	tx := p.Tx()

	nLease := 0
	seenStmt := map[*SQLStmt]bool{}
	for _, be := range []string{"sqlite", "postgres"} {
		for _, t := range p.sqlTransitions(be) {
			if t.Root != "Dequeue" || seenStmt[t.Stmt] {
				continue
			}
			if !(t.Kind == "store" && t.To == "leased") {
				continue
			}
			seenStmt[t.Stmt] = true
			nLease++
			key := m.Key(t.Stmt)
			// R1
			in, why := siteInsideTx(p, tx, t.Stmt.Fn, t.Stmt.Site.call.Lparen, 0)
			onConn := !strings.HasPrefix(t.Stmt.Site.recvKind, "db")
			c.Check(in && onConn, "C03.R1", key+":in-transaction", t.Pos, "LEASE statement on the transaction connection, "+why, "LEASE statement is not confined to a transaction: "+why)
			// R2
			c.Check(t.HasFrom && t.From == ssParse("queued"), "C03.R2", key+":from-queued", t.Pos, "from-set {queued}", "LEASE statement from-set is "+t.From.String()+" (must be exactly {queued} in the statement itself)")
			// R3
			set := t.Stmt.St.set
			att := strings.ReplaceAll(strings.ToLower(set["attempt"]), " ", "")
			c.Check(att == "attempt+1", "C03.R3", key+":attempt+1", t.Pos, "SET attempt = attempt + 1", "LEASE statement does not set attempt = attempt + 1 (got "+set["attempt"]+")")
			lid := set["lease_id"]
			fresh := false
			why3 := "lease_id = " + m.R(t.Stmt, lid)
			if strings.Contains(strings.ToLower(lid), "randomblob") {
				fresh = true
			} else if ex := m.operandExpr(t.Stmt, lid); ex != nil {
				fresh, why3 = p.exprIsFreshRandom(ex, t.Stmt)
			}
			c.Check(fresh, "C03.R3", key+":fresh-lease-id", t.Pos, why3, "lease_id is not bound to a fresh random id: "+why3)
			lu := set["lease_until"]
			if ex := m.operandExpr(t.Stmt, lu); ex != nil {
				k, d := p.ClockKind(ex, t.Stmt.Decl)
				c.Check(k == "now+d", "C03.R3", key+":lease-until=now+ttl", t.Pos, "lease_until = now + "+d, "lease_until is not now+ttl: "+k)
			} else {
				c.Fail("C03.R3", key+":lease-until=now+ttl", t.Pos, "lease_until not bound to a Go expression: "+lu)
			}
		}
	}
	c.Floor("C03.R1", "sql_lease_statements", nLease, 4)

	// candidate selection statements (SELECT id … state = queued, or the CTE of a WITH-UPDATE)
	nCand := 0
	for _, s := range m.Stmts {
		if s.Table() != "queue_items" || s.Fn == nil {
			continue
		}
		isCand := false
		if s.Verb() == "SELECT" {
			for _, w := range s.St.where {
				if strings.HasPrefix(strings.ToLower(w), "next_run_at") {
					isCand = true
				}
			}
		}
		if strings.HasPrefix(s.St.verb, "WITH-") {
			isCand = true
		}
		if !isCand {
			continue
		}
		nCand++
		key := m.Key(s) + ":candidate"
		in, why := siteInsideTx(p, tx, s.Fn, s.Site.call.Lparen, 0)
		c.Check(in && !strings.HasPrefix(s.Site.recvKind, "db"), "C03.R1", key+"-in-transaction", s.Pos, "candidate selection on the transaction connection, "+why, "candidate selection outside the leasing transaction: "+why)
		set, has, _ := m.whereStateSet(s)
		c.Check(has && set == ssParse("queued"), "C03.R2", key+"-state-queued", s.Pos, "state = queued", "candidate selection state guard is "+set.String())
		op, operand, ok := conjOn(s, "next_run_at")
		if !ok {
			c.Fail("C03.R2", key+"-due", s.Pos, "candidate selection has no next_run_at conjunct")
		} else {
			ex := m.operandExpr(s, operand)
			k := "other:not-bound"
			if ex != nil {
				k, _ = p.ClockKind(ex, s.Decl)
			}
			c.Check(op == "<=" && k == "now", "C03.R2", key+"-due", s.Pos, "next_run_at <= now", fmt.Sprintf("candidate due test is `next_run_at %s %s` (%s); must be `<= now`", op, m.R(s, operand), k))
		}
	}
	c.Floor("C03.R2", "sql_candidate_selections", nCand, 3)

	// ---- memory ----
	p.memoryTransitions()
	sf := p.memFlow
	nMem := 0
	for i := range sf.Events {
		e := &sf.Events[i]
		if e.Kind != "store" || e.ToStr != "{leased}" {
			continue
		}
		nMem++
		st := e.Instr.(*ssa.Store)
		fn := e.Fn
		ptr := st.Addr.(*ssa.FieldAddr).X
		key := "memory." + e.Root + ":lease-store"
		pos := p.InstrPos(st)
		c.Check(e.From == ssParse("queued"), "C03.R2", key+":from-queued", pos, "from-set {queued}", "memory lease store from-set is "+e.From.String())
		// not-yet-due exclusion: store only reachable via After(NextRunAt, now)==false or IsZero(NextRunAt)==true
		var due []Edge
		for _, b := range fn.Blocks {
			for si := range b.Succs {
				a, ok := edgeAtom(Edge{b, si})
				if !ok || !isBoolTrue(a.Y) {
					continue
				}
				call, ok := a.X.(*ssa.Call)
				if !ok || len(call.Call.Args) == 0 {
					continue
				}
				if _, f, ok := fieldOfLoad(call.Call.Args[0]); !ok || f != "NextRunAt" {
					continue
				}
				if calleeIs(call, "time", "Time", "After") && a.Op == token.NEQ {
					due = append(due, Edge{b, si})
				}
				if calleeIs(call, "time", "Time", "IsZero") && a.Op == token.EQL {
					due = append(due, Edge{b, si})
				}
			}
		}
		okDue, path := p.MustPass(fn, st, due)
		if okDue && len(due) > 0 {
			c.Ok("C03.R2", key+":due", pos, "lease store only reachable through NextRunAt.After(now)==false (or zero NextRunAt)")
		} else {
			c.Fail("C03.R2", key+":due", pos, "memory lease store reachable without the not-After(now) test on NextRunAt", path...)
		}
		// R3: same block writes Attempt+1, LeaseID fresh, LeaseUntil = now.Add(ttl)
		var attOK, idOK, untilOK bool
		for _, s2 := range companionStores(st, ptr) {
			fa := s2.Addr.(*ssa.FieldAddr)
			_, fname, _ := fieldAddrName(fa)
			switch fname {
			case "Attempt":
				if bo, ok := s2.Val.(*ssa.BinOp); ok && bo.Op == token.ADD && isIntConst(bo.Y, 1) {
					if _, f, ok := fieldOfLoad(bo.X); ok && f == "Attempt" {
						attOK = true
					}
				}
			case "LeaseID":
				if p.derivesFromCall(s2.Val, isCryptoRand, map[ssa.Value]bool{}, 0) {
					idOK = true
				}
			case "LeaseUntil":
				if call, ok := s2.Val.(*ssa.Call); ok && calleeIs(call, "time", "Time", "Add") {
					untilOK = true
				}
			}
		}
		c.Check(attOK, "C03.R3", key+":attempt+1", pos, "Attempt = Attempt + 1 alongside the lease store", "memory lease does not store Attempt+1 in the leasing block")
		c.Check(idOK, "C03.R3", key+":fresh-lease-id", pos, "LeaseID = result of a crypto/rand-backed generator", "memory lease does not store a fresh random LeaseID")
		c.Check(untilOK, "C03.R3", key+":lease-until=now+ttl", pos, "LeaseUntil = now.Add(ttl)", "memory lease does not set LeaseUntil = now.Add(ttl)")
	}
	c.Floor("C03.R2", "memory_lease_stores", nMem, 1)

	// attempt written nowhere else
	nAttemptWrites := 0
	for _, be := range []string{"sqlite", "postgres"} {
		seen := map[*SQLStmt]bool{}
		for _, t := range p.sqlTransitions(be) {
			if seen[t.Stmt] || t.Stmt.Verb() != "UPDATE" {
				continue
			}
			seen[t.Stmt] = true
			if _, ok := t.Stmt.St.set["attempt"]; ok {
				nAttemptWrites++
				if t.To != "leased" {
					c.Fail("C03.R3", m.Key(t.Stmt)+":attempt-only-on-lease", t.Pos, "attempt is written by a non-LEASE statement")
				}
			}
		}
	}
	for _, fn := range p.FuncsInPkg("queue") {
		root := fn
		for root.Parent() != nil {
			root = root.Parent()
		}
		if root.Signature.Recv() == nil || namedName(root.Signature.Recv().Type()) != "MemoryStore" {
			continue
		}
		for _, b := range fn.Blocks {
			for _, ins := range b.Instrs {
				s2, ok := ins.(*ssa.Store)
				if !ok {
					continue
				}
				fa, ok := s2.Addr.(*ssa.FieldAddr)
				if !ok {
					continue
				}
				tn, fname, _ := fieldAddrName(fa)
				if tn != "Envelope" || fname != "Attempt" {
					continue
				}
				if _, local := fa.X.(*ssa.Alloc); local {
					continue
				}
				if ia, ok := fa.X.(*ssa.IndexAddr); ok {
					// items[i].Attempt++ on the response copy (postgres)
					_ = ia
					continue
				}
				nAttemptWrites++
				// must be in a block that also stores State = leased
				leaseBlock := false
				for _, i2 := range b.Instrs {
					if s3, ok := i2.(*ssa.Store); ok {
						if fa3, ok := s3.Addr.(*ssa.FieldAddr); ok && fa3.X == fa.X {
							if _, f3, _ := fieldAddrName(fa3); f3 == "State" {
								if cs, ok := constState(s3.Val); ok && cs == ssParse("leased") {
									leaseBlock = true
								}
							}
						}
					}
				}
				if !leaseBlock {
					c.Fail("C03.R3", "memory."+FuncName(fn)+":attempt-only-on-lease", p.InstrPos(s2), "Attempt of a stored item is written outside a lease store")
				}
			}
		}
	}
	c.Check(nAttemptWrites >= 4, "C03.R3", "attempt-writers", "", fmt.Sprintf("%d attempt writer(s), all LEASE constructs", nAttemptWrites), fmt.Sprintf("only %d attempt writers found", nAttemptWrites))

	checkLeaseCleared(c, "C03.R4", nil)
	// R5: the only construct that takes a lease away without the holder's lease id is the sweep, and it must test lease_until <= now
	c.Rule("C03.R6", "the lease deadline SQLite stores is representable: before now.Add(ttl) is converted to Unix nanoseconds for lease_until, the deadline is compared with a fixed instant or the TTL with a constant (clamped), so an over-long TTL cannot wrap into an already expired lease")
	checkLeaseDeadlineRepresentable(c, "C03.R6")
	c.Rule("C03.R5", "a lease is taken away without its holder only by the sweep, whose statement tests state='leased' and lease_until <= now (memory: the LeaseUntil expiry edge)")
	checkSweepGuard(c, "C03.R5")
	// memory: lease under mutex is C02.R5; restate for the Dequeue method
	lm := p.lockAnalysis("queue", "MemoryStore", p.mutexField("queue", "MemoryStore"))
	okLock := true
	n := 0
	for _, a := range lm.Accesses {
		if a.Fn.Name() == "Dequeue" {
			n++
			if !a.Held {
				okLock = false
			}
		}
	}
	c.Check(okLock && n > 0, "C03.R1", "memory.Dequeue:under-mutex", "", fmt.Sprintf("%d accesses to store state in Dequeue, all under the mutex", n), "memory Dequeue touches store state without the mutex")
}

func isCryptoRand(c ssa.CallInstruction) bool {
	f := c.Common().StaticCallee()
	return f != nil && f.Pkg != nil && f.Pkg.Pkg.Path() == "crypto/rand"
}

// exprIsFreshRandom: the expression is a variable assigned from a call whose callee reaches crypto/rand.
func (p *Program) exprIsFreshRandom(ex ast.Expr, s *SQLStmt) (bool, string) {
	fd, pk := p.funcDecl(s.Decl)
	if fd == nil {
		return false, "no declaration"
	}
	info := pk.TypesInfo
	check := func(e ast.Expr) (bool, string) {
		ce, ok := e.(*ast.CallExpr)
		if !ok {
			return false, "not a call: " + exprStr(e)
		}
		var callee *types.Func
		switch f := ce.Fun.(type) {
		case *ast.Ident:
			callee, _ = info.Uses[f].(*types.Func)
		case *ast.SelectorExpr:
			callee, _ = info.Uses[f.Sel].(*types.Func)
		}
		if callee == nil {
			return false, "unresolved callee"
		}
		sf := p.SSA.FuncValue(callee)
		if sf != nil && p.FuncReaches(sf, isCryptoRand, map[*ssa.Function]bool{}) {
			return true, "lease_id = " + callee.Name() + "(…) (crypto/rand-backed)"
		}
		return false, callee.Name() + " does not reach crypto/rand"
	}
	if id, ok := ex.(*ast.Ident); ok {
		v, _ := info.Uses[id].(*types.Var)
		if v == nil {
			return false, "unresolved variable"
		}
		rhs := rhsOf(info, fd, v)
		if len(rhs) == 0 {
			return false, "variable " + v.Name() + " has no assignment in the function"
		}
		for _, r := range rhs {
			if ok, why := check(r); !ok {
				return false, why
			}
		}
		return check(rhs[0])
	}
	return check(ex)
}

// checkLeaseCleared: C03.R4 / C14.R4.
func checkLeaseCleared(c *Ctx, rule string, rootFilter func(string) bool) {
	p := c.P
	m := p.SQL()
	n := 0
	for _, be := range []string{"sqlite", "postgres"} {
		seen := map[*SQLStmt]bool{}
		for _, t := range p.sqlTransitions(be) {
			if rootFilter != nil && !rootFilter(t.Root) {
				continue
			}
			if seen[t.Stmt] || t.Kind != "store" || t.To == "leased" {
				continue
			}
			if t.HasFrom && t.From&ssParse("leased") == 0 {
				continue
			}
			seen[t.Stmt] = true
			n++
			set := t.Stmt.St.set
			ok := strings.EqualFold(strings.TrimSpace(set["lease_id"]), "NULL") && strings.EqualFold(strings.TrimSpace(set["lease_until"]), "NULL")
			c.Check(ok, rule, m.Key(t.Stmt)+":clears-lease", t.Pos, "SET lease_id = NULL, lease_until = NULL", fmt.Sprintf("statement can take a message out of leased (from %s to %s) without clearing lease_id/lease_until", t.From, t.To))
		}
	}
	p.memoryTransitions()
	sf := p.memFlow
	for i := range sf.Events {
		e := &sf.Events[i]
		if rootFilter != nil && !rootFilter(e.Root) {
			continue
		}
		if e.Kind != "store" || e.ToStr == "{leased}" || e.From&ssParse("leased") == 0 {
			continue
		}
		n++
		st := e.Instr.(*ssa.Store)
		ptr := st.Addr.(*ssa.FieldAddr).X
		idCleared, untilCleared := false, false
		for _, ins := range st.Block().Instrs {
			s2, ok := ins.(*ssa.Store)
			if !ok {
				continue
			}
			fa, ok := s2.Addr.(*ssa.FieldAddr)
			if !ok || fa.X != ptr {
				continue
			}
			_, fname, _ := fieldAddrName(fa)
			if fname == "LeaseID" {
				if cs, ok := s2.Val.(*ssa.Const); ok && cs.Value != nil && cs.Value.ExactString() == `""` {
					idCleared = true
				}
			}
			if fname == "LeaseUntil" {
				untilCleared = true
			}
		}
		// a lease-index delete from which the store is reachable (same function)
		idx := false
		for _, b := range e.Fn.Blocks {
			for _, ins := range b.Instrs {
				if ci, ok := ins.(ssa.CallInstruction); ok {
					if bi, ok := ci.Common().Value.(*ssa.Builtin); ok && bi.Name() == "delete" && sf.isLeaseIndex(ci.Common().Args[0]) {
						if ins.Block() == st.Block() {
							idx = true
						} else {
							par := reach([]*ssa.BasicBlock{ins.Block()}, nil, nil)
							if _, ok := par[st.Block()]; ok {
								idx = true
							}
						}
					}
				}
			}
		}
		if !idx {
			// the transition may sit in a helper: then every call site of the helper (in a function the root reaches)
			// must be preceded by the lease-index delete in the caller
			var rootFn *ssa.Function
			for _, m := range p.MethodsOf("queue", "MemoryStore") {
				if m.Name() == e.Root {
					rootFn = m
				}
			}
			if rootFn != nil {
				rr := p.Reach(rootFn)
				sites := 0
				all := true
				for _, cs := range p.CallSitesOf(e.Fn) {
					if !rr[cs.Parent()] {
						continue
					}
					sites++
					found := false
					for _, b := range cs.Parent().Blocks {
						for _, ins := range b.Instrs {
							if ci, ok := ins.(ssa.CallInstruction); ok {
								if bi, ok := ci.Common().Value.(*ssa.Builtin); ok && bi.Name() == "delete" && sf.isLeaseIndex(ci.Common().Args[0]) {
									if ins.Block() == cs.Block() {
										if instrIndex(ins) < instrIndex(cs) {
											found = true
										}
									} else if _, ok := reach([]*ssa.BasicBlock{ins.Block()}, nil, nil)[cs.Block()]; ok {
										found = true
									}
								}
							}
						}
					}
					if !found {
						all = false
					}
				}
				if sites > 0 && all {
					idx = true
				}
			}
		}
		key := fmt.Sprintf("memory.%s:%s->%s:clears-lease", e.Root, e.From, strings.Trim(e.ToStr, "{}"))
		if strings.Contains(e.Chain, " > ") {
			key += " via " + e.Chain[strings.LastIndex(e.Chain, " > ")+3:]
		}
		c.Check(idCleared && untilCleared && idx, rule, key, p.InstrPos(st), "LeaseID=\"\", LeaseUntil reset and lease-index entry removed with the transition",
			fmt.Sprintf("transition out of leased without clearing the lease (LeaseID cleared=%v, LeaseUntil reset=%v, lease index delete=%v)", idCleared, untilCleared, idx))
	}
	if rootFilter == nil {
		c.Floor(rule, "constructs_leaving_leased", n, 20)
	}
}

// companionStores: the stores through the same record pointer that always execute together with st — each is in a
// block that dominates st's block or is dominated by it with no branch that could skip it (same block, or a chain
// of single-successor blocks), in either order.
func companionStores(st *ssa.Store, ptr ssa.Value) []*ssa.Store {
	var out []*ssa.Store
	fn := st.Parent()
	alwaysTogether := func(a, b *ssa.BasicBlock) bool {
		if a == b {
			return true
		}
		// a dominates b and b post-dominates a within straight-line/forward flow: every path from a reaches b
		// before leaving the function or returning to a (approximated: b reachable, and no path from a to an
		// exit or back to a that avoids b)
		if !a.Dominates(b) {
			return false
		}
		seen := map[*ssa.BasicBlock]bool{a: true}
		work := append([]*ssa.BasicBlock(nil), a.Succs...)
		for len(work) > 0 {
			x := work[len(work)-1]
			work = work[:len(work)-1]
			if x == b || seen[x] {
				if x == a {
					return false
				}
				continue
			}
			seen[x] = true
			if len(x.Succs) == 0 {
				// a path ends without b: acceptable only when it is a panic/error exit? be strict
				if _, isRet := x.Instrs[len(x.Instrs)-1].(*ssa.Return); isRet {
					return false
				}
				continue
			}
			for _, s := range x.Succs {
				if s == a {
					return false
				}
				work = append(work, s)
			}
		}
		return true
	}
	for _, b := range fn.Blocks {
		for _, ins := range b.Instrs {
			s2, ok := ins.(*ssa.Store)
			if !ok {
				continue
			}
			fa, ok := s2.Addr.(*ssa.FieldAddr)
			if !ok || fa.X != ptr {
				continue
			}
			if alwaysTogether(b, st.Block()) || alwaysTogether(st.Block(), b) {
				out = append(out, s2)
			}
		}
	}
	return out
}

// derivesFromCall: v is computed from the result (or an out-parameter buffer) of a call that satisfies pred,
// directly or through callees.
func (p *Program) derivesFromCall(v ssa.Value, pred func(ssa.CallInstruction) bool, seen map[ssa.Value]bool, depth int) bool {
	if v == nil || seen[v] || depth > 12 {
		return false
	}
	seen[v] = true
	hit := func(ci ssa.CallInstruction) bool {
		if pred(ci) {
			return true
		}
		if f := ci.Common().StaticCallee(); f != nil && p.FuncReaches(f, pred, map[*ssa.Function]bool{}) {
			return true
		}
		return false
	}
	// a buffer filled by such a call
	bufferFilled := func(buf ssa.Value) bool {
		if buf.Referrers() == nil {
			return false
		}
		for _, ref := range *buf.Referrers() {
			switch r := ref.(type) {
			case ssa.CallInstruction:
				if hit(r) {
					return true
				}
			case *ssa.Slice:
				for _, r2 := range *r.Referrers() {
					if ci, ok := r2.(ssa.CallInstruction); ok && hit(ci) {
						return true
					}
				}
			}
		}
		return false
	}
	switch x := v.(type) {
	case *ssa.Call:
		if hit(x) {
			return true
		}
		for _, a := range x.Call.Args {
			if p.derivesFromCall(a, pred, seen, depth+1) {
				return true
			}
		}
	case *ssa.Alloc:
		return bufferFilled(x)
	case *ssa.MakeSlice:
		return bufferFilled(x)
	case *ssa.Slice:
		return bufferFilled(x) || p.derivesFromCall(x.X, pred, seen, depth+1)
	case *ssa.Phi:
		for _, e := range x.Edges {
			if p.derivesFromCall(e, pred, seen, depth+1) {
				return true
			}
		}
	case *ssa.UnOp:
		return p.derivesFromCall(x.X, pred, seen, depth+1)
	case *ssa.Extract:
		return p.derivesFromCall(x.Tuple, pred, seen, depth+1)
	case *ssa.Convert:
		return p.derivesFromCall(x.X, pred, seen, depth+1)
	case *ssa.ChangeType:
		return p.derivesFromCall(x.X, pred, seen, depth+1)
	case *ssa.BinOp:
		return p.derivesFromCall(x.X, pred, seen, depth+1) || p.derivesFromCall(x.Y, pred, seen, depth+1)
	case *ssa.IndexAddr:
		return p.derivesFromCall(x.X, pred, seen, depth+1)
	case *ssa.FieldAddr:
		return p.derivesFromCall(x.X, pred, seen, depth+1)
	}
	return false
}

// checkSweepGuard: the only construct that takes a lease away without the holder's lease id is the sweep, and it tests
// the lease deadline (C03.R5; claimed as C02.R10 for the clause "leased→queued only by nack or lease expiry").
func checkSweepGuard(c *Ctx, rule string) {
	p := c.P
	m := p.SQL()
	tx := p.Tx()
	p.memoryTransitions()
	sf := p.memFlow
	_, _ = m, tx
	nSweep := 0
	seenSweep := map[*SQLStmt]bool{}
	for _, be := range []string{"sqlite", "postgres"} {
		for _, t := range p.sqlTransitions(be) {
			// holder operations are fenced by the presented lease id (C04.R1) and operator cancels are named in the
			// statement; every other statement that can take a row out of leased — reachable from Dequeue, from any
			// other Store method, or from nowhere a Store method reaches (constructors, start-up recovery) — must be the sweep
			holderOrOperator := storeLeaseMethods[strings.TrimSuffix(t.Root, "Batch")] || strings.HasPrefix(t.Root, "Cancel")
			if holderOrOperator || seenSweep[t.Stmt] || t.Kind == "insert" || t.To == "leased" {
				continue
			}
			if t.HasFrom && t.From&ssParse("leased") == 0 {
				continue // prune of non-leased rows
			}
			seenSweep[t.Stmt] = true
			nSweep++
			op, operand, ok := conjOn(t.Stmt, "lease_until")
			k := "other:unbound"
			if ok {
				if ex := m.operandExpr(t.Stmt, operand); ex != nil {
					k, _ = p.ClockKind(ex, t.Stmt.Decl)
				}
			}
			c.Check(ok && op == "<=" && k == "now" && t.HasFrom && t.From == ssParse("leased") && t.To == "queued", rule, m.Key(t.Stmt)+":sweep-guard", t.Pos,
				"sweep: state='leased' AND lease_until <= now → queued",
				fmt.Sprintf("a statement (reachable from "+t.Root+") can take rows out of leased (from %s to %q) without the guard lease_until <= now (found: lease_until %s %s, %s)", t.From, t.To, op, m.R(t.Stmt, operand), k))
		}
	}
	for i := range sf.Events {
		e := &sf.Events[i]
		if e.Root != "Dequeue" || e.Kind != "store" || e.From&ssParse("leased") == 0 || e.ToStr == "{leased}" {
			continue
		}
		nSweep++
		// the call chain from Dequeue must pass an expired edge: in the function that calls the storing helper (or stores itself)
		holder := e.Fn
		site := e.Instr
		if cs := p.CallSitesOf(e.Fn); len(cs) > 0 && e.Fn.Name() != "Dequeue" {
			okAll := true
			n := 0
			for _, call := range cs {
				if !strings.Contains(e.Chain, call.Parent().Name()) {
					continue
				}
				n++
				exp := expiredEdges(call.Parent())
				if okp, _ := p.MustPass(call.Parent(), call, exp); !okp || len(exp) == 0 {
					okAll = false
				}
			}
			c.Check(okAll && n > 0, rule, "memory.Dequeue:sweep-guard via "+e.Fn.Name(), p.InstrPos(site), "expiry store only behind Before(now, LeaseUntil)==false", "memory sweep releases a lease without the LeaseUntil expiry test")
			continue
		}
		exp := expiredEdges(holder)
		okp, _ := p.MustPass(holder, site, exp)
		c.Check(okp && len(exp) > 0, rule, "memory.Dequeue:sweep-guard", p.InstrPos(site), "expiry store only behind Before(now, LeaseUntil)==false", "memory sweep releases a lease without the LeaseUntil expiry test")
	}
	c.Floor(rule, "sweep_constructs", nSweep, 3)
}
