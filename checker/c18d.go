package main

// C18.R10 — "a reload that needs a restart leaves everything as before": the restart-required predicate has to
// compare the candidate configuration with the configuration the process is *running*. In a reload entry the
// baseline operand of the predicate is one of the entry's parameters; at every call site of the entry the value
// bound to that parameter must be the tracked running configuration — never a configuration freshly compiled from
// the file (which already contains the refused restart-only edit, so the comparison finds nothing to refuse), unless
// that very value is also the one handed to the runtime state (start-up).

import (
	"fmt"
	"strings"

	"golang.org/x/tools/go/ssa"
)

func checkRestartBaseline(c *Ctx, rule string) {
	p := c.P
	entries := reloadEntries(p)
	isEntry := func(f *ssa.Function) bool {
		for _, e := range entries {
			if p.Orig(e) == p.Orig(f) {
				return true
			}
		}
		return false
	}
	isCompile := func(s vsource) bool {
		return s.Kind == "call" && strings.Contains(s.Desc, "config.Compile")
	}
	n := 0
	for _, e := range entries {
		ename := "app." + e.Name()
		// the predicate call and its baseline operand
		for _, ci := range allCalls(e, func(ci ssa.CallInstruction) bool {
			f := ci.Common().StaticCallee()
			if f == nil || !IsModuleFunc(f) {
				return false
			}
			ps := f.Signature.Params()
			return ps.Len() == 2 && namedName(ps.At(0).Type()) == "Compiled" && namedName(ps.At(1).Type()) == "Compiled" && f.Signature.Results().Len() == 1
		}) {
			var baseline *ssa.Parameter
			nFresh := 0
			for _, a := range ci.Common().Args {
				fresh := false
				var prm *ssa.Parameter
				for _, s := range sourcesOf(a) {
					if isCompile(s) {
						fresh = true
					}
					if pv, ok := s.Val.(*ssa.Parameter); ok && s.Kind == "param" {
						prm = pv
					}
				}
				if fresh {
					nFresh++
				} else if prm != nil {
					baseline = prm
				}
			}
			if nFresh != 1 || baseline == nil {
				c.Fail(rule, ename+":restart predicate compares candidate with a parameter", p.InstrPos(ci), fmt.Sprintf("the restart-required predicate does not compare the freshly compiled candidate with a configuration handed in by the caller (%d freshly compiled operand(s))", nFresh))
				continue
			}
			idx := -1
			for i, pr := range e.Params {
				if pr == baseline {
					idx = i
				}
			}
			// call sites of the entry
			callers := map[*ssa.Function]bool{}
			for _, cs := range p.CallSitesOf(p.Orig(e)) {
				if cs.Parent() != nil {
					callers[p.Orig(cs.Parent())] = true
				}
			}
			for caller := range callers {
				cv := p.ViewKeeping(caller, isEntry)
				for _, cs := range allCalls(cv, func(x ssa.CallInstruction) bool {
					f := x.Common().StaticCallee()
					return f != nil && p.Orig(f) == p.Orig(e)
				}) {
					if idx < 0 || idx >= len(cs.Common().Args) {
						continue
					}
					n++
					key := fmt.Sprintf("%s<-%s:restart baseline is the running configuration", ename, FuncName(caller))
					bad := ""
					for _, s := range sourcesOf(cs.Common().Args[idx]) {
						if !isCompile(s) {
							continue
						}
						// start-up: the same compiled value is what the runtime state is built from / switched to
						applied := false
						for _, ac := range allCalls(cv, func(x ssa.CallInstruction) bool {
							f := x.Common().StaticCallee()
							if f == nil || !IsModuleFunc(f) {
								return false
							}
							if rs := f.Signature.Results(); rs.Len() >= 1 && namedName(rs.At(0).Type()) == "runtimeState" {
								return true
							}
							return f.Signature.Recv() != nil && namedName(f.Signature.Recv().Type()) == "runtimeState"
						}) {
							for _, aa := range ac.Common().Args {
								for _, s2 := range sourcesOf(aa) {
									if s2.Val == s.Val {
										applied = true
									}
								}
							}
						}
						if !applied {
							bad = s.Desc
						}
					}
					c.Check(bad == "", rule, key, p.InstrPos(cs), "the baseline handed to the reload is a tracked value (parameter, captured variable, earlier reload result or the configuration the state was built from)",
						"the reload's restart check is given a configuration freshly compiled from the file ("+bad+") as its baseline instead of the running one: a restart-only edit already on disk compares equal to itself, is applied live, and the running configuration then claims listeners/backends the process never opened")
				}
			}
		}
	}
	c.Floor(rule, "reload call sites", n, 1)
}
