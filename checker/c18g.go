package main

import (
	"fmt"
	"go/token"
	"go/types"
	"sort"
	"strings"

	"golang.org/x/tools/go/ssa"
)

// C18.R13 — an object of the running state is carried over a reload only if nothing configured about it changed.
//
// A reload builds new authenticators, limiters and tables from the new configuration. Installing the object the
// running state already holds in place of the newly built one (to keep warm connections, counters, caches) is only
// the same as installing the new one if every configured setting of the two is equal. Decided structurally: wherever
// a function reachable from a reload entry puts a value that comes out of a container of the running state into a
// container of package app's state (a map update or field store), the site is dominated by the true edge of a
// predicate over the old and the new object, and the predicate reads every field of the object's type that the
// reload's builder sets when it constructs one. Unconditional carry-over, or a predicate that leaves a configured
// field out (the list of headers to copy, say), is reported.

func checkCarryOverCoversConfig(c *Ctx, rule string, entries []*ssa.Function) {
	p := c.P
	var fromState func(v ssa.Value, depth int) bool
	fromState = func(v ssa.Value, depth int) bool {
		if v == nil || depth > 6 {
			return false
		}
		switch x := v.(type) {
		case *ssa.Extract:
			return fromState(x.Tuple, depth+1)
		case *ssa.Lookup:
			root, _, ok := fieldPathRootOfLoad(x.X)
			return ok && root == "runtimeState"
		case *ssa.Next:
			if rg, ok := x.Iter.(*ssa.Range); ok {
				root, _, ok := fieldPathRootOfLoad(rg.X)
				return ok && root == "runtimeState"
			}
		case *ssa.UnOp:
			if x.Op == token.MUL {
				if root, _, ok := fieldPathRootOfLoad(x); ok && root == "runtimeState" {
					_, isPtr := x.Type().Underlying().(*types.Pointer)
					return isPtr
				}
			}
		case *ssa.Phi:
			for _, e := range x.Edges {
				if fromState(e, depth+1) {
					return true
				}
			}
		}
		return false
	}
	elemNamed := func(t types.Type) *types.Named {
		if pt, ok := t.Underlying().(*types.Pointer); ok {
			if n, ok := types.Unalias(pt.Elem()).(*types.Named); ok {
				if _, isStruct := n.Underlying().(*types.Struct); isStruct {
					return n
				}
			}
		}
		return nil
	}
	nSites, nChecked := 0, 0
	for _, entry := range entries {
		ename := "app." + entry.Name()
		reachE := p.Reach(entry)
		// fields the builder sets per type
		built := map[*types.Named]map[string]bool{}
		for fn := range reachE {
			for _, b := range fn.Blocks {
				for _, ins := range b.Instrs {
					st, ok := ins.(*ssa.Store)
					if !ok {
						continue
					}
					fa, ok := st.Addr.(*ssa.FieldAddr)
					if !ok {
						continue
					}
					n := elemNamed(fa.X.Type())
					if n == nil {
						continue
					}
					f := n.Underlying().(*types.Struct).Field(fa.Field)
					if namedPkgPath(f.Type()) == "sync" || !f.Exported() {
						continue
					}
					if built[n] == nil {
						built[n] = map[string]bool{}
					}
					built[n][f.Name()] = true
				}
			}
		}
		var fns []*ssa.Function
		for fn := range reachE {
			if fn.Pkg != nil && fn.Pkg.Pkg.Name() == "app" {
				fns = append(fns, fn)
			}
		}
		sort.Slice(fns, func(i, j int) bool { return fns[i].Pos() < fns[j].Pos() })
		for _, fn := range fns {
			for _, b := range fn.Blocks {
				for _, ins := range b.Instrs {
					var val ssa.Value
					switch x := ins.(type) {
					case *ssa.MapUpdate:
						if root, _, ok := fieldPathRootOfLoad(x.Map); ok && (strings.HasPrefix(root, "runtime")) {
							val = x.Value
						}
					case *ssa.Store:
						if fa, ok := x.Addr.(*ssa.FieldAddr); ok {
							if tn, _, _ := fieldAddrName(fa); strings.HasPrefix(tn, "runtime") {
								val = x.Val
							}
						}
					}
					if val == nil || !fromState(val, 0) {
						continue
					}
					T := elemNamed(val.Type())
					if T == nil {
						continue
					}
					nSites++
					key := fmt.Sprintf("%s:%s carried over in %s", ename, T.Obj().Name(), fn.Name())
					// the guarding predicate
					var pred *ssa.Function
					for _, pc := range dominatingConds(b, loopHeaderOf(b)) {
						call, ok := pc.Cond.(*ssa.Call)
						if !ok || !pc.Val {
							continue
						}
						g := call.Call.StaticCallee()
						if g == nil || !IsModuleFunc(g) || len(g.Blocks) == 0 {
							continue
						}
						nT := 0
						for _, a := range call.Call.Args {
							if elemNamed(a.Type()) == T {
								nT++
							}
						}
						if nT >= 2 {
							pred = g
						}
					}
					if pred == nil {
						c.Fail(rule, key, p.InstrPos(ins), "the object the running state already holds is installed again by the reload without a comparison of the old and the newly built object: whatever the new configuration says about it is ignored until a restart")
						continue
					}
					nChecked++
					read := map[string]bool{}
					for g := range p.Reach(pred) {
						for _, bb := range g.Blocks {
							for _, i2 := range bb.Instrs {
								switch y := i2.(type) {
								case *ssa.FieldAddr:
									if elemNamed(y.X.Type()) == T {
										read[T.Underlying().(*types.Struct).Field(y.Field).Name()] = true
									}
								case *ssa.Field:
									if n, ok := types.Unalias(y.X.Type()).(*types.Named); ok && n == T {
										read[T.Underlying().(*types.Struct).Field(y.Field).Name()] = true
									}
								}
							}
						}
					}
					var missing []string
					for f := range built[T] {
						if !read[f] {
							missing = append(missing, f)
						}
					}
					sort.Strings(missing)
					c.Check(len(missing) == 0, rule, key, p.InstrPos(ins),
						fmt.Sprintf("kept only behind %s, which reads every field the builder sets", pred.Name()),
						fmt.Sprintf("the old %s is kept in place of the newly built one behind %s, which does not compare %s — field(s) the reload's builder sets from the configuration: a reload that changes only that setting succeeds and the route goes on with the old value (for forward-auth copy_headers: headers the new configuration no longer lists are still stored with every message, newly listed ones are not)", T.Obj().Name(), pred.Name(), strings.Join(missing, ", ")))
				}
			}
		}
	}
	c.Ok(rule, "app:carry-over sites on the reload path", "", fmt.Sprintf("%d site(s) where an object of the running state is installed again, %d behind a predicate that was checked for field coverage", nSites, nChecked))
}
