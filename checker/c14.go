package main

import (
	"fmt"
	"go/token"
	"go/types"
	"sort"
	"strings"

	"golang.org/x/tools/go/ssa"
)

func init() { register("C14", checkC14) }

var operatorSpec = map[string]sset{
	"CancelMessages":          ssParse("queued", "leased", "dead"),
	"CancelMessagesByFilter":  ssParse("queued", "leased", "dead"),
	"RequeueMessages":         ssParse("dead", "canceled"),
	"RequeueMessagesByFilter": ssParse("dead", "canceled"),
	"ResumeMessages":          ssParse("canceled"),
	"ResumeMessagesByFilter":  ssParse("canceled"),
	"RequeueDead":             ssParse("dead"),
	"DeleteDead":              ssParse("dead"),
}

func isOperatorOp(root string) bool { _, ok := operatorSpec[root]; return ok }

func checkC14(c *Ctx) {
	p := c.P
	c.Rule("C14.R1", "from-sets: every operator mutation construct (by id and by filter, all backends) changes exactly the states the operation is defined for; by-filter selection helpers receive exactly that set")
	c.Rule("C14.R2", "by-filter selection applies every given criterion, orders by (received_at, id) descending, caps at the normalised limit and examines every stored message (no early exit); the admin parser normalises limit 0→100, <0 reject, >1000→1000, caps and de-duplicates id lists and decodes strictly")
	c.Rule("C14.R3", "preview changes nothing: on the PreviewOnly edge no mutation construct is reachable and Matched is the length of the same selection")
	c.Rule("C14.R4", "cancel voids the lease: every cancel construct clears lease id/expiry (and the memory lease index)")
	c.Rule("C14.R5", "handler ↔ store table: each admin endpoint path for an operator mutation reaches exactly the Store method of that operation and no other mutating method")
	c.Rule("C14.R6", "a named criterion stays a criterion: the admin parsers of optional filter values return, on accepting paths, exactly the value whose non-emptiness they established (no further trimming that could turn a named route such as \"/\" into the empty 'no criterion' value)")

	// ---- R1 ----
	n := 0
	for _, be := range []string{"memory", "sqlite", "postgres"} {
		for _, t := range transOf(p, be) {
			want, ok := operatorSpec[t.Root]
			if !ok || t.Kind == "insert" {
				continue
			}
			if cl := transClass(t); cl == "prune/drop-oldest" && !(t.Root == "DeleteDead" && t.From == ssParse("dead")) {
				continue
			}
			n++
			if !t.HasFrom || t.From == ssTop {
				c.Fail("C14.R1", t.Key+":from-set", t.Pos, "operator mutation without a state guard: it can change messages in any state")
				continue
			}
			if be == "postgres" && t.From != want {
				c.Note("C14.R1: postgres %s from-set %s differs from the specification %s (not armed)", t.Key, t.From, want)
				continue
			}
			c.Check(t.From == want, "C14.R1", t.Key+":from-set", t.Pos, "changes exactly "+want.String(), fmt.Sprintf("%s changes messages in %s; the operation is defined for %s", t.Root, t.From, want))
		}
	}
	c.Floor("C14.R1", "operator_mutation_constructs", n, 24)
	// selection helper literals (SQL backends): calls passing a []State literal from a *ByFilter method
	sf := newStateFlow(p, "SQLiteStore")
	nLit := 0
	for _, tn := range []string{"SQLiteStore", "PostgresStore"} {
		for _, m := range p.MethodsOf("queue", tn) {
			want, ok := operatorSpec[m.Name()]
			if !ok || !strings.HasSuffix(m.Name(), "ByFilter") {
				continue
			}
			for _, ci := range allCalls(m, func(ci ssa.CallInstruction) bool {
				f := ci.Common().StaticCallee()
				return f != nil && IsModuleFunc(f)
			}) {
				for _, a := range ci.Common().Args {
					if sl, ok := a.Type().Underlying().(*types.Slice); ok && namedName(sl.Elem()) == "State" {
						nLit++
						got := sf.containerSet(a)
						c.Check(got == want, "C14.R1", tn+"."+m.Name()+":selection-allowed-set", p.InstrPos(ci), "selection helper receives "+got.String(), fmt.Sprintf("the by-filter selection is asked for states %s; %s is defined for %s", got, m.Name(), want))
					}
				}
			}
		}
	}
	c.Floor("C14.R1", "selection_allowed_set_literals", nLit, 6)

	checkFilterSelection(c, "C14.R2")
	checkAdminManageParsers(c, "C14.R2")
	checkPreviewEffectFree(c, "C14.R3")
	checkLeaseCleared(c, "C14.R4", func(root string) bool { return strings.HasPrefix(root, "Cancel") })
	checkAdminHandlerTable(c, "C14.R5")
	checkOptionalCriterionParsers(c, "C14.R6")
}

func checkFilterSelection(c *Ctx, rule string) {
	p := c.P
	m := p.SQL()
	// SQL selection statements reachable from *ByFilter methods
	nSQL := 0
	for _, be := range []string{"sqlite", "postgres"} {
		seen := map[*SQLStmt]bool{}
		for _, root := range p.MethodsOf("queue", backendStoreType[be]) {
			if !strings.HasSuffix(root.Name(), "ByFilter") {
				continue
			}
			reachR := p.Reach(root)
			for _, s := range m.Stmts {
				if s.Backend != be || s.Verb() != "SELECT" || s.Table() != "queue_items" || s.Fn == nil || !reachR[s.Fn] || seen[s] || s.St.orderBy == "" {
					continue
				}
				if p.SharedBy(s.Fn) >= 4 {
					continue
				}
				seen[s] = true
				nSQL++
				key := m.Key(s) + ":filter-selection"
				cols := map[string]string{}
				for _, w := range append(append([]string{}, s.St.where...), s.St.optWhere...) {
					f := strings.Fields(strings.ToLower(w))
					if len(f) >= 2 {
						cols[f[0]] = f[1]
					}
				}
				var missing []string
				for _, want := range []string{"route", "target", "state", "received_at"} {
					if _, ok := cols[want]; !ok {
						missing = append(missing, want)
					}
				}
				if be == "postgres" && len(missing) > 0 {
					c.Note("%s: postgres %s lacks criteria %v (not armed)", rule, key, missing)
				} else {
					c.Check(len(missing) == 0 && cols["received_at"] == "<", rule, key+":criteria", s.Pos, "route, target, state, received_at < before", fmt.Sprintf("selection lacks criteria %v (received_at comparator %q)", missing, cols["received_at"]))
				}
				ob := strings.Join(strings.Fields(strings.ToLower(s.St.orderBy)), " ")
				c.Check(ob == "received_at desc, id desc", rule, key+":order", s.Pos, "ORDER BY received_at DESC, id DESC", "selection order is `"+ob+"`; must be received_at DESC, id DESC (newest first, deterministic ties)")
				c.Check(s.St.limit != "", rule, key+":limit", s.Pos, "LIMIT "+m.R(s, s.St.limit), "selection has no LIMIT")
			}
		}
	}
	c.Floor(rule, "sql_filter_selections", nSQL, 2)
	// memory: the selection helper = function returning []*Envelope reachable from *ByFilter methods
	var helper *ssa.Function
	for _, root := range p.MethodsOf("queue", "MemoryStore") {
		if !strings.HasSuffix(root.Name(), "ByFilter") {
			continue
		}
		for fn := range p.Reach(root) {
			if fn.Parent() == nil && fn.Signature.Results().Len() == 1 && strings.Contains(fn.Signature.Results().At(0).Type().String(), "[]*") && strings.Contains(fn.Signature.Results().At(0).Type().String(), "Envelope") {
				helper = fn
			}
		}
	}
	if helper == nil {
		c.Fail(rule, "memory:filter-selection-helper", "", "memory by-filter selection helper not found")
		return
	}
	name := "memory." + helper.Name()
	helper = p.View(helper) // the per-item criteria may sit in a predicate of their own
	// (a) candidates drawn by ranging over the item table; (b) loop has no exit besides exhaustion
	var appendSite ssa.Instruction
	for _, ci := range allCalls(helper, func(ci ssa.CallInstruction) bool {
		bi, ok := ci.Common().Value.(*ssa.Builtin)
		return ok && bi.Name() == "append"
	}) {
		if loopHeaderOf(ci.Block()) != nil {
			appendSite = ci
		}
	}
	if appendSite == nil {
		c.Fail(rule, name+":candidate-loop", p.Pos(helper.Pos()), "no candidate collection loop found")
		return
	}
	h := loopHeaderOf(appendSite.Block())
	sfm := newStateFlow(p, "MemoryStore")
	overTable := false
	for _, b := range helper.Blocks {
		for _, ins := range b.Instrs {
			if r, ok := ins.(*ssa.Range); ok && sfm.isItemTable(r.X) {
				// the Next of this range is in the header
				for _, hi := range h.Instrs {
					if nx, ok := hi.(*ssa.Next); ok && nx.Iter == r {
						overTable = true
					}
				}
			}
		}
	}
	c.Check(overTable, rule, name+":candidates-from-item-table", p.InstrPos(appendSite), "the candidate loop ranges over the item table (each stored message exactly once)", "candidates are not drawn by ranging over the item table itself (messages can be missed or seen twice)")
	// exits: edges from loop blocks (dominated by h, can reach h) to blocks outside
	inLoop := loopBody(h)
	nExit := 0
	for b := range inLoop {
		for _, s := range b.Succs {
			if !inLoop[s] && b != h {
				nExit++
				c.Fail(rule, name+":exhaustive-scan", p.InstrPos(b.Instrs[len(b.Instrs)-1]), "the candidate loop can stop before every stored message has been examined — the newest matching messages may not be among those selected")
			}
		}
	}
	if nExit == 0 {
		c.Ok(rule, name+":exhaustive-scan", p.InstrPos(appendSite), "the candidate loop exits only by exhaustion")
	}
	// (a') "received before": a message is selected only when its received_at is strictly before the cutoff (or no
	// cutoff is given) — the comparator SQL spells `received_at < ?`
	var strictBefore []Edge
	for _, b := range helper.Blocks {
		for i := range b.Succs {
			a, ok := edgeAtom(Edge{b, i})
			if !ok || !isBoolTrue(a.Y) || a.Op != token.EQL {
				continue
			}
			call, ok := a.X.(*ssa.Call)
			if !ok {
				continue
			}
			isCut := func(v ssa.Value) bool { return requestFieldOf(v, 0, map[ssa.Value]bool{}) == "Before" }
			isRecv := func(v ssa.Value) bool { _, f, ok := fieldOfLoad(v); return ok && f == "ReceivedAt" }
			switch {
			case calleeIs(call, "time", "Time", "IsZero") && len(call.Call.Args) == 1 && isCut(call.Call.Args[0]):
				strictBefore = append(strictBefore, Edge{b, i})
			case calleeIs(call, "time", "Time", "Before") && len(call.Call.Args) == 2 && isRecv(call.Call.Args[0]) && isCut(call.Call.Args[1]):
				strictBefore = append(strictBefore, Edge{b, i})
			case calleeIs(call, "time", "Time", "After") && len(call.Call.Args) == 2 && isCut(call.Call.Args[0]) && isRecv(call.Call.Args[1]):
				strictBefore = append(strictBefore, Edge{b, i})
			}
		}
	}
	// time.Compare spelled tests: received.Compare(cutoff) < 0
	for _, b := range helper.Blocks {
		for i := range b.Succs {
			a, ok := edgeAtom(Edge{b, i})
			if !ok {
				continue
			}
			call, ok := a.X.(*ssa.Call)
			if !ok || !calleeIs(call, "time", "Time", "Compare") || len(call.Call.Args) != 2 {
				continue
			}
			n, isC := intConst(a.Y)
			if !isC {
				continue
			}
			_, f, okf := fieldOfLoad(call.Call.Args[0])
			if okf && f == "ReceivedAt" && requestFieldOf(call.Call.Args[1], 0, map[ssa.Value]bool{}) == "Before" && ((a.Op == token.LSS && n == 0) || (a.Op == token.LEQ && n == -1) || (a.Op == token.EQL && n == -1)) {
				strictBefore = append(strictBefore, Edge{b, i})
			}
		}
	}
	okB, pathB := p.MustPass(helper, appendSite, strictBefore)
	if okB && len(strictBefore) > 0 {
		c.Ok(rule, name+":received strictly before the cutoff", p.InstrPos(appendSite), "a candidate is kept only behind ReceivedAt.Before(cutoff) or cutoff.IsZero()")
	} else {
		c.Fail(rule, name+":received strictly before the cutoff", p.InstrPos(appendSite), "a message can be selected without its received_at being strictly before the cutoff (a message received exactly at `before` is cancelled/requeued although SQLite's `received_at < ?` leaves it alone)", pathB...)
	}
	// (c) sort + cap
	okSort := false
	for _, ci := range allCalls(helper, func(ci ssa.CallInstruction) bool { _, ok := sortComparatorArg(ci); return ok }) {
		cmpArg, _ := sortComparatorArg(ci)
		for _, t := range funcValueTargets(cmpArg, 0) {
			if keys, ok := sortKeys(p.View(t)); ok && strings.Join(keys, ",") == "ReceivedAt DESC,ID DESC" {
				okSort = true
			}
		}
	}
	c.Check(okSort, rule, name+":order", p.Pos(helper.Pos()), "sorted by (ReceivedAt, ID) descending", "candidates are not sorted by (received_at, id) descending")
	okCap := false
	for _, b := range helper.Blocks {
		for _, ins := range b.Instrs {
			if sl, ok := ins.(*ssa.Slice); ok && sl.High != nil && sl.Low == nil {
				if f := requestFieldOf(sl.High, 0, map[ssa.Value]bool{}); f == "Limit" {
					okCap = true
				}
				// candidates[:min(len(candidates), limit)]
				if mc := builtinCall(sl.High, "min"); mc != nil {
					for _, a := range mc.Call.Args {
						if f := requestFieldOf(a, 0, map[ssa.Value]bool{}); f == "Limit" {
							okCap = true
						}
					}
				}
			}
		}
	}
	c.Check(okCap, rule, name+":cap", p.Pos(helper.Pos()), "result truncated to the normalised limit", "the selection is not truncated to the request's limit")
}

func checkAdminManageParsers(c *Ctx, rule string) {
	p := c.P
	// strict decode: DisallowUnknownFields dominates Decode
	nStrict := 0
	for _, fn := range p.FuncsInPkg("admin") {
		dis := allCalls(fn, func(ci ssa.CallInstruction) bool { return calleeIs(ci, "encoding/json", "Decoder", "DisallowUnknownFields") })
		if len(dis) == 0 {
			continue
		}
		nStrict++
		bad := false
		for _, dc := range allCalls(fn, func(ci ssa.CallInstruction) bool { return calleeIs(ci, "encoding/json", "Decoder", "Decode") }) {
			var through []ssa.Instruction
			for _, d := range dis {
				through = append(through, d)
			}
			if okp, _ := p.MustPassInstr(fn, dc, through); !okp {
				bad = true
			}
		}
		c.Check(!bad, rule, "admin."+fn.Name()+":strict-json", p.Pos(fn.Pos()), "DisallowUnknownFields precedes every Decode", "a Decode is reachable without DisallowUnknownFields")
	}
	c.Floor(rule, "strict_decoders", nStrict, 1)
	// parsers: functions of admin returning a queue.MessageManageFilterRequest / []string that call the strict decoder
	isStrictCall := func(ci ssa.CallInstruction) bool {
		f := ci.Common().StaticCallee()
		return f != nil && len(allCalls(f, func(x ssa.CallInstruction) bool { return calleeIs(x, "encoding/json", "Decoder", "DisallowUnknownFields") })) > 0
	}
	nParsers := 0
	for _, fn := range p.FuncsInPkg("admin") {
		if fn.Parent() != nil || len(allCalls(fn, isStrictCall)) == 0 || fn.Signature.Results().Len() < 2 {
			continue
		}
		// helpers of the package (a de-duplication step, say) are part of the parser; the strict decoder stays a call
		fn := p.ViewKeeping(fn, func(callee *ssa.Function) bool {
			return len(allCalls(callee, func(x ssa.CallInstruction) bool { return calleeIs(x, "encoding/json", "Decoder", "DisallowUnknownFields") })) > 0
		})
		r0 := fn.Signature.Results().At(0).Type()
		switch {
		case namedName(r0) == "MessageManageFilterRequest":
			nParsers++
			facts := map[string]bool{}
			for _, b := range fn.Blocks {
				if len(b.Instrs) == 0 {
					continue
				}
				if ifi, ok := b.Instrs[len(b.Instrs)-1].(*ssa.If); ok {
					a := condAtom(ifi.Cond, true)
					if nn, isC := intConst(a.Y); isC {
						if sym, ok := symOf(a.X); ok && strings.Contains(strings.ToLower(sym), "limit") {
							facts[fmt.Sprintf("limit%s%d", a.Op, nn)] = true
						}
					}
				}
				for _, ins := range b.Instrs {
					if phi, ok := ins.(*ssa.Phi); ok && strings.Contains(strings.ToLower(phi.Comment), "limit") {
						for _, e := range phi.Edges {
							if nn, isC := intConst(e); isC {
								facts[fmt.Sprintf("limit:=%d", nn)] = true
							}
						}
					}
				}
			}
			var fs []string
			for f := range facts {
				fs = append(fs, f)
			}
			sort.Strings(fs)
			want := []string{"limit:=100", "limit:=1000", "limit<0", "limit==0", "limit>1000"}
			c.Check(strings.Join(fs, " ") == strings.Join(want, " "), rule, "admin."+fn.Name()+":limit-normalisation", p.Pos(fn.Pos()), strings.Join(fs, " "), "limit normalisation is {"+strings.Join(fs, " ")+"}; must be {"+strings.Join(want, " ")+"}")
			// limit < 0 rejects
			rej := false
			for _, b := range fn.Blocks {
				for i := range b.Succs {
					a, ok := edgeAtom(Edge{b, i})
					if ok && a.Op == token.LSS && isIntConst(a.Y, 0) {
						if last, ok := b.Succs[i].Instrs[len(b.Succs[i].Instrs)-1].(*ssa.Return); ok {
							if cst, ok := last.Results[len(last.Results)-1].(*ssa.Const); ok && cst.Value.String() == "false" {
								rej = true
							}
						}
					}
				}
			}
			c.Check(rej, rule, "admin."+fn.Name()+":negative-limit-rejected", p.Pos(fn.Pos()), "limit < 0 ⇒ parse failure", "a negative limit is not rejected")
		case strings.Contains(r0.String(), "[]string"):
			nParsers++
			// cap: len(ids) > max rejects ; dedup: a seen-set comma-ok continue
			capOK, dedupOK := false, false
			for _, b := range fn.Blocks {
				for i := range b.Succs {
					a, ok := edgeAtom(Edge{b, i})
					if !ok {
						continue
					}
					if a.Op == token.GTR && lenArg(a.X) != nil {
						if nn, isC := intConst(a.Y); isC && nn == 1000 {
							capOK = true
						}
					}
					if ex, ok := a.X.(*ssa.Extract); ok && isBoolTrue(a.Y) {
						if lk, ok := ex.Tuple.(*ssa.Lookup); ok && lk.CommaOk {
							dedupOK = true
						}
					}
				}
			}
			c.Check(capOK, rule, "admin."+fn.Name()+":id-list-capped", p.Pos(fn.Pos()), "more than 1000 ids rejected", "the id list is not capped at 1000")
			c.Check(dedupOK, rule, "admin."+fn.Name()+":id-list-deduplicated", p.Pos(fn.Pos()), "ids de-duplicated through a seen-set", "the id list is not de-duplicated")
		}
	}
	c.Floor(rule, "manage_request_parsers", nParsers, 2)
}

func checkPreviewEffectFree(c *Ctx, rule string) {
	p := c.P
	n := 0
	p.memoryTransitions()
	mf := p.memFlow
	for _, tn := range []string{"MemoryStore", "SQLiteStore", "PostgresStore"} {
		for _, fn := range p.MethodsOf("queue", tn) {
			if !strings.HasSuffix(fn.Name(), "ByFilter") || !token.IsExported(fn.Name()) {
				continue
			}
			n++
			key := tn + "." + fn.Name()
			var prev []Edge
			for _, b := range fn.Blocks {
				for i := range b.Succs {
					a, ok := edgeAtom(Edge{b, i})
					if ok && isBoolTrue(a.Y) && a.Op == token.EQL {
						if sym, ok := symOf(a.X); ok && strings.HasSuffix(sym, ".PreviewOnly") {
							prev = append(prev, Edge{b, i})
						}
					}
				}
			}
			if len(prev) == 0 {
				c.Fail(rule, key+":preview-tested", p.Pos(fn.Pos()), "the operation never tests PreviewOnly")
				continue
			}
			// mutation points: memory events in fn, or calls reaching SQL mutations / operator methods
			var muts []ssa.Instruction
			if tn == "MemoryStore" {
				for i := range mf.Events {
					e := &mf.Events[i]
					if e.Fn == fn && e.Kind != "lease-delete" {
						muts = append(muts, e.Instr)
					}
				}
			} else {
				for _, ci := range allCalls(fn, func(ci ssa.CallInstruction) bool {
					f := ci.Common().StaticCallee()
					return f != nil && IsModuleFunc(f) && reachesQueueMutation(p, f)
				}) {
					// the shared prune prelude runs before the preview test and is retention, not the operation's effect
					if f := ci.Common().StaticCallee(); p.SharedBy(f) >= 4 {
						continue
					}
					muts = append(muts, ci)
				}
			}
			bad := false
			for _, m := range muts {
				if okn, path := p.NoPathFrom(prev, m, nil); !okn {
					bad = true
					c.Fail(rule, key+":preview-has-no-effect", p.InstrPos(m), "a mutation is reachable on the PreviewOnly path", path...)
				}
			}
			if !bad {
				c.Ok(rule, key+":preview-has-no-effect", p.Pos(fn.Pos()), fmt.Sprintf("%d mutation point(s), none reachable from the PreviewOnly edge", len(muts)))
			}
			// Matched on the preview path = len(selection) where the same selection feeds the real run
			okMatched := false
			for _, e := range prev {
				for _, ins := range e.To().Instrs {
					if st, ok := ins.(*ssa.Store); ok {
						if fa, ok := st.Addr.(*ssa.FieldAddr); ok {
							if _, f, _ := fieldAddrName(fa); f == "Matched" {
								if l := lenArg(st.Val); l != nil {
									// the selection value is also used outside the preview block
									for _, ref := range *l.Referrers() {
										if ri, ok := ref.(ssa.Instruction); ok && ri.Block() != e.To() {
											okMatched = true
										}
									}
								}
							}
						}
					}
				}
			}
			c.Check(okMatched, rule, key+":matched=len(selection)", p.Pos(fn.Pos()), "preview reports the size of the selection the real run uses", "the preview's Matched is not the length of the selection used by the real run")
		}
	}
	c.Floor(rule, "by_filter_operations", n, 9)
}

var operatorStoreMethods = map[string]bool{"CancelMessages": true, "CancelMessagesByFilter": true, "RequeueMessages": true, "RequeueMessagesByFilter": true, "ResumeMessages": true, "ResumeMessagesByFilter": true, "RequeueDead": true, "DeleteDead": true}

func isOperatorStoreCall(ci ssa.CallInstruction) bool {
	com := ci.Common()
	return com.IsInvoke() && namedPkgPath(com.Value.Type()) == queuePath && operatorStoreMethods[com.Method.Name()]
}

// opWordOf: the operation an endpoint path / tool name / method name denotes.
func opWordOf(s string) string {
	s = strings.ToLower(s)
	switch {
	case strings.Contains(s, "dlq") && strings.Contains(s, "requeue"), s == "requeuedead":
		return "dlq-requeue"
	case strings.Contains(s, "dlq") && strings.Contains(s, "delete"), s == "deletedead":
		return "dlq-delete"
	case strings.Contains(s, "cancel"):
		return "cancel"
	case strings.Contains(s, "requeue"):
		return "requeue"
	case strings.Contains(s, "resume"):
		return "resume"
	}
	return ""
}

func byFilterWord(s string) bool {
	s = strings.ToLower(s)
	return strings.Contains(s, "filter")
}

func checkAdminHandlerTable(c *Ctx, rule string) {
	p := c.P
	serve := p.Orig(p.Func("admin", "(*Server).ServeHTTP")) // the dispatch table as written: each case calls its handler
	if serve == nil {
		c.Fail(rule, "admin.ServeHTTP", "", "anchor not found")
		return
	}
	// path constant -> handler call (switch cases compare cleanPath with constants)
	n := 0
	for _, b := range serve.Blocks {
		for i := range b.Succs {
			a, ok := edgeAtom(Edge{b, i})
			if !ok || a.Op != token.EQL {
				continue
			}
			path, isC := constString(a.Y)
			if !isC || !strings.HasPrefix(path, "/") || opWordOf(path) == "" {
				continue
			}
			// handler calls reachable from this edge before any other case
			par := reach([]*ssa.BasicBlock{b.Succs[i]}, nil, nil)
			methods := map[string]bool{}
			memo := map[*ssa.Function]bool{}
			for blk := range par {
				for _, ins := range blk.Instrs {
					ci, ok := ins.(ssa.CallInstruction)
					if !ok {
						continue
					}
					f := ci.Common().StaticCallee()
					if f == nil || !IsModuleFunc(f) || f.Signature.Recv() == nil {
						continue
					}
					if !p.FuncReaches(f, isOperatorStoreCall, memo) {
						continue
					}
					for g := range p.Reach(f) {
						for _, sc := range allCalls(g, isOperatorStoreCall) {
							methods[sc.Common().Method.Name()] = true
						}
					}
				}
			}
			if len(methods) == 0 {
				continue
			}
			n++
			var ms []string
			for m := range methods {
				ms = append(ms, m)
			}
			sort.Strings(ms)
			okOne := len(ms) == 1 && opWordOf(strings.ReplaceAll(ms[0], "Messages", "")) == opWordOf(path) && byFilterWord(ms[0]) == byFilterWord(path)
			c.Check(okOne, rule, "admin:"+path+"→Store."+strings.Join(ms, "+"), p.InstrPos(b.Instrs[len(b.Instrs)-1]), "endpoint reaches exactly its operation's Store method", fmt.Sprintf("endpoint %s reaches Store methods %v", path, ms))
		}
	}
	c.Floor(rule, "admin_operator_endpoints", n, 8)
	// every function that invokes an operator Store method invokes exactly one distinct method
	for _, pkg := range []string{"admin", "mcp"} {
		for _, fn := range p.FuncsInPkg(pkg) {
			ms := map[string]bool{}
			for _, sc := range allCalls(fn, isOperatorStoreCall) {
				ms[sc.Common().Method.Name()] = true
			}
			if len(ms) == 0 {
				continue
			}
			var names []string
			for m := range ms {
				names = append(names, m)
			}
			sort.Strings(names)
			okName := len(names) == 1
			if okName {
				fw := opWordOf(fn.Name())
				mw := opWordOf(strings.ReplaceAll(names[0], "Messages", ""))
				if fw != "" && fw != mw {
					okName = false
				}
			}
			c.Check(okName, rule, pkg+"."+fn.Name()+"→Store."+strings.Join(names, "+"), p.Pos(fn.Pos()), "one operator method, matching the handler's operation", fmt.Sprintf("handler %s invokes %v", fn.Name(), names))
		}
	}
}
