package main

import (
	"fmt"
	"go/ast"
	"go/token"
	"go/types"
	"sort"
	"strings"

	"golang.org/x/tools/go/ssa"
)

func init() { register("C18", checkC18) }

const appPath = modPath + "/internal/app"

func isRuntimeStateLock(ci ssa.CallInstruction, write bool) bool {
	f := ci.Common().StaticCallee()
	if f == nil || f.Pkg == nil || f.Pkg.Pkg.Path() != "sync" || len(ci.Common().Args) == 0 {
		return false
	}
	fa, ok := ci.Common().Args[0].(*ssa.FieldAddr)
	if !ok {
		return false
	}
	tn, _, _ := fieldAddrName(fa)
	if tn != "runtimeState" {
		return false
	}
	if write {
		return f.Name() == "Lock"
	}
	return f.Name() == "RLock" || f.Name() == "Lock"
}

func checkC18(c *Ctx) {
	p := c.P
	c.Rule("C18.R1", "one writer critical section per reload: all stores to runtimeState reachable from a reload entry happen with the write lock held, and exactly one write-lock acquisition is reachable from the entry")
	c.Rule("C18.R2", "failure leaves the running state untouched: the state-writing step of a reload is behind the ok edges of read, parse, compile and not-restart-required; no error return is reachable after a runtimeState store; callers report an error only if the reload did not switch the state")
	c.Rule("C18.R3", "one reader snapshot per request: a request handler reaches at most one runtimeState lock acquisition through its wired hooks")
	c.Rule("C18.R4", "reload coverage: every field of config.Compiled read by start-up-only code is also read by the restart-required predicate or by the live (per-request / apply) code")
	c.Rule("C18.R5", "atomic file replace typestate (both copies): temp file in the target directory, Write ≺ Sync ≺ Close ≺ Rename ≺ directory sync, every error returned, success only after all")
	c.Rule("C18.R6", "only the atomic writer replaces the config file: file-writing sinks in packages app and mcp are reachable only through named constructs")
	c.Rule("C18.R9", "the apply step of a reload never reads a runtimeState field after it has replaced it (derived decisions such as keeping an object when its configuration is unchanged are computed from the previous state, not from the value just written)")
	c.Rule("C18.R8", "the bytes read from the config file are immutable between read and restore: no function of package config writes through a []byte parameter (index store, copy into, append onto a reslice of it)")
	c.Rule("C18.R7", "validate before write, restore on failure: the first write of a config rewrite is behind parse-ok and compile-ok of the bytes written; every error return after it passes a write of the previously read bytes (or their removal)")

	c.Rule("C18.R10", "restart check against the running configuration: the baseline operand of the restart-required predicate is a parameter of the reload entry, and no call site binds it to a configuration freshly compiled from the file (unless that value is the one the runtime state is built from)")
	checkRestartBaseline(c, "C18.R10")
	entries := reloadEntries(p)
	c.Rule("C18.R11", "a reload changes the running system only inside its commit critical section: every store into a field (or a map held in a field) of a struct type the runtime state can hold that is reachable from a reload entry executes with the write lock held or targets an object the reload itself created (allocated there, returned by a constructor, or handed in fresh by every caller) — nothing the running state already holds is re-configured in place before the swap")
	checkReloadPreparesFreshObjects(c, "C18.R11", entries)
	c.Rule("C18.R12", "whatever the running state derives from the configuration at start-up, a reload derives again: every runtimeState field that a function reachable from the state's construction stores with a value depending on a config.Compiled is also stored — or updated in place from the new config.Compiled — by a function reachable from each reload entry (an index, limit table or switch that is only rebuilt by a start-up-only or test-only path keeps answering for the old configuration)")
	checkReloadRederives(c, "C18.R12", entries)
	c.Rule("C18.R13", "an object of the running state is carried over a reload only if nothing configured about it changed: wherever a function reachable from a reload entry installs a value taken out of a container of the running state into the state being applied, the site is dominated by the true edge of a predicate over the old and the new object that reads every exported field the reload's builder sets on that type (today nothing is carried over except the nonce state, which C09.R2 decides)")
	checkCarryOverCoversConfig(c, "C18.R13", entries)
	c.Floor("C18.R1", "reload_entry_functions", len(entries), 1)
	for _, entry := range entries {
		ename := "app." + entry.Name()
		reachE := p.Reach(entry)
		// R1
		var lockSites []ssa.Instruction
		nStores := 0
		badLock := false
		lm := p.lockAnalysisRW("app", "runtimeState", p.mutexField("app", "runtimeState"), reachE)
		for fn := range reachE {
			for _, ci := range allCalls(fn, func(ci ssa.CallInstruction) bool { return isRuntimeStateLock(ci, true) }) {
				if _, isDefer := ci.(*ssa.Defer); !isDefer {
					lockSites = append(lockSites, ci)
				}
			}
			for _, st := range runtimeStateStores(fn) {
				nStores++
				if !lm.heldWrite[st] {
					badLock = true
					c.Fail("C18.R1", ename+":store-under-write-lock@"+FuncName(fn), p.InstrPos(st), "a runtimeState field is written on the reload path without the write lock held")
				}
			}
		}
		sort.Slice(lockSites, func(i, j int) bool { return lockSites[i].Pos() < lockSites[j].Pos() })
		var lockDesc []string
		for _, l := range lockSites {
			lockDesc = append(lockDesc, FuncName(l.Parent())+"@"+p.InstrPos(l))
		}
		if !badLock {
			c.Ok("C18.R1", ename+":stores-under-write-lock", p.Pos(entry.Pos()), fmt.Sprintf("%d runtimeState store(s) reachable, all with the write lock held", nStores))
		}
		c.Check(len(lockSites) == 1 && nStores > 0, "C18.R1", ename+":single-write-lock-acquisition", p.Pos(entry.Pos()), "one acquisition: "+strings.Join(lockDesc, ", "),
			fmt.Sprintf("%d write-lock acquisitions reachable from the reload (%s): requests served between them see a mixture of old and new configuration", len(lockSites), strings.Join(lockDesc, ", ")))

		// R2
		writes := func(f *ssa.Function) bool {
			for g := range p.Reach(f) {
				if len(runtimeStateStores(g)) > 0 {
					return true
				}
			}
			return false
		}
		apply := allCalls(entry, func(ci ssa.CallInstruction) bool {
			f := ci.Common().StaticCallee()
			return f != nil && IsModuleFunc(f) && writes(f)
		})
		type step struct {
			name  string
			calls []ssa.CallInstruction
			oc    Outcome
		}
		steps := []step{
			{"read", allCalls(entry, func(ci ssa.CallInstruction) bool { return calleeIs(ci, "os", "", "ReadFile") }), ErrNil},
			{"parse", allCalls(entry, func(ci ssa.CallInstruction) bool { return calleeIs(ci, modPath+"/internal/config", "", "Parse") }), ErrNil},
			{"not-restart-required", allCalls(entry, func(ci ssa.CallInstruction) bool {
				f := ci.Common().StaticCallee()
				if f == nil || !IsModuleFunc(f) {
					return false
				}
				ps := f.Signature.Params()
				return ps.Len() == 2 && namedName(ps.At(0).Type()) == "Compiled" && namedName(ps.At(1).Type()) == "Compiled" && f.Signature.Results().Len() == 1
			}), BoolFalse},
		}
		for _, a := range apply {
			for _, s := range steps {
				okE, _, _ := GuardEdges(entry, s.calls, s.oc)
				okp, path := p.MustPass(entry, a, okE)
				key := fmt.Sprintf("%s:%s-before-apply", ename, s.name)
				if okp && len(okE) > 0 {
					c.Ok("C18.R2", key, p.InstrPos(a), "state is written only behind the "+s.name+" ok edge")
				} else {
					c.Fail("C18.R2", key, p.InstrPos(a), "the running state can be written although "+s.name+" failed or was skipped", path...)
				}
			}
			// compile ok: an edge on the OK field of the validation result
			var okC []Edge
			for _, b := range entry.Blocks {
				for i := range b.Succs {
					at, ok := edgeAtom(Edge{b, i})
					if ok && isBoolTrue(at.Y) && at.Op == token.EQL {
						if sym, ok := symOf(at.X); ok && strings.HasSuffix(sym, ".OK") {
							okC = append(okC, Edge{b, i})
						}
					}
				}
			}
			okp, path := p.MustPass(entry, a, okC)
			if okp && len(okC) > 0 {
				c.Ok("C18.R2", ename+":compile-before-apply", p.InstrPos(a), "state is written only behind compile OK")
			} else {
				c.Fail("C18.R2", ename+":compile-before-apply", p.InstrPos(a), "the running state can be written although the configuration did not compile", path...)
			}
		}
		c.Check(len(apply) >= 1, "C18.R2", ename+":apply-step", p.Pos(entry.Pos()), fmt.Sprintf("%d state-writing call(s)", len(apply)), "the reload never writes the running state")
		// no error return after a store, in every function on the reload path that returns an error
		for fn := range reachE {
			res := fn.Signature.Results()
			if res.Len() == 0 || !types.Identical(res.At(res.Len()-1).Type(), types.Universe.Lookup("error").Type()) {
				continue
			}
			var pts []ssa.Instruction
			for _, st := range runtimeStateStores(fn) {
				pts = append(pts, st)
			}
			for _, ci := range allCalls(fn, func(ci ssa.CallInstruction) bool {
				f := ci.Common().StaticCallee()
				return f != nil && IsModuleFunc(f) && f != fn && writes(f)
			}) {
				pts = append(pts, ci)
			}
			if len(pts) == 0 {
				continue
			}
			bad := false
			for _, pt := range pts {
				for _, r := range returnsOf(fn) {
					if k := errResultKind(r); k == "nil" || k == "none" {
						continue
					}
					if reachableFrom(pt, r) {
						// allowed: the error is the result of the writing call itself (it reports its own failure before writing)
						if ci, ok := pt.(ssa.CallInstruction); ok {
							_, failE, _ := GuardEdges(fn, []ssa.CallInstruction{ci}, ErrNil)
							if okp, _ := p.MustPassBlock(fn, r.Block(), failE); okp && len(failE) > 0 {
								continue
							}
						}
						bad = true
						c.Fail("C18.R2", "app."+fn.Name()+":no-error-after-state-write", p.InstrPos(pt), "an error return ("+p.InstrPos(r)+") is reachable after the running state was written: the reload reports failure but behaviour has changed")
					}
				}
			}
			if !bad {
				c.Ok("C18.R2", "app."+fn.Name()+":no-error-after-state-write", p.Pos(fn.Pos()), fmt.Sprintf("%d state-writing point(s), none followed by an error return", len(pts)))
			}
		}
		// callers of the reload entry: after reload ok no error return
		for _, cs := range p.CallSitesOf(entry) {
			fn := cs.Parent()
			res := fn.Signature.Results()
			if res.Len() == 0 || !types.Identical(res.At(res.Len()-1).Type(), types.Universe.Lookup("error").Type()) {
				continue
			}
			okE, _, _ := GuardEdges(fn, []ssa.CallInstruction{cs}, BoolTrue)
			bad := false
			for _, r := range returnsOf(fn) {
				if k := errResultKind(r); k == "nil" || k == "none" {
					continue
				}
				if okn, path := p.NoPathFrom(okE, r, nil); !okn {
					bad = true
					c.Fail("C18.R2", "app."+fn.Name()+":no-error-after-successful-reload", p.InstrPos(r), "an error is returned after the reload already switched the running state (the file is put back but the process keeps the rejected configuration)", path...)
				}
			}
			if !bad && len(okE) > 0 {
				c.Ok("C18.R2", "app."+fn.Name()+":no-error-after-successful-reload", p.InstrPos(cs), "once the reload succeeded the caller reports success")
			}
		}
	}

	checkReaderSnapshots(c, "C18.R3")
	checkReloadCoverage(c, "C18.R4")
	checkAtomicReplace(c, "C18.R5")
	checkConfigWriters(c, "C18.R6")
	checkRewriteValidateRestore(c, "C18.R7")
	checkInputBytesImmutable(c, "C18.R8")
	checkNoReadAfterReplace(c, "C18.R9")
}

// ---- lock analysis distinguishing the write lock ----

type rwLockModel struct {
	heldWrite map[ssa.Instruction]bool
}

func (p *Program) lockAnalysisRW(pkg, typeName, mutex string, scope map[*ssa.Function]bool) *rwLockModel {
	T := p.Named(pkg, typeName)
	m := &rwLockModel{heldWrite: map[ssa.Instruction]bool{}}
	methods := p.MethodsOf(pkg, typeName)
	inSet := map[*ssa.Function]bool{}
	var fns []*ssa.Function
	for _, f := range methods {
		if !inSet[f] {
			inSet[f] = true
			fns = append(fns, f)
		}
	}
	entryHeld := map[*ssa.Function]bool{}
	for _, f := range fns {
		entryHeld[f] = true
	}
	compute := func(f *ssa.Function) {
		in := map[*ssa.BasicBlock]int{}
		enc := func(b bool) int {
			if b {
				return 1
			}
			return 2
		}
		in[f.Blocks[0]] = enc(entryHeld[f])
		work := []*ssa.BasicBlock{f.Blocks[0]}
		for len(work) > 0 {
			b := work[0]
			work = work[1:]
			held := in[b] == 1
			for _, ins := range b.Instrs {
				m.heldWrite[ins] = held
				if ci, ok := ins.(ssa.CallInstruction); ok {
					if _, isDefer := ins.(*ssa.Defer); !isDefer {
						if cf := ci.Common().StaticCallee(); cf != nil && cf.Pkg != nil && cf.Pkg.Pkg.Path() == "sync" && len(ci.Common().Args) > 0 {
							if name, ok := recvFieldAddr(ci.Common().Args[0], T); ok && name == mutex {
								switch cf.Name() {
								case "Lock":
									held = true
								case "Unlock":
									held = false
								}
							}
						}
					}
				}
			}
			for _, s := range b.Succs {
				nv := enc(held)
				if old, ok := in[s]; !ok {
					in[s] = nv
					work = append(work, s)
				} else if old == 1 && nv == 2 {
					in[s] = 2
					work = append(work, s)
				}
			}
		}
	}
	for iter := 0; iter < 8; iter++ {
		for k := range m.heldWrite {
			delete(m.heldWrite, k)
		}
		for _, f := range fns {
			compute(f)
		}
		changed := false
		for _, f := range fns {
			if !entryHeld[f] {
				continue
			}
			var sites []ssa.CallInstruction
			for _, cs := range p.CallSitesOf(f) {
				if scope == nil || scope[cs.Parent()] {
					sites = append(sites, cs) // only call sites on the analysed (reload) path
				}
			}
			if len(sites) == 0 {
				entryHeld[f] = false
				changed = true
				continue
			}
			for _, cs := range sites {
				if !inSet[cs.Parent()] || !m.heldWrite[cs] {
					entryHeld[f] = false
					changed = true
					break
				}
			}
		}
		if !changed {
			break
		}
	}
	return m
}

// ---- R3 ----

func checkReaderSnapshots(c *Ctx, rule string) {
	p := c.P
	w := p.wiringTable()
	locks := func(f *ssa.Function) bool {
		for g := range p.Reach(f) {
			if len(allCalls(g, func(ci ssa.CallInstruction) bool { return isRuntimeStateLock(ci, false) })) > 0 {
				return true
			}
		}
		return false
	}
	type server struct{ q, pkg string }
	for _, s := range []server{{"ingress.Server", "ingress"}, {"pullapi.Server", "pullapi"}, {"workerapi.Server", "workerapi"}, {"admin.Server", "admin"}} {
		// locking hooks of this server type
		lockingHooks := map[string]bool{}
		for k, ts := range w {
			if k.typ != s.q {
				continue
			}
			for _, t := range ts {
				if t.Signature.Recv() != nil && namedName(t.Signature.Recv().Type()) == "runtimeState" && locks(t) {
					lockingHooks[k.field] = true
				}
			}
		}
		// per request entry: hooks invoked (transitively, inside the server package) from one request
		var entriesFns []*ssa.Function
		if s.pkg == "workerapi" {
			for _, m := range p.MethodsOf("workerapi", "Server") {
				if token.IsExported(m.Name()) && m.Signature.Params().Len() == 2 {
					entriesFns = append(entriesFns, m)
				}
			}
		} else if f := p.Func(s.pkg, "(*Server).ServeHTTP"); f != nil {
			entriesFns = append(entriesFns, f)
		}
		maxHooks := 0
		var worst string
		var worstHooks []string
		for _, entry := range entriesFns {
			// a single request runs one handler: for admin evaluate each handler method separately
			cands := []*ssa.Function{entry}
			if s.pkg == "admin" {
				cands = nil
				for _, ci := range allCalls(entry, func(ci ssa.CallInstruction) bool {
					f := ci.Common().StaticCallee()
					return f != nil && f.Signature.Recv() != nil && namedName(f.Signature.Recv().Type()) == "Server"
				}) {
					cands = append(cands, ci.Common().StaticCallee())
				}
				cands = append(cands, entry)
			}
			for _, cand := range cands {
				used := map[string]bool{}
				for g := range p.Reach(cand) {
					if g.Pkg == nil || !strings.HasSuffix(g.Pkg.Pkg.Path(), "/internal/"+s.pkg) {
						continue
					}
					if s.pkg == "admin" && cand == entry && g != entry {
						continue
					}
					for _, b := range g.Blocks {
						for _, ins := range b.Instrs {
							if ci, ok := ins.(ssa.CallInstruction); ok && !ci.Common().IsInvoke() {
								if _, f, ok := fieldOfLoad(ci.Common().Value); ok && qualTypeName(fieldOwnerPtr(ci.Common().Value)) == s.q && lockingHooks[f] {
									used[f] = true
								}
							}
						}
					}
				}
				if len(used) > maxHooks {
					maxHooks = len(used)
					worst = FuncName(cand)
					worstHooks = nil
					for h := range used {
						worstHooks = append(worstHooks, h)
					}
					sort.Strings(worstHooks)
				}
			}
		}
		key := s.q + ":one-runtimeState-snapshot-per-request"
		if maxHooks <= 1 {
			c.Ok(rule, key, "", fmt.Sprintf("at most %d locking hook per request", maxHooks))
		} else {
			c.Fail(rule, key, "", fmt.Sprintf("one request (%s) consults %d hooks that each take the runtimeState lock on their own (%s): a reload landing between two of them serves the request under a mixture of old and new configuration", worst, maxHooks, strings.Join(worstHooks, ", ")))
		}
	}
}

// ---- R4 ----

func checkReloadCoverage(c *Ctx, rule string) {
	p := c.P
	pkg := p.Pkg("app")
	info := pkg.TypesInfo
	p.ensureDecls()
	decls := map[*types.Func]*ast.FuncDecl{}
	for obj, fd := range p.declCache {
		if obj.Pkg() == pkg.Types && fd.Body != nil {
			decls[obj] = fd
		}
	}
	reachAST := func(stop map[*types.Func]bool, entries []*types.Func) map[*types.Func]bool {
		seen := map[*types.Func]bool{}
		work := append([]*types.Func{}, entries...)
		for len(work) > 0 {
			f := work[len(work)-1]
			work = work[:len(work)-1]
			if f == nil || seen[f] || stop[f] || decls[f] == nil {
				continue
			}
			seen[f] = true
			ast.Inspect(decls[f].Body, func(n ast.Node) bool {
				if id, ok := n.(*ast.Ident); ok {
					if fn, ok := info.Uses[id].(*types.Func); ok {
						if _, has := decls[fn]; has {
							work = append(work, fn)
						}
					}
				}
				return true
			})
		}
		return seen
	}
	cfgPkg := p.Pkg("config").Types
	compiledTypes := map[string]bool{}
	var walkT func(t types.Type)
	walkT = func(t types.Type) {
		switch x := t.(type) {
		case *types.Pointer:
			walkT(x.Elem())
		case *types.Slice:
			walkT(x.Elem())
		case *types.Map:
			walkT(x.Elem())
		case *types.Named:
			if x.Obj().Pkg() == cfgPkg && !compiledTypes[x.Obj().Name()] {
				if st, ok := x.Underlying().(*types.Struct); ok {
					compiledTypes[x.Obj().Name()] = true
					for i := 0; i < st.NumFields(); i++ {
						walkT(st.Field(i).Type())
					}
				}
			}
		}
	}
	walkT(cfgPkg.Scope().Lookup("Compiled").Type())
	var expandAll func(t types.Type, out map[string]bool)
	expandAll = func(t types.Type, out map[string]bool) {
		switch x := t.(type) {
		case *types.Pointer:
			expandAll(x.Elem(), out)
		case *types.Slice:
			expandAll(x.Elem(), out)
		case *types.Map:
			expandAll(x.Elem(), out)
		case *types.Named:
			if x.Obj().Pkg() == cfgPkg && compiledTypes[x.Obj().Name()] {
				st := x.Underlying().(*types.Struct)
				for i := 0; i < st.NumFields(); i++ {
					k := x.Obj().Name() + "." + st.Field(i).Name()
					if out[k] {
						continue
					}
					out[k] = true
					expandAll(st.Field(i).Type(), out)
				}
			}
		}
	}
	isCfgType := func(t types.Type) (string, bool) {
		if pt, ok := t.(*types.Pointer); ok {
			t = pt.Elem()
		}
		if n, ok := t.(*types.Named); ok && n.Obj().Pkg() == cfgPkg {
			return n.Obj().Name(), true
		}
		return "", false
	}
	fieldsRead := func(fns map[*types.Func]bool) map[string]bool {
		out := map[string]bool{}
		for f := range fns {
			parents := map[ast.Node]ast.Node{}
			var stack []ast.Node
			ast.Inspect(decls[f].Body, func(n ast.Node) bool {
				if n == nil {
					stack = stack[:len(stack)-1]
					return true
				}
				if len(stack) > 0 {
					parents[n] = stack[len(stack)-1]
				}
				stack = append(stack, n)
				return true
			})
			ast.Inspect(decls[f].Body, func(n ast.Node) bool {
				x, ok := n.(*ast.SelectorExpr)
				if !ok {
					return true
				}
				sel := info.Selections[x]
				if sel == nil || sel.Kind() != types.FieldVal {
					return true
				}
				name, ok := isCfgType(sel.Recv())
				if !ok || !compiledTypes[name] {
					return true
				}
				out[name+"."+sel.Obj().Name()] = true
				if ps, ok := parents[x].(*ast.SelectorExpr); ok && ps.X == x {
					return true
				}
				if pi, ok := parents[x].(*ast.IndexExpr); ok && pi.X == x {
					return true
				}
				if pr, ok := parents[x].(*ast.RangeStmt); ok && pr.X == x {
					return true
				}
				if pc, ok := parents[x].(*ast.CallExpr); ok {
					if id, ok := pc.Fun.(*ast.Ident); ok && id.Name == "len" {
						return true
					}
				}
				expandAll(sel.Type(), out)
				return true
			})
		}
		return out
	}
	// roles
	var restartPred, ctor []*types.Func
	var liveEntries, reloadObjs []*types.Func
	for obj, fd := range decls {
		sig := obj.Type().(*types.Signature)
		if sig.Recv() == nil && sig.Params().Len() == 2 && namedName(sig.Params().At(0).Type()) == "Compiled" && namedName(sig.Params().At(1).Type()) == "Compiled" && sig.Results().Len() == 1 && types.Identical(sig.Results().At(0).Type(), types.Typ[types.Bool]) {
			// the one called from a reload entry
			for _, e := range reloadEntries(p) {
				ef := p.SSA.FuncValue(obj)
				for _, ci := range allCalls(e, func(ci ssa.CallInstruction) bool { return ci.Common().StaticCallee() == ef }) {
					_ = ci
					restartPred = append(restartPred, obj)
				}
			}
		}
		if sig.Recv() != nil && namedName(sig.Recv().Type()) == "runtimeState" {
			liveEntries = append(liveEntries, obj)
		}
		if sig.Recv() == nil && sig.Results().Len() == 1 && namedName(sig.Results().At(0).Type()) == "runtimeState" {
			ctor = append(ctor, obj)
		}
		_ = fd
	}
	for _, e := range reloadEntries(p) {
		if o, ok := e.Object().(*types.Func); ok {
			reloadObjs = append(reloadObjs, o)
		}
	}
	if len(restartPred) == 0 || len(ctor) == 0 {
		c.Fail(rule, "app:roles", "", fmt.Sprintf("cannot identify the restart predicate (%d) / runtimeState constructor (%d)", len(restartPred), len(ctor)))
		return
	}
	// start-up entries: functions that call the runtimeState constructor
	var startEntries []*types.Func
	for obj, fd := range decls {
		calls := false
		ast.Inspect(fd.Body, func(n ast.Node) bool {
			if id, ok := n.(*ast.Ident); ok {
				for _, ct := range ctor {
					if info.Uses[id] == ct {
						calls = true
					}
				}
			}
			return true
		})
		if calls {
			startEntries = append(startEntries, obj)
		}
	}
	stop := map[*types.Func]bool{}
	for _, o := range reloadObjs {
		stop[o] = true
		// callers of the reload entry (management mutation) are reload paths too
		for obj, fd := range decls {
			ast.Inspect(fd.Body, func(n ast.Node) bool {
				if id, ok := n.(*ast.Ident); ok && info.Uses[id] == o {
					isStart := false
					for _, se := range startEntries {
						if se == obj {
							isStart = true
						}
					}
					if !isStart {
						stop[obj] = true
					}
				}
				return true
			})
		}
	}
	for _, o := range restartPred {
		stop[o] = true
	}
	for _, o := range liveEntries {
		stop[o] = true
	}
	cmp := fieldsRead(reachAST(nil, restartPred))
	live := fieldsRead(reachAST(nil, liveEntries))
	startup := fieldsRead(reachAST(stop, startEntries))
	var missing []string
	for k := range startup {
		if !cmp[k] && !live[k] {
			missing = append(missing, k)
		}
	}
	sort.Strings(missing)
	c.Count(rule+".startup_read_fields", len(startup))
	c.Count(rule+".compared_fields", len(cmp))
	c.Count(rule+".live_fields", len(live))
	if len(startup) < 100 {
		c.Fail(rule, "floor:startup_read_fields", "", fmt.Sprintf("only %d start-up-read fields found (expected >= 100)", len(startup)))
	}
	if len(missing) == 0 {
		c.Ok(rule, "app:startup-read-fields-covered", "", fmt.Sprintf("%d fields of config.Compiled read at start-up; each is compared by the restart predicate (%d) or read live (%d)", len(startup), len(cmp), len(live)))
	}
	for _, m := range missing {
		c.Fail(rule, "config."+m+":neither-compared-nor-live", "", "start-up code reads config."+m+" but the restart predicate does not compare it and no live code reads it: a reload that changes it reports success and keeps the old behaviour")
	}
}

// ---- R5 ----

func checkAtomicReplace(c *Ctx, rule string) {
	p := c.P
	n := 0
	for _, pkg := range []string{"app", "mcp"} {
		for _, fn := range p.FuncsInPkg(pkg) {
			fn, isAW := p.atomicWriters()[fn]
			if !isAW {
				continue
			}
			ren := allCalls(fn, func(ci ssa.CallInstruction) bool { return calleeIs(ci, "os", "", "Rename") })
			tmp := allCalls(fn, func(ci ssa.CallInstruction) bool { return calleeIs(ci, "os", "", "CreateTemp") })
			n++
			name := pkg + "." + fn.Name()
			one := func(recv, m string) []ssa.CallInstruction {
				return allCalls(fn, func(ci ssa.CallInstruction) bool {
					if _, isDefer := ci.(*ssa.Defer); isDefer || p.FromDeferred(ci) {
						return false
					}
					return calleeIs(ci, "os", recv, m)
				})
			}
			wr, sy, cl := one("File", "Write"), one("File", "Sync"), one("File", "Close")
			// the write handed in as a callback over io.Writer: an interface Write on the temp file itself
			for _, ci := range allCalls(fn, func(ci ssa.CallInstruction) bool {
				if _, isDefer := ci.(*ssa.Defer); isDefer || p.FromDeferred(ci) {
					return false
				}
				com := ci.Common()
				if !com.IsInvoke() || com.Method.Name() != "Write" {
					return false
				}
				mi, ok := com.Value.(*ssa.MakeInterface)
				return ok && strings.HasSuffix(mi.X.Type().String(), "os.File")
			}) {
				wr = append(wr, ci)
			}
			dirSync := allCalls(fn, func(ci ssa.CallInstruction) bool {
				f := ci.Common().StaticCallee()
				if f == nil || !IsModuleFunc(f) {
					return false
				}
				memo := map[*ssa.Function]bool{}
				return p.FuncReaches(f, func(x ssa.CallInstruction) bool { return calleeIs(x, "os", "File", "Sync") }, memo)
			})
			chain := [][]ssa.CallInstruction{tmp, wr, sy, cl, ren, dirSync}
			names := []string{"CreateTemp", "Write", "Sync", "Close", "Rename", "dir-sync"}
			ok := true
			for i, cs := range chain {
				if len(cs) == 0 {
					ok = false
					c.Fail(rule, name+":step-"+names[i], p.Pos(fn.Pos()), "the atomic replace lacks the "+names[i]+" step")
				}
			}
			if !ok {
				continue
			}
			for i := 0; i+1 < len(chain); i++ {
				okE, _, untested := GuardEdges(fn, chain[i], ErrNil)
				for _, nx := range chain[i+1] {
					okp, path := p.MustPass(fn, nx, okE)
					key := fmt.Sprintf("%s:%s≺%s", name, names[i], names[i+1])
					if okp && len(okE) > 0 && len(untested) == 0 {
						c.Ok(rule, key, p.InstrPos(nx), names[i+1]+" only after "+names[i]+" succeeded")
					} else {
						c.Fail(rule, key, p.InstrPos(nx), names[i+1]+" can run although "+names[i]+" failed or was skipped", path...)
					}
				}
			}
			// temp file in the target directory: CreateTemp's dir derives from filepath.Dir(path)
			dirOK := false
			for _, t := range tmp {
				for _, s := range sourcesOf(t.Common().Args[0]) {
					if s.Kind == "call" && strings.Contains(s.Desc, "filepath.Dir") {
						dirOK = true
					}
				}
			}
			c.Check(dirOK, rule, name+":temp-in-target-directory", p.Pos(fn.Pos()), "temp file created in filepath.Dir(path) (same file system as the target)", "the temp file is not created in the target's directory (rename may not be atomic)")
			// success only after the directory sync
			okAll := true
			for _, r := range returnsOf(fn) {
				if k := errResultKind(r); k == "nil" {
					var thr []ssa.Instruction
					for _, d := range dirSync {
						thr = append(thr, d)
					}
					if okp, _ := p.MustPassInstr(fn, r, thr); !okp {
						okAll = false
					}
				}
			}
			// returning the directory sync's own verdict counts
			c.Check(okAll, rule, name+":success-after-dir-sync", p.Pos(fn.Pos()), "success is the directory sync's verdict", "success can be reported before the directory entry is synced")
		}
	}
	c.Floor(rule, "atomic_writers", n, 2)
}

// isBytesWriterSig: func(path string, data []byte) error
func isBytesWriterSig(fn *ssa.Function) bool {
	ps := fn.Signature.Params()
	return ps.Len() == 2 && ps.At(0).Type().String() == "string" && ps.At(1).Type().String() == "[]byte" && fn.Signature.Results().Len() == 1
}

// ---- R6 ----

func isFileWriteSink(ci ssa.CallInstruction) string {
	f := ci.Common().StaticCallee()
	if f == nil || f.Pkg == nil || f.Pkg.Pkg.Path() != "os" {
		return ""
	}
	switch f.Name() {
	case "WriteFile", "Create", "Rename", "Remove", "RemoveAll", "Truncate":
		if f.Signature.Recv() == nil {
			return f.Name()
		}
	case "OpenFile":
		if len(ci.Common().Args) >= 2 {
			if n, ok := intConst(ci.Common().Args[1]); ok && n&(1|2|64|512|1024) != 0 { // O_WRONLY|O_RDWR|O_CREATE|O_TRUNC|O_APPEND
				return "OpenFile(write)"
			}
			if _, ok := ci.Common().Args[1].(*ssa.Const); !ok {
				return "OpenFile(?)"
			}
		}
	}
	return ""
}

func checkConfigWriters(c *Ctx, rule string) {
	p := c.P
	// allowed constructs: (package, function) that may contain a file-writing sink, with the reason
	n := 0
	type site struct {
		fn   *ssa.Function
		sink string
		ins  ssa.Instruction
	}
	var sites []site
	for _, pkg := range []string{"app", "mcp"} {
		for _, fn := range p.FuncsInPkg(pkg) {
			for _, ci := range allCalls(fn, func(ci ssa.CallInstruction) bool { return isFileWriteSink(ci) != "" }) {
				sites = append(sites, site{fn, isFileWriteSink(ci), ci})
			}
		}
	}
	atomic := map[*ssa.Function]bool{}
	for _, pkg := range []string{"app", "mcp"} {
		for _, fn := range p.FuncsInPkg(pkg) {
			if _, ok := p.atomicWriters()[topLevel(fn)]; ok {
				atomic[topLevel(fn)] = true
			}
		}
	}
	// which values are "the config path": a value handed to an atomic writer as its path, to os.ReadFile whose bytes go
	// to config.Parse, or to a parameter of a function that uses it in one of these ways (fixpoint over app/mcp)
	cfgParam := map[*ssa.Function]map[int]bool{}
	isCfgUse := func(fn *ssa.Function, v ssa.Value) bool {
		for _, ci := range allCalls(fn, nil) {
			g := ci.Common().StaticCallee()
			if g == nil {
				continue
			}
			args := ci.Common().Args
			if atomic[g] && len(args) >= 1 && sameOriginLoad(args[0], v) {
				return true
			}
			if g.Pkg != nil && g.Pkg.Pkg.Path() == "os" && g.Name() == "ReadFile" && len(args) == 1 && sameOriginLoad(args[0], v) {
				// bytes reach config.Parse?
				if cv, ok := ci.(ssa.Value); ok {
					for _, c2 := range allCalls(fn, nil) {
						g2 := c2.Common().StaticCallee()
						if g2 != nil && g2.Name() == "Parse" && g2.Pkg != nil && strings.HasSuffix(g2.Pkg.Pkg.Path(), "/internal/config") {
							if o, _ := origin(c2.Common().Args[0]); o == cv {
								return true
							}
						}
					}
				}
			}
			if m := cfgParam[g]; m != nil {
				for i, a := range args {
					if m[i] && sameOriginLoad(a, v) {
						return true
					}
				}
			}
		}
		return false
	}
	for changed := true; changed; {
		changed = false
		for _, pkg := range []string{"app", "mcp"} {
			for _, fn := range p.FuncsInPkg(pkg) {
				for i, pr := range fn.Params {
					if !isStringT(pr.Type()) || (cfgParam[fn] != nil && cfgParam[fn][i]) {
						continue
					}
					if isCfgUse(fn, pr) {
						if cfgParam[fn] == nil {
							cfgParam[fn] = map[int]bool{}
						}
						cfgParam[fn][i] = true
						changed = true
					}
				}
			}
		}
	}
	for _, s := range sites {
		n++
		top := topLevel(s.fn)
		key := fmt.Sprintf("%s:%s", FuncName(top), s.sink)
		switch {
		case atomic[top]:
			c.Ok(rule, key, p.InstrPos(s.ins), "inside the atomic writer")
		default:
			// the path argument must not be the config path: it must not derive from a config-path source
			// (flag/field named *config*), unless the sink is the rollback-by-remove of a file that did not exist
			arg := s.ins.(ssa.CallInstruction).Common().Args[0]
			desc := strings.ToLower(sourcesString(p.sourcesThroughWrappers(arg, 0)))
			sym, _ := symOf(arg)
			mentionsConfig := strings.Contains(desc, "config") || strings.Contains(strings.ToLower(sym), "config") || isCfgUse(s.fn, arg)
			if !mentionsConfig {
				for i, pr := range s.fn.Params {
					if cfgParam[s.fn] != nil && cfgParam[s.fn][i] && sameOriginLoad(arg, pr) {
						mentionsConfig = true
					}
				}
			}
			isRollbackRemove := s.sink == "Remove" && rollbackRemoveOK(p, s.fn, s.ins)
			if mentionsConfig && !isRollbackRemove {
				c.Fail(rule, key, p.InstrPos(s.ins), "a file-writing call outside the atomic writer receives a path derived from the config path ("+desc+")")
			} else if isRollbackRemove {
				c.Ok(rule, key, p.InstrPos(s.ins), "rollback by removal of a file that did not exist before the rewrite")
			} else {
				c.Ok(rule, key, p.InstrPos(s.ins), "path does not derive from the config path ("+trunc(desc, 80)+")")
			}
		}
	}
	c.Floor(rule, "file_write_sinks", n, 6)
}

func trunc(s string, n int) string {
	if len(s) > n {
		return s[:n] + "…"
	}
	return s
}

// rollbackRemoveOK: os.Remove reachable only on the `!existed` edge of a bool parameter/variable.
func rollbackRemoveOK(p *Program, fn *ssa.Function, ins ssa.Instruction) bool {
	var edges []Edge
	for _, b := range fn.Blocks {
		for i := range b.Succs {
			a, ok := edgeAtom(Edge{b, i})
			if ok && isBoolTrue(a.Y) && a.Op == token.NEQ {
				if sym, ok := symOf(a.X); ok && strings.Contains(strings.ToLower(sym), "exist") {
					edges = append(edges, Edge{b, i})
				}
			}
		}
	}
	okp, _ := p.MustPass(fn, ins, edges)
	return okp && len(edges) > 0
}

// ---- R7 ----

func checkRewriteValidateRestore(c *Ctx, rule string) {
	p := c.P
	atomic := map[*ssa.Function]bool{}
	for _, pkg := range []string{"app", "mcp"} {
		for _, fn := range p.FuncsInPkg(pkg) {
			if _, ok := p.atomicWriters()[fn]; ok {
				atomic[fn] = true
			}
		}
	}
	isRestore := func(f *ssa.Function) bool {
		// a helper that writes previous bytes back / removes (calls the atomic writer or os.Remove)
		if f == nil || !IsModuleFunc(f) {
			return false
		}
		// (a search over candidate callees, not a root a rule decides on: kept out of the T1 audit's root list)
		was := p.auditing
		p.auditing = true
		defer func() { p.auditing = was }()
		for g := range p.Reach(f) {
			if atomic[g] {
				return true
			}
		}
		return false
	}
	n := 0
	// Helpers of the package are part of the rewrite function (the format/parse/compile step may live in one); the
	// atomic writers and the restoring helpers stay calls, they are what the rule refers to. A function that merely
	// calls a rewrite function would look like one after expansion: per replacing write, the smallest qualifying
	// function is the one decided.
	keepWriters := func(callee *ssa.Function) bool { return atomic[callee] || isRestore(callee) }
	qualifies := func(fn *ssa.Function) bool {
		writes := allCalls(fn, func(ci ssa.CallInstruction) bool {
			f := ci.Common().StaticCallee()
			return f != nil && atomic[f]
		})
		nRestoreSites, nPrimary := 0, 0
		for _, w := range writes {
			if isPreviousBytes(w.Common().Args[1], fn) {
				nRestoreSites++
			} else {
				nPrimary++
			}
		}
		for range allCalls(fn, func(ci ssa.CallInstruction) bool {
			f := ci.Common().StaticCallee()
			if f == nil {
				for _, t := range funcValueTargets(ci.Common().Value, 0) {
					if isRestore(t) {
						return true
					}
				}
				return false
			}
			return !atomic[f] && isRestore(f) && p.Orig(f) != p.Orig(fn)
		}) {
			nRestoreSites++
		}
		res := fn.Signature.Results()
		return nPrimary > 0 && nRestoreSites > 0 && res.Len() > 0 && types.Identical(res.At(res.Len()-1).Type(), types.Universe.Lookup("error").Type())
	}
	fnSize := func(f *ssa.Function) int {
		k := 0
		for _, b := range f.Blocks {
			k += len(b.Instrs)
		}
		return k
	}
	chosen := map[ssa.Instruction]*ssa.Function{} // source write instruction -> smallest qualifying view
	for _, pkg := range []string{"app", "mcp"} {
		for _, fn := range p.FuncsInPkg(pkg) {
			if fn.Parent() != nil || atomic[fn] {
				continue
			}
			v := p.ViewKeeping(fn, keepWriters)
			if !qualifies(v) {
				continue
			}
			for _, w := range allCalls(v, func(ci ssa.CallInstruction) bool {
				f := ci.Common().StaticCallee()
				return f != nil && atomic[f]
			}) {
				src := p.SourceInstr(w)
				if cur := chosen[src]; cur == nil || fnSize(v) < fnSize(cur) {
					chosen[src] = v
				}
			}
		}
	}
	selected := map[*ssa.Function]bool{}
	for _, v := range chosen {
		selected[v] = true
	}
	for _, pkg := range []string{"app", "mcp"} {
		for _, fn := range sortedFuncs(selected) {
			if fn.Pkg == nil || fn.Pkg.Pkg.Name() != pkg {
				continue
			}
			writes := allCalls(fn, func(ci ssa.CallInstruction) bool {
				f := ci.Common().StaticCallee()
				return f != nil && (atomic[f])
			})
			if len(writes) == 0 {
				continue
			}
			// a rewrite with restore: at least one replacing write and at least one restoring site
			// (a second write of the previous bytes, or a helper/closure that reaches the atomic writer)
			nRestoreSites := 0
			nPrimary := 0
			for _, w := range writes {
				if isPreviousBytes(w.Common().Args[1], fn) {
					nRestoreSites++
				} else {
					nPrimary++
				}
			}
			for _, ci := range allCalls(fn, func(ci ssa.CallInstruction) bool {
				f := ci.Common().StaticCallee()
				if f == nil {
					for _, t := range funcValueTargets(ci.Common().Value, 0) {
						if isRestore(t) {
							return true
						}
					}
					return false
				}
				return !atomic[f] && isRestore(f) && p.Orig(f) != p.Orig(fn)
			}) {
				_ = ci
				nRestoreSites++
			}
			if nPrimary == 0 || nRestoreSites == 0 {
				continue
			}
			res := fn.Signature.Results()
			if res.Len() == 0 || !types.Identical(res.At(res.Len()-1).Type(), types.Universe.Lookup("error").Type()) {
				continue
			}
			n++
			name := pkg + "." + fn.Name()
			sort.Slice(writes, func(i, j int) bool { return writes[i].Pos() < writes[j].Pos() })
			// first write = the earliest replacing (non-restoring) write
			var first ssa.CallInstruction
			for _, w := range writes {
				if isPreviousBytes(w.Common().Args[1], fn) {
					continue
				}
				if first == nil || InstrDominates(w, first) {
					first = w
				}
			}
			// validate-before-write: parse ok and compile ok dominate the first write, on the bytes written
			parse := allCalls(fn, func(ci ssa.CallInstruction) bool {
				f := ci.Common().StaticCallee()
				return f != nil && f.Name() == "Parse" && f.Pkg != nil && strings.HasSuffix(f.Pkg.Pkg.Path(), "/internal/config")
			})
			written := first.Common().Args[1]
			var parseOfWritten []ssa.CallInstruction
			for _, pc := range parse {
				if sameBytes(pc.Common().Args[0], written) {
					parseOfWritten = append(parseOfWritten, pc)
				}
			}
			okP, _, _ := GuardEdges(fn, parseOfWritten, ErrNil)
			okp, path := p.MustPass(fn, first, okP)
			if okp && len(okP) > 0 {
				c.Ok(rule, name+":parse-ok-of-written-bytes-before-write", p.InstrPos(first), "the bytes written were parsed successfully first")
			} else {
				c.Fail(rule, name+":parse-ok-of-written-bytes-before-write", p.InstrPos(first), "the config file can be replaced by bytes that were not (successfully) parsed", path...)
			}
			// the compile that counts is the one applied to what the parse of the written bytes produced
			compileOfCandidate := map[ssa.Value]bool{}
			for _, cc := range allCalls(fn, func(ci ssa.CallInstruction) bool {
				f := ci.Common().StaticCallee()
				return f != nil && f.Name() == "Compile" && f.Pkg != nil && strings.HasSuffix(f.Pkg.Pkg.Path(), "/internal/config")
			}) {
				arg := cc.Common().Args[0]
				o, idx := origin(arg)
				for _, pc := range parseOfWritten {
					if pv, isV := pc.(ssa.Value); isV && o == pv && idx == 0 {
						if v, isV2 := cc.(ssa.Value); isV2 {
							compileOfCandidate[v] = true
						}
					}
				}
			}
			okFieldOf := func(v ssa.Value) ssa.Value {
				// v is <validation result>.OK: return the call producing the validation result
				var base ssa.Value
				switch x := v.(type) {
				case *ssa.Field:
					base = x.X
				case *ssa.UnOp:
					if fa, isFA := x.X.(*ssa.FieldAddr); isFA {
						if _, f, _ := fieldAddrName(fa); f == "OK" {
							if al, isAl := fa.X.(*ssa.Alloc); isAl {
								for _, ref := range *al.Referrers() {
									if st, isSt := ref.(*ssa.Store); isSt && st.Addr == al {
										base = st.Val
									}
								}
							}
						}
					}
				}
				if base == nil {
					return nil
				}
				o, _ := origin(base)
				return o
			}
			var okC []Edge
			for _, b := range fn.Blocks {
				for i := range b.Succs {
					at, ok := edgeAtom(Edge{b, i})
					if ok && isBoolTrue(at.Y) && at.Op == token.EQL {
						if sym, ok := symOf(at.X); ok && strings.HasSuffix(sym, ".OK") {
							if src := okFieldOf(at.X); src != nil && compileOfCandidate[src] {
								okC = append(okC, Edge{b, i})
							}
						}
					}
				}
			}
			// the compile that validates the candidate is the last compile before the write
			okc, pathc := p.MustPass(fn, first, okC)
			if okc && len(okC) > 0 {
				c.Ok(rule, name+":compile-ok-before-write", p.InstrPos(first), "the candidate compiled before the file is replaced")
			} else {
				c.Fail(rule, name+":compile-ok-before-write", p.InstrPos(first), "the config file can be replaced without the parsed candidate (the result of parsing the bytes written) having compiled with OK", pathc...)
			}
			// restore: for every non-restoring write, each error return feasibly reachable from its ok edge passes a restoring write
			var restores []ssa.Instruction
			var primary []ssa.CallInstruction
			for _, w := range writes {
				if isPreviousBytes(w.Common().Args[1], fn) {
					restores = append(restores, w)
				} else {
					primary = append(primary, w)
				}
			}
			for _, ci := range allCalls(fn, func(ci ssa.CallInstruction) bool {
				f := ci.Common().StaticCallee()
				if f == nil {
					for _, t := range funcValueTargets(ci.Common().Value, 0) {
						if isRestore(t) {
							return true
						}
					}
					return false
				}
				return !atomic[f] && isRestore(f) && p.Orig(f) != p.Orig(fn)
			}) {
				restores = append(restores, ci)
			}
			bad := false
			nErr := 0
			for _, w := range primary {
				okW, _, _ := GuardEdges(fn, []ssa.CallInstruction{w}, ErrNil)
				contra := contradictingEdges(p, fn, w)
				stop := map[*ssa.BasicBlock]bool{}
				for _, rs := range restores {
					stop[rs.Block()] = true
				}
				var starts []*ssa.BasicBlock
				for _, e := range okW {
					starts = append(starts, e.To())
				}
				av := EdgeSet{}
				av.addAll(contra)
				par := reach(starts, av, stop)
				for _, r := range returnsOf(fn) {
					if k := errResultKind(r); k == "nil" || k == "none" {
						continue
					}
					if _, reached := par[r.Block()]; reached && !stop[r.Block()] {
						nErr++
						bad = true
						c.Fail(rule, name+":error-after-write-restores-previous", p.InstrPos(r), "after the file was replaced (write at "+p.InstrPos(w)+") an error is returned without writing the previous content back", p.blockPath(par, r.Block())...)
					}
				}
			}
			if !bad {
				c.Ok(rule, name+":error-after-write-restores-previous", p.InstrPos(first), fmt.Sprintf("%d replacing write(s); no error return feasibly follows one without a restoring write (%d restore site(s))", len(primary), len(restores)))
			}
		}
	}
	c.Floor(rule, "config_rewrite_functions", n, 2)
}

// sameBytes: two []byte values have the same provenance.
func sameBytes(a, b ssa.Value) bool {
	if a == b {
		return true
	}
	return sourcesString(sourcesOf(a)) == sourcesString(sourcesOf(b)) && sourcesString(sourcesOf(a)) != ""
}

// isPreviousBytes: the value derives from os.ReadFile in fn (the content read before the rewrite).
func isPreviousBytes(v ssa.Value, fn *ssa.Function) bool {
	for _, s := range sourcesOf(v) {
		if s.Kind == "call" && strings.Contains(s.Desc, "os.ReadFile") {
			return true
		}
		if s.Kind == "param" {
			return true // restore helpers receive the previous bytes as a parameter
		}
	}
	return false
}

// contradictingEdges: edges whose string/boolean atom contradicts an atom that holds on every path to `at`
// (cheap infeasible-path pruning: `mode == "a"` dominates the site, so a later `mode == "b"` true edge is infeasible).
func contradictingEdges(p *Program, fn *ssa.Function, at ssa.Instruction) []Edge {
	type fact struct {
		sym string
		eq  bool
		val string
	}
	var facts []fact
	atomOf := func(e Edge) (fact, bool) {
		a, ok := edgeAtom(e)
		if !ok || (a.Op != token.EQL && a.Op != token.NEQ) {
			return fact{}, false
		}
		s, isC := constString(a.Y)
		if !isC {
			return fact{}, false
		}
		sym, ok := symOf(a.X)
		if !ok {
			return fact{}, false
		}
		return fact{sym, a.Op == token.EQL, s}, true
	}
	for _, b := range fn.Blocks {
		for i := range b.Succs {
			f, ok := atomOf(Edge{b, i})
			if !ok || !f.eq {
				continue
			}
			if okp, _ := p.MustPass(fn, at, []Edge{{b, i}}); okp {
				facts = append(facts, f)
			}
		}
	}
	var out []Edge
	for _, b := range fn.Blocks {
		for i := range b.Succs {
			f, ok := atomOf(Edge{b, i})
			if !ok {
				continue
			}
			for _, k := range facts {
				if k.sym != f.sym {
					continue
				}
				if (f.eq && f.val != k.val) || (!f.eq && f.val == k.val) {
					out = append(out, Edge{b, i})
				}
			}
		}
	}
	return out
}

// atomicWriters: the functions of app/mcp that replace a file atomically — (path, bytes, …) writers in whose body,
// with the package's helpers expanded, a temp file is created and renamed over the target. Returned with the view
// in which the steps are visible; the directory-sync helper (reaches File.Sync, creates no temp file) stays a call.
func (p *Program) atomicWriters() map[*ssa.Function]*ssa.Function {
	if p.atomicW != nil {
		return p.atomicW
	}
	p.atomicW = map[*ssa.Function]*ssa.Function{}
	isSync := func(x ssa.CallInstruction) bool { return calleeIs(x, "os", "File", "Sync") }
	isTemp := func(x ssa.CallInstruction) bool { return calleeIs(x, "os", "", "CreateTemp") }
	keep := func(callee *ssa.Function) bool {
		was := p.auditing
		p.auditing = true // a search over candidate callees, not a rule's root
		defer func() { p.auditing = was }()
		return p.FuncReaches(callee, isSync, map[*ssa.Function]bool{}) && !p.FuncReaches(callee, isTemp, map[*ssa.Function]bool{})
	}
	for _, pkg := range []string{"app", "mcp"} {
		for _, fn := range p.FuncsInPkg(pkg) {
			if fn.Parent() != nil || !isBytesWriterSig(fn) {
				continue
			}
			v := p.ViewKeeping(fn, keep)
			if len(allCalls(v, func(ci ssa.CallInstruction) bool { return calleeIs(ci, "os", "", "Rename") })) > 0 && len(allCalls(v, isTemp)) > 0 {
				p.atomicW[fn] = v
			}
		}
	}
	return p.atomicW
}
