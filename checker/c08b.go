package main

import (
	"fmt"
	"os"
	"go/token"
	"go/types"

	"golang.org/x/tools/go/ssa"
)

// C08.R6 — an installed HMAC authenticator is a configured one.
//
// The verifier treats an authenticator with neither static secrets nor a secret selector as "not configured" and
// lets the request pass. The builder therefore must never install such a value for a route that declared HMAC
// auth. Decided structurally in the function that fills the per-route map of *HMACAuth:
//  (a) a non-nil authenticator is installed only behind "the compiled route lists a secret or a secret_ref";
//  (b) the list given to the constructor, and the list whose non-emptiness decides whether the selector is set, are
//      plain accumulators (nil | append(acc, one element)) — nothing filters, replaces or re-slices them between
//      collection and installation;
//  (c) each collecting loop adds an element on every iteration that neither fails the whole build nor skips a
//      duplicate (continue behind a comma-ok map lookup).
// Not decided: that the elements themselves are usable (non-empty secret bytes — C11.R5 covers LoadRef).

// seenSetOfLoop: the map of a comma-ok lookup is the loop's own "already added" set — the loop inserts into it. A
// lookup in a table filled elsewhere ("secrets that could not be loaded") is a filter, not a duplicate test.
func seenSetOfLoop(lk *ssa.Lookup, body map[*ssa.BasicBlock]bool) bool {
	for b := range body {
		for _, ins := range b.Instrs {
			if mu, ok := ins.(*ssa.MapUpdate); ok && (mu.Map == lk.X || sameLoad(mu.Map, lk.X)) {
				return true
			}
		}
	}
	return false
}

func isAccumulator(v ssa.Value, seen map[ssa.Value]bool) (bool, string, []*ssa.Call) {
	var apps []*ssa.Call
	ok := true
	why := ""
	var walk func(v ssa.Value)
	walk = func(v ssa.Value) {
		if v == nil || seen[v] || !ok {
			return
		}
		seen[v] = true
		switch x := v.(type) {
		case *ssa.Const:
		case *ssa.Phi:
			for _, e := range x.Edges {
				walk(e)
			}
		case *ssa.Call:
			if bi, isB := x.Call.Value.(*ssa.Builtin); isB && bi.Name() == "append" {
				apps = append(apps, x)
				walk(x.Call.Args[0])
				return
			}
			ok, why = false, "it is the result of "+callDesc(x)
		case *ssa.UnOp:
			if al, isAl := x.X.(*ssa.Alloc); isAl && x.Op == token.MUL {
				for _, ref := range *al.Referrers() {
					if st, isSt := ref.(*ssa.Store); isSt && st.Addr == al {
						walk(st.Val)
					}
				}
				return
			}
			ok, why = false, "it is loaded from "+shortVal(x.X)
		case *ssa.Slice:
			ok, why = false, "it is re-sliced"
		case *ssa.MakeSlice:
		default:
			ok, why = false, "it comes from "+shortVal(v)
		}
	}
	walk(v)
	return ok, why, apps
}

type hmacInstall struct {
	ssa.Instruction
	Value ssa.Value
}

func checkInstalledHMACConfigured(c *Ctx, rule string) {
	p := c.P
	n := 0
	for _, fn := range p.FuncsInPkg("app") {
		if fn.Parent() == nil {
			fn = p.View(fn) // the per-route construction may live in a helper of the package
		}
		for _, b := range fn.Blocks {
			for _, ins := range b.Instrs {
				// an install site: the authenticator is put into the per-route table — a map of authenticators, or the
				// authenticator member of a per-route record that is (a copy of) an element of a map of records
				var mu hmacInstall
				switch x := ins.(type) {
				case *ssa.MapUpdate:
					mt, ok := x.Map.Type().Underlying().(*types.Map)
					if !ok || namedName(mt.Elem()) != "HMACAuth" {
						continue
					}
					mu = hmacInstall{x, x.Value}
				case *ssa.Store:
					fa, ok := x.Addr.(*ssa.FieldAddr)
					if !ok || namedName(x.Val.Type()) != "HMACAuth" {
						continue
					}
					if _, isPtr := x.Val.Type().Underlying().(*types.Pointer); !isPtr {
						continue
					}
					if namedPkgPath(fa.X.Type()) != modPath+"/internal/app" {
						continue
					}
					mu = hmacInstall{x, x.Val}
				default:
					continue
				}
				if len(p.InlinedFrom(mu.Instruction)) > 0 {
					continue // (an install expanded from a helper is decided in that helper's own view)
				}
				if isNilConst(mu.Value) {
					continue
				}
				n++
				name := FuncName(fn)
				h := loopHeaderOf(mu.Block())
				start := fn.Blocks[0]
				if h != nil {
					start = h
				}
				// (a) behind "route declares a secret or a secret_ref"
				var declared []Edge
				for _, bb := range fn.Blocks {
					for i := range bb.Succs {
						a, okA := edgeAtom(Edge{bb, i})
						if !okA {
							continue
						}
						call, isCall := a.X.(*ssa.Call)
						if !isCall {
							continue
						}
						bi, isB := call.Call.Value.(*ssa.Builtin)
						if !isB || bi.Name() != "len" {
							continue
						}
						_, f, okF := fieldOfLoad(call.Call.Args[0])
						if !okF || (f != "AuthHMACSecrets" && f != "AuthHMACSecretRefs") {
							continue
						}
						nonZero := (a.Op == token.NEQ && isIntConst(a.Y, 0)) || (a.Op == token.GTR && isIntConst(a.Y, 0))
						if nonZero {
							declared = append(declared, Edge{bb, i})
						}
					}
				}
				av := EdgeSet{}
				av.addAll(declared)
				par := reach([]*ssa.BasicBlock{start}, av, nil)
				_, reached := par[mu.Block()]
				// the installed value may be a merge of "no authenticator" (nil, from a helper's early return) and the
				// constructed one: what matters is where the constructed one comes from
				if phi, isPhi := mu.Value.(*ssa.Phi); isPhi && reached && len(phi.Edges) == len(phi.Block().Preds) {
					reached = false
					var nonNil ssa.Value
					for i, e := range phi.Edges {
						if isNilConst(e) {
							continue
						}
						nonNil = e
						if _, r := par[phi.Block().Preds[i]]; r {
							reached = true
						}
					}
					if nonNil != nil {
						mu.Value = nonNil
					}
				}
				if reached && os.Getenv("HK_DEBUG") != "" {
					fmt.Println("DEBUG declared", len(declared), "start", start.Index, "path", p.blockPath(par, mu.Block()))
				}
				c.Check(len(declared) > 0 && !reached, rule, name+":authenticator installed only for routes declaring HMAC secrets", p.InstrPos(mu),
					"the install is behind len(AuthHMACSecrets) != 0 or len(AuthHMACSecretRefs) != 0",
					"a non-nil authenticator can be installed for a route that lists neither a secret nor a secret_ref")
				// (b) constructor argument and selector guard are accumulators
				ctor, _ := mu.Value.(*ssa.Call)
				if ctor == nil {
					if o, _ := origin(mu.Value); o != nil {
						ctor, _ = o.(*ssa.Call)
					}
				}
				if ctor == nil || len(ctor.Call.Args) != 1 {
					c.Undecided(rule, name+":constructor", p.InstrPos(mu), "the installed value is not the direct result of the authenticator constructor")
					continue
				}
				var loops []*ssa.Call
				okS, whyS, appsS := isAccumulator(ctor.Call.Args[0], map[ssa.Value]bool{})
				c.Check(okS, rule, name+":static secret list is what was collected", p.InstrPos(ctor),
					"the list given to the constructor is nil | append(list, loaded secret)",
					"the static secret list given to the constructor is not the collected list ("+whyS+"): secrets can be dropped between loading and installation, leaving an authenticator the verifier treats as not configured")
				loops = append(loops, appsS...)
				// selector: store to the SelectSecrets field of this authenticator, and the len test guarding it
				nSel := 0
				for _, bb := range fn.Blocks {
					for _, i2 := range bb.Instrs {
						st, isSt := i2.(*ssa.Store)
						if !isSt {
							continue
						}
						fa, isFA := st.Addr.(*ssa.FieldAddr)
						if !isFA {
							continue
						}
						if _, f, _ := fieldAddrName(fa); f != "SelectSecrets" {
							continue
						}
						nSel++
						// the nearest dominating len(x) > 0 test
						var guardList ssa.Value
						for _, pc := range dominatingConds(bb, h) {
							bo, isBO := pc.Cond.(*ssa.BinOp)
							if !isBO {
								continue
							}
							if call, isCall := bo.X.(*ssa.Call); isCall {
								if bi, isB := call.Call.Value.(*ssa.Builtin); isB && bi.Name() == "len" && isIntConst(bo.Y, 0) {
									if ((bo.Op == token.GTR || bo.Op == token.NEQ) && pc.Val) || ((bo.Op == token.EQL || bo.Op == token.LEQ) && !pc.Val) {
										if _, isSliceT := call.Call.Args[0].Type().Underlying().(*types.Slice); isSliceT && guardList == nil {
											guardList = call.Call.Args[0]
										}
									}
								}
							}
						}
						if guardList == nil {
							c.Ok(rule, name+":selector set unconditionally", p.InstrPos(st), "no list test guards the selector")
							continue
						}
						okV, whyV, appsV := isAccumulator(guardList, map[ssa.Value]bool{})
						c.Check(okV, rule, name+":rotating version list is what was collected", p.InstrPos(st),
							"the list whose non-emptiness decides the selector is nil | append(list, referenced version)",
							"the version list tested before the selector is set is not the collected list ("+whyV+"): if every referenced version is dropped the authenticator is installed with neither secrets nor selector, and the verifier lets every request through")
						loops = append(loops, appsV...)
					}
				}
				c.Check(nSel > 0, rule, name+":selector assignment found", p.InstrPos(mu), fmt.Sprintf("%d selector assignment(s)", nSel), "the builder never sets the secret selector")
				// (c) collecting loops
				for _, app := range loops {
					lh := loopHeaderOf(app.Block())
					if lh == nil || lh == h {
						continue
					}
					// iteration paths avoiding the append block must be: return (error) or a continue behind a comma-ok lookup
					bad := ""
					body := loopBody(lh)
					for bb := range body {
						if bb == lh {
							continue
						}
						for si, s := range bb.Succs {
							if s != lh {
								continue
							}
							// a back edge: fine if it comes from the append block (or after it), else must be a dedupe continue
							if bb == app.Block() || app.Block().Dominates(bb) {
								continue
							}
							dedupe := false
							for _, pc := range dominatingConds(bb, lh) {
								if ex, isEx := pc.Cond.(*ssa.Extract); isEx && pc.Val {
									if lk, isLk := ex.Tuple.(*ssa.Lookup); isLk && lk.CommaOk && seenSetOfLoop(lk, body) {
										dedupe = true
									}
								}
							}
							// the back edge may also be the conditional edge itself
							if ifi, isIf := bb.Instrs[len(bb.Instrs)-1].(*ssa.If); isIf && si == 0 {
								if ex, isEx := ifi.Cond.(*ssa.Extract); isEx {
									if lk, isLk := ex.Tuple.(*ssa.Lookup); isLk && lk.CommaOk && seenSetOfLoop(lk, body) {
										dedupe = true
									}
								}
							}
							if !dedupe {
								bad = p.Pos(bb.Instrs[0].Pos())
							}
						}
					}
					c.Check(bad == "", rule, fmt.Sprintf("%s:collecting loop at %s adds an element per entry", name, p.InstrPos(app)), p.InstrPos(app),
						"every iteration appends, fails the build, or skips a duplicate",
						"an iteration of the collecting loop can go on without adding its element (back edge near "+bad+" not behind a duplicate test): a declared secret can be silently left out")
				}
			}
		}
	}
	c.Floor(rule, "HMAC authenticator install sites", n, 1)
}
