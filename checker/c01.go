package main

import (
	"fmt"
	"go/token"
	"go/types"
	"strings"

	"golang.org/x/tools/go/ssa"
)

func init() { register("C01", checkC01) }

const queuePath = modPath + "/internal/queue"

func isStoreEnqueue(c ssa.CallInstruction) bool {
	return isInvokeOf(c, queuePath, "Store", "Enqueue")
}
func isBatchEnqueue(c ssa.CallInstruction) bool {
	return isInvokeOf(c, queuePath, "BatchEnqueuer", "EnqueueBatch")
}
func isAnyEnqueue(c ssa.CallInstruction) bool { return isStoreEnqueue(c) || isBatchEnqueue(c) }

// successSinks: 2xx WriteHeader constants and body writes that are not
// preceded (dominated) by a non-2xx WriteHeader in the same function.
func successSinks(fn *ssa.Function) (succ []respSink, dyn []respSink, all []respSink) {
	all = responseSinks(fn)
	var non2xx []ssa.Instruction
	for _, s := range all {
		switch s.Kind {
		case respStatusConst:
			if s.Status < 200 || s.Status >= 300 {
				non2xx = append(non2xx, s.Instr)
			}
		case respStatusDyn:
			non2xx = append(non2xx, s.Instr)
			dyn = append(dyn, s)
		}
	}
	for _, s := range all {
		switch s.Kind {
		case respStatusConst:
			if s.Status >= 200 && s.Status < 300 {
				succ = append(succ, s)
			}
		case respBody, respHelper:
			dominated := false
			for _, n := range non2xx {
				if InstrDominates(n, s.Instr) {
					dominated = true
				}
			}
			if !dominated {
				succ = append(succ, s)
			}
		}
	}
	return
}

// ackAfterEnqueue applies the "success answer only after every enqueue
// succeeded" rule to one handler function.
func ackAfterEnqueue(c *Ctx, rule string, fn *ssa.Function, requireNonEmptyRange bool) {
	p := c.P
	name := FuncName(fn)
	enq := allCalls(fn, isAnyEnqueue)
	c.Count(rule+".enqueue_calls", len(enq))
	if len(enq) == 0 {
		c.Fail(rule, name+":enqueue-calls", p.Pos(fn.Pos()), "no Store.Enqueue / BatchEnqueuer.EnqueueBatch call found in handler")
		return
	}
	ok, fail, untested := GuardEdges(fn, enq, ErrNil)
	for _, u := range untested {
		c.Fail(rule, name+":enqueue-result-tested", p.InstrPos(u), "error result of enqueue call is never tested by a branch")
	}
	succ, _, all := successSinks(fn)
	c.Count(rule+".response_sinks", len(all))
	if len(succ) == 0 {
		c.Fail(rule, name+":success-sinks", p.Pos(fn.Pos()), "no success response write found in handler")
		return
	}
	// loop headers of enqueue loops
	hdrs := map[*ssa.BasicBlock]bool{}
	for _, e := range enq {
		if h := loopHeaderOf(e.Block()); h != nil {
			hdrs[h] = true
			// every iteration passes an ok edge of an enqueue in the loop
			okIt, path := p.LoopIterationsPass(h, ok)
			key := fmt.Sprintf("%s:every-iteration-enqueues@%s", name, enqName(e))
			if okIt {
				c.Ok(rule, key, p.InstrPos(e), "every path around the enqueue loop takes the err==nil edge of the enqueue call")
			} else {
				c.Fail(rule, key, p.InstrPos(e), "an iteration of the enqueue loop can continue without a successful enqueue", path...)
			}
			if requireNonEmptyRange {
				okNE, why := rangeNonEmpty(h)
				key := name + ":ranged-target-list-non-empty"
				if okNE {
					c.Ok(rule, key, p.InstrPos(e), why)
				} else {
					c.Fail(rule, key, p.InstrPos(e), "cannot show the ranged target list has at least one element: "+why)
				}
			}
		}
	}
	for i, s := range succ {
		key := fmt.Sprintf("%s:success-write#%d", name, i+1)
		// (a) no path from a failed enqueue to the success write
		okA, pathA := p.NoPathFrom(fail, s.Instr, nil)
		// (b) every path to the success write passes an ok edge or an enqueue loop header
		av := EdgeSet{}
		av.addAll(ok)
		par := reach([]*ssa.BasicBlock{fn.Blocks[0]}, av, hdrs)
		_, reached := par[s.Instr.Block()]
		if hdrs[s.Instr.Block()] {
			reached = false
		}
		switch {
		case !okA:
			c.Fail(rule, key, p.InstrPos(s.Instr), "success response reachable from the err!=nil edge of an enqueue call", pathA...)
		case reached:
			c.Fail(rule, key, p.InstrPos(s.Instr), "success response reachable without passing the err==nil edge of any enqueue call", p.blockPath(par, s.Instr.Block())...)
		default:
			c.Ok(rule, key, p.InstrPos(s.Instr), "dominated by enqueue err==nil edges; unreachable from err!=nil edges")
		}
	}
}

func enqName(c ssa.CallInstruction) string {
	if c.Common().IsInvoke() {
		return c.Common().Method.Name()
	}
	if f := c.Common().StaticCallee(); f != nil {
		return f.Name()
	}
	return "call"
}

// rangeNonEmpty: the slice ranged over by the loop with header h has >= 1 element.
func rangeNonEmpty(h *ssa.BasicBlock) (bool, string) {
	// find `i < len(x)` in the header
	var ranged ssa.Value
	for _, ins := range h.Instrs {
		if b, ok := ins.(*ssa.BinOp); ok && b.Op == token.LSS {
			if l := lenArg(b.Y); l != nil {
				ranged = l
			}
		}
	}
	if ranged == nil {
		// len may be hoisted to the preheader
		for _, pr := range h.Preds {
			for _, ins := range pr.Instrs {
				if cl, ok := ins.(*ssa.Call); ok {
					if l := lenArg(cl); l != nil {
						ranged = l
					}
				}
			}
		}
	}
	if ranged == nil {
		return false, "range source not found"
	}
	return valueNonEmpty(ranged, 0)
}

func lenArg(v ssa.Value) ssa.Value {
	c, ok := v.(*ssa.Call)
	if !ok {
		return nil
	}
	if b, ok := c.Call.Value.(*ssa.Builtin); ok && b.Name() == "len" && len(c.Call.Args) == 1 {
		return c.Call.Args[0]
	}
	return nil
}

func valueNonEmpty(v ssa.Value, depth int) (bool, string) {
	if depth > 4 {
		return false, "too deep"
	}
	switch x := v.(type) {
	case *ssa.Slice:
		if x.Low == nil && x.High == nil {
			if a, ok := x.X.(*ssa.Alloc); ok {
				if arr, ok := a.Type().(*types.Pointer).Elem().Underlying().(*types.Array); ok && arr.Len() >= 1 {
					return true, fmt.Sprintf("slice literal of %d element(s)", arr.Len())
				}
			}
		}
	case *ssa.Phi:
		var why []string
		for i, e := range x.Edges {
			if ok, w := valueNonEmpty(e, depth+1); ok {
				why = append(why, w)
				continue
			}
			// incoming edge must be guarded by len(e) > 0
			pred := x.Block().Preds[i]
			var guards []Edge
			for _, b := range x.Block().Parent().Blocks {
				for si := range b.Succs {
					a, ok := edgeAtom(Edge{b, si})
					if !ok {
						continue
					}
					if l := lenArg(a.X); l != nil && l == e {
						if (a.Op == token.GTR && isIntConst(a.Y, 0)) || (a.Op == token.NEQ && isIntConst(a.Y, 0)) || (a.Op == token.GEQ && isIntConst(a.Y, 1)) {
							guards = append(guards, Edge{b, si})
						}
					}
				}
			}
			av := EdgeSet{}
			av.addAll(guards)
			par := reach([]*ssa.BasicBlock{pred.Parent().Blocks[0]}, av, nil)
			if _, reached := par[pred]; reached || len(guards) == 0 {
				return false, fmt.Sprintf("phi operand %s not guarded by len(...) > 0", e.Name())
			}
			why = append(why, "operand guarded by len>0")
		}
		return true, strings.Join(why, "; ")
	}
	return false, fmt.Sprintf("value %s (%T) not provably non-empty", v.Name(), v)
}

func checkC01(c *Ctx) {
	p := c.P
	c.Rule("C01.R1", "ingress: every 2xx/body write is reached only through the err==nil edge of Store.Enqueue on every loop iteration, never from its err!=nil edge; ranged target list has >=1 element")
	c.Rule("C01.R2", "queue: in every function that begins a transaction, success returns and the committed flag are dominated by the commit call's err==nil edge, rollback is deferred, mutations use the transaction")
	c.Rule("C01.R3", "admin publish handlers: success body is reached only through the err==nil edge of EnqueueBatch / every-iteration Enqueue")
	c.Rule("C01.R4", "pull/worker settle operations return success only on the err==nil edge of the Store call or the idempotent cache hit")
	c.Rule("C01.R5", "schema DDL executed at open lies inside one begin..commit function")
	c.Rule("C01.R6", "bookkeeping rows stay single: every INSERT OR REPLACE / OR IGNORE / ON CONFLICT names a PRIMARY KEY / UNIQUE column of the table's DDL (or the rowid), so the conflict clause can fire instead of appending a row the single-row reader never sees")

	c.Rule("C01.R9", "transaction control cannot be skipped: the context under which the COMMIT and ROLLBACK statements of the hand-rolled SQLite transactions execute — followed through parameters to every call site, through closures and local cells — is context.Background()/TODO()/WithoutCancel, never a request context or one with a deadline (database/sql does not send a statement whose context is done; the connection would return to the pool inside the open transaction and later writes on it would be acknowledged but never committed)")
	checkTxControlContext(c, "C01.R9")
	// R1
	serve := p.Func("ingress", "(*Server).ServeHTTP")
	if serve == nil {
		c.Fail("C01.R1", "anchor:ingress.(*Server).ServeHTTP", "", "anchor not found")
	} else {
		ackAfterEnqueue(c, "C01.R1", serve, true)
		_, dyn, _ := successSinks(serve)
		for _, d := range dyn {
			o, _ := origin(d.Instr.Common().Args[0])
			c.Note("C01.R1: dynamic status write at %s (value origin %T %s) — status decided by a hook / forward-auth result, see C08.R3", p.InstrPos(d.Instr), o, o.Name())
			// a dynamic status write must not be reachable after a successful enqueue
			enq := allCalls(serve, isAnyEnqueue)
			ok, _, _ := GuardEdges(serve, enq, ErrNil)
			okN, path := p.NoPathFrom(ok, d.Instr, nil)
			key := "ingress.(*Server).ServeHTTP:dynamic-status-before-enqueue"
			if okN {
				c.Ok("C01.R1", key, p.InstrPos(d.Instr), "dynamic status write is not reachable after an enqueue")
			} else {
				c.Fail("C01.R1", key, p.InstrPos(d.Instr), "dynamic status write reachable after enqueue", path...)
			}
		}
	}

	// R3: publish handlers = functions of package admin that invoke EnqueueBatch
	nPub := 0
	for _, fn := range publishHandlers(p) {
		nPub++
		ackAfterEnqueue(c, "C01.R3", p.View(fn), false) // response helpers of the package are part of the handler (inlined view)
	}
	c.Floor("C01.R3", "publish_handlers", nPub, 2)

	checkTxTypestate(c, "C01.R2")
	checkSettleAck(c, "C01.R4")
	checkSchemaInit(c, "C01.R5")
	checkUpsertTargets(c, "C01.R6")
	c.Rule("C01.R7", "offered again after a restart: a message leased by an earlier process returns to the queue because the expired-lease release dominates candidate selection on every dequeue and can be refused only by the time-based granularity throttle (no process-local state suppresses it) — the analysis of C05.R1, claimed here for the restart clause")
	checkSweepBeforeSelect(c, "C01.R7")
	c.Rule("C01.R8", "store options receive the configuration values of their own name: no call from package app to a queue.With* option passes to one parameter a value derived only from the configuration field that another parameter of the same call is named after (retention max_age vs prune_interval, depth vs policy)")
	checkOptionWiring(c, "C01.R8")
}

var storeLeaseMethods = map[string]bool{"Ack": true, "Nack": true, "MarkDead": true, "Extend": true}

func isStoreLeaseCall(c ssa.CallInstruction) bool {
	com := c.Common()
	return com.IsInvoke() && storeLeaseMethods[com.Method.Name()] && namedName(com.Value.Type()) == "Store" && namedPkgPath(com.Value.Type()) == queuePath
}

// pullSingleOps: methods of pullapi.Server with the single result *OpError
// that invoke a Store lease method.
func pullSingleOps(p *Program) []*ssa.Function {
	var out []*ssa.Function
	for _, fn := range p.MethodsOf("pullapi", "Server") {
		res := fn.Signature.Results()
		if res.Len() != 1 || namedName(res.At(0).Type()) != "OpError" {
			continue
		}
		if len(allCalls(fn, isStoreLeaseCall)) > 0 {
			out = append(out, fn)
		}
	}
	return out
}

// cacheHitCalls: calls to bool-returning methods of the same receiver type
// that cannot reach the Store (the recent-operation cache lookup).
func cacheHitCalls(p *Program, fn *ssa.Function) []ssa.CallInstruction {
	memo := map[*ssa.Function]bool{}
	isStore := func(c ssa.CallInstruction) bool {
		return c.Common().IsInvoke() && namedPkgPath(c.Common().Value.Type()) == queuePath
	}
	return allCalls(fn, func(c ssa.CallInstruction) bool {
		f := c.Common().StaticCallee()
		if f == nil || f.Signature.Recv() == nil || namedName(f.Signature.Recv().Type()) != "Server" || f.Pkg != fn.Pkg {
			return false
		}
		r := f.Signature.Results()
		if r.Len() != 1 {
			return false
		}
		if b, ok := r.At(0).Type().Underlying().(*types.Basic); !ok || b.Kind() != types.Bool {
			return false
		}
		return !p.FuncReaches(f, isStore, memo)
	})
}

func checkSettleAck(c *Ctx, rule string) {
	p := c.P
	ops := pullSingleOps(p)
	c.Floor(rule, "pull_single_ops", len(ops), 3)
	for _, fn := range ops {
		name := FuncName(fn)
		calls := allCalls(fn, isStoreLeaseCall)
		ok, fail, untested := GuardEdges(fn, calls, ErrNil)
		if len(untested) > 0 {
			c.Fail(rule, name+":store-result-tested", p.InstrPos(untested[0]), "error result of the Store lease call is not tested")
			continue
		}
		hitOK, _, _ := GuardEdges(fn, cacheHitCalls(p, fn), BoolTrue)
		through := append(append([]Edge{}, ok...), hitOK...)
		bad := false
		n := 0
		for _, r := range returnsOf(fn) {
			if len(r.Results) != 1 || !isNilConst(r.Results[0]) {
				continue
			}
			n++
			if okp, path := p.MustPass(fn, r, through); !okp {
				bad = true
				c.Fail(rule, name+":success-only-after-store-ok", p.InstrPos(r), "success return reachable without the Store call's err==nil edge or the idempotent cache hit", path...)
			}
			if okn, path := p.NoPathFrom(fail, r, nil); !okn {
				bad = true
				c.Fail(rule, name+":success-only-after-store-ok", p.InstrPos(r), "success return reachable from the err!=nil edge of the Store call", path...)
			}
		}
		if n == 0 {
			c.Fail(rule, name+":success-only-after-store-ok", p.Pos(fn.Pos()), "no success return found")
		} else if !bad {
			c.Ok(rule, name+":success-only-after-store-ok", p.Pos(fn.Pos()), fmt.Sprintf("%d success return(s) each behind Store err==nil or cache hit", n))
		}
	}
}

func checkSchemaInit(c *Ctx, rule string) {
	p := c.P
	m := p.Tx()
	n := 0
	for _, s := range p.SQL().Stmts {
		if s.Backend != "sqlite" || s.Fn == nil {
			continue
		}
		v := s.St.verb
		isDDL := strings.HasPrefix(v, "OTHER:CREATE") || strings.HasPrefix(v, "OTHER:ALTER") || strings.HasPrefix(v, "OTHER:DROP") ||
			(s.IsMutation() && s.Table() == "schema_migrations")
		if !isDDL {
			continue
		}
		n++
		key := p.SQL().Key(s)
		// the statement's function is a tx function with the site between begin-ok and commit, or a helper
		// all of whose static callers call it between begin-ok and commit.
		okIn, why := siteInsideTx(p, m, s.Fn, s.Site.call.Lparen, 0)
		if okIn && !strings.HasPrefix(s.Site.recvKind, "db") {
			c.Ok(rule, key, s.Pos, "executed on the transaction connection between begin and commit: "+why)
		} else if okIn {
			c.Fail(rule, key, s.Pos, "schema statement inside the migration transaction uses the pool, not the transaction connection")
		} else {
			c.Fail(rule, key, s.Pos, "schema statement is not inside a begin..commit function: "+why)
		}
	}
	c.Floor(rule, "schema_statements", n, 7)
}

// siteInsideTx: the call at lparen in fn (or an anonymous function of fn) is
// executed only between begin-ok and commit of a transaction function.
func siteInsideTx(p *Program, m *txModel, fn *ssa.Function, lparen token.Pos, depth int) (bool, string) {
	if depth > 4 {
		return false, "call chain too deep"
	}
	holder := fn
	call := ssaCallAt(fn, lparen)
	if call == nil {
		for _, a := range allAnon(fn) {
			if cc := ssaCallAt(a, lparen); cc != nil {
				call, holder = cc, a
			}
		}
	}
	if call == nil {
		return false, "SSA call not found"
	}
	return instrInsideTx(p, m, holder, call, depth)
}

func instrInsideTx(p *Program, m *txModel, fn *ssa.Function, at ssa.Instruction, depth int) (bool, string) {
	if depth > 5 {
		return false, "call chain too deep"
	}
	if isTx(m, fn) {
		begins := allCalls(fn, m.isBegin)
		commits := allCalls(fn, m.isCommit)
		bOK, _, _ := GuardEdges(fn, begins, ErrNil)
		cOK, _, _ := GuardEdges(fn, commits, ErrNil)
		if okp, _ := p.MustPass(fn, at, bOK); !okp {
			return false, "reachable in " + FuncName(fn) + " without begin"
		}
		if okn, _ := p.NoPathFrom(cOK, at, nil); !okn {
			return false, "reachable in " + FuncName(fn) + " after commit"
		}
		return true, "in " + FuncName(fn)
	}
	// helper: every call site must be inside a tx
	sites := p.CallSitesOf(fn)
	if len(sites) == 0 {
		return false, FuncName(fn) + " has no resolvable call sites"
	}
	var whys []string
	for _, cs := range sites {
		ok, why := instrInsideTx(p, m, cs.Parent(), cs, depth+1)
		if !ok {
			return false, why
		}
		whys = append(whys, why)
	}
	return true, "helper " + FuncName(fn) + " called only " + strings.Join(dedup(whys), ", ")
}

func dedup(in []string) []string {
	seen := map[string]bool{}
	var out []string
	for _, s := range in {
		if !seen[s] {
			seen[s] = true
			out = append(out, s)
		}
	}
	return out
}
