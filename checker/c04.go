package main

import (
	"fmt"
	"go/ast"
	"go/token"
	"go/types"
	"strings"

	"golang.org/x/tools/go/packages"
	"golang.org/x/tools/go/ssa"
)

func init() { register("C04", checkC04) }

var leaseOps = map[string]bool{"Ack": true, "AckBatch": true, "Nack": true, "NackBatch": true, "Extend": true, "MarkDead": true, "MarkDeadBatch": true}

func isLeaseOp(root string) bool { return leaseOps[root] }

func checkC04(c *Ctx) {
	c.Rule("C04.R1", "SQL settle fencing: self-guarded settle statements carry lease_id = <presented id>, state = 'leased', lease_until > now; by-id settle statements are fed only by a lease lookup whose state/expiry tests dominate every accept point")
	c.Rule("C04.R2", "memory settle fencing: every settle mutation is dominated by the lease-index hit, State==leased (from-set), LeaseID == presented id, and the not-expired edge")
	c.Rule("C04.R3", "conflict paths are effect-free: in lease operations no error return is reachable after a mutation other than releasing an expired lease")
	c.Rule("C04.R4", "conflict classification at the API: lease-not-found/expired ⇒ 409 ⇒ FailedPrecondition; the idempotency cache is written only after a Store success and never consulted by Extend")
	c.Rule("C04.R5", "ids entering the idempotency cache are settled ids: the id just passed to the Store call that returned nil, or — after a batch call — a presented id kept only when absent (by key presence) from a set holding the LeaseID of every conflict of that call")
	c.Rule("C04.R6", "the batch lease-id normalisers of both transports forward each id in the form they de-duplicated it under (the trimmed id), and agree with each other")
	c.Rule("C04.R7", "a stale call changes nothing beyond returning an expired message to the queue: every transition to queued that is not the nack itself (lease expiry found by a settle call, sweep, operator requeue) stores next_run_at = now — the stale caller's delay has no effect (same obligations as C05.R3)")
	checkVisibilityTimes(c, "C04.R7")
	checkSQLFencing(c, "C04.R1")
	checkMemoryFencing(c, "C04.R2")
	checkFailedOpEffectFree(c, "C04.R3", isLeaseOp)
	checkConflictAPI(c, "C04.R4")
	checkCacheKeys(c, "C04.R5")
	checkLeaseIDNormalisers(c, "C04.R6")
}

// ---- R1 ----

func checkSQLFencing(c *Ctx, rule string) {
	p := c.P
	m := p.SQL()
	nSelf, nByID := 0, 0
	seen := map[*SQLStmt]bool{}
	for _, be := range []string{"sqlite", "postgres"} {
		for _, t := range p.sqlTransitions(be) {
			if !isLeaseOp(t.Root) || seen[t.Stmt] {
				continue
			}
			seen[t.Stmt] = true
			s := t.Stmt
			key := m.Key(s)
			_, leaseOperand, hasLeaseConj := conjOn(s, "lease_id")
			if hasLeaseConj {
				// self-guarded form
				nSelf++
				// lease id operand must derive from the method's string parameter
				ex := m.operandExpr(s, leaseOperand)
				okParam, whyParam := false, "lease_id operand not bound"
				if ex != nil {
					okParam, whyParam = p.exprIsLeaseParam(ex, s)
				}
				c.Check(okParam, rule, key+":lease-id=presented", s.Pos, whyParam, "lease_id conjunct is not bound to the presented lease id: "+whyParam)
				c.Check(t.HasFrom && t.From == ssParse("leased"), rule, key+":state=leased", s.Pos, "state = 'leased' in the statement's WHERE", "self-guarded settle statement lacks state = 'leased' (from "+t.From.String()+")")
				op, operand, ok := conjOn(s, "lease_until")
				if !ok {
					c.Fail(rule, key+":lease-until>now", s.Pos, "settle statement has no lease_until conjunct (an expired lease would be honoured)")
				} else {
					k := "other:unbound"
					if ex := m.operandExpr(s, operand); ex != nil {
						k, _ = p.ClockKind(ex, s.Decl)
					}
					c.Check(op == ">" && k == "now", rule, key+":lease-until>now", s.Pos, "lease_until > now", fmt.Sprintf("expiry guard is `lease_until %s %s` (%s); must be `> now`", op, m.R(s, operand), k))
				}
				continue
			}
			// by-id form: must be keyed by id and run inside a transaction (C02.R2) fed by a lookup
			nByID++
			_, _, byID := conjOn(s, "id")
			if !byID {
				for _, w := range s.St.where {
					if strings.HasPrefix(strings.ToLower(w), "id in") || strings.HasPrefix(strings.ToLower(w), "id = any") {
						byID = true
					}
				}
			}
			c.Check(byID, rule, key+":keyed-by-id", s.Pos, "settle statement keyed by item id (ids come from the lease lookup)", "settle statement in a lease operation has neither a lease_id nor an id key")
		}
	}
	c.Floor(rule, "self_guarded_settle_statements", nSelf, 5)
	c.Floor(rule, "by_id_settle_statements", nByID, 10)

	// lease lookups: SELECT … WHERE lease_id …
	nLookup := 0
	for _, s := range m.Stmts {
		if s.Verb() != "SELECT" || s.Table() != "queue_items" || s.Fn == nil {
			continue
		}
		isLookup := false
		for _, w := range s.St.where {
			if strings.HasPrefix(strings.ToLower(w), "lease_id") {
				isLookup = true
			}
		}
		if !isLookup {
			continue
		}
		if !reachableFromStoreRoots(p, s.Fn) {
			c.Note("%s: lease lookup in %s is not reachable from any exported Store method (dead code), skipped", rule, FuncName(s.Fn))
			continue
		}
		nLookup++
		key := m.Key(s) + ":lease-lookup"
		cols := map[string]int{}
		for i, col := range s.St.selectCols {
			cols[strings.ToLower(strings.TrimSpace(col))] = i
		}
		si, hasState := cols["state"]
		ui, hasUntil := cols["lease_until"]
		if !hasState || !hasUntil || len(s.Site.scan) != len(s.St.selectCols) {
			c.Fail(rule, key+":reads-state-and-expiry", s.Pos, fmt.Sprintf("lease lookup must read state and lease_until (state=%v lease_until=%v scan=%d/%d)", hasState, hasUntil, len(s.Site.scan), len(s.St.selectCols)))
			continue
		}
		c.Ok(rule, key+":reads-state-and-expiry", s.Pos, "selects state and lease_until")
		fn := s.Fn
		stateVar := scanDestVar(p, s, si)
		untilVar := scanDestVar(p, s, ui)
		// edges on which the scanned state == "leased"
		var stateEQ []Edge
		for _, b := range fn.Blocks {
			for i := range b.Succs {
				a, ok := edgeAtom(Edge{b, i})
				if !ok || a.Op != token.EQL {
					continue
				}
				if cs, ok := constState(a.Y); ok && cs == ssParse("leased") {
					if loadsVar(a.X, stateVar, fn) {
						stateEQ = append(stateEQ, Edge{b, i})
					}
				}
			}
		}
		// accept points
		var accepts []ssa.Instruction
		for _, b := range fn.Blocks {
			for _, ins := range b.Instrs {
				switch x := ins.(type) {
				case *ssa.MapUpdate:
					accepts = append(accepts, x)
				case ssa.CallInstruction:
					if _, isDefer := ins.(*ssa.Defer); isDefer {
						continue
					}
					if callInvokesParam(x, fn) || (x.Common().StaticCallee() != nil && reachesQueueMutation(p, x.Common().StaticCallee())) {
						accepts = append(accepts, ins)
					}
				}
			}
		}
		if len(stateEQ) == 0 {
			c.Fail(rule, key+":state-test", s.Pos, "the scanned state is never compared with 'leased' in "+FuncName(fn))
		} else {
			bad := false
			for _, a := range accepts {
				// only accept points after the lookup matter
				if okp, path := p.MustPass(fn, a, stateEQ); !okp {
					// accept points before the lookup call are irrelevant
					call := ssaCallAt(fn, s.Site.call.Lparen)
					if call != nil {
						if okAfter, _ := p.NoPathFrom([]Edge{}, a, nil); okAfter {
							_ = okAfter
						}
						par := reach([]*ssa.BasicBlock{call.Block()}, nil, nil)
						if _, after := par[a.Block()]; !after {
							continue
						}
					}
					bad = true
					c.Fail(rule, key+":state-test-dominates-accept", p.InstrPos(a), "an accept point of the lease lookup (result insertion / settle call) is reachable without the state == 'leased' test", path...)
				}
			}
			if !bad {
				c.Ok(rule, key+":state-test-dominates-accept", s.Pos, fmt.Sprintf("%d accept point(s) all behind state == 'leased'", len(accepts)))
			}
		}
		// expiry: lease_until must reach a Before(now, until) comparison in fn
		usesBefore := false
		for _, b := range fn.Blocks {
			for _, ins := range b.Instrs {
				if call, ok := ins.(*ssa.Call); ok && calleeIs(call, "time", "Time", "Before") {
					usesBefore = true
				}
			}
		}
		_ = untilVar
		c.Check(usesBefore, rule, key+":expiry-test", s.Pos, "lease_until is compared with now via Before in the lookup function", "the lease lookup function never compares lease_until with now")
		// settle callbacks in this function must be behind a not-expired edge
		ne := notExpiredEdges(fn)
		for _, b := range fn.Blocks {
			for _, ins := range b.Instrs {
				ci, ok := ins.(ssa.CallInstruction)
				if !ok || !callInvokesParam(ci, fn) {
					continue
				}
				if _, isDefer := ins.(*ssa.Defer); isDefer {
					continue
				}
				okp, path := p.MustPass(fn, ins, ne)
				// per-id shape only: the callback receives the single looked-up id
				if hasSliceArg(ci) {
					continue
				}
				if okp && len(ne) > 0 {
					c.Ok(rule, key+":settle-callback-behind-not-expired", p.InstrPos(ins), "settle callback only reachable through Before(now, until)==true or a NULL expiry")
				} else {
					c.Fail(rule, key+":settle-callback-behind-not-expired", p.InstrPos(ins), "settle callback reachable without the not-expired test", path...)
				}
			}
		}
	}
	c.Floor(rule, "lease_lookups", nLookup, 3)

	// batch shape: flag `expired` set only on the expired edge, and ids handed to the settle callback only when the flag is false
	checkBatchExpiredFlag(c, rule)
}

func hasSliceArg(c ssa.CallInstruction) bool {
	for _, a := range c.Common().Args {
		if _, ok := a.Type().Underlying().(*types.Slice); ok {
			return true
		}
	}
	return false
}

// notExpiredEdges: Before(now, until)==true, or `<x>.Valid`==false (no expiry recorded).
func notExpiredEdges(fn *ssa.Function) []Edge {
	var out []Edge
	for _, b := range fn.Blocks {
		for i := range b.Succs {
			a, ok := edgeAtom(Edge{b, i})
			if !ok || !isBoolTrue(a.Y) {
				continue
			}
			if call, ok := a.X.(*ssa.Call); ok && calleeIs(call, "time", "Time", "Before") && a.Op == token.EQL {
				out = append(out, Edge{b, i})
			}
			if _, f, ok := fieldOfLoad(a.X); ok && f == "Valid" && a.Op == token.NEQ {
				out = append(out, Edge{b, i})
			}
		}
	}
	return out
}

func expiredBeforeEdges(fn *ssa.Function) []Edge {
	var out []Edge
	for _, b := range fn.Blocks {
		for i := range b.Succs {
			a, ok := edgeAtom(Edge{b, i})
			if !ok || !isBoolTrue(a.Y) || a.Op != token.NEQ {
				continue
			}
			if call, ok := a.X.(*ssa.Call); ok && calleeIs(call, "time", "Time", "Before") {
				out = append(out, Edge{b, i})
			}
		}
	}
	return out
}

// checkBatchExpiredFlag: bool struct fields that are set to true only behind an
// expired edge act as the "expired" flag; slices handed to a settle callback
// must only grow behind flag==false and a found lookup.
func checkBatchExpiredFlag(c *Ctx, rule string) {
	p := c.P
	type fkey struct{ typ, field string }
	flags := map[fkey]bool{}
	for _, fn := range p.FuncsInPkg("queue") {
		xe := expiredBeforeEdges(fn)
		for _, b := range fn.Blocks {
			for _, ins := range b.Instrs {
				st, ok := ins.(*ssa.Store)
				if !ok {
					continue
				}
				fa, ok := st.Addr.(*ssa.FieldAddr)
				if !ok {
					continue
				}
				cst, ok := st.Val.(*ssa.Const)
				if !ok || cst.Value == nil || cst.Value.String() != "true" {
					continue
				}
				tn, f, ok := fieldAddrName(fa)
				if !ok || !strings.EqualFold(f, "expired") || token.IsExported(tn) {
					continue // exported result types (LeaseBatchConflict) are outputs, not the gating flag
				}
				okp, path := p.MustPass(fn, st, xe)
				k := fkey{tn, f}
				key := fmt.Sprintf("%s.%s=true@%s", tn, f, FuncName(fn))
				if okp && len(xe) > 0 {
					if _, seen := flags[k]; !seen {
						flags[k] = true
					}
					c.Ok(rule, key+":set-only-when-expired", p.InstrPos(st), "flag set only behind Before(now, leaseUntil)==false")
				} else {
					flags[k] = false
					c.Fail(rule, key+":set-only-when-expired", p.InstrPos(st), "expired flag set without the Before(now, leaseUntil)==false test", path...)
				}
			}
		}
	}
	// callbacks with a slice argument: every append feeding it must be behind flag==false and a comma-ok hit
	n := 0
	for _, fn := range p.FuncsInPkg("queue") {
		if fn.Parent() == nil {
			fn = p.View(fn) // the list may be filled by helpers of the package
		}
		for _, b := range fn.Blocks {
			for _, ins := range b.Instrs {
				ci, ok := ins.(ssa.CallInstruction)
				if !ok || !callInvokesParam(ci, fn) || !hasSliceArg(ci) || len(p.InlinedFrom(ins)) > 0 {
					continue
				}
				var sl ssa.Value
				for _, a := range ci.Common().Args {
					if st, ok := a.Type().Underlying().(*types.Slice); ok {
						if bt, ok := st.Elem().Underlying().(*types.Basic); ok && bt.Kind() == types.String {
							sl = a
						}
					}
				}
				if sl == nil {
					continue
				}
				n++
				apps := appendSitesOf(sl, fn)
				var flagFalse, found []Edge
				for _, bb := range fn.Blocks {
					for i := range bb.Succs {
						a, ok := edgeAtom(Edge{bb, i})
						if !ok || !isBoolTrue(a.Y) {
							continue
						}
						if tn, f, ok := fieldOfLoad(a.X); ok && flags[fkey{tn, f}] && a.Op == token.NEQ {
							flagFalse = append(flagFalse, Edge{bb, i})
						}
						if ex, ok := a.X.(*ssa.Extract); ok && ex.Index == 1 && a.Op == token.EQL {
							if lk, ok := ex.Tuple.(*ssa.Lookup); ok && lk.CommaOk {
								if _, isStruct := lk.X.Type().Underlying().(*types.Map).Elem().Underlying().(*types.Struct); isStruct {
									found = append(found, Edge{bb, i})
								}
							}
						}
					}
				}
				key := FuncName(fn) + ":ids-for-settle-callback"
				if len(apps) == 0 {
					c.Fail(rule, key, p.InstrPos(ins), "cannot find the append sites of the id slice passed to the settle callback")
					continue
				}
				bad := false
				for _, ap := range apps {
					if okp, path := p.MustPass(fn, ap, flagFalse); !okp || len(flagFalse) == 0 {
						bad = true
						c.Fail(rule, key+":behind-not-expired", p.InstrPos(ap), "an id is added to the settle list without the expired-flag==false test", path...)
					}
					if okp, path := p.MustPass(fn, ap, found); !okp || len(found) == 0 {
						bad = true
						c.Fail(rule, key+":behind-lookup-hit", p.InstrPos(ap), "an id is added to the settle list without a lookup hit", path...)
					}
				}
				if !bad {
					c.Ok(rule, key, p.InstrPos(ins), fmt.Sprintf("%d append site(s), each behind the lookup hit and expired==false", len(apps)))
				}
			}
		}
	}
	c.Floor(rule, "batch_settle_callbacks", n, 1)
}

// appendSitesOf walks back from a slice value (through cells, phis, slices) to the append calls that grow it.
func appendSitesOf(v ssa.Value, fn *ssa.Function) []ssa.Instruction {
	var out []ssa.Instruction
	seen := map[ssa.Value]bool{}
	var rec func(v ssa.Value)
	rec = func(v ssa.Value) {
		if v == nil || seen[v] {
			return
		}
		seen[v] = true
		switch x := v.(type) {
		case *ssa.Call:
			if bi, ok := x.Call.Value.(*ssa.Builtin); ok && bi.Name() == "append" {
				out = append(out, x)
				rec(x.Call.Args[0])
			}
		case *ssa.Phi:
			for _, e := range x.Edges {
				rec(e)
			}
		case *ssa.Slice:
			rec(x.X)
		case *ssa.UnOp:
			if a, ok := x.X.(*ssa.Alloc); ok {
				for _, ref := range *a.Referrers() {
					if st, ok := ref.(*ssa.Store); ok && st.Addr == a {
						rec(st.Val)
					}
				}
			}
		}
	}
	rec(v)
	return out
}

// callInvokesParam: the call's callee is a function-typed parameter (or free variable) of fn.
func callInvokesParam(c ssa.CallInstruction, fn *ssa.Function) bool {
	com := c.Common()
	if com.IsInvoke() {
		return false
	}
	switch v := com.Value.(type) {
	case *ssa.Parameter:
		return true
	case *ssa.FreeVar:
		_ = v
		return true
	case *ssa.UnOp:
		if _, ok := v.X.(*ssa.FreeVar); ok {
			return true
		}
	}
	return false
}

func reachesQueueMutation(p *Program, f *ssa.Function) bool {
	if p.mutFns == nil {
		p.mutFns = map[*ssa.Function]bool{}
		for _, s := range p.SQL().Stmts {
			if s.IsMutation() && s.Table() == "queue_items" && s.Fn != nil {
				p.mutFns[s.Fn] = true
			}
		}
	}
	if !IsModuleFunc(f) {
		return false
	}
	for g := range p.Reach(f) {
		if p.mutFns[g] {
			return true
		}
	}
	return false
}

// scanDestVar: the variable object whose address is the i-th Scan destination.
func scanDestVar(p *Program, s *SQLStmt, i int) types.Object {
	if i >= len(s.Site.scan) {
		return nil
	}
	e := s.Site.scan[i]
	if u, ok := e.(*ast.UnaryExpr); ok && u.Op == token.AND {
		if id, ok := u.X.(*ast.Ident); ok {
			return p.SQL().ev.info.Uses[id]
		}
	}
	return nil
}

// loadsVar: v is a load of the local cell declared for variable obj in fn.
func loadsVar(v ssa.Value, obj types.Object, fn *ssa.Function) bool {
	if obj == nil {
		return false
	}
	for {
		switch x := v.(type) {
		case *ssa.ChangeType:
			v = x.X
			continue
		case *ssa.Convert:
			v = x.X
			continue
		}
		break
	}
	u, ok := v.(*ssa.UnOp)
	if !ok || u.Op != token.MUL {
		return false
	}
	a, ok := u.X.(*ssa.Alloc)
	if !ok {
		return false
	}
	return a.Comment == obj.Name() && a.Pos() == obj.Pos()
}

// exprIsLeaseParam: the expression derives (through TrimSpace/assignment) from a string
// parameter of the enclosing exported method or of the callback invoked with it.
func (p *Program) exprIsLeaseParam(ex ast.Expr, s *SQLStmt) (bool, string) {
	fd, pk := p.funcDecl(s.Decl)
	if fd == nil {
		return false, "no declaration"
	}
	info := pk.TypesInfo
	id, ok := ex.(*ast.Ident)
	if !ok {
		return false, "operand is not a variable: " + exprStr(ex)
	}
	v, _ := info.Uses[id].(*types.Var)
	if v == nil {
		return false, "unresolved variable"
	}
	// direct parameter of the method
	if pi, owner := paramIndex(info, fd, v); pi >= 0 {
		if owner == nil {
			return true, "lease_id = parameter " + v.Name() + " of " + fd.Name.Name
		}
		// parameter of the callback: the helper must pass its own (trimmed) lease id parameter
		return p.callbackParamIsParam(owner, pi, fd, pk)
	}
	return false, "variable " + v.Name() + " is not a parameter"
}

func (p *Program) callbackParamIsParam(fl *ast.FuncLit, pi int, fd *ast.FuncDecl, pk *packages.Package) (bool, string) {
	info := pk.TypesInfo
	var callee *types.Func
	argIdx := -1
	var outerArgs []ast.Expr
	ast.Inspect(fd, func(n ast.Node) bool {
		ce, ok := n.(*ast.CallExpr)
		if !ok {
			return true
		}
		for i, a := range ce.Args {
			if a == fl {
				if f, ok := ce.Fun.(*ast.SelectorExpr); ok {
					callee, _ = info.Uses[f.Sel].(*types.Func)
				}
				argIdx = i
				outerArgs = ce.Args
			}
		}
		return true
	})
	if callee == nil {
		return false, "callback not passed to a resolvable helper"
	}
	gfd, gpk := p.funcDecl(callee)
	if gfd == nil {
		return false, "helper has no body"
	}
	ginfo := gpk.TypesInfo
	var gparam *types.Var
	gparams := []*types.Var{}
	for _, f := range gfd.Type.Params.List {
		for _, n := range f.Names {
			pv, _ := ginfo.Defs[n].(*types.Var)
			gparams = append(gparams, pv)
		}
	}
	if argIdx < len(gparams) {
		gparam = gparams[argIdx]
	}
	ok := false
	why := "helper never invokes the callback"
	ast.Inspect(gfd.Body, func(nn ast.Node) bool {
		ce, isCall := nn.(*ast.CallExpr)
		if !isCall {
			return true
		}
		if id, isID := ce.Fun.(*ast.Ident); isID && ginfo.Uses[id] == gparam && pi < len(ce.Args) {
			if aid, isID := ce.Args[pi].(*ast.Ident); isID {
				av, _ := ginfo.Uses[aid].(*types.Var)
				for gi, gp := range gparams {
					if gp == av && gi < len(outerArgs) {
						// helper passes its own parameter gi; the method passes outerArgs[gi]
						if oid, isID := outerArgs[gi].(*ast.Ident); isID {
							if ov, _ := info.Uses[oid].(*types.Var); ov != nil {
								if opi, owner := paramIndex(info, fd, ov); opi >= 0 && owner == nil {
									ok = true
									why = fmt.Sprintf("lease_id = callback parameter fed by %s's parameter %s (the method's %s)", callee.Name(), gp.Name(), ov.Name())
								}
							}
						}
					}
				}
			}
		}
		return true
	})
	return ok, why
}

// ---- R2 ----

func checkMemoryFencing(c *Ctx, rule string) {
	p := c.P
	p.memoryTransitions()
	sf := p.memFlow
	n := 0
	done := map[ssa.Instruction]bool{}
	check := func(root string, fn *ssa.Function, ins ssa.Instruction, what string, from sset) {
		if done[ins] {
			return
		}
		done[ins] = true
		n++
		key := fmt.Sprintf("memory.%s:%s", root, what)
		pos := p.InstrPos(ins)
		var hit, match, live []Edge
		for _, b := range fn.Blocks {
			for i := range b.Succs {
				a, ok := edgeAtom(Edge{b, i})
				if !ok {
					continue
				}
				// lease-index hit
				if ex, ok := a.X.(*ssa.Extract); ok && ex.Index == 1 && isBoolTrue(a.Y) && a.Op == token.EQL {
					if lk, ok := ex.Tuple.(*ssa.Lookup); ok && lk.CommaOk && sf.isLeaseIndex(lk.X) {
						hit = append(hit, Edge{b, i})
					}
				}
				// LeaseID == presented
				if _, f, ok := fieldOfLoad(a.X); ok && f == "LeaseID" && a.Op == token.EQL {
					if _, isC := a.Y.(*ssa.Const); !isC {
						match = append(match, Edge{b, i})
					}
				}
				// not expired: Before(now, LeaseUntil)==true or LeaseUntil.IsZero()==true
				if call, ok := a.X.(*ssa.Call); ok && isBoolTrue(a.Y) && a.Op == token.EQL {
					if calleeIs(call, "time", "Time", "Before") && len(call.Call.Args) == 2 {
						if _, f, ok := fieldOfLoad(call.Call.Args[1]); ok && f == "LeaseUntil" {
							live = append(live, Edge{b, i})
						}
					}
					if calleeIs(call, "time", "Time", "IsZero") {
						if _, f, ok := fieldOfLoad(call.Call.Args[0]); ok && f == "LeaseUntil" {
							live = append(live, Edge{b, i})
						}
					}
				}
			}
		}
		type g struct {
			name  string
			edges []Edge
		}
		for _, gg := range []g{{"lease-index-hit", hit}, {"lease-id-matches", match}, {"not-expired", live}} {
			okp, path := p.MustPass(fn, ins, gg.edges)
			if okp && len(gg.edges) > 0 {
				c.Ok(rule, key+":"+gg.name, pos, "settle mutation only reachable through the "+gg.name+" edge")
			} else {
				c.Fail(rule, key+":"+gg.name, pos, "settle mutation reachable without the "+gg.name+" test", path...)
			}
		}
		c.Check(from == ssParse("leased"), rule, key+":state-leased", pos, "from-set {leased}", "settle mutation from-set is "+from.String())
	}
	// edges on which the lease has been found expired (the complement of a Before(now, LeaseUntil) test)
	expiredEdgesOf := func(fn *ssa.Function) EdgeSet {
		out := EdgeSet{}
		for _, b := range fn.Blocks {
			for i := range b.Succs {
				a, ok := edgeAtom(Edge{b, i})
				if !ok {
					continue
				}
				if call, ok := a.X.(*ssa.Call); ok && a.Op == token.NEQ && isBoolTrue(a.Y) || ok && a.Op == token.EQL && !isBoolTrue(a.Y) {
					if calleeIs(call, "time", "Time", "Before") && len(call.Call.Args) == 2 {
						if _, f, ok := fieldOfLoad(call.Call.Args[1]); ok && f == "LeaseUntil" {
							out.addAll([]Edge{{b, i}})
						}
					}
				}
			}
		}
		return out
	}
	for i := range sf.Events {
		e := &sf.Events[i]
		if !isLeaseOp(e.Root) || e.Kind == "lease-delete" {
			continue
		}
		what := e.Kind + "->" + strings.Trim(e.ToStr, "{}")
		if e.Fn.Name() == e.Root {
			// the expiry release inside a settle operation (reachable only on the expired edge) is not a settle
			// mutation; it is decided by C02.R4 / C04.R3
			var expEdges []Edge
			for k := range expiredEdgesOf(e.Fn) {
				expEdges = append(expEdges, k)
			}
			if onlyExpired, _ := p.MustPass(e.Fn, e.Instr, expEdges); onlyExpired && len(expEdges) > 0 {
				continue
			}
			check(e.Root, e.Fn, e.Instr, what, e.From)
			continue
		}
		// the transition sits in a helper: the call in the operation itself is the settle site, unless that call is only
		// reachable on the expired edge (the expiry release, decided by C02.R4 / C04.R3)
		var rootFn *ssa.Function
		for _, m := range p.MethodsOf("queue", "MemoryStore") {
			if m.Name() == e.Root {
				rootFn = m
			}
		}
		if rootFn == nil {
			continue
		}
		exp := expiredEdgesOf(rootFn)
		for _, ci := range allCalls(rootFn, nil) {
			g := ci.Common().StaticCallee()
			if g == nil || !IsModuleFunc(g) {
				continue
			}
			if g != e.Fn && !p.Reach(g)[e.Fn] {
				continue
			}
			// expiry release: every path to the call takes an expired edge
			var expEdges []Edge
			for k := range exp {
				expEdges = append(expEdges, k)
			}
			if onlyExpired, _ := p.MustPass(rootFn, ci, expEdges); onlyExpired && len(expEdges) > 0 {
				continue
			}
			from := e.From
			if from == ssTop {
				// the helper does not re-test the state: take the state established in the operation before the call
				var se []Edge
				for _, bb := range rootFn.Blocks {
					for i2 := range bb.Succs {
						a, ok := edgeAtom(Edge{bb, i2})
						if ok && a.Op == token.EQL {
							if _, ok := sf.stateLoad(a.X); ok {
								if cs, ok := constState(a.Y); ok && cs == ssParse("leased") {
									se = append(se, Edge{bb, i2})
								}
							}
						}
					}
				}
				if okp, _ := p.MustPass(rootFn, ci, se); okp && len(se) > 0 {
					from = ssParse("leased")
				}
			}
			check(e.Root, rootFn, ci, what+" via "+g.Name(), from)
		}
	}
	// Extend: the LeaseUntil store
	for _, fn := range p.MethodsOf("queue", "MemoryStore") {
		if fn.Name() != "Extend" {
			continue
		}
		fn := p.View(fn)
		var expEdges []Edge
		for k := range expiredEdgesOf(fn) {
			expEdges = append(expEdges, k)
		}
		for _, b := range fn.Blocks {
			for _, ins := range b.Instrs {
				st, ok := ins.(*ssa.Store)
				if !ok {
					continue
				}
				if fa, ok := st.Addr.(*ssa.FieldAddr); ok {
					if tn, f, _ := fieldAddrName(fa); tn == "Envelope" && f == "LeaseUntil" {
						if only, _ := p.MustPass(fn, st, expEdges); only && len(expEdges) > 0 {
							continue // part of the expiry release
						}
						from := ssTop
						// from-set of the pointer at this point is not recorded as an event; recompute via a State test edge
						var se []Edge
						for _, bb := range fn.Blocks {
							for i := range bb.Succs {
								a, ok := edgeAtom(Edge{bb, i})
								if ok && a.Op == token.EQL {
									if _, ok := sf.stateLoad(a.X); ok {
										if cs, ok := constState(a.Y); ok && cs == ssParse("leased") {
											se = append(se, Edge{bb, i})
										}
									}
								}
							}
						}
						if okp, _ := p.MustPass(fn, st, se); okp && len(se) > 0 {
							from = ssParse("leased")
						}
						check("Extend", fn, st, "extend-lease-until", from)
					}
				}
			}
		}
	}
	c.Floor(rule, "memory_settle_mutations", n, 9)
}

// ---- R4 ----

func checkConflictAPI(c *Ctx, rule string) {
	p := c.P
	isLeaseErr := func(name string) func(ssa.CallInstruction) bool {
		return func(ci ssa.CallInstruction) bool {
			if !calleeIs(ci, "errors", "", "Is") || len(ci.Common().Args) != 2 {
				return false
			}
			u, ok := ci.Common().Args[1].(*ssa.UnOp)
			if !ok {
				return false
			}
			g, ok := u.X.(*ssa.Global)
			return ok && g.Name() == name && g.Pkg.Pkg.Path() == queuePath
		}
	}
	for _, fn := range pullSingleOps(p) {
		name := FuncName(fn)
		fn := p.View(fn) // error constructors of the package are part of the operation
		var conflict []Edge
		for _, en := range []string{"ErrLeaseNotFound", "ErrLeaseExpired"} {
			ok, _, _ := GuardEdges(fn, allCalls(fn, isLeaseErr(en)), BoolTrue)
			conflict = append(conflict, ok...)
		}
		if len(conflict) == 0 {
			c.Fail(rule, name+":conflict-classified", p.Pos(fn.Pos()), "operation never tests for ErrLeaseNotFound/ErrLeaseExpired")
			continue
		}
		// every return reachable from a conflict edge returns status 409 … unless it first passes another classification
		bad := false
		n409 := 0
		for _, r := range returnsOf(fn) {
			if len(r.Results) != 1 || isNilConst(r.Results[0]) {
				if okn, path := p.NoPathFrom(conflict, r, nil); !okn {
					bad = true
					c.Fail(rule, name+":conflict=>409", p.InstrPos(r), "a success return is reachable after the store reported a lease conflict", path...)
				}
				continue
			}
			st, ok := opErrorStatus(r.Results[0])
			if !ok {
				c.Undecided(rule, name+":conflict=>409", p.InstrPos(r), "cannot read StatusCode of returned OpError")
				bad = true
				continue
			}
			if okp, _ := p.MustPassBlock(fn, r.Block(), conflict); okp {
				if st != 409 {
					bad = true
					c.Fail(rule, name+":conflict=>409", p.InstrPos(r), fmt.Sprintf("lease conflict answered with status %d instead of 409", st))
				} else {
					n409++
				}
			}
		}
		if !bad && n409 > 0 {
			c.Ok(rule, name+":conflict=>409", p.Pos(fn.Pos()), fmt.Sprintf("%d conflict return(s), each with StatusCode 409; no success return after a conflict", n409))
		} else if !bad {
			c.Fail(rule, name+":conflict=>409", p.Pos(fn.Pos()), "no 409 return found behind the conflict classification")
		}
	}
	// idempotency cache writer: Server methods that update a map field of Server and are called from lease ops
	writers := map[*ssa.Function]bool{}
	for _, f := range p.MethodsOf("pullapi", "Server") {
		for _, b := range f.Blocks {
			for _, ins := range b.Instrs {
				if mu, ok := ins.(*ssa.MapUpdate); ok {
					if tn, _, ok := fieldOfLoad(mu.Map); ok && tn == "Server" {
						writers[f] = true
					}
				}
			}
		}
	}
	c.Count(rule+".cache_writer_methods", len(writers))
	nW := 0
	for _, fn := range p.MethodsOf("pullapi", "Server") {
		storeCalls := allCalls(fn, func(ci ssa.CallInstruction) bool {
			com := ci.Common()
			return com.IsInvoke() && namedPkgPath(com.Value.Type()) == queuePath && (storeLeaseMethods[com.Method.Name()] || strings.HasSuffix(com.Method.Name(), "Batch"))
		})
		if len(storeCalls) == 0 {
			continue
		}
		ok, _, _ := GuardEdges(fn, storeCalls, ErrNil)
		isExtend := false
		for _, sc := range storeCalls {
			if sc.Common().Method.Name() == "Extend" {
				isExtend = true
			}
		}
		wcalls := allCalls(fn, func(ci ssa.CallInstruction) bool {
			f := ci.Common().StaticCallee()
			return f != nil && writers[f]
		})
		hits := cacheHitCalls(p, fn)
		if isExtend {
			c.Check(len(wcalls) == 0 && len(hits) == 0, rule, FuncName(fn)+":extend-bypasses-idempotency-cache", p.Pos(fn.Pos()), "Extend neither consults nor writes the recent-operation cache", "Extend touches the recent-operation cache (a stale extend could be answered as success)")
			continue
		}
		for _, w := range wcalls {
			nW++
			okp, path := p.MustPass(fn, w, ok)
			if okp {
				c.Ok(rule, fmt.Sprintf("%s:cache-write-after-store-ok#%d", FuncName(fn), nW), p.InstrPos(w), "recent-operation cache written only behind the Store call's err==nil edge")
			} else {
				c.Fail(rule, fmt.Sprintf("%s:cache-write-after-store-ok#%d", FuncName(fn), nW), p.InstrPos(w), "recent-operation cache written without a Store success", path...)
			}
		}
	}
	c.Floor(rule, "cache_write_sites", nW, 6)
	// workerapi: 409 => FailedPrecondition
	nMap := 0
	for _, fn := range p.FuncsInPkg("workerapi") {
		if fn.Signature.Params().Len() != 1 || namedName(fn.Signature.Params().At(0).Type()) != "OpError" {
			continue
		}
		nMap++
		var e409 []Edge
		for _, b := range fn.Blocks {
			for i := range b.Succs {
				a, ok := edgeAtom(Edge{b, i})
				if ok && a.Op == token.EQL && isIntConst(a.Y, 409) {
					if _, f, ok := fieldOfLoad(a.X); ok && f == "StatusCode" {
						e409 = append(e409, Edge{b, i})
					}
				}
			}
		}
		found := false
		for _, call := range allCalls(fn, func(ci ssa.CallInstruction) bool {
			return calleeIs(ci, "google.golang.org/grpc/status", "", "Error") || calleeIs(ci, "google.golang.org/grpc/status", "", "Errorf")
		}) {
			if okp, _ := p.MustPass(fn, call, e409); okp && len(e409) > 0 {
				code, _ := intConst(call.Common().Args[0])
				if code == 9 { // codes.FailedPrecondition
					found = true
				} else {
					c.Fail(rule, FuncName(fn)+":409=>FailedPrecondition", p.InstrPos(call), fmt.Sprintf("status 409 mapped to gRPC code %d, not FailedPrecondition(9)", code))
				}
			}
		}
		c.Check(found, rule, FuncName(fn)+":409=>FailedPrecondition", p.Pos(fn.Pos()), "StatusCode 409 maps to codes.FailedPrecondition", "no FailedPrecondition mapping found behind StatusCode == 409")
	}
	c.Floor(rule, "worker_error_mappers", nMap, 1)
}

// opErrorStatus: constant stored into the StatusCode field of a freshly allocated OpError.
func opErrorStatus(v ssa.Value) (int64, bool) {
	a, ok := v.(*ssa.Alloc)
	if !ok {
		return 0, false
	}
	for _, ref := range *a.Referrers() {
		fa, ok := ref.(*ssa.FieldAddr)
		if !ok {
			continue
		}
		if _, f, _ := fieldAddrName(fa); f != "StatusCode" {
			continue
		}
		for _, r2 := range *fa.Referrers() {
			if st, ok := r2.(*ssa.Store); ok {
				if n, ok := intConst(st.Val); ok {
					return n, true
				}
			}
		}
	}
	return 0, false
}

func reachableFromStoreRoots(p *Program, f *ssa.Function) bool {
	if p.rootReach == nil {
		p.rootReach = map[*ssa.Function]bool{}
		for _, tn := range []string{"MemoryStore", "SQLiteStore", "PostgresStore"} {
			for _, m := range p.MethodsOf("queue", tn) {
				if token.IsExported(m.Name()) {
					for g := range p.Reach(m) {
						p.rootReach[g] = true
					}
				}
			}
		}
	}
	return p.rootReach[f]
}
