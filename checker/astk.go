package main

// AST-level def-use helpers used for expressions bound to SQL placeholders.

import (
	"go/ast"
	"go/constant"
	"go/token"
	"go/types"
	"math"
	"strings"

	"golang.org/x/tools/go/packages"
)

func (p *Program) funcDecl(obj *types.Func) (*ast.FuncDecl, *packages.Package) {
	p.ensureDecls()
	if obj == nil || obj.Pkg() == nil {
		return nil, nil
	}
	pk := p.ByPath[obj.Pkg().Path()]
	if pk == nil {
		return nil, nil
	}
	return p.declCache[obj], pk
}

func (p *Program) ensureDecls() {
	if p.declCache == nil {
		p.declCache = map[*types.Func]*ast.FuncDecl{}
		for _, pkg := range p.Pkgs {
			for _, f := range pkg.Syntax {
				for _, d := range f.Decls {
					if fd, ok := d.(*ast.FuncDecl); ok {
						if o, ok := pkg.TypesInfo.Defs[fd.Name].(*types.Func); ok {
							p.declCache[o] = fd
						}
					}
				}
			}
		}
	}
}

// rhsOf collects the expressions assigned to variable v inside node (AssignStmt, ValueSpec).
func rhsOf(info *types.Info, node ast.Node, v *types.Var) []ast.Expr {
	var out []ast.Expr
	ast.Inspect(node, func(n ast.Node) bool {
		switch s := n.(type) {
		case *ast.AssignStmt:
			if len(s.Lhs) == len(s.Rhs) {
				for i, l := range s.Lhs {
					if id, ok := l.(*ast.Ident); ok {
						if info.Defs[id] == v || info.Uses[id] == v {
							out = append(out, s.Rhs[i])
						}
					}
				}
			} else if len(s.Rhs) == 1 {
				for _, l := range s.Lhs {
					if id, ok := l.(*ast.Ident); ok && (info.Defs[id] == v || info.Uses[id] == v) {
						out = append(out, s.Rhs[0])
					}
				}
			}
		case *ast.ValueSpec:
			for i, n := range s.Names {
				if info.Defs[n] == v && i < len(s.Values) {
					out = append(out, s.Values[i])
				}
			}
		}
		return true
	})
	return out
}

// ClockKind classifies a time-valued (or UnixNano) expression:
//   "now"      – the operation's current instant: request field Now, a zero-argument clock method/func, time.Now()
//   "now+d"    – now.Add(<duration>) (d described in second result)
//   "other:…"  – anything else
// Variables are followed through their assignments in the enclosing declaration and,
// for parameters, through every call site in the package.
func (p *Program) ClockKind(ex ast.Expr, decl *types.Func) (string, string) {
	fd, pk := p.funcDecl(decl)
	if fd == nil {
		return "other:no-decl", ""
	}
	// an operand that lives in another function of the package (an argument list built by a helper): analyse it there
	if ex != nil && (ex.Pos() < fd.Pos() || ex.Pos() > fd.End()) {
		for _, f := range pk.Syntax {
			for _, d := range f.Decls {
				if ofd, ok := d.(*ast.FuncDecl); ok && ofd.Body != nil && ofd.Pos() <= ex.Pos() && ex.Pos() <= ofd.End() {
					fd = ofd
				}
			}
		}
	}
	return p.clockKindRec(ex, fd, pk, 0)
}

func (p *Program) clockKindRec(ex ast.Expr, fd *ast.FuncDecl, pk *packages.Package, depth int) (string, string) {
	if p.clockVisiting == nil {
		p.clockVisiting = map[*types.Var]bool{}
	}
	info := pk.TypesInfo
	if depth > 8 {
		return "other:depth", ""
	}
	switch x := ex.(type) {
	case *ast.ParenExpr:
		return p.clockKindRec(x.X, fd, pk, depth+1)
	case *ast.CallExpr:
		if sel, ok := x.Fun.(*ast.SelectorExpr); ok {
			name := sel.Sel.Name
			// time.Time methods that do not change the instant
			if tv, ok := info.Types[sel.X]; ok && isTimeTime(tv.Type) {
				switch name {
				case "UnixNano", "UTC", "Unix", "UnixMilli", "Round", "Truncate", "In", "Local":
					return p.clockKindRec(sel.X, fd, pk, depth+1)
				case "Add":
					k, _ := p.clockKindRec(sel.X, fd, pk, depth+1)
					if k == "now" && len(x.Args) == 1 {
						return "now+d", types.ExprString(x.Args[0])
					}
					return "other:add-on-" + k, ""
				}
			}
			// time.Now()
			if id, ok := sel.X.(*ast.Ident); ok {
				if pn, ok := info.Uses[id].(*types.PkgName); ok && pn.Imported().Path() == "time" && name == "Now" {
					return "now", ""
				}
			}
			// zero-argument clock accessor returning time.Time (s.now(), s.nowFn())
			if len(x.Args) == 0 {
				if tv, ok := info.Types[x]; ok && isTimeTime(tv.Type) {
					return "now", ""
				}
			}
		}
		if id, ok := x.Fun.(*ast.Ident); ok && len(x.Args) == 0 {
			_ = id
			if tv, ok := info.Types[x]; ok && isTimeTime(tv.Type) {
				return "now", ""
			}
		}
	case *ast.SelectorExpr:
		// request field Now
		if x.Sel.Name == "Now" {
			if tv, ok := info.Types[x]; ok && isTimeTime(tv.Type) {
				return "now", ""
			}
		}
		return "other:field " + types.ExprString(x), ""
	case *ast.Ident:
		v, _ := info.Uses[x].(*types.Var)
		if v == nil {
			v, _ = info.Defs[x].(*types.Var)
		}
		if v == nil {
			return "other:ident", ""
		}
		// parameter of fd (or of an enclosing function literal)?
		if pi, owner := paramIndex(info, fd, v); pi >= 0 {
			if owner != nil {
				// parameter of a function literal: follow to where the literal is invoked (callback parameter)
				return p.callbackParamKind(owner, pi, fd, pk, depth)
			}
			// follow all call sites of fd in the package
			obj, _ := info.Defs[fd.Name].(*types.Func)
			kinds := map[string]string{}
			n := 0
			for _, f := range pk.Syntax {
				for _, d := range f.Decls {
					cfd, ok := d.(*ast.FuncDecl)
					if !ok || cfd.Body == nil {
						continue
					}
					ast.Inspect(cfd.Body, func(nn ast.Node) bool {
						ce, ok := nn.(*ast.CallExpr)
						if !ok {
							return true
						}
						var callee *types.Func
						switch f := ce.Fun.(type) {
						case *ast.SelectorExpr:
							callee, _ = info.Uses[f.Sel].(*types.Func)
						case *ast.Ident:
							callee, _ = info.Uses[f].(*types.Func)
						}
						if callee != obj || pi >= len(ce.Args) {
							return true
						}
						n++
						k, d := p.clockKindRec(ce.Args[pi], cfd, pk, depth+1)
						kinds[k] = d
						return true
					})
				}
			}
			if n == 0 {
				return "other:param-without-callers", ""
			}
			if len(kinds) == 1 {
				for k, d := range kinds {
					return k, d
				}
			}
			var ks []string
			for k := range kinds {
				ks = append(ks, k)
			}
			return "other:mixed(" + strings.Join(ks, ",") + ")", ""
		}
		if p.clockVisiting[v] {
			return "self", "" // v = f(v): contributes nothing new
		}
		rhs := rhsOf(info, fd, v)
		if len(rhs) == 0 {
			return "other:unassigned " + v.Name(), ""
		}
		p.clockVisiting[v] = true
		kinds := map[string]string{}
		for _, r := range rhs {
			if isSaturatingClamp(info, fd, v, r) {
				continue // v = min(v, largest representable instant): the identity on every representable value
			}
			k, d := p.clockKindRec(r, fd, pk, depth+1)
			if k == "self" {
				continue
			}
			kinds[k] = d
		}
		delete(p.clockVisiting, v)
		if len(kinds) == 1 {
			for k, d := range kinds {
				return k, d
			}
		}
		var ks []string
		for k := range kinds {
			ks = append(ks, k)
		}
		return "other:mixed(" + strings.Join(ks, ",") + ")", ""
	}
	return "other:" + types.ExprString(ex), ""
}

func isTimeTime(t types.Type) bool {
	n, ok := t.(*types.Named)
	return ok && n.Obj().Pkg() != nil && n.Obj().Pkg().Path() == "time" && n.Obj().Name() == "Time"
}

// paramIndex: index of v among the parameters of fd, or of a function literal
// inside fd (then owner is that literal).
func paramIndex(info *types.Info, fd *ast.FuncDecl, v *types.Var) (int, *ast.FuncLit) {
	i := 0
	for _, f := range fd.Type.Params.List {
		for _, n := range f.Names {
			if info.Defs[n] == v {
				return i, nil
			}
			i++
		}
	}
	idx := -1
	var owner *ast.FuncLit
	ast.Inspect(fd, func(n ast.Node) bool {
		fl, ok := n.(*ast.FuncLit)
		if !ok {
			return true
		}
		j := 0
		for _, f := range fl.Type.Params.List {
			for _, nm := range f.Names {
				if info.Defs[nm] == v {
					idx, owner = j, fl
				}
				j++
			}
		}
		return true
	})
	return idx, owner
}

// callbackParamKind: fl is passed as an argument to a function G of the package;
// parameter pi of fl receives what G passes when it calls its function parameter.
func (p *Program) callbackParamKind(fl *ast.FuncLit, pi int, fd *ast.FuncDecl, pk *packages.Package, depth int) (string, string) {
	info := pk.TypesInfo
	// find the call that receives fl as an argument
	var callee *types.Func
	argIdx := -1
	ast.Inspect(fd, func(n ast.Node) bool {
		ce, ok := n.(*ast.CallExpr)
		if !ok {
			return true
		}
		for i, a := range ce.Args {
			if a == fl {
				switch f := ce.Fun.(type) {
				case *ast.SelectorExpr:
					callee, _ = info.Uses[f.Sel].(*types.Func)
				case *ast.Ident:
					callee, _ = info.Uses[f].(*types.Func)
				}
				argIdx = i
			}
		}
		return true
	})
	if callee == nil {
		return "other:callback-not-passed", ""
	}
	gfd, gpk := p.funcDecl(callee)
	if gfd == nil || gfd.Body == nil {
		return "other:callback-callee-external", ""
	}
	// the parameter object of G at argIdx
	var gparam *types.Var
	i := 0
	for _, f := range gfd.Type.Params.List {
		for _, n := range f.Names {
			if i == argIdx {
				gparam, _ = gpk.TypesInfo.Defs[n].(*types.Var)
			}
			i++
		}
	}
	if gparam == nil {
		return "other:callback-param", ""
	}
	kinds := map[string]string{}
	n := 0
	ast.Inspect(gfd.Body, func(nn ast.Node) bool {
		ce, ok := nn.(*ast.CallExpr)
		if !ok {
			return true
		}
		if id, ok := ce.Fun.(*ast.Ident); ok && gpk.TypesInfo.Uses[id] == gparam && pi < len(ce.Args) {
			n++
			k, d := p.clockKindRec(ce.Args[pi], gfd, gpk, depth+1)
			kinds[k] = d
		}
		return true
	})
	if n == 0 {
		// G may forward the callback to another helper: give up
		return "other:callback-not-invoked", ""
	}
	if len(kinds) == 1 {
		for k, d := range kinds {
			return k, d
		}
	}
	return "other:mixed-callback", ""
}

var _ = token.NoPos

func exprStr(e ast.Expr) string { return types.ExprString(e) }

// isSaturatingClamp: r is the right-hand side of "v = r" that is the only statement of
// an if whose condition is v.After(r) (or r.Before(v)), and r denotes the largest instant
// representable as Unix nanoseconds, time.Unix(0, math.MaxInt64). Such an assignment
// computes min(v, MAX) and leaves every representable v unchanged.
func isSaturatingClamp(info *types.Info, fd *ast.FuncDecl, v *types.Var, r ast.Expr) bool {
	isV := func(e ast.Expr) bool {
		id, ok := ast.Unparen(e).(*ast.Ident)
		return ok && (info.Uses[id] == v || info.Defs[id] == v)
	}
	same := func(a, b ast.Expr) bool {
		a, b = ast.Unparen(a), ast.Unparen(b)
		ia, oka := a.(*ast.Ident)
		ib, okb := b.(*ast.Ident)
		if oka && okb {
			oa, ob := info.Uses[ia], info.Uses[ib]
			return oa != nil && oa == ob
		}
		return !oka && !okb && types.ExprString(a) == types.ExprString(b) && isMaxInstant(info, fd, a, 0)
	}
	found := false
	ast.Inspect(fd, func(n ast.Node) bool {
		ifs, ok := n.(*ast.IfStmt)
		if !ok || found {
			return !found
		}
		if ifs.Else != nil || len(ifs.Body.List) != 1 {
			return true
		}
		as, ok := ifs.Body.List[0].(*ast.AssignStmt)
		if !ok || as.Tok != token.ASSIGN || len(as.Lhs) != 1 || len(as.Rhs) != 1 || as.Rhs[0] != r || !isV(as.Lhs[0]) {
			return true
		}
		ce, ok := ast.Unparen(ifs.Cond).(*ast.CallExpr)
		if !ok || len(ce.Args) != 1 {
			return true
		}
		sel, ok := ce.Fun.(*ast.SelectorExpr)
		if !ok {
			return true
		}
		if tv, ok := info.Types[sel.X]; !ok || !isTimeTime(tv.Type) {
			return true
		}
		switch sel.Sel.Name {
		case "After":
			if isV(sel.X) && same(ce.Args[0], r) && isMaxInstant(info, fd, r, 0) {
				found = true
			}
		case "Before":
			if isV(ce.Args[0]) && same(sel.X, r) && isMaxInstant(info, fd, r, 0) {
				found = true
			}
		}
		return !found
	})
	return found
}

// isMaxInstant: e denotes time.Unix(0, math.MaxInt64), possibly through .UTC()/.In()/.Local()
// and through a variable assigned exactly once.
func isMaxInstant(info *types.Info, fd *ast.FuncDecl, e ast.Expr, depth int) bool {
	if depth > 4 {
		return false
	}
	switch x := ast.Unparen(e).(type) {
	case *ast.Ident:
		v, _ := info.Uses[x].(*types.Var)
		if v == nil {
			return false
		}
		rhs := rhsOf(info, fd, v)
		return len(rhs) == 1 && isMaxInstant(info, fd, rhs[0], depth+1)
	case *ast.CallExpr:
		sel, ok := x.Fun.(*ast.SelectorExpr)
		if !ok {
			return false
		}
		if tv, ok := info.Types[sel.X]; ok && isTimeTime(tv.Type) {
			switch sel.Sel.Name {
			case "UTC", "Local", "In":
				return isMaxInstant(info, fd, sel.X, depth+1)
			}
			return false
		}
		if f, ok := info.Uses[sel.Sel].(*types.Func); ok && f.Pkg() != nil && f.Pkg().Path() == "time" && f.Name() == "Unix" && len(x.Args) == 2 {
			a, b := info.Types[x.Args[0]], info.Types[x.Args[1]]
			if a.Value == nil || b.Value == nil {
				return false
			}
			sec, ok1 := constant.Int64Val(constant.ToInt(a.Value))
			ns, ok2 := constant.Int64Val(constant.ToInt(b.Value))
			return ok1 && ok2 && sec == 0 && ns == math.MaxInt64
		}
	}
	return false
}

// declContaining: the declared function of package pkg whose source range contains pos.
func (p *Program) declContaining(pkg string, pos token.Pos) *types.Func {
	pk := p.Pkg(pkg)
	if pk == nil {
		return nil
	}
	for _, f := range pk.Syntax {
		if pos < f.Pos() || pos > f.End() {
			continue
		}
		for _, d := range f.Decls {
			if fd, ok := d.(*ast.FuncDecl); ok && fd.Body != nil && fd.Pos() <= pos && pos <= fd.End() {
				obj, _ := pk.TypesInfo.Defs[fd.Name].(*types.Func)
				return obj
			}
		}
	}
	return nil
}
