package main

import (
	"fmt"
	"sort"
	"strings"

	"golang.org/x/tools/go/ssa"
)

// C18.R9 — the apply step never reads a field it has already replaced.
//
// The reload swaps the running configuration field by field inside one critical section. Whatever the step derives
// ("keep the limiter if the limit did not change", "carry the replay state of the same route") has to be computed
// from the state as it was before the reload. A read of a runtimeState field after that field was overwritten with
// the new configuration sees the new value: an old-versus-new comparison silently becomes new-versus-new and the
// old object is kept although the configuration changed.

func checkNoReadAfterReplace(c *Ctx, rule string) {
	p := c.P
	mutex := p.mutexField("app", "runtimeState")
	// the state-writing methods called from reload entries
	var roots []*ssa.Function
	for _, e := range reloadEntries(p) {
		for _, ci := range allCalls(e, nil) {
			g := ci.Common().StaticCallee()
			if g != nil && g.Signature.Recv() != nil && namedName(g.Signature.Recv().Type()) == "runtimeState" && len(runtimeStateStoresDeep(p, g)) > 0 {
				roots = append(roots, g)
			}
		}
	}
	if len(roots) == 0 {
		c.Undecided(rule, "app:apply step", "", "no runtimeState method that writes the state is called from a reload entry")
		return
	}
	type access struct {
		field string
		ins   ssa.Instruction
		fn    *ssa.Function
	}
	reaches := func(a, b ssa.Instruction) bool {
		if a.Block() == b.Block() {
			return instrIndex(a) < instrIndex(b)
		}
		_, ok := reach(a.Block().Succs, nil, nil)[b.Block()]
		return ok
	}
	var bad []string
	nReads := 0
	var walk func(fn *ssa.Function, written map[string]string, depth int, seen map[*ssa.Function]bool)
	walk = func(fn *ssa.Function, written map[string]string, depth int, seen map[*ssa.Function]bool) {
		if depth > 6 || seen[fn] {
			return
		}
		seen[fn] = true
		defer delete(seen, fn)
		var stores, loads []access
		for _, b := range fn.Blocks {
			for _, ins := range b.Instrs {
				switch x := ins.(type) {
				case *ssa.Store:
					if fa, ok := x.Addr.(*ssa.FieldAddr); ok {
						if tn, f, _ := fieldAddrName(fa); tn == "runtimeState" && f != mutex {
							stores = append(stores, access{f, x, fn})
						}
					}
				case *ssa.UnOp:
					if fa, ok := x.X.(*ssa.FieldAddr); ok {
						if tn, f, _ := fieldAddrName(fa); tn == "runtimeState" && f != mutex {
							loads = append(loads, access{f, x, fn})
						}
					}
				}
			}
		}
		for _, ld := range loads {
			nReads++
			if at, ok := written[ld.field]; ok {
				bad = append(bad, fmt.Sprintf("%s read in %s at %s after it was replaced at %s", ld.field, fn.Name(), p.InstrPos(ld.ins), at))
				continue
			}
			for _, st := range stores {
				if st.field == ld.field && reaches(st.ins, ld.ins) {
					bad = append(bad, fmt.Sprintf("%s read in %s at %s after it was replaced at %s", ld.field, fn.Name(), p.InstrPos(ld.ins), p.InstrPos(st.ins)))
				}
			}
		}
		for _, ci := range allCalls(fn, nil) {
			g := ci.Common().StaticCallee()
			if g == nil || g.Signature.Recv() == nil || namedName(g.Signature.Recv().Type()) != "runtimeState" || len(g.Blocks) == 0 {
				continue
			}
			w2 := map[string]string{}
			for k, v := range written {
				w2[k] = v
			}
			for _, st := range stores {
				if reaches(st.ins, ci) {
					w2[st.field] = p.InstrPos(st.ins)
				}
			}
			walk(g, w2, depth+1, seen)
		}
	}
	for _, r := range roots {
		walk(r, map[string]string{}, 0, map[*ssa.Function]bool{})
	}
	bad = dedupe(bad)
	sort.Strings(bad)
	c.Count("runtimeState field reads inside the apply step", nReads)
	c.Check(len(bad) == 0, rule, "app:apply step reads only state it has not yet replaced", p.Pos(roots[0].Pos()),
		fmt.Sprintf("%d field reads, none after a store to the same field", nReads),
		"the apply step reads a field it has already overwritten with the new configuration — "+strings.Join(bad, "; ")+" — so what is meant to be the previous value is the new one (an old-vs-new comparison becomes new-vs-new and the old object is kept although the configuration changed)")
	c.Floor(rule, "field reads in the apply step", nReads, 2)
}

func runtimeStateStoresDeep(p *Program, fn *ssa.Function) []*ssa.Store {
	var out []*ssa.Store
	for g := range p.Reach(fn) {
		out = append(out, runtimeStateStores(g)...)
	}
	return out
}
