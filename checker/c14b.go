package main

import (
	"fmt"
	"go/token"

	"golang.org/x/tools/go/ssa"
)

// C14.R6 — a criterion the caller named stays a criterion.
//
// In the by-filter requests an empty route/target/state means "no criterion". The admin parsers of optional
// criteria (`func(raw string) (string, bool)`) decide emptiness on the trimmed input and hand the value on. If
// what they return is not the value whose emptiness they tested — a further trim, clean or cut — a named
// criterion such as the root route "/" can come out empty and the mutation applies to every route. Rule: on
// every accepting path that has established "value != \"\"", the value returned is that same value (or a
// constant / a value itself tested non-empty on the path).

func checkOptionalCriterionParsers(c *Ctx, rule string) {
	p := c.P
	n := 0
	for _, fn := range p.FuncsInPkg("admin") {
		ps, rs := fn.Signature.Params(), fn.Signature.Results()
		if fn.Signature.Recv() != nil || fn.Parent() != nil || ps.Len() != 1 || rs.Len() != 2 || !isStringT(ps.At(0).Type()) || !isStringT(rs.At(0).Type()) || rs.At(1).Type().String() != "bool" {
			continue
		}
		// an optional-criterion parser accepts the empty input: some path returns ("", true)
		acceptsEmpty := false
		paths := enumeratePaths(fn.Blocks[0], 500)
		for _, pa := range paths {
			v0, v1 := resolveOnPath(pa.Ret.Results[0], pa), resolveOnPath(pa.Ret.Results[1], pa)
			if c0, ok := v0.(*ssa.Const); ok && c0.Value != nil && c0.Value.ExactString() == `""` {
				if c1, ok := v1.(*ssa.Const); ok && c1.Value != nil && c1.Value.String() == "true" {
					acceptsEmpty = true
				}
			}
		}
		if !acceptsEmpty {
			continue
		}
		n++
		k := 0
		for _, pa := range paths {
			v1 := resolveOnPath(pa.Ret.Results[1], pa)
			if c1, ok := v1.(*ssa.Const); !ok || c1.Value == nil || c1.Value.String() != "true" {
				continue
			}
			v0 := resolveOnPath(pa.Ret.Results[0], pa)
			if _, isConst := v0.(*ssa.Const); isConst {
				continue
			}
			k++
			// values established non-empty on this path
			testedNonEmpty := false
			var tested []string
			for _, pc := range pathConds(pa) {
				bo, ok := pc.Cond.(*ssa.BinOp)
				if !ok || (bo.Op != token.EQL && bo.Op != token.NEQ) {
					continue
				}
				cst, ok := bo.Y.(*ssa.Const)
				if !ok || cst.Value == nil {
					continue
				}
				isEmptyConst := cst.Value.ExactString() == `""`
				// value != ""   or   value == <non-empty constant>
				nonEmpty := (isEmptyConst && (bo.Op == token.NEQ) == pc.Val) || (!isEmptyConst && isStringT(cst.Type()) && (bo.Op == token.EQL) == pc.Val)
				if !nonEmpty {
					continue
				}
				x := resolveOnPath(bo.X, pa)
				tested = append(tested, termOf(x, termEnv{fn: fn}))
				if x == v0 || sameOriginLoad(x, v0) || termOf(x, termEnv{fn: fn}) == termOf(v0, termEnv{fn: fn}) {
					testedNonEmpty = true
				}
			}
			c.Check(testedNonEmpty, rule, fmt.Sprintf("%s:accepted value #%d is the value tested non-empty", FuncName(fn), k), p.InstrPos(pa.Ret),
				"returns the value whose non-emptiness it established",
				fmt.Sprintf("the parser returns %s but established non-emptiness only for %v: a criterion the caller named (e.g. the root route \"/\") can be returned as \"\", which the by-filter operations read as \"no criterion\" — the mutation then touches every route", termOf(v0, termEnv{fn: fn}), tested))
		}
	}
	c.Floor(rule, "optional-criterion parsers", n, 1)
}
