package main

import (
	"fmt"
	"go/token"
	"go/types"
	"strings"

	"golang.org/x/tools/go/ssa"
)

func init() { register("C09", checkC09) }

// reloadEntries: functions of package app that read the config file, parse and compile it and
// can reach a store to runtimeState (role: reloadConfig).
func reloadEntries(p *Program) []*ssa.Function {
	if p.reloadEnt != nil {
		return p.reloadEnt
	}
	var out []*ssa.Function
	// helpers of the package are part of the entry (reading and compiling the file may sit in one), except functions
	// that take the runtime state themselves: those are steps the rules name
	takesStateFn := func(f *ssa.Function) bool {
		for _, prm := range f.Params {
			if namedName(prm.Type()) == "runtimeState" {
				return true
			}
		}
		return false
	}
	for _, orig := range p.FuncsInPkg("app") {
		if orig.Parent() != nil || !takesStateFn(orig) {
			continue
		}
		fn := p.ViewKeeping(orig, func(f *ssa.Function) bool {
			if takesStateFn(f) {
				return true
			}
			// the restart-required predicate (old, new compiled configuration) is a step of its own, too
			ps, rs := f.Signature.Params(), f.Signature.Results()
			return ps.Len() == 2 && namedName(ps.At(0).Type()) == "Compiled" && namedName(ps.At(1).Type()) == "Compiled" && rs.Len() == 1 && types.Identical(rs.At(0).Type(), types.Typ[types.Bool])
		})
		hasParse := len(allCalls(fn, func(ci ssa.CallInstruction) bool { return calleeIs(ci, modPath+"/internal/config", "", "Parse") })) > 0
		hasCompile := len(allCalls(fn, func(ci ssa.CallInstruction) bool { return calleeIs(ci, modPath+"/internal/config", "", "Compile") })) > 0
		hasRead := len(allCalls(fn, func(ci ssa.CallInstruction) bool { return calleeIs(ci, "os", "", "ReadFile") })) > 0
		takesState := false
		for _, prm := range fn.Params {
			if namedName(prm.Type()) == "runtimeState" {
				takesState = true
			}
		}
		// it hands the compiled configuration to a state-writing method of runtimeState itself
		applies := false
		for _, ci := range allCalls(fn, func(ci ssa.CallInstruction) bool {
			f := ci.Common().StaticCallee()
			return f != nil && f.Signature.Recv() != nil && namedName(f.Signature.Recv().Type()) == "runtimeState"
		}) {
			for g := range p.Reach(ci.Common().StaticCallee()) {
				if len(runtimeStateStores(g)) > 0 {
					applies = true
				}
			}
		}
		if hasParse && hasCompile && hasRead && takesState && applies {
			out = append(out, fn)
		}
	}
	p.reloadEnt = out
	return out
}

// runtimeStateStores: stores to fields of app.runtimeState in fn.
func runtimeStateStores(fn *ssa.Function) []*ssa.Store {
	var out []*ssa.Store
	for _, b := range fn.Blocks {
		for _, ins := range b.Instrs {
			if st, ok := ins.(*ssa.Store); ok {
				if fa, ok := st.Addr.(*ssa.FieldAddr); ok {
					if tn, f, _ := fieldAddrName(fa); tn == "runtimeState" && namedPkgPath(fieldOwnerDeref(fa).Underlying().(*types.Struct).Field(fa.Field).Type()) != "sync" {
						_ = f
						out = append(out, st)
					}
				}
			}
		}
	}
	return out
}

func checkC09(c *Ctx) {
	p := c.P
	c.Rule("C09.R1", "window agreement: the nonce cache treats an entry as live on a closed bound (not After(expiry)) whenever the tolerance test accepts on a closed bound (rejects only d > tolerance); entries are evicted only strictly after expiry; both tests use the same clock reading and expiry = signed timestamp + tolerance")
	c.Rule("C09.R2", "nonce state survives reload: every function on the reload path that installs the per-route HMAC authenticators first hands each new authenticator the replay state (the same nonce cache pointer) of the running authenticator of that route")
	c.Rule("C09.R3", "check-and-record is atomic: the lookup and the insert into the nonce map happen under the cache mutex in one critical section, and acceptance is dominated by the true edge of that call")
	verify := p.Func("ingress", "(*HMACAuth).Verify")
	if verify == nil {
		c.Fail("C09.R1", "anchor:HMACAuth.Verify", "", "anchor not found")
		return
	}
	// the nonce check call in Verify
	var nonceCall *ssa.Call
	for _, ci := range allCalls(verify, func(ci ssa.CallInstruction) bool {
		f := ci.Common().StaticCallee()
		if f == nil || f.Signature.Recv() == nil || f.Pkg == nil || f.Pkg.Pkg.Path() != ingressPath {
			return false
		}
		r := f.Signature.Results()
		return r.Len() == 1 && types.Identical(r.At(0).Type(), types.Typ[types.Bool]) && !token.IsExported(namedName(f.Signature.Recv().Type()))
	}) {
		nonceCall, _ = ci.(*ssa.Call)
	}
	if nonceCall == nil {
		c.Fail("C09.R1", "ingress.HMACAuth.Verify:nonce-check-call", p.Pos(verify.Pos()), "Verify never calls the nonce cache")
		return
	}
	nfnOrig := nonceCall.Call.StaticCallee()
	nfn := p.View(nfnOrig) // the liveness test may sit in a helper of its own
	// --- tolerance upper bound in Verify ---
	tolClosed, tolFound := false, false
	var durVal ssa.Value
	for _, b := range verify.Blocks {
		for i := range b.Succs {
			a, ok := edgeAtom(Edge{b, i})
			if !ok || namedName(a.X.Type()) != "Duration" || !valueMentionsField(a.Y, "Tolerance", 0) {
				continue
			}
			if u, isNeg := a.Y.(*ssa.UnOp); isNeg && u.Op == token.SUB {
				continue
			}
			// edge leading to the accepting continuation
			switch a.Op {
			case token.LEQ: // accept edge: d <= tol
				tolClosed, tolFound = true, true
				durVal = a.X
			case token.LSS: // accept edge: d < tol
				tolClosed, tolFound = false, true
				durVal = a.X
			}
		}
	}
	if !tolFound {
		c.Fail("C09.R1", "ingress.HMACAuth.Verify:tolerance-upper-bound", p.Pos(verify.Pos()), "tolerance upper bound test not found")
		return
	}
	// --- liveness in the nonce function: the edge(s) on which a present nonce makes it return false ---
	liveClosed, liveFound := false, false
	evictStrict, evictFound := false, false
	var liveDesc, evictDesc string
	for _, b := range nfn.Blocks {
		for i := range b.Succs {
			a, ok := edgeAtom(Edge{b, i})
			if !ok || !isBoolTrue(a.Y) {
				continue
			}
			call, ok := a.X.(*ssa.Call)
			if !ok || len(call.Call.Args) != 2 {
				continue
			}
			isAfter := calleeIs(call, "time", "Time", "After")
			isBefore := calleeIs(call, "time", "Time", "Before")
			if !isAfter && !isBefore {
				continue
			}
			// which argument is the stored expiry (value from the nonce map)?
			expFirst := fromMapValue(call.Call.Args[0])
			expSecond := fromMapValue(call.Call.Args[1])
			if !expFirst && !expSecond {
				continue
			}
			// normalise to a relation between now and exp holding on this edge
			// After(now,exp)==true: now>exp ; ==false: now<=exp ; Before(now,exp)==true: now<exp ; ==false: now>=exp
			holds := a.Op == token.EQL
			rel := ""
			switch {
			case isAfter && expSecond:
				rel = map[bool]string{true: "now>exp", false: "now<=exp"}[holds]
			case isBefore && expSecond:
				rel = map[bool]string{true: "now<exp", false: "now>=exp"}[holds]
			case isAfter && expFirst:
				rel = map[bool]string{true: "now<exp", false: "now>=exp"}[holds]
			case isBefore && expFirst:
				rel = map[bool]string{true: "now>exp", false: "now<=exp"}[holds]
			}
			to := b.Succs[i]
			// does this edge lead (only) to a delete on the map → eviction; or to `return false` → liveness
			if blockDeletes(to) {
				evictFound = true
				evictDesc = rel
				evictStrict = rel == "now>exp"
			}
			if blockReturnsConstBool(to, false) {
				liveFound = true
				liveDesc = rel
				liveClosed = rel == "now<=exp"
			}
		}
	}
	// a stored nonce rejects on presence alone (the function prunes expired entries first, or never lets one be
	// reused): stricter than "present and not expired", so the accept window is covered whatever its bound
	if !liveFound {
		for _, b := range nfn.Blocks {
			for i := range b.Succs {
				a, ok := edgeAtom(Edge{b, i})
				if !ok || !isBoolTrue(a.Y) || a.Op != token.EQL {
					continue
				}
				ex, ok := a.X.(*ssa.Extract)
				if !ok || ex.Index != 1 {
					continue
				}
				lk, ok := ex.Tuple.(*ssa.Lookup)
				if !ok || !lk.CommaOk {
					continue
				}
				if _, isMap := lk.X.Type().Underlying().(*types.Map); !isMap {
					continue
				}
				if _, isParam := lk.Index.(*ssa.Parameter); !isParam {
					continue
				}
				if blockReturnsConstBool(b.Succs[i], false) {
					liveFound, liveClosed, liveDesc = true, true, "the nonce is present"
				}
			}
		}
	}
	// the verdict may also be returned as an expression (`return !seen || now.After(exp)`): on a path where the
	// returned value is the comparison itself, "false" (reject) holds exactly when the comparison is false
	if !liveFound {
		for _, pa := range enumeratePaths(nfn.Blocks[0], 500) {
			v := resolveOnPath(pa.Ret.Results[0], pa)
			neg := false
			for {
				if u, ok := v.(*ssa.UnOp); ok && u.Op == token.NOT {
					v, neg = u.X, !neg
					continue
				}
				break
			}
			call, ok := v.(*ssa.Call)
			if !ok || len(call.Call.Args) != 2 {
				continue
			}
			isAfter := calleeIs(call, "time", "Time", "After")
			isBefore := calleeIs(call, "time", "Time", "Before")
			if !isAfter && !isBefore {
				continue
			}
			expFirst, expSecond := fromMapValue(call.Call.Args[0]), fromMapValue(call.Call.Args[1])
			if !expFirst && !expSecond {
				continue
			}
			// the request is rejected when the returned expression is false, i.e. the call is `neg`
			holds := neg
			rel := ""
			switch {
			case isAfter && expSecond:
				rel = map[bool]string{true: "now>exp", false: "now<=exp"}[holds]
			case isBefore && expSecond:
				rel = map[bool]string{true: "now<exp", false: "now>=exp"}[holds]
			case isAfter && expFirst:
				rel = map[bool]string{true: "now<exp", false: "now>=exp"}[holds]
			case isBefore && expFirst:
				rel = map[bool]string{true: "now>exp", false: "now<=exp"}[holds]
			}
			liveFound = true
			liveDesc = rel
			liveClosed = rel == "now<=exp"
		}
	}
	// an entry is (re)written only when the nonce is absent or its stored entry has expired: a rejected duplicate must
	// not touch the stored expiry (it could shorten it and re-open the window for the original request)
	nIns := 0
	for _, b := range nfn.Blocks {
		for _, ins := range b.Instrs {
			mu, ok := ins.(*ssa.MapUpdate)
			if !ok {
				continue
			}
			nIns++
			var fresh []Edge
			for _, bb := range nfn.Blocks {
				for i := range bb.Succs {
					a, ok := edgeAtom(Edge{bb, i})
					if !ok {
						continue
					}
					// absent: comma-ok of a lookup with the same key is false
					if ex, ok := a.X.(*ssa.Extract); ok && ex.Index == 1 {
						if lk, ok := ex.Tuple.(*ssa.Lookup); ok && lk.CommaOk && lk.Index == mu.Key {
							if (a.Op == token.EQL) != isBoolTrue(a.Y) || (a.Op == token.NEQ && isBoolTrue(a.Y)) {
								fresh = append(fresh, Edge{bb, i})
							}
						}
					}
					// expired: After(now, exp) true / Before(exp, now) true with exp the looked-up value of the same key
					if cc, ok := a.X.(*ssa.Call); ok && isBoolTrue(a.Y) && a.Op == token.EQL && len(cc.Call.Args) == 2 {
						if calleeIs(cc, "time", "Time", "After") && fromMapValue(cc.Call.Args[1]) && sameMapEntry(cc.Call.Args[1], mu.Key) {
							fresh = append(fresh, Edge{bb, i})
						}
						if calleeIs(cc, "time", "Time", "Before") && fromMapValue(cc.Call.Args[0]) && sameMapEntry(cc.Call.Args[0], mu.Key) {
							fresh = append(fresh, Edge{bb, i})
						}
					}
				}
			}
			// `fresh := !seen || now.After(exp); if fresh { insert }`: the condition is a phi of the two tests
			isAbsentEdge := func(from, to *ssa.BasicBlock) bool {
				for i, sc := range from.Succs {
					if sc != to {
						continue
					}
					a, ok := edgeAtom(Edge{from, i})
					if !ok {
						continue
					}
					if ex, ok := a.X.(*ssa.Extract); ok && ex.Index == 1 {
						if lk, ok := ex.Tuple.(*ssa.Lookup); ok && lk.CommaOk && lk.Index == mu.Key {
							if (a.Op == token.EQL && !isBoolTrue(a.Y)) || (a.Op == token.NEQ && isBoolTrue(a.Y)) {
								return true
							}
						}
					}
				}
				return false
			}
			isExpiredCall := func(v ssa.Value) bool {
				cc, ok := v.(*ssa.Call)
				if !ok || len(cc.Call.Args) != 2 {
					return false
				}
				if calleeIs(cc, "time", "Time", "After") && fromMapValue(cc.Call.Args[1]) && sameMapEntry(cc.Call.Args[1], mu.Key) {
					return true
				}
				return calleeIs(cc, "time", "Time", "Before") && fromMapValue(cc.Call.Args[0]) && sameMapEntry(cc.Call.Args[0], mu.Key)
			}
			for _, bb := range nfn.Blocks {
				ifi, ok := bb.Instrs[len(bb.Instrs)-1].(*ssa.If)
				if !ok {
					continue
				}
				phi, ok := ifi.Cond.(*ssa.Phi)
				if !ok {
					continue
				}
				all := len(phi.Edges) > 0
				for i, e := range phi.Edges {
					switch {
					case isExpiredCall(e):
					case e == trueConst || (func() bool { cst, ok := e.(*ssa.Const); return ok && cst.Value != nil && cst.Value.String() == "true" })():
						if !isAbsentEdge(phi.Block().Preds[i], phi.Block()) {
							all = false
						}
					default:
						if cst, ok := e.(*ssa.Const); !ok || cst.Value == nil || cst.Value.String() != "false" {
							all = false
						}
					}
				}
				if all {
					fresh = append(fresh, Edge{bb, 0})
				}
			}
			okIns, _ := p.MustPass(nfn, mu, fresh)
			c.Check(okIns && len(fresh) > 0, "C09.R1", fmt.Sprintf("ingress.%s:entry#%d written only for an absent or expired nonce", FuncName(nfn), nIns), p.InstrPos(mu),
				"the insert is behind the not-present edge or the after-expiry edge of the same key",
				"the stored expiry of a live nonce can be overwritten (the insert is reachable while the nonce is present and unexpired): a rejected duplicate carrying an older timestamp shortens the entry's life, after which the original request is accepted again inside its own tolerance window")
		}
	}
	key := "ingress." + FuncName(nfn)
	if !liveFound {
		c.Fail("C09.R1", key+":liveness-test", p.Pos(nfn.Pos()), "no edge found on which a stored nonce rejects the request")
	} else {
		c.Check(!tolClosed || liveClosed, "C09.R1", key+":live-covers-accept-window", p.Pos(nfn.Pos()),
			fmt.Sprintf("tolerance accepts d<=tol (closed=%v); a stored nonce rejects while %s", tolClosed, liveDesc),
			fmt.Sprintf("the tolerance test accepts at now == ts+tolerance (closed bound) but a stored nonce only rejects while %s — a replay at the boundary instant is accepted", liveDesc))
	}
	if evictFound {
		c.Check(evictStrict || !liveClosed, "C09.R1", key+":evict-only-after-live", p.Pos(nfn.Pos()), "entries evicted only when "+evictDesc, "entries are evicted when "+evictDesc+" although they are still live at now == expiry")
	} else {
		c.Ok("C09.R1", key+":evict-only-after-live", p.Pos(nfn.Pos()), "no eviction in the nonce function")
	}
	// every removal from the nonce map, anywhere in the nonce cache's methods, is behind the strictly-after-expiry
	// edge for the entry removed (a size cap or any other eviction of a live entry re-opens the replay window)
	nDel := 0
	// removal by predicate: maps.DeleteFunc(m, func(k, exp) bool { … }) removes exactly the entries for which the
	// predicate is true, so every value the predicate returns must be "now is strictly after exp" (or false)
	for _, f := range p.FuncsInPkg("ingress") {
		top := topLevel(f)
		if top.Signature.Recv() == nil || namedName(top.Signature.Recv().Type()) != namedName(nfn.Signature.Recv().Type()) {
			continue
		}
		for _, ci := range allCalls(f, func(ci ssa.CallInstruction) bool {
			g := ci.Common().StaticCallee()
			if g == nil {
				return false
			}
			o := g.Origin()
			return o != nil && o.Pkg != nil && o.Pkg.Pkg.Path() == "maps" && o.Name() == "DeleteFunc" && len(ci.Common().Args) == 2
		}) {
			for _, pred := range funcValueTargets(ci.Common().Args[1], 0) {
				pv := p.View(pred)
				if len(pv.Params) != 2 {
					continue
				}
				nDel++
				expParam := pv.Params[1]
				bad := ""
				for _, r := range returnsOf(pv) {
					if len(r.Results) != 1 {
						continue
					}
					v := r.Results[0]
					neg := false
					for {
						if u, ok := v.(*ssa.UnOp); ok && u.Op == token.NOT {
							v, neg = u.X, !neg
							continue
						}
						break
					}
					if cst, ok := v.(*ssa.Const); ok && cst.Value != nil {
						if (cst.Value.String() == "true") != neg {
							bad = "the predicate can remove an entry unconditionally"
						}
						continue
					}
					call, ok := v.(*ssa.Call)
					if !ok || len(call.Call.Args) != 2 {
						bad = "the predicate returns " + shortVal(v) + ", which is not a comparison of the clock with the entry's expiry"
						continue
					}
					strict := false
					switch {
					case calleeIs(call, "time", "Time", "After") && stripConv(call.Call.Args[1]) == ssa.Value(expParam):
						strict = !neg // now.After(exp)
					case calleeIs(call, "time", "Time", "Before") && stripConv(call.Call.Args[0]) == ssa.Value(expParam):
						strict = !neg // exp.Before(now)
					default:
						strict = false
					}
					if !strict {
						bad = "the predicate removes an entry when not (now strictly after its expiry)"
					}
				}
				c.Check(bad == "", "C09.R1", fmt.Sprintf("ingress.%s:removal#%d only strictly after that entry's expiry", FuncName(topLevel(f)), nDel), p.InstrPos(ci),
					"maps.DeleteFunc with a predicate that is true only when now.After(expiry of the entry)",
					"an entry can be removed from the nonce cache while it is still live ("+bad+"): a captured request is accepted again within the tolerance window")
			}
		}
	}
	for _, f := range p.FuncsInPkg("ingress") {
		if f.Signature.Recv() == nil || namedName(f.Signature.Recv().Type()) != namedName(nfn.Signature.Recv().Type()) {
			continue
		}
		for _, b := range f.Blocks {
			for _, ins := range b.Instrs {
				call, ok := ins.(*ssa.Call)
				if !ok {
					continue
				}
				bi, ok := call.Call.Value.(*ssa.Builtin)
				if !ok || bi.Name() != "delete" {
					continue
				}
				nDel++
				// edges After(now, exp)==true with exp a value of the same map
				var after []Edge
				for _, bb := range f.Blocks {
					for i := range bb.Succs {
						a, ok := edgeAtom(Edge{bb, i})
						if !ok || !isBoolTrue(a.Y) || a.Op != token.EQL {
							continue
						}
						cc, ok := a.X.(*ssa.Call)
						if !ok || len(cc.Call.Args) != 2 {
							continue
						}
						if calleeIs(cc, "time", "Time", "After") && fromMapValue(cc.Call.Args[1]) && sameMapEntry(cc.Call.Args[1], call.Call.Args[1]) {
							after = append(after, Edge{bb, i})
						}
						if calleeIs(cc, "time", "Time", "Before") && fromMapValue(cc.Call.Args[0]) && sameMapEntry(cc.Call.Args[0], call.Call.Args[1]) {
							after = append(after, Edge{bb, i})
						}
					}
				}
				start := f.Blocks[0]
				if h := loopHeaderOf(call.Block()); h != nil {
					start = h
				}
				av := EdgeSet{}
				av.addAll(after)
				_, reached := reach([]*ssa.BasicBlock{start}, av, nil)[call.Block()]
				c.Check(len(after) > 0 && !reached, "C09.R1", fmt.Sprintf("ingress.%s:removal#%d only strictly after that entry's expiry", FuncName(f), nDel), p.InstrPos(call),
					"the delete is reachable only through now.After(expiry of the deleted key)",
					"an entry can be removed from the nonce cache while it is still live (not behind now.After(its expiry)): a captured request is accepted again within the tolerance window")
			}
		}
	}
	// same clock reading + expiry = t + tolerance
	sameClock := false
	if sub, ok := durVal.(*ssa.Call); ok && calleeIs(sub, "time", "Time", "Sub") {
		recv := sub.Call.Args[0]
		for _, a := range nonceCall.Call.Args {
			if a == recv {
				sameClock = true
			}
		}
	}
	c.Check(sameClock, "C09.R1", "ingress.HMACAuth.Verify:one-clock-reading", p.InstrPos(nonceCall), "the instant used in the tolerance test is the one passed to the nonce check", "the nonce check does not receive the clock reading used by the tolerance test (two readings can disagree at the boundary)")
	expOK := false
	for _, a := range nonceCall.Call.Args {
		if add, ok := a.(*ssa.Call); ok && calleeIs(add, "time", "Time", "Add") && valueMentionsField(add.Call.Args[1], "Tolerance", 0) {
			if callChainHas(add.Call.Args[0], "time", "Unix", 0) {
				expOK = true
			}
		}
	}
	c.Check(expOK, "C09.R1", "ingress.HMACAuth.Verify:expiry=ts+tolerance", p.InstrPos(nonceCall), "expiry passed to the cache = time.Unix(ts).Add(Tolerance)", "nonce expiry is not signed timestamp + tolerance")

	// ---- R3 ----
	nfn = nfnOrig
	recvT := namedName(nfn.Signature.Recv().Type())
	lm := p.lockAnalysis("ingress", recvT, p.mutexField("ingress", recvT))
	nAcc, bad := 0, false
	for _, a := range lm.Accesses {
		if a.Fn != nfn {
			continue
		}
		nAcc++
		if !a.Held {
			bad = true
			c.Fail("C09.R3", key+":map-access-under-mutex", p.InstrPos(a.Instr), "nonce map accessed without the cache mutex")
		}
	}
	c.Check(!bad && nAcc >= 2, "C09.R3", key+":map-access-under-mutex", p.Pos(nfn.Pos()), fmt.Sprintf("%d accesses to the nonce map, all with the mutex held", nAcc), "see findings / too few accesses found")
	c.Check(len(lm.Acquire[nfn]) == 1, "C09.R3", key+":single-critical-section", p.Pos(nfn.Pos()), "one lock acquisition covers lookup and insert", fmt.Sprintf("%d lock acquisitions in the check-and-record function (lookup and insert may be split)", len(lm.Acquire[nfn])))
	okE, _, _ := GuardEdges(verify, []ssa.CallInstruction{nonceCall}, BoolTrue)
	okAll := true
	for _, r := range returnsOf(verify) {
		if errResultKind(r) == "nil" {
			if reachableFrom(nonceCall, r) {
				if okp, _ := p.MustPass(verify, r, okE); !okp {
					okAll = false
				}
			}
		}
	}
	c.Check(okAll, "C09.R3", "ingress.HMACAuth.Verify:accept-behind-nonce-ok", p.InstrPos(nonceCall), "acceptance only on the true edge of the nonce check", "an accepting return is reachable without the nonce check succeeding")

	// ---- R2 ----
	checkNonceSurvivesReload(c, "C09.R2")

	// ---- R4 ----
	c.Rule("C09.R4", "entries leave the nonce store only one by one behind their own expiry test: outside the construction of a new cache no function replaces, clears or nils a map field of the nonce cache (a rotated or re-made map forgets nonces whose signed timestamp is still inside the tolerance, whatever window the rotation assumes)")
	nWr, nCtor := 0, 0
	for _, fn := range p.FuncsInPkg("ingress") {
		for _, b := range fn.Blocks {
			for _, ins := range b.Instrs {
				switch x := ins.(type) {
				case *ssa.Store:
					fa, ok := x.Addr.(*ssa.FieldAddr)
					if !ok || namedName(fa.X.Type()) != recvT {
						continue
					}
					if _, isMap := x.Val.Type().Underlying().(*types.Map); !isMap {
						continue
					}
					nWr++
					if al, ok := fa.X.(*ssa.Alloc); ok && namedName(al.Type()) == recvT {
						nCtor++
						continue // a field of the cache being constructed
					}
					_, f, _ := fieldAddrName(fa)
					c.Fail("C09.R4", fmt.Sprintf("ingress.%s:%s.%s replaced", fn.Name(), recvT, f), p.InstrPos(x), "the nonce map of a live cache is replaced wholesale: every nonce it held is forgotten at once, including those whose signed timestamp still passes the tolerance test (a captured request is accepted a second time)")
				case *ssa.Call:
					if bi, ok := x.Call.Value.(*ssa.Builtin); ok && bi.Name() == "clear" && len(x.Call.Args) == 1 {
						if root, _, ok := fieldPathRootOfLoad(x.Call.Args[0]); ok && root == recvT {
							nWr++
							c.Fail("C09.R4", fmt.Sprintf("ingress.%s:%s cleared", fn.Name(), recvT), p.InstrPos(x), "the nonce map of a live cache is cleared: every live nonce is forgotten at once")
						}
					}
				}
			}
		}
	}
	c.Check(nCtor >= 1, "C09.R4", "ingress."+recvT+":map built in the constructor only", p.Pos(nfnOrig.Pos()), fmt.Sprintf("%d store(s) of a map into a %s field, %d of them into a cache under construction", nWr, recvT, nCtor), "no construction of the nonce map found")
}

func reachableFrom(a, b ssa.Instruction) bool {
	if a.Block() == b.Block() {
		return instrIndex(a) < instrIndex(b)
	}
	par := reach(a.Block().Succs, nil, nil)
	_, ok := par[b.Block()]
	return ok
}

func fromMapValue(v ssa.Value) bool {
	for i := 0; i < 6; i++ {
		switch x := v.(type) {
		case *ssa.Extract:
			switch t := x.Tuple.(type) {
			case *ssa.Lookup:
				return x.Index == 0
			case *ssa.Next:
				return x.Index == 2
			default:
				_ = t
				return false
			}
		case *ssa.Lookup:
			return true
		case *ssa.Call:
			// exp.UTC()
			if len(x.Call.Args) >= 1 {
				v = x.Call.Args[0]
				continue
			}
			return false
		default:
			return false
		}
	}
	return false
}

func blockDeletes(b *ssa.BasicBlock) bool {
	for _, ins := range b.Instrs {
		if ci, ok := ins.(ssa.CallInstruction); ok {
			if bi, ok := ci.Common().Value.(*ssa.Builtin); ok && bi.Name() == "delete" {
				return true
			}
		}
	}
	return false
}

func blockReturnsConstBool(b *ssa.BasicBlock, want bool) bool {
	if len(b.Instrs) == 0 {
		return false
	}
	r, ok := b.Instrs[len(b.Instrs)-1].(*ssa.Return)
	if !ok || len(r.Results) != 1 {
		return false
	}
	v := r.Results[0]
	// defer-spilled result: last store in the block
	if u, ok := v.(*ssa.UnOp); ok {
		if a, ok := u.X.(*ssa.Alloc); ok {
			for _, ins := range b.Instrs {
				if st, ok := ins.(*ssa.Store); ok && st.Addr == a {
					v = st.Val
				}
			}
		}
	}
	cst, ok := v.(*ssa.Const)
	return ok && cst.Value != nil && cst.Value.String() == fmt.Sprint(want)
}

func checkNonceSurvivesReload(c *Ctx, rule string) {
	p := c.P
	// inherit functions: store into HMACAuth.<cache field> a value loaded from the same field of another HMACAuth
	cacheField := ""
	if T := p.Named("ingress", "HMACAuth"); T != nil {
		st := T.Underlying().(*types.Struct)
		for i := 0; i < st.NumFields(); i++ {
			if pt, ok := st.Field(i).Type().(*types.Pointer); ok && !token.IsExported(namedName(pt.Elem())) && namedName(pt.Elem()) != "" {
				cacheField = st.Field(i).Name()
			}
		}
	}
	if cacheField == "" {
		c.Fail(rule, "ingress.HMACAuth:replay-state-field", "", "no unexported replay-state pointer field found in HMACAuth")
		return
	}
	inherit := map[*ssa.Function]bool{}
	for _, fn := range p.FuncsInPkg("ingress") {
		for _, st := range fieldStores(fn, "HMACAuth", cacheField) {
			ss := sourcesOf(st.Val)
			shares := allSourcesMatch(ss, func(s vsource) bool { return s.Kind == "field" && strings.HasPrefix(s.Desc, "HMACAuth."+cacheField) })
			if shares {
				inherit[fn] = true
				c.Ok(rule, "ingress."+FuncName(fn)+":shares-replay-state", p.InstrPos(st), "new authenticator receives the previous authenticator's cache pointer (shared, not copied)")
			} else {
				// a store from another authenticator that is not the identical pointer = copy/clone
				for _, s := range ss {
					if s.Kind == "call" && len(fn.Params) >= 2 && namedName(fn.Params[1].Type()) == "HMACAuth" {
						c.Fail(rule, "ingress."+FuncName(fn)+":shares-replay-state", p.InstrPos(st), "the replay state handed to the new authenticator is a copy ("+s.Desc+"): nonces recorded in the old cache after the copy are lost")
					}
				}
			}
		}
	}
	entries := reloadEntries(p)
	c.Floor(rule, "reload_entry_functions", len(entries), 1)
	n := 0
	for _, entry := range entries {
		for fn := range p.Reach(entry) {
			for _, st := range runtimeStateStores(fn) {
				_, f, _ := fieldAddrName(st.Addr.(*ssa.FieldAddr))
				mt, ok := st.Val.Type().Underlying().(*types.Map)
				if !ok {
					// a whole group of fields swapped in at once (an embedded struct): the map it carries
					if sty, isStruct := st.Val.Type().Underlying().(*types.Struct); isStruct {
						for i := 0; i < sty.NumFields(); i++ {
							if m2, isMap := sty.Field(i).Type().Underlying().(*types.Map); isMap && (namedName(m2.Elem()) == "HMACAuth" || recordHoldsHMAC(m2.Elem())) {
								mt, ok, f = m2, true, sty.Field(i).Name()
							}
						}
					}
				}
				if !ok || (namedName(mt.Elem()) != "HMACAuth" && !recordHoldsHMAC(mt.Elem())) {
					continue
				}
				n++
				key := "app." + FuncName(fn) + ":installs-" + f
				// an inherit call that precedes the store, whose argument is a lookup in the running map
				okCall := false
				why := "no call handing over the replay state precedes the installation of the new authenticators"
				for _, ci := range allCalls(fn, func(ci ssa.CallInstruction) bool {
					g := ci.Common().StaticCallee()
					return g != nil && inherit[g]
				}) {
					if !reachableFrom(ci, st) {
						continue
					}
					// argument from the running state
					for _, a := range ci.Common().Args {
						for _, s := range sourcesOf(a) {
							if lk, isLk := s.Val.(*ssa.Lookup); isLk || strings.Contains(s.Desc, "element") {
								_ = lk
							}
						}
						av := a
						if fl, isField := av.(*ssa.Field); isField {
							av = fl.X // the authenticator member of a per-route record looked up in the running table
						}
						if lk, ok := av.(*ssa.Lookup); ok {
							if root, ff, ok := fieldPathRootOfLoad(lk.X); ok && root == "runtimeState" && ff == f {
								okCall = true
							}
						}
					}
					if !okCall {
						why = "the replay state is not taken from the running state's " + f
					}
				}
				c.Check(okCall, rule, key, p.InstrPos(st), "each new authenticator inherits the replay state of the running one before the swap", why)
			}
		}
	}
	c.Floor(rule, "authenticator_installations_on_reload_path", n, 1)
}

// recordHoldsHMAC: a per-route record (a struct of package app) with an authenticator member.
func recordHoldsHMAC(t types.Type) bool {
	st, ok := t.Underlying().(*types.Struct)
	if !ok {
		return false
	}
	for i := 0; i < st.NumFields(); i++ {
		if _, isPtr := st.Field(i).Type().Underlying().(*types.Pointer); isPtr && namedName(st.Field(i).Type()) == "HMACAuth" {
			return true
		}
	}
	return false
}

// sameMapEntry: exp is the value of the range/lookup entry whose key is key (same Next tuple or same lookup index).
func sameMapEntry(exp, key ssa.Value) bool {
	ex, ok := exp.(*ssa.Extract)
	if ok {
		if kx, ok := key.(*ssa.Extract); ok && kx.Tuple == ex.Tuple {
			return true // k, v of the same range step
		}
		if lk, ok := ex.Tuple.(*ssa.Lookup); ok && lk.Index == key {
			return true
		}
	}
	if lk, ok := exp.(*ssa.Lookup); ok && lk.Index == key {
		return true
	}
	return false
}

// fieldPathRootOfLoad: v loads field F through a chain of (embedded) struct fields; returns the type the chain is
// rooted at and the innermost field name.
func fieldPathRootOfLoad(v ssa.Value) (root, field string, ok bool) {
	u, isLoad := v.(*ssa.UnOp)
	if !isLoad || u.Op != token.MUL {
		return "", "", false
	}
	fa, isFA := u.X.(*ssa.FieldAddr)
	if !isFA {
		return "", "", false
	}
	tn, f, _ := fieldAddrName(fa)
	for {
		inner, more := fa.X.(*ssa.FieldAddr)
		if !more {
			break
		}
		fa = inner
		tn, _, _ = fieldAddrName(fa)
	}
	return tn, f, true
}
