// K4 (part 2): bind placeholders and parse the small SQL subset used by hookaido.
package main

import (
	"fmt"
	"go/ast"
	"go/constant"
	"go/types"
	"regexp"
	"strconv"
	"strings"
)

type sqBound struct {
	text  string     // SQL with placeholders replaced by §k§ ; optional parts wrapped in ⟨…⟩ ; repeats as §*k§
	exprs []ast.Expr // k -> expression
	errs  []string
}

var pgPlaceholder = regexp.MustCompile(`\$(\d+)`)

func bindSite(s sqSite) sqBound {
	var b sqBound
	b.text = bindSegs(s.query, s.args, &b, new(int))
	return b
}

// bindSegs consumes args positionally. *pos indexes into args (top level of this list).
func bindSegs(q []sqSeg, args []sqArg, b *sqBound, pos *int) string {
	var out strings.Builder
	next := func() (sqArg, bool) {
		if *pos < len(args) {
			a := args[*pos]
			*pos++
			return a, true
		}
		return sqArg{}, false
	}
	for _, s := range q {
		switch s.kind {
		case segConst:
			txt := s.text
			if pgPlaceholder.MatchString(txt) {
				// explicit numbering: bind by number against top-level args (no optional handling needed)
				txt = pgPlaceholder.ReplaceAllStringFunc(txt, func(m string) string {
					n, _ := strconv.Atoi(m[1:])
					if n-1 < len(args) && args[n-1].kind == argExpr {
						b.exprs = append(b.exprs, args[n-1].expr)
						return fmt.Sprintf("§%d§", len(b.exprs)-1)
					}
					b.errs = append(b.errs, "cannot bind "+m)
					return m
				})
				out.WriteString(txt)
				continue
			}
			for {
				i := strings.IndexByte(txt, '?')
				if i < 0 {
					out.WriteString(txt)
					break
				}
				out.WriteString(txt[:i])
				txt = txt[i+1:]
				a, ok := next()
				if !ok || a.kind != argExpr {
					b.errs = append(b.errs, fmt.Sprintf("placeholder without plain sqArg (kind=%d ok=%v)", a.kind, ok))
					out.WriteString("?")
					continue
				}
				b.exprs = append(b.exprs, a.expr)
				fmt.Fprintf(&out, "§%d§", len(b.exprs)-1)
			}
		case segOpt:
			// must pair with an argOpt of the same cond, if the optional text has placeholders
			n := countQ(s.sub)
			if n == 0 {
				out.WriteString("⟨" + bindSegs(s.sub, nil, b, new(int)) + "⟩")
				continue
			}
			a, ok := next()
			if !ok || a.kind != argOpt || a.cond != s.cond {
				b.errs = append(b.errs, "optional SQL fragment not paired with optional args")
				out.WriteString("⟨" + renderSegs(s.sub) + "⟩")
				continue
			}
			p := 0
			out.WriteString("⟨" + bindSegs(s.sub, a.sub, b, &p) + "⟩")
		case segOpaque:
			if s.text == "placeholders" {
				a, ok := next()
				if ok && a.kind == argRepeat {
					out.WriteString("§*§")
				} else if ok && a.kind == argSpread {
					out.WriteString("§*§")
				} else {
					// some call sites build args as append(consts..., ids...) without loop marker
					if ok {
						*pos--
					}
					out.WriteString("§*§")
					// consume the rest of args that are repeats
					for *pos < len(args) && (args[*pos].kind == argRepeat || args[*pos].kind == argSpread) {
						*pos++
					}
				}
				continue
			}
			out.WriteString("⟦" + s.text + "⟧")
		case segParam:
			out.WriteString("⟦param:" + s.text + "⟧")
		case segAlt:
			out.WriteString("⦃" + strings.Join(s.alts, "|") + "⦄")
		}
	}
	return out.String()
}

func countQ(q []sqSeg) int {
	n := 0
	for _, s := range q {
		switch s.kind {
		case segConst:
			n += strings.Count(s.text, "?")
		case segOpt:
			n += countQ(s.sub)
		case segOpaque:
			if s.text == "placeholders" {
				n++
			}
		}
	}
	return n
}

// ---- tiny SQL model ----------------------------------------------------------

type sqStmt struct {
	verb    string // INSERT UPDATE DELETE SELECT WITH-UPDATE OTHER
	table   string
	set     map[string]string // column -> rhs text
	where   []string          // top-level conjuncts (normalised spacing)
	optWhere []string         // conjuncts inside optional fragments
	orderBy string
	limit   string
	returning []string
	insertCols []string
	insertVals []string
	selectCols []string
	raw     string
}

var sqWS = regexp.MustCompile(`\s+`)

func sqNorm(s string) string { return strings.TrimSpace(sqWS.ReplaceAllString(s, " ")) }

// splitTop splits s on sep (case-insensitive keyword or comma) at paren depth 0.
func sqSplitTop(s string, sep string) []string {
	var out []string
	depth := 0
	up := strings.ToUpper(s)
	last := 0
	for i := 0; i < len(s); i++ {
		switch s[i] {
		case '(':
			depth++
		case ')':
			depth--
		}
		if depth == 0 && strings.HasPrefix(up[i:], sep) {
			if sep == "," || (i > 0 && sqIsSp(s[i-1]) && i+len(sep) < len(s) && sqIsSp(s[i+len(sep)])) {
				out = append(out, s[last:i])
				last = i + len(sep)
				i += len(sep) - 1
			}
		}
	}
	out = append(out, s[last:])
	for i := range out {
		out[i] = sqNorm(out[i])
	}
	return out
}

func sqIsSp(b byte) bool { return b == ' ' || b == '\n' || b == '\t' }

// clause extracts text after keyword kw up to the next top-level keyword in stops.
func sqClause(s, kw string, stops ...string) (string, bool) {
	up := strings.ToUpper(s)
	idx := sqIndexTop(up, kw)
	if idx < 0 {
		return "", false
	}
	rest := s[idx+len(kw):]
	upRest := up[idx+len(kw):]
	end := len(rest)
	for _, st := range stops {
		if j := sqIndexTop(upRest, st); j >= 0 && j < end {
			end = j
		}
	}
	return sqNorm(rest[:end]), true
}

func sqIndexTop(up, kw string) int {
	depth := 0
	for i := 0; i+len(kw) <= len(up); i++ {
		switch up[i] {
		case '(':
			depth++
		case ')':
			depth--
		}
		if depth == 0 && strings.HasPrefix(up[i:], kw) {
			before := i == 0 || !sqIsWord(up[i-1])
			after := i+len(kw) == len(up) || !sqIsWord(up[i+len(kw)])
			if before && after {
				return i
			}
		}
	}
	return -1
}

func sqIsWord(b byte) bool {
	return b == '_' || (b >= 'A' && b <= 'Z') || (b >= '0' && b <= '9') || (b >= 'a' && b <= 'z')
}

var sqOptRe = regexp.MustCompile(`⟨([^⟨⟩]*)⟩`)

func parseSQL(text string) sqStmt {
	st := sqStmt{raw: sqNorm(text), set: map[string]string{}}
	// pull optional fragments out: they only ever add "AND x" conjuncts (or ORDER/GROUP text)
	var opts []string
	main := sqOptRe.ReplaceAllStringFunc(text, func(m string) string {
		opts = append(opts, sqNorm(m[len("⟨"):len(m)-len("⟩")]))
		return " "
	})
	for _, o := range opts {
		up := strings.ToUpper(o)
		if strings.HasPrefix(up, "AND ") {
			st.optWhere = append(st.optWhere, sqNorm(o[4:]))
		} else {
			st.optWhere = append(st.optWhere, "«"+o+"»")
		}
	}
	s := sqNorm(strings.TrimSuffix(sqNorm(main), ";"))
	up := strings.ToUpper(s)
	switch {
	case strings.HasPrefix(up, "WITH "):
		// WITH candidate AS ( SELECT ... ) UPDATE ...
		// treat CTE body as a nested select; main statement follows the closing paren
		open := strings.IndexByte(s, '(')
		depth, close := 0, -1
		for i := open; i < len(s); i++ {
			if s[i] == '(' {
				depth++
			} else if s[i] == ')' {
				depth--
				if depth == 0 {
					close = i
					break
				}
			}
		}
		cte := parseSQL(s[open+1 : close])
		inner := parseSQL(s[close+1:])
		inner.verb = "WITH-" + inner.verb
		for _, w := range cte.where {
			inner.where = append(inner.where, "cte:"+w)
		}
		for _, w := range cte.optWhere {
			inner.optWhere = append(inner.optWhere, "cte:"+w)
		}
		inner.optWhere = append(inner.optWhere, st.optWhere...)
		if cte.orderBy != "" {
			inner.orderBy = "cte:" + cte.orderBy
		}
		if cte.limit != "" {
			inner.limit = "cte:" + cte.limit
		}
		inner.raw = st.raw
		return inner
	case strings.HasPrefix(up, "UPDATE "):
		st.verb = "UPDATE"
		st.table = strings.Fields(s)[1]
		if set, ok := sqClause(s, "SET", "WHERE", "RETURNING"); ok {
			for _, a := range sqSplitTop(set, ",") {
				if i := strings.IndexByte(a, '='); i > 0 {
					st.set[sqNorm(a[:i])] = sqNorm(a[i+1:])
				}
			}
		}
	case strings.HasPrefix(up, "DELETE FROM "):
		st.verb = "DELETE"
		st.table = strings.Fields(s)[2]
	case strings.HasPrefix(up, "INSERT "):
		st.verb = "INSERT"
		f := strings.Fields(s)
		for i, w := range f {
			if strings.EqualFold(w, "INTO") && i+1 < len(f) {
				st.table = strings.TrimSuffix(strings.SplitN(f[i+1], "(", 2)[0], "(")
			}
		}
		if o := strings.IndexByte(s, '('); o > 0 {
			c := strings.IndexByte(s[o:], ')')
			st.insertCols = sqSplitTop(s[o+1:o+c], ",")
			rest := s[o+c+1:]
			if v := strings.Index(strings.ToUpper(rest), "VALUES"); v >= 0 {
				r := rest[v+6:]
				o2 := strings.IndexByte(r, '(')
				c2 := strings.LastIndexByte(r, ')')
				if o2 >= 0 && c2 > o2 {
					st.insertVals = sqSplitTop(r[o2+1:c2], ",")
				}
			}
		}
	case strings.HasPrefix(up, "SELECT "):
		st.verb = "SELECT"
		if cols, ok := sqClause(s, "SELECT", "FROM"); ok {
			st.selectCols = sqSplitTop(cols, ",")
		}
		if fr, ok := sqClause(s, "FROM", "WHERE", "GROUP BY", "ORDER BY", "LIMIT", "FOR"); ok {
			st.table = fr
		}
	default:
		st.verb = "OTHER:" + strings.Fields(up)[0]
		return st
	}
	if w, ok := sqClause(s, "WHERE", "GROUP BY", "ORDER BY", "LIMIT", "RETURNING", "FOR"); ok {
		for _, c := range sqSplitTop(w, "AND") {
			if c != "1 = 1" {
				st.where = append(st.where, c)
			}
		}
	}
	if o, ok := sqClause(s, "ORDER BY", "LIMIT", "RETURNING", "FOR", "OFFSET"); ok {
		st.orderBy = o
	}
	if l, ok := sqClause(s, "LIMIT", "RETURNING", "FOR", "OFFSET"); ok {
		st.limit = l
	}
	if r, ok := sqClause(s, "RETURNING"); ok {
		st.returning = sqSplitTop(r, ",")
	}
	return st
}

var sqMarkRe = regexp.MustCompile(`§(\d+)§`)

// resolve replaces §k§ by the constant sqValue of the sqBound expression when it has one,
// else by a short provenance string.
func sqResolve(e *sqEval, b sqBound, s string) string {
	return sqMarkRe.ReplaceAllStringFunc(s, func(m string) string {
		k, _ := strconv.Atoi(m[len("§") : len(m)-len("§")])
		ex := b.exprs[k]
		if tv, ok := e.info.Types[ex]; ok && tv.Value != nil {
			if tv.Value.Kind() == constant.String {
				return "'" + constant.StringVal(tv.Value) + "'"
			}
			return tv.Value.ExactString()
		}
		return "‹" + types.ExprString(ex) + "›"
	})
}
