package main

// K8: must-hold lock regions for a struct guarded by one mutex field.

import (
	"go/token"
	"go/types"
	"sort"

	"golang.org/x/tools/go/ssa"
)

type lockAccess struct {
	Fn    *ssa.Function
	Instr ssa.Instruction
	Field string
	Write bool
	Held  bool
}

type lockModel struct {
	Type      *types.Named
	Mutex     string
	Mutable   map[string]bool // fields written by some method after construction
	Accesses  []lockAccess
	EntryHeld map[*ssa.Function]bool
	Acquire   map[*ssa.Function][]ssa.Instruction // Lock/RLock call sites
}

// recvFieldAddr: FieldAddr on a value of type *T (any pointer to T, not only the receiver).
func recvFieldAddr(v ssa.Value, T *types.Named) (string, bool) {
	fa, ok := v.(*ssa.FieldAddr)
	if !ok {
		return "", false
	}
	pt, ok := fa.X.Type().Underlying().(*types.Pointer)
	if !ok || !types.Identical(pt.Elem(), T) {
		return "", false
	}
	return T.Underlying().(*types.Struct).Field(fa.Field).Name(), true
}

// lockCallKind: "lock", "unlock" or "" for a call on the mutex field of T.
func lockCallKind(c ssa.CallInstruction, T *types.Named, mutex string) string {
	f := c.Common().StaticCallee()
	if f == nil || f.Pkg == nil || f.Pkg.Pkg.Path() != "sync" || len(c.Common().Args) == 0 {
		return ""
	}
	name, ok := recvFieldAddr(c.Common().Args[0], T)
	if !ok || name != mutex {
		return ""
	}
	switch f.Name() {
	case "Lock", "RLock":
		return "lock"
	case "Unlock", "RUnlock":
		return "unlock"
	}
	return ""
}

func (p *Program) lockAnalysis(pkg, typeName, mutex string) *lockModel {
	T := p.Named(pkg, typeName)
	m := &lockModel{Type: T, Mutex: mutex, Mutable: map[string]bool{}, EntryHeld: map[*ssa.Function]bool{}, Acquire: map[*ssa.Function][]ssa.Instruction{}}
	methods := p.MethodsOf(pkg, typeName)
	inSet := map[*ssa.Function]bool{}
	var fns []*ssa.Function
	var add func(f *ssa.Function)
	add = func(f *ssa.Function) {
		if inSet[f] {
			return
		}
		inSet[f] = true
		fns = append(fns, f)
		for _, a := range f.AnonFuncs {
			add(a)
		}
	}
	for _, f := range methods {
		add(f)
	}
	// mutable fields: written through FieldAddr store / map update / delete / append-store in a method
	for _, f := range fns {
		for _, b := range f.Blocks {
			for _, ins := range b.Instrs {
				switch x := ins.(type) {
				case *ssa.Store:
					if name, ok := recvFieldAddr(x.Addr, T); ok {
						m.Mutable[name] = true
					}
				case *ssa.MapUpdate:
					if _, name, ok := fieldOfLoad(x.Map); ok && namedName(fieldOwner(x.Map)) == typeName {
						m.Mutable[name] = true
					}
				case ssa.CallInstruction:
					if bi, ok := x.Common().Value.(*ssa.Builtin); ok && bi.Name() == "delete" {
						if _, name, ok := fieldOfLoad(x.Common().Args[0]); ok && namedName(fieldOwner(x.Common().Args[0])) == typeName {
							m.Mutable[name] = true
						}
					}
				}
			}
		}
	}
	delete(m.Mutable, mutex)
	// entry lock state: exported methods false; helpers = AND over call sites (optimistic fixpoint)
	for _, f := range fns {
		m.EntryHeld[f] = f.Parent() != nil || !token.IsExported(f.Name())
	}
	heldAt := map[ssa.Instruction]bool{}
	compute := func(f *ssa.Function) {
		in := map[*ssa.BasicBlock]int{} // 0 unknown, 1 held, 2 not held
		enc := func(b bool) int {
			if b {
				return 1
			}
			return 2
		}
		if len(f.Blocks) == 0 {
			return
		}
		in[f.Blocks[0]] = enc(m.EntryHeld[f])
		work := []*ssa.BasicBlock{f.Blocks[0]}
		for len(work) > 0 {
			b := work[0]
			work = work[1:]
			held := in[b] == 1
			for _, ins := range b.Instrs {
				heldAt[ins] = held
				if c, ok := ins.(ssa.CallInstruction); ok {
					if _, isDefer := ins.(*ssa.Defer); !isDefer {
						switch lockCallKind(c, T, mutex) {
						case "lock":
							held = true
						case "unlock":
							held = false
						}
					}
				}
			}
			for _, s := range b.Succs {
				nv := enc(held)
				if old, ok := in[s]; !ok {
					in[s] = nv
					work = append(work, s)
				} else if old == 1 && nv == 2 {
					in[s] = 2
					work = append(work, s)
				}
			}
		}
	}
	for iter := 0; iter < 10; iter++ {
		for k := range heldAt {
			delete(heldAt, k)
		}
		for _, f := range fns {
			compute(f)
		}
		changed := false
		for _, f := range fns {
			if !m.EntryHeld[f] {
				continue
			}
			if f.Parent() == nil && token.IsExported(f.Name()) {
				continue
			}
			// all call sites must hold the lock
			sites := p.CallSitesOf(f)
			if f.Parent() != nil {
				// closure: executed where it is created/passed; use the MakeClosure site
				for _, b := range f.Parent().Blocks {
					for _, ins := range b.Instrs {
						if mc, ok := ins.(*ssa.MakeClosure); ok && mc.Fn == f {
							if !heldAt[ins] && inSet[f.Parent()] {
								if _, isGo := closureUse(mc); !isGo {
									m.EntryHeld[f] = false
									changed = true
								}
							}
						}
					}
				}
				continue
			}
			if len(sites) == 0 {
				m.EntryHeld[f] = false
				changed = true
				continue
			}
			for _, cs := range sites {
				if !inSet[cs.Parent()] || !heldAt[cs] {
					m.EntryHeld[f] = false
					changed = true
					break
				}
			}
		}
		if !changed {
			break
		}
	}
	for _, f := range fns {
		for _, b := range f.Blocks {
			for _, ins := range b.Instrs {
				if c, ok := ins.(ssa.CallInstruction); ok {
					if _, isDefer := ins.(*ssa.Defer); !isDefer && lockCallKind(c, T, mutex) == "lock" {
						m.Acquire[f] = append(m.Acquire[f], ins)
					}
				}
				var addr ssa.Value
				write := false
				switch x := ins.(type) {
				case *ssa.Store:
					addr, write = x.Addr, true
				case *ssa.UnOp:
					if x.Op == token.MUL {
						addr = x.X
					}
				}
				if addr == nil {
					continue
				}
				if name, ok := recvFieldAddr(addr, T); ok && m.Mutable[name] {
					m.Accesses = append(m.Accesses, lockAccess{Fn: f, Instr: ins, Field: name, Write: write, Held: heldAt[ins]})
				}
			}
		}
	}
	sort.SliceStable(m.Accesses, func(i, j int) bool { return m.Accesses[i].Instr.Pos() < m.Accesses[j].Instr.Pos() })
	return m
}

func fieldOwner(v ssa.Value) types.Type {
	if u, ok := v.(*ssa.UnOp); ok {
		if fa, ok := u.X.(*ssa.FieldAddr); ok {
			if pt, ok := fa.X.Type().Underlying().(*types.Pointer); ok {
				return pt.Elem()
			}
		}
	}
	return nil
}

// closureUse reports whether the closure is started with `go`.
func closureUse(mc *ssa.MakeClosure) (ssa.Instruction, bool) {
	for _, ref := range *mc.Referrers() {
		if g, ok := ref.(*ssa.Go); ok {
			return g, true
		}
	}
	return nil, false
}
