package main

// Private names are not anchors: the fields the rules talk about are found by role (type or use) so that renaming
// them does not change any verdict.

import (
	"go/types"

	"golang.org/x/tools/go/ssa"
)

type storeRoles struct {
	items, order, maxDepth, dropPolicy string
}

func (p *Program) structOf(pkg, typ string) *types.Struct {
	n := p.Named(pkg, typ)
	if n == nil {
		return nil
	}
	st, _ := n.Underlying().(*types.Struct)
	return st
}

// mutexField: the (only) sync.Mutex / sync.RWMutex field of pkg.typ; "mu" if none can be determined.
func (p *Program) mutexField(pkg, typ string) string {
	st := p.structOf(pkg, typ)
	if st == nil {
		return "mu"
	}
	found := ""
	for i := 0; i < st.NumFields(); i++ {
		t := st.Field(i).Type()
		if namedPkgPath(t) == "sync" && (namedName(t) == "Mutex" || namedName(t) == "RWMutex") {
			if found != "" {
				return "mu" // ambiguous: fall back
			}
			found = st.Field(i).Name()
		}
	}
	if found == "" {
		return "mu"
	}
	return found
}

func (p *Program) rolesOf(typ string) storeRoles {
	if p.roleCache == nil {
		p.roleCache = map[string]storeRoles{}
	}
	if r, ok := p.roleCache[typ]; ok {
		return r
	}
	r := storeRoles{items: "items", order: "order", maxDepth: "maxDepth", dropPolicy: "dropPolicy"}
	if st := p.structOf("queue", typ); st != nil {
		nSlice := 0
		for i := 0; i < st.NumFields(); i++ {
			f := st.Field(i)
			if m, ok := f.Type().Underlying().(*types.Map); ok && isStringT(m.Key()) {
				if pt, ok := m.Elem().(*types.Pointer); ok && namedName(pt.Elem()) == "Envelope" {
					r.items = f.Name()
				}
			}
			if isStringSlice(f.Type()) {
				nSlice++
				r.order = f.Name()
			}
		}
		if nSlice != 1 {
			r.order = "order"
		}
	}
	// dropPolicy: the string field compared with "drop_oldest"; maxDepth: the int field stored in the same function as dropPolicy
	for _, fn := range p.FuncsInPkg("queue") {
		for _, b := range fn.Blocks {
			for _, ins := range b.Instrs {
				bo, ok := ins.(*ssa.BinOp)
				if !ok {
					continue
				}
				if cst, ok := bo.Y.(*ssa.Const); ok && cst.Value != nil && cst.Value.ExactString() == `"drop_oldest"` {
					if tn, f, ok := fieldOfLoad(bo.X); ok && tn == typ {
						r.dropPolicy = f
					}
				}
			}
		}
	}
	for _, fn := range p.FuncsInPkg("queue") {
		var ints []string
		hasPolicy := false
		for _, b := range fn.Blocks {
			for _, ins := range b.Instrs {
				st, ok := ins.(*ssa.Store)
				if !ok {
					continue
				}
				fa, ok := st.Addr.(*ssa.FieldAddr)
				if !ok {
					continue
				}
				tn, f, _ := fieldAddrName(fa)
				if tn != typ {
					continue
				}
				if f == r.dropPolicy {
					hasPolicy = true
				}
				if bt, ok := st.Val.Type().Underlying().(*types.Basic); ok && bt.Kind() == types.Int {
					if _, isParam := st.Val.(*ssa.Parameter); isParam {
						ints = append(ints, f)
					} else if _, isFree := st.Val.(*ssa.FreeVar); isFree {
						ints = append(ints, f)
					} else if u, isU := st.Val.(*ssa.UnOp); isU {
						if _, isFree := u.X.(*ssa.FreeVar); isFree {
							ints = append(ints, f)
						}
					}
				}
			}
		}
		if hasPolicy && len(ints) == 1 {
			r.maxDepth = ints[0]
		}
	}
	p.roleCache[typ] = r
	return r
}
