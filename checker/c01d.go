package main

import (
	"fmt"
	"strings"

	"golang.org/x/tools/go/ssa"
)

// C01.R9 — transaction control cannot be skipped.
//
// SQLite transactions are hand-rolled: BEGIN IMMEDIATE / COMMIT / ROLLBACK are statements executed on one pooled
// connection. database/sql does not execute a statement at all when its context is already done — it returns
// ctx.Err(). A COMMIT or ROLLBACK issued under a context that can be cancelled (a request context, a context with a
// deadline) is therefore skipped when the caller goes away inside the transaction; the connection returns to the
// pool with the write transaction still open, and every later autocommit statement on it "succeeds" inside a
// transaction nobody commits: 202/204 answers for data that a restart loses.
//
// Decided structurally: the context operand of every COMMIT and ROLLBACK statement execution, followed through
// parameters to every call site, through closures to their bindings and through local cells, ends at
// context.Background(), context.TODO() or context.WithoutCancel(...).

func checkTxControlContext(c *Ctx, rule string) {
	p := c.P
	n := 0
	for _, s := range p.SQL().Stmts {
		if s.Fn == nil || !(strings.HasPrefix(s.St.verb, "OTHER:COMMIT") || strings.HasPrefix(s.St.verb, "OTHER:ROLLBACK")) {
			continue
		}
		fn := s.Fn
		ci := ssaCallAt(fn, s.Site.call.Lparen)
		if ci == nil {
			// inside a function literal of fn
			for _, an := range fn.AnonFuncs {
				if ci = ssaCallAt(an, s.Site.call.Lparen); ci != nil {
					fn = an
					break
				}
			}
		}
		kind := strings.TrimPrefix(s.St.verb, "OTHER:")
		key := fmt.Sprintf("%s.%s:%s runs under a context that cannot be cancelled", s.Backend, s.Site.fn, kind)
		if ci == nil || len(ci.Common().Args) < 2 {
			c.Undecided(rule, key, s.Pos, "call instruction of the statement not found")
			continue
		}
		n++
		ok, why := ctxNeverCancelled(p, ci.Common().Args[1], fn, 0, map[ssa.Value]bool{})
		c.Check(ok, rule, key, s.Pos, "context.Background()/TODO()/WithoutCancel on every path to the statement",
			"the "+kind+" of a hand-rolled transaction executes under a context that can be done ("+why+"): database/sql then returns ctx.Err() without sending the statement, the connection goes back to the pool inside the open transaction, and later statements on it are acknowledged but never committed")
	}
	c.Floor(rule, "transaction control statements", n, 2)
}

func ctxNeverCancelled(p *Program, v ssa.Value, fn *ssa.Function, depth int, seen map[ssa.Value]bool) (bool, string) {
	if v == nil {
		return false, "unknown value"
	}
	if seen[v] {
		return true, ""
	}
	seen[v] = true
	if depth > 8 {
		return false, "provenance too deep"
	}
	switch x := v.(type) {
	case *ssa.Call:
		g := x.Call.StaticCallee()
		if g != nil && g.Pkg != nil && g.Pkg.Pkg.Path() == "context" {
			switch g.Name() {
			case "Background", "TODO", "WithoutCancel":
				return true, ""
			case "WithValue":
				return ctxNeverCancelled(p, x.Call.Args[0], fn, depth+1, seen)
			}
			return false, "context." + g.Name() + " at " + p.InstrPos(x)
		}
		if g != nil && IsModuleFunc(g) && len(g.Blocks) > 0 {
			for _, r := range returnsOf(g) {
				if len(r.Results) == 0 {
					continue
				}
				if ok, why := ctxNeverCancelled(p, r.Results[0], g, depth+1, seen); !ok {
					return false, why + " (returned by " + g.Name() + ")"
				}
			}
			return true, ""
		}
		return false, "result of " + x.Call.String() + " at " + p.InstrPos(x)
	case *ssa.Extract:
		if call, ok := x.Tuple.(*ssa.Call); ok {
			if g := call.Call.StaticCallee(); g != nil && g.Pkg != nil && g.Pkg.Pkg.Path() == "context" {
				return false, "context." + g.Name() + " at " + p.InstrPos(call)
			}
		}
		return false, "tuple element at " + p.InstrPos(x)
	case *ssa.Phi:
		for _, e := range x.Edges {
			if ok, why := ctxNeverCancelled(p, e, fn, depth+1, seen); !ok {
				return false, why
			}
		}
		return true, ""
	case *ssa.MakeInterface:
		return ctxNeverCancelled(p, x.X, fn, depth+1, seen)
	case *ssa.ChangeInterface:
		return ctxNeverCancelled(p, x.X, fn, depth+1, seen)
	case *ssa.UnOp:
		if al, ok := x.X.(*ssa.Alloc); ok {
			nSt := 0
			for _, ref := range *al.Referrers() {
				if st, ok := ref.(*ssa.Store); ok && st.Addr == al {
					nSt++
					if ok2, why := ctxNeverCancelled(p, st.Val, st.Parent(), depth+1, seen); !ok2 {
						return false, why
					}
				}
			}
			if nSt > 0 {
				return true, ""
			}
		}
		if fv, ok := x.X.(*ssa.FreeVar); ok {
			return ctxNeverCancelled(p, fv, fn, depth+1, seen)
		}
		return false, "loaded from " + x.X.String() + " at " + p.InstrPos(x)
	case *ssa.FreeVar:
		par := fn.Parent()
		if par == nil {
			return false, "free variable without a parent"
		}
		idx := -1
		for i, f := range fn.FreeVars {
			if f == x {
				idx = i
			}
		}
		found := false
		for _, b := range par.Blocks {
			for _, ins := range b.Instrs {
				mc, ok := ins.(*ssa.MakeClosure)
				if !ok || mc.Fn != fn || idx < 0 || idx >= len(mc.Bindings) {
					continue
				}
				found = true
				bv := mc.Bindings[idx]
				// a captured variable is bound by address: what is stored in the cell
				if al, ok := bv.(*ssa.Alloc); ok {
					for _, ref := range *al.Referrers() {
						if st, ok := ref.(*ssa.Store); ok && st.Addr == al {
							if ok2, why := ctxNeverCancelled(p, st.Val, par, depth+1, seen); !ok2 {
								return false, why
							}
						}
					}
					continue
				}
				if ok2, why := ctxNeverCancelled(p, bv, par, depth+1, seen); !ok2 {
					return false, why
				}
			}
		}
		if !found {
			return false, "closure binding not found"
		}
		return true, ""
	case *ssa.Parameter:
		f := x.Parent()
		idx := -1
		for i, q := range f.Params {
			if q == x {
				idx = i
			}
		}
		sites := p.CallSitesOf(f)
		if idx < 0 || len(sites) == 0 {
			return false, "parameter " + x.Name() + " of " + f.Name() + " (a caller-supplied context)"
		}
		for _, cs := range sites {
			args := cs.Common().Args
			if cs.Common().IsInvoke() || idx >= len(args) || cs.Common().StaticCallee() == nil || unwrapBound(cs.Common().StaticCallee()) != p.Orig(f) {
				return false, "parameter " + x.Name() + " of " + f.Name() + " bound at " + p.InstrPos(cs) + " in a way that is not followed"
			}
			if ok, why := ctxNeverCancelled(p, args[idx], cs.Parent(), depth+1, seen); !ok {
				return false, why + " → " + f.Name() + " at " + p.InstrPos(cs)
			}
		}
		return true, ""
	}
	return false, fmt.Sprintf("%T %s", v, v.String())
}
