package main

// K5: path-condition extraction over an interval domain for loop-free
// predicates and decision functions. No solver: every guard is a comparison of
// one integer symbol with a constant, or a boolean symbol.

import (
	"fmt"
	"go/constant"
	"go/token"
	"go/types"
	"math"
	"sort"
	"strings"

	"golang.org/x/tools/go/ssa"
)

type ival struct{ lo, hi int64 }

var ivalAll = ival{math.MinInt64, math.MaxInt64}

func (a ival) empty() bool { return a.lo > a.hi }
func (a ival) String() string {
	lo, hi := fmt.Sprint(a.lo), fmt.Sprint(a.hi)
	if a.lo == math.MinInt64 {
		lo = "-inf"
	}
	if a.hi == math.MaxInt64 {
		hi = "+inf"
	}
	return "[" + lo + "," + hi + "]"
}

// pathState: constraints collected along one path.
type pathState struct {
	strEq  map[string]string   // sym == const
	strNeq map[string][]string // sym != consts
	ints  map[string][]ival
	bools map[string]bool
	rels  []string // relational atoms between two symbols, rendered "a<=b" with polarity
}

func (s pathState) clone() pathState {
	o := pathState{ints: map[string][]ival{}, bools: map[string]bool{}, strEq: map[string]string{}, strNeq: map[string][]string{}}
	for k, v := range s.strEq {
		o.strEq[k] = v
	}
	for k, v := range s.strNeq {
		o.strNeq[k] = append([]string{}, v...)
	}
	for k, v := range s.ints {
		o.ints[k] = append([]ival{}, v...)
	}
	for k, v := range s.bools {
		o.bools[k] = v
	}
	o.rels = append([]string{}, s.rels...)
	return o
}

// symOf names a value: field paths of parameters, calls of named predicates on them.
func symOf(v ssa.Value) (string, bool) {
	for i := 0; i < 10; i++ {
		switch x := v.(type) {
		case *ssa.ChangeType:
			v = x.X
			continue
		case *ssa.Convert:
			v = x.X
			continue
		case *ssa.MakeInterface:
			v = x.X
			continue
		case *ssa.Parameter:
			return x.Name(), true
		case *ssa.FreeVar:
			return x.Name(), true
		case *ssa.Phi:
			if x.Comment != "" && x.Comment != "||" && x.Comment != "&&" {
				return x.Comment, true // named local variable merged at a join
			}
			return "", false
		case *ssa.Field:
			if base, ok := symOf(x.X); ok {
				st := x.X.Type().Underlying().(*types.Struct)
				return base + "." + st.Field(x.Field).Name(), true
			}
			return "", false
		case *ssa.UnOp:
			if x.Op != token.MUL {
				return "", false
			}
			switch a := x.X.(type) {
			case *ssa.FieldAddr:
				if base, ok := addrSym(a.X); ok {
					_, f, _ := fieldAddrName(a)
					return base + "." + f, true
				}
			case *ssa.Alloc:
				if sv := spilledParam(a); sv != nil {
					v = sv
					continue
				}
				if a.Comment != "" {
					return a.Comment, true // named local variable
				}
			case *ssa.Global:
				return a.Name(), true
			case *ssa.IndexAddr:
				return addrSym(a)
			}
			return "", false
		case *ssa.Call:
			if bi, ok := x.Call.Value.(*ssa.Builtin); ok && bi.Name() == "len" && len(x.Call.Args) == 1 {
				if s, ok := symOf(x.Call.Args[0]); ok {
					return "len(" + s + ")", true
				}
				return "", false
			}
			if f := x.Call.StaticCallee(); f != nil {
				var args []string
				for _, a := range x.Call.Args {
					if s, ok := symOf(a); ok {
						args = append(args, s)
					} else if c, ok := a.(*ssa.Const); ok {
						if c.Value == nil {
							args = append(args, "nil")
						} else {
							args = append(args, c.Value.ExactString())
						}
					} else {
						return "", false
					}
				}
				name := f.Name()
				if f.Pkg != nil && !IsModuleFunc(f) {
					name = f.Pkg.Pkg.Name() + "." + name
				}
				return name + "(" + strings.Join(args, ",") + ")", true
			}
			return "", false
		default:
			return "", false
		}
	}
	return "", false
}

// addrSym: symbol of the struct whose address is v (spilled parameter cell, pointer parameter, nested field).
func addrSym(v ssa.Value) (string, bool) {
	switch x := v.(type) {
	case *ssa.Alloc:
		if sv := spilledParam(x); sv != nil {
			return symOf(sv)
		}
		if x.Comment != "" {
			return x.Comment, true
		}
	case *ssa.Parameter:
		return x.Name(), true
	case *ssa.FreeVar:
		return x.Name(), true
	case *ssa.FieldAddr:
		if base, ok := addrSym(x.X); ok {
			_, f, _ := fieldAddrName(x)
			return base + "." + f, true
		}
	case *ssa.UnOp:
		return symOf(x)
	case *ssa.IndexAddr:
		// an element of a named sequence (&routes[i]): the element is named after the sequence
		if base, ok := symOf(x.X); ok {
			return base + "[]", true
		}
		if base, ok := addrSym(x.X); ok {
			return base + "[]", true
		}
	case *ssa.Extract:
		if call, ok := x.Tuple.(*ssa.Call); ok {
			return callDesc(call) + "()#" + itoa(x.Index), true
		}
	case *ssa.Call:
		return callDesc(x) + "()", true
	}
	return "", false
}

// spilledParam: the parameter stored once into local cell a at function entry.
func spilledParam(a *ssa.Alloc) ssa.Value {
	var val ssa.Value
	n := 0
	for _, ref := range *a.Referrers() {
		if st, ok := ref.(*ssa.Store); ok && st.Addr == a {
			n++
			val = st.Val
		}
	}
	if n == 1 {
		if _, ok := val.(*ssa.Parameter); ok {
			return val
		}
	}
	return nil
}

// constrain adds atom a to the path state; returns false when the path becomes infeasible.
func (s *pathState) constrain(a Atom) (feasible bool, understood bool) {
	// boolean symbol
	if isBoolTrue(a.Y) {
		sym, ok := symOf(a.X)
		if !ok {
			return true, false
		}
		want := a.Op == token.EQL
		if old, seen := s.bools[sym]; seen && old != want {
			return false, true
		}
		s.bools[sym] = want
		return true, true
	}
	if isNilConst(a.Y) {
		sym, ok := symOf(a.X)
		if !ok {
			return true, false
		}
		sym += "!=nil"
		want := a.Op == token.NEQ
		if old, seen := s.bools[sym]; seen && old != want {
			return false, true
		}
		s.bools[sym] = want
		return true, true
	}
	if n, ok := intConst(a.Y); ok {
		sym, ok := symOf(a.X)
		if !ok {
			return true, false
		}
		cur, seen := s.ints[sym]
		if !seen {
			cur = []ival{ivalAll}
		}
		var with []ival
		switch a.Op {
		case token.EQL:
			with = []ival{{n, n}}
		case token.NEQ:
			with = []ival{{math.MinInt64, n - 1}, {n + 1, math.MaxInt64}}
		case token.LSS:
			with = []ival{{math.MinInt64, n - 1}}
		case token.LEQ:
			with = []ival{{math.MinInt64, n}}
		case token.GTR:
			with = []ival{{n + 1, math.MaxInt64}}
		case token.GEQ:
			with = []ival{{n, math.MaxInt64}}
		default:
			return true, false
		}
		cur = intersectIvals(cur, with)
		s.ints[sym] = cur
		return len(cur) > 0, true
	}
	// string symbol against a constant
	if cs, ok := a.Y.(*ssa.Const); ok && cs.Value != nil && cs.Value.Kind() == constant.String && (a.Op == token.EQL || a.Op == token.NEQ) {
		sym, ok := symOf(a.X)
		if !ok {
			return true, false
		}
		val := constant.StringVal(cs.Value)
		if s.strEq == nil {
			s.strEq, s.strNeq = map[string]string{}, map[string][]string{}
		}
		if a.Op == token.EQL {
			if old, seen := s.strEq[sym]; seen && old != val {
				return false, true
			}
			for _, n := range s.strNeq[sym] {
				if n == val {
					return false, true
				}
			}
			s.strEq[sym] = val
		} else {
			if old, seen := s.strEq[sym]; seen && old == val {
				return false, true
			}
			s.strNeq[sym] = append(s.strNeq[sym], val)
		}
		return true, true
	}
	// relation between two symbols
	xs, ok1 := symOf(a.X)
	ys, ok2 := symOf(a.Y)
	if ok1 && ok2 {
		s.rels = append(s.rels, xs+a.Op.String()+ys)
		return true, true
	}
	return true, false
}

type predPath struct {
	State      pathState
	Ret        *ssa.Return
	Blocks     []*ssa.BasicBlock
	Unknown    []string // atoms not understood
	PhiPred    map[*ssa.Phi]ssa.Value
}

// enumeratePaths explores acyclic paths from start to returns.
func enumeratePaths(start *ssa.BasicBlock, limit int) []predPath {
	var out []predPath
	var dfs func(b *ssa.BasicBlock, prev *ssa.BasicBlock, st pathState, blocks []*ssa.BasicBlock, unknown []string, phis map[*ssa.Phi]ssa.Value, onPath map[*ssa.BasicBlock]bool)
	dfs = func(b *ssa.BasicBlock, prev *ssa.BasicBlock, st pathState, blocks []*ssa.BasicBlock, unknown []string, phis map[*ssa.Phi]ssa.Value, onPath map[*ssa.BasicBlock]bool) {
		if len(out) >= limit || onPath[b] {
			return
		}
		onPath[b] = true
		defer delete(onPath, b)
		blocks = append(blocks, b)
		if prev != nil {
			idx := -1
			for i, p := range b.Preds {
				if p == prev {
					idx = i
				}
			}
			for _, ins := range b.Instrs {
				phi, ok := ins.(*ssa.Phi)
				if !ok {
					break
				}
				if idx >= 0 {
					np := map[*ssa.Phi]ssa.Value{}
					for k, v := range phis {
						np[k] = v
					}
					np[phi] = phi.Edges[idx]
					phis = np
				}
			}
		}
		last := b.Instrs[len(b.Instrs)-1]
		switch t := last.(type) {
		case *ssa.Return:
			out = append(out, predPath{State: st, Ret: t, Blocks: append([]*ssa.BasicBlock{}, blocks...), Unknown: unknown, PhiPred: phis})
		case *ssa.If:
			for i, s := range b.Succs {
				ns := st.clone()
				a := condAtom(t.Cond, i == 0)
				// resolve phi operands in the condition for this path
				if phi, ok := a.X.(*ssa.Phi); ok {
					if v, ok := phis[phi]; ok {
						if cst, ok := v.(*ssa.Const); ok && cst.Value != nil && cst.Value.String() == "true" || ok && cst != nil && cst.Value != nil && cst.Value.String() == "false" {
							val := cst.Value.String() == "true"
							want := (a.Op == token.EQL) == isBoolTrue(a.Y)
							if val != want {
								continue
							}
							dfs(s, b, ns, blocks, unknown, phis, onPath)
							continue
						}
						// the merged value itself is the condition on this path (a comparison, a negated call, …)
						if isBoolTrue(a.Y) && (a.Op == token.EQL || a.Op == token.NEQ) {
							a = condAtom(v, a.Op == token.EQL)
						} else {
							a.X = v
						}
					}
				}
				feasible, understood := ns.constrain(a)
				un := unknown
				if !understood {
					un = append(append([]string{}, unknown...), fmt.Sprintf("%s %s %s", a.X.Name(), a.Op, a.Y.Name()))
				}
				if feasible {
					dfs(s, b, ns, blocks, un, phis, onPath)
				}
			}
		default:
			for _, s := range b.Succs {
				dfs(s, b, st, blocks, unknown, phis, onPath)
			}
		}
	}
	dfs(start, nil, pathState{ints: map[string][]ival{}, bools: map[string]bool{}, strEq: map[string]string{}, strNeq: map[string][]string{}}, nil, nil, map[*ssa.Phi]ssa.Value{}, map[*ssa.BasicBlock]bool{})
	return out
}

// boolResult resolves the boolean returned on a path: const, phi operand, or a comparison
// (which splits the path; the caller gets both halves).
func boolResultPaths(p predPath) []struct {
	St  pathState
	Val bool
	Ok  bool
} {
	type r = struct {
		St  pathState
		Val bool
		Ok  bool
	}
	v := p.Ret.Results[0]
	for i := 0; i < 4; i++ {
		phi, ok := v.(*ssa.Phi)
		if !ok {
			break
		}
		pv, ok := p.PhiPred[phi]
		if !ok {
			break
		}
		v = pv
	}
	if cst, ok := v.(*ssa.Const); ok && cst.Value != nil {
		return []r{{p.State, cst.Value.String() == "true", true}}
	}
	neg := false
	for {
		if u, ok := v.(*ssa.UnOp); ok && u.Op == token.NOT {
			v = u.X
			neg = !neg
			continue
		}
		break
	}
	if neg {
		// !x: evaluate x and flip the verdicts
		q := p
		q.Ret = &ssa.Return{Results: []ssa.Value{v}}
		inner := boolResultPaths(q)
		for i := range inner {
			inner[i].Val = !inner[i].Val
		}
		return inner
	}
	if _, ok := v.(*ssa.BinOp); ok {
		var out []r
		for _, want := range []bool{true, false} {
			ns := p.State.clone()
			feasible, understood := ns.constrain(condAtom(v, want))
			if !understood {
				return []r{{p.State, false, false}}
			}
			if feasible {
				out = append(out, r{ns, want, true})
			}
		}
		return out
	}
	// a boolean symbol returned directly (call result)
	if sym, ok := symOf(v); ok {
		var out []r
		for _, want := range []bool{true, false} {
			ns := p.State.clone()
			if old, seen := ns.bools[sym]; seen && old != want {
				continue
			}
			ns.bools[sym] = want
			out = append(out, r{ns, want, true})
		}
		return out
	}
	return []r{{p.State, false, false}}
}

// mergeIvals unions and sorts intervals.
func mergeIvals(in []ival) []ival {
	sort.Slice(in, func(i, j int) bool { return in[i].lo < in[j].lo })
	var out []ival
	for _, v := range in {
		if v.empty() {
			continue
		}
		if n := len(out); n > 0 && (out[n-1].hi == math.MaxInt64 || v.lo <= out[n-1].hi+1) {
			if v.hi > out[n-1].hi {
				out[n-1].hi = v.hi
			}
			continue
		}
		out = append(out, v)
	}
	return out
}

func ivalsString(in []ival) string {
	if len(in) == 0 {
		return "∅"
	}
	var s []string
	for _, v := range in {
		s = append(s, v.String())
	}
	return strings.Join(s, "∪")
}

func ivalsEqual(a, b []ival) bool {
	if len(a) != len(b) {
		return false
	}
	for i := range a {
		if a[i] != b[i] {
			return false
		}
	}
	return true
}

func intersectIvals(a, b []ival) []ival {
	var out []ival
	for _, x := range a {
		for _, y := range b {
			lo, hi := x.lo, x.hi
			if y.lo > lo {
				lo = y.lo
			}
			if y.hi < hi {
				hi = y.hi
			}
			if lo <= hi {
				out = append(out, ival{lo, hi})
			}
		}
	}
	return mergeIvals(out)
}

// resolveOnPath resolves a value read at the end of a path: phi operands by the
// predecessor taken, and loads of spilled result cells by the last store on the path.
func resolveOnPath(v ssa.Value, pa predPath) ssa.Value {
	for i := 0; i < 6; i++ {
		if phi, ok := v.(*ssa.Phi); ok {
			if pv, ok := pa.PhiPred[phi]; ok {
				v = pv
				continue
			}
		}
		if u, ok := v.(*ssa.UnOp); ok && u.Op == token.MUL {
			if a, ok := u.X.(*ssa.Alloc); ok {
				var last ssa.Value
				for _, b := range pa.Blocks {
					for _, ins := range b.Instrs {
						if st, ok := ins.(*ssa.Store); ok && st.Addr == a {
							last = st.Val
						}
					}
				}
				if last != nil {
					v = last
					continue
				}
			}
		}
		break
	}
	return v
}
