package main

import (
	"encoding/json"
	"fmt"
	"os"
	"path/filepath"
	"sort"
	"strings"
	"time"
)

type Status string

const (
	OK        Status = "ok"
	Violation Status = "violation"
	Undecided Status = "undecided"
)

// Obligation is one decided (or undecidable) instance of one rule. It is keyed
// by Rule + Construct; Construct never contains positions or source text.
type Obligation struct {
	Rule      string   `json:"rule"`
	Construct string   `json:"construct"`
	Pos       string   `json:"pos,omitempty"`
	Status    Status   `json:"status"`
	Detail    string   `json:"detail,omitempty"`
	Path      []string `json:"path,omitempty"`
	Known     bool     `json:"known_finding,omitempty"`
}

type Ctx struct {
	Prop     string
	Tier     string
	P        *Program
	Obs      []Obligation
	Notes    []string
	Analysed map[string]int
	Rules    map[string]string // rule id -> one-line description of rule applied
	Assumed  []string          // assumed-infeasible edges / assumptions
	Audit    map[string]any
	start    time.Time
}

func newCtx(prop, tier string, p *Program) *Ctx {
	return &Ctx{Prop: prop, Tier: tier, P: p, Analysed: map[string]int{}, Rules: map[string]string{}, start: time.Now()}
}

func (c *Ctx) Rule(id, desc string) { c.Rules[id] = desc }

func (c *Ctx) add(rule, construct, pos string, st Status, detail string, path []string) {
	for _, o := range c.Obs {
		if o.Rule == rule && o.Construct == construct && o.Pos == pos && o.Status == st && o.Detail == detail {
			return // the same obligation reached twice (e.g. through two entry points)
		}
	}
	c.Obs = append(c.Obs, Obligation{Rule: rule, Construct: construct, Pos: pos, Status: st, Detail: detail, Path: path})
}
func (c *Ctx) Ok(rule, construct, pos, detail string) { c.add(rule, construct, pos, OK, detail, nil) }
func (c *Ctx) Fail(rule, construct, pos, detail string, path ...string) {
	c.add(rule, construct, pos, Violation, detail, path)
}
func (c *Ctx) Undecided(rule, construct, pos, detail string) {
	c.add(rule, construct, pos, Undecided, detail, nil)
}

// Check records ok when cond holds, else a violation.
func (c *Ctx) Check(cond bool, rule, construct, pos, okDetail, failDetail string) bool {
	if cond {
		c.Ok(rule, construct, pos, okDetail)
	} else {
		c.Fail(rule, construct, pos, failDetail)
	}
	return cond
}

// Floor fails the rule when fewer instances than confirmed by hand were found.
func (c *Ctx) Floor(rule, what string, got, min int) {
	c.Analysed[rule+"."+what] = got
	if got < min {
		c.Fail(rule, "floor:"+what, "", fmt.Sprintf("only %d %s analysed, expected at least %d (rule would pass vacuously)", got, what, min))
	}
}

func (c *Ctx) Count(key string, n int) { c.Analysed[key] += n }
func (c *Ctx) Note(format string, a ...any) {
	c.Notes = append(c.Notes, fmt.Sprintf(format, a...))
}
func (c *Ctx) Assume(s string) { c.Assumed = append(c.Assumed, s) }

// ---- known findings ----

type KnownFinding struct {
	Property       string `json:"property"`
	Rule           string `json:"rule"`
	Construct      string `json:"construct"`
	WhatFails      string `json:"what_fails"`
	DemonstratedBy string `json:"demonstrated_by"`
}

type KnownFile struct {
	Findings []KnownFinding `json:"known_findings"`
	Fixed    []string       `json:"fixed"`
}

func loadKnown(path string) (*KnownFile, error) {
	b, err := os.ReadFile(path)
	if err != nil {
		if os.IsNotExist(err) {
			return &KnownFile{}, nil
		}
		return nil, err
	}
	var k KnownFile
	if err := json.Unmarshal(b, &k); err != nil {
		return nil, err
	}
	return &k, nil
}

// ---- evidence ----

type evidence struct {
	PropertyID  string         `json:"property_id"`
	Tier        string         `json:"tier"`
	Seed        int            `json:"seed"`
	Level       string         `json:"level"`
	Coverage    map[string]any `json:"coverage"`
	Assumptions []string       `json:"assumptions"`
	WallS       float64        `json:"wall_s"`
	Violations  int            `json:"violations"`
}

// finish writes evidence and replay files, prints the protocol lines and
// returns the process exit code.
func (c *Ctx) finish(verifDir string, seed int, known *KnownFile, baseAssumptions []string) int {
	sort.SliceStable(c.Obs, func(i, j int) bool {
		if c.Obs[i].Rule != c.Obs[j].Rule {
			return ruleLess(c.Obs[i].Rule, c.Obs[j].Rule)
		}
		return c.Obs[i].Construct < c.Obs[j].Construct
	})
	// known findings
	for i := range c.Obs {
		o := &c.Obs[i]
		if o.Status == OK {
			continue
		}
		for _, k := range known.Findings {
			if k.Property == c.Prop && k.Rule == o.Rule && k.Construct == o.Construct && o.Status == Violation {
				o.Known = true
			}
		}
	}
	perRule := map[string][3]int{}
	distinct := map[string]bool{}
	nviol, nknown := 0, 0
	var bad []Obligation
	for _, o := range c.Obs {
		r := perRule[o.Rule]
		switch {
		case o.Status == OK:
			r[0]++
		case o.Known:
			r[2]++
			nknown++
		default:
			r[1]++
			nviol++
			bad = append(bad, o)
		}
		perRule[o.Rule] = r
		if !strings.HasPrefix(o.Construct, "floor:") {
			distinct[o.Rule+"|"+o.Construct] = true
		}
	}
	var rules []string
	for r := range c.Rules {
		rules = append(rules, r)
	}
	for r := range perRule {
		if _, ok := c.Rules[r]; !ok {
			rules = append(rules, r)
		}
	}
	sort.Slice(rules, func(i, j int) bool { return ruleLess(rules[i], rules[j]) })
	var expl []string
	ruleSummary := map[string]any{}
	for _, r := range rules {
		pr := perRule[r]
		fmt.Printf("RULE %-8s ok=%-4d violations=%-3d known=%-2d %s\n", r, pr[0], pr[1], pr[2], c.Rules[r])
		expl = append(expl, r+": "+c.Rules[r])
		ruleSummary[r] = map[string]int{"ok": pr[0], "violation_or_undecided": pr[1], "known_finding": pr[2]}
		if pr[0]+pr[1]+pr[2] == 0 {
			// a registered rule that produced no obligation is a vacuous pass: fail.
			o := Obligation{Rule: r, Construct: "floor:obligations", Status: Violation, Detail: "rule produced no obligation (vacuous)"}
			c.Obs = append(c.Obs, o)
			bad = append(bad, o)
			nviol++
		}
	}
	for _, n := range c.Notes {
		fmt.Println("NOTE:", n)
	}
	// samples: up to 12 spread across rules, plus every non-ok
	var samples []Obligation
	perRuleSample := map[string]int{}
	for _, o := range c.Obs {
		if o.Status != OK {
			samples = append(samples, o)
			continue
		}
		if perRuleSample[o.Rule] < 3 {
			perRuleSample[o.Rule]++
			samples = append(samples, o)
		}
	}
	cov := map[string]any{
		"explanation":         "static analysis of /repo's current working tree (type-checked syntax, go/ssa CFG/dominance/dataflow, call graph); rules applied — " + strings.Join(expl, " | "),
		"evaluations":         len(c.Obs),
		"distinct_nontrivial": len(distinct),
		"rule":                "one obligation per (rule, construct) instance found in the resolved program; distinct = distinct (rule, construct) keys excluding instance-count floors; every obligation is a concrete code construct, so none is trivial",
		"samples":             samples,
		"obligations":         len(c.Obs),
		"discharged":          len(c.Obs) - nviol - nknown,
		"per_rule":            ruleSummary,
		"analysed":            c.Analysed,
		"notes":               c.Notes,
		"known_findings":      nknown,
		"exhaustive":          true,
		"all_obligations":     c.Obs,
	}
	if len(c.Assumed) > 0 {
		cov["assumed_infeasible_or_trusted"] = c.Assumed
	}
	if c.Audit != nil {
		cov["audit"] = c.Audit
	}
	ev := evidence{PropertyID: c.Prop, Tier: c.Tier, Seed: seed, Level: "other", Coverage: cov,
		Assumptions: baseAssumptions, WallS: time.Since(c.start).Seconds(), Violations: nviol}
	evDir := filepath.Join(verifDir, "evidence")
	os.MkdirAll(filepath.Join(evDir, "replay"), 0o755)
	b, _ := json.MarshalIndent(ev, "", " ")
	if err := os.WriteFile(filepath.Join(evDir, c.Prop+".json"), b, 0o644); err != nil {
		fmt.Println("ERROR writing evidence:", err)
		return 2
	}
	// clear old replay files of this property
	old, _ := filepath.Glob(filepath.Join(evDir, "replay", c.Prop+"-*.json"))
	for _, f := range old {
		os.Remove(f)
	}
	for _, o := range c.Obs {
		if o.Known {
			what := o.Detail
			for _, k := range known.Findings {
				if k.Property == c.Prop && k.Rule == o.Rule && k.Construct == o.Construct {
					what = k.WhatFails
				}
			}
			fmt.Printf("KNOWN-FINDING: property=%s rule=%s construct=%q at %s: %s\n", c.Prop, o.Rule, o.Construct, o.Pos, what)
		}
	}
	for i, o := range bad {
		rp := filepath.Join(evDir, "replay", fmt.Sprintf("%s-%s-%d.json", c.Prop, strings.ReplaceAll(o.Rule, ".", "_"), i))
		rb, _ := json.MarshalIndent(o, "", " ")
		os.WriteFile(rp, rb, 0o644)
		fmt.Printf("FINDING rule=%s status=%s construct=%q at %s: %s\n", o.Rule, o.Status, o.Construct, o.Pos, o.Detail)
		for _, s := range o.Path {
			fmt.Println("    path:", s)
		}
		fmt.Printf("VIOLATION property=%s replay=%s\n", c.Prop, rp)
	}
	fmt.Printf("SUMMARY property=%s tier=%s obligations=%d ok=%d violations=%d known=%d wall=%.1fs\n",
		c.Prop, c.Tier, len(c.Obs), len(c.Obs)-nviol-nknown, nviol, nknown, time.Since(c.start).Seconds())
	if nviol > 0 {
		return 1
	}
	return 0
}

func ruleLess(a, b string) bool {
	pa, na := splitRule(a)
	pb, nb := splitRule(b)
	if pa != pb {
		return pa < pb
	}
	return na < nb
}

func splitRule(r string) (string, int) {
	i := strings.LastIndex(r, ".R")
	if i < 0 {
		return r, 0
	}
	n := 0
	fmt.Sscanf(r[i+2:], "%d", &n)
	return r[:i], n
}
