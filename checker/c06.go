package main

import (
	"fmt"
	"go/token"
	"go/types"
	"math"
	"sort"
	"strings"

	"golang.org/x/tools/go/ssa"
)

func init() { register("C06", checkC06) }

const dispPath = modPath + "/internal/dispatcher"

type errKind struct {
	name         string
	nonNil, deny bool
}

var errKinds = []errKind{{"nil", false, false}, {"policy-denied", true, true}, {"other-error", true, false}}

// acceptSets computes, per error kind, the StatusCode intervals on which a
// func(Result) bool returns true. undecided lists what could not be interpreted.
func acceptSets(fn *ssa.Function) (map[string][]ival, []string) {
	out := map[string][]ival{}
	var undecided []string
	paths := enumeratePaths(fn.Blocks[0], 500)
	if len(paths) >= 500 {
		undecided = append(undecided, "too many paths")
	}
	for _, p := range paths {
		for _, u := range p.Unknown {
			undecided = append(undecided, "guard not understood: "+u)
		}
		for _, half := range boolResultPaths(p) {
			if !half.Ok {
				undecided = append(undecided, "return value not understood at "+fmt.Sprint(p.Ret.Pos()))
				continue
			}
			if !half.Val {
				continue
			}
			code := []ival{ivalAll}
			for sym, iv := range half.St.ints {
				if strings.HasSuffix(sym, ".StatusCode") || sym == "code" {
					code = iv
				} else {
					undecided = append(undecided, "unexpected integer symbol "+sym)
				}
			}
			if len(half.St.rels) > 0 {
				undecided = append(undecided, "relational guard "+strings.Join(half.St.rels, ","))
			}
			for _, k := range errKinds {
				consistent := true
				for sym, val := range half.St.bools {
					switch {
					case strings.HasSuffix(sym, ".Err!=nil"):
						if val != k.nonNil {
							consistent = false
						}
					case strings.HasPrefix(sym, "errors.Is(") && strings.HasSuffix(sym, ".Err,ErrPolicyDenied)"):
						if val != k.deny {
							consistent = false
						}
					default:
						undecided = append(undecided, "unexpected boolean symbol "+sym)
					}
				}
				if consistent {
					out[k.name] = append(out[k.name], code...)
				}
			}
		}
	}
	for k := range out {
		out[k] = mergeIvals(out[k])
	}
	return out, dedup(undecided)
}

var successOracle = map[string][]ival{"nil": {{200, 299}}}
var retryOracle = map[string][]ival{"nil": {{408, 408}, {429, 429}, {500, math.MaxInt64}}, "other-error": {ivalAll}}

func setsEqual(a, b map[string][]ival) bool {
	for _, k := range errKinds {
		if !ivalsEqual(mergeIvals(append([]ival{}, a[k.name]...)), mergeIvals(append([]ival{}, b[k.name]...))) {
			return false
		}
	}
	return true
}

func setsString(a map[string][]ival) string {
	var s []string
	for _, k := range errKinds {
		s = append(s, k.name+":"+ivalsString(a[k.name]))
	}
	return strings.Join(s, " ")
}

// resultPredicates: functions of package dispatcher with signature func(Result) bool.
func resultPredicates(p *Program) []*ssa.Function {
	var out []*ssa.Function
	for _, fn := range p.FuncsInPkg("dispatcher") {
		if fn.Parent() != nil || fn.Signature.Recv() != nil {
			continue
		}
		ps, rs := fn.Signature.Params(), fn.Signature.Results()
		if ps.Len() == 1 && rs.Len() == 1 && namedName(ps.At(0).Type()) == "Result" && types.Identical(rs.At(0).Type(), types.Typ[types.Bool]) {
			out = append(out, fn)
		}
	}
	return out
}

func checkC06(c *Ctx) {
	p := c.P
	c.Rule("C06.R1", "status classes: the accept sets of the success and retry predicates over (error kind, status code), extracted as intervals from their guards, equal the documented classes")
	c.Rule("C06.R2", "decision table: every path of the classification after Deliver maps (success, retry, attempt<=retry.max, policy-denied) to the documented action/outcome/reason and records the attempt with that outcome")
	c.Rule("C06.R3", "action application: each action kind reaches exactly its Store method (single and batched), with the action's delay/reason")
	c.Rule("C06.R4", "compile-time retry constraints: max>0, 0<=jitter<=1, positive durations, base<=cap are enforced before a RetryConfig is accepted")

	var succFn, retryFn *ssa.Function
	preds := resultPredicates(p)
	c.Floor("C06.R1", "result_predicates", len(preds), 2)
	for _, fn := range preds {
		sets, und := acceptSets(p.View(fn))
		key := FuncName(fn) + ":accept-set"
		if len(und) > 0 {
			c.Undecided("C06.R1", key, p.Pos(fn.Pos()), strings.Join(und, "; "))
			continue
		}
		switch {
		case setsEqual(sets, successOracle):
			succFn = fn
			c.Ok("C06.R1", key, p.Pos(fn.Pos()), "success class = "+setsString(sets))
		case setsEqual(sets, retryOracle):
			retryFn = fn
			c.Ok("C06.R1", key, p.Pos(fn.Pos()), "retry class = "+setsString(sets))
		default:
			c.Fail("C06.R1", key, p.Pos(fn.Pos()), fmt.Sprintf("accept set %s equals neither the success class (%s) nor the retry class (%s)", setsString(sets), setsString(successOracle), setsString(retryOracle)))
		}
	}
	c.Check(succFn != nil, "C06.R1", "dispatcher:success-predicate-exists", "", "one predicate has exactly the success class", "no func(Result) bool has exactly the success class Err==nil ∧ 200<=code<=299")
	c.Check(retryFn != nil, "C06.R1", "dispatcher:retry-predicate-exists", "", "one predicate has exactly the retry class", "no func(Result) bool has exactly the retry class (non-denied error ∨ 408 ∨ 429 ∨ >=500)")
	if succFn == nil || retryFn == nil {
		return
	}

	// R2: the classification function = the one calling Deliverer.Deliver and both predicates
	// (helpers of the package are part of the function, except the two predicates and the backoff function — a
	// function of the retry configuration returning a duration —, which the table refers to by role)
	keep := func(callee *ssa.Function) bool {
		if callee == succFn || callee == retryFn {
			return true
		}
		rs := callee.Signature.Results()
		if rs.Len() == 1 && namedName(rs.At(0).Type()) == "Duration" {
			ps := callee.Signature.Params()
			for i := 0; i < ps.Len(); i++ {
				if namedName(ps.At(i).Type()) == "RetryConfig" {
					return true
				}
			}
		}
		return false
	}
	var classify *ssa.Function
	size := func(f *ssa.Function) int {
		n := 0
		for _, b := range f.Blocks {
			n += len(b.Instrs)
		}
		return n
	}
	for _, fn := range p.FuncsInPkg("dispatcher") {
		if fn.Parent() != nil {
			continue
		}
		v := p.ViewKeeping(fn, keep)
		hasDeliver := len(allCalls(v, func(ci ssa.CallInstruction) bool { return isInvokeOf(ci, dispPath, "Deliverer", "Deliver") })) > 0
		hasS := len(allCalls(v, func(ci ssa.CallInstruction) bool { return ci.Common().StaticCallee() == succFn })) > 0
		if hasDeliver && hasS && (classify == nil || size(v) < size(classify)) {
			classify = v
		}
	}
	if classify == nil {
		c.Fail("C06.R2", "dispatcher:classification-function", "", "no function calls Deliverer.Deliver and the success predicate")
		return
	}
	c.Rule("C06.R5", "an egress-policy denial stays recognisable: every denial wraps ErrPolicyDenied with %w and every re-wrap of a policy verdict on its way to the dispatcher uses %w, so the policy_denied row of the decision table is the one taken")
	checkActionOwnParameter(c, "C06.R3")
	checkSentinelPreserved(c, "C06.R5", p.policyModel())
	checkErrChainPreserved(c, "C06.R5")
	kinds := checkDecisionTable(c, "C06.R2", classify, succFn, retryFn)
	checkActionApplication(c, "C06.R3", kinds)
	checkRetryCompile(c, "C06.R4")
	c.Rule("C06.R6", "the backoff function: the term growing with the attempt number is not computed in wrapping integer arithmetic, the attempt number enters as attempt-1, every returned delay is bounded by Cap (directly, through min, or on an edge where value <= Cap holds) before or after the jitter, and the jitter factor lies in [1-J, 1+J] (interval arithmetic over affine forms of rand.Float64() and the configured jitter)")
	nBack := 0
	for _, fn := range p.FuncsInPkg("dispatcher") {
		if fn.Parent() == nil && fn != succFn && fn != retryFn && keep(fn) && len(p.CallSitesOf(fn)) > 0 {
			nBack++
			checkBackoffFunction(c, "C06.R6", fn)
		}
	}
	c.Floor("C06.R6", "backoff functions", nBack, 1)
	c.Rule("C06.R7", "one attempt is one send: no header write on the outgoing delivery request can name Idempotency-Key / X-Idempotency-Key (constant names are compared, data-driven names need an excluding guard), the names that make net/http's transport re-send a POST with a rewindable body on its own — unless GetBody is cleared")
	checkTransportReplay(c, "C06.R7")
}

// structFieldStores: constants / values stored into fields of a local struct cell.
func structFieldStores(a *ssa.Alloc) map[string]ssa.Value {
	out := map[string]ssa.Value{}
	for _, ref := range *a.Referrers() {
		fa, ok := ref.(*ssa.FieldAddr)
		if !ok {
			continue
		}
		_, f, _ := fieldAddrName(fa)
		for _, r2 := range *fa.Referrers() {
			if st, ok := r2.(*ssa.Store); ok && st.Addr == fa {
				out[f] = st.Val
			}
		}
	}
	return out
}

// structFieldStoresOnPath: the value each field of the local struct cell holds at the end of the path — the last
// store along the path's blocks, also through a whole-struct store of another cell's value.
func structFieldStoresOnPath(a *ssa.Alloc, blocks []*ssa.BasicBlock) map[string]ssa.Value {
	out := map[string]ssa.Value{}
	for _, b := range blocks {
		for _, ins := range b.Instrs {
			st, ok := ins.(*ssa.Store)
			if !ok {
				continue
			}
			if fa, ok := st.Addr.(*ssa.FieldAddr); ok && fa.X == ssa.Value(a) {
				_, f, _ := fieldAddrName(fa)
				out[f] = st.Val
			}
			if st.Addr == ssa.Value(a) {
				// *a = *b : take b's fields as they are at this point of the path
				if u, ok := st.Val.(*ssa.UnOp); ok {
					if src, ok := u.X.(*ssa.Alloc); ok && src != a {
						for f, v := range structFieldStoresOnPath(src, blocksUpTo(blocks, b)) {
							out[f] = v
						}
					}
				}
			}
		}
	}
	return out
}

func blocksUpTo(blocks []*ssa.BasicBlock, last *ssa.BasicBlock) []*ssa.BasicBlock {
	for i, b := range blocks {
		if b == last {
			return blocks[:i+1]
		}
	}
	return blocks
}

func resolvePhi(v ssa.Value, phis map[*ssa.Phi]ssa.Value) ssa.Value {
	for i := 0; i < 5; i++ {
		if phi, ok := v.(*ssa.Phi); ok {
			if pv, ok := phis[phi]; ok {
				v = pv
				continue
			}
		}
		break
	}
	return v
}

func constString(v ssa.Value) (string, bool) {
	for {
		switch x := v.(type) {
		case *ssa.ChangeType:
			v = x.X
			continue
		case *ssa.Convert:
			v = x.X
			continue
		}
		break
	}
	cst, ok := v.(*ssa.Const)
	if !ok || cst.Value == nil {
		return "", false
	}
	s := cst.Value.ExactString()
	if strings.HasPrefix(s, `"`) {
		return strings.Trim(s, `"`), true
	}
	return s, true
}

// checkDecisionTable returns the action-kind constants (ack, nack, dead).
func checkDecisionTable(c *Ctx, rule string, fn, succFn, retryFn *ssa.Function) map[string]int64 {
	p := c.P
	kinds := map[string]int64{}
	deliver := allCalls(fn, func(ci ssa.CallInstruction) bool { return isInvokeOf(ci, dispPath, "Deliverer", "Deliver") })[0]
	paths := enumeratePaths(deliver.Block(), 400)
	// outcome stores: attempt.Outcome = const on a local DeliveryAttempt cell
	rows := map[string]int{}
	nPaths := 0
	for _, pa := range paths {
		nPaths++
		var sT, rT, leT, denyT, sSeen, rSeen, leSeen, denySeen bool
		for sym, val := range pa.State.bools {
			switch {
			case strings.HasPrefix(sym, succFn.Name()+"("):
				sT, sSeen = val, true
			case strings.HasPrefix(sym, retryFn.Name()+"("):
				rT, rSeen = val, true
			case strings.HasPrefix(sym, "errors.Is(") && strings.HasSuffix(sym, "ErrPolicyDenied)"):
				denyT, denySeen = val, true
			}
		}
		for _, rel := range pa.State.rels {
			// env.Attempt<=target.Retry.Max
			if strings.Contains(rel, ".Attempt") && strings.Contains(rel, ".Retry.Max") {
				leSeen = true
				switch {
				case strings.Contains(rel, "<="):
					leT = true
				case strings.Contains(rel, ">") && !strings.Contains(rel, ">="):
					leT = false
				default:
					c.Fail(rule, FuncName(fn)+":attempt-bound-comparator", p.InstrPos(pa.Ret), "the attempt bound is not `attempt <= retry.max` (found "+rel+")")
				}
			}
		}
		_ = rSeen
		_ = denySeen
		// the returned action
		var fields map[string]ssa.Value
		if len(pa.Ret.Results) == 1 {
			rv := pa.Ret.Results[0]
			if u, ok := rv.(*ssa.UnOp); ok {
				if a, ok := u.X.(*ssa.Alloc); ok {
					fields = structFieldStoresOnPath(a, pa.Blocks)
				}
			}
		}
		if fields == nil {
			c.Undecided(rule, FuncName(fn)+":returned-action", p.InstrPos(pa.Ret), "cannot read the returned action literal")
			continue
		}
		kind, _ := intConst(fields["kind"])
		reasonV := resolvePhi(fields["reason"], pa.PhiPred)
		reason := ""
		if reasonV != nil {
			reason, _ = constString(reasonV)
		}
		// outcome recorded on the path: last Store to <attempt>.Outcome before the record call, in the path's blocks
		outcome, recorded := "", false
		var reasonRecorded string
		for _, b := range pa.Blocks {
			for _, ins := range b.Instrs {
				if st, ok := ins.(*ssa.Store); ok {
					if fa, ok := st.Addr.(*ssa.FieldAddr); ok {
						if tn, f, _ := fieldAddrName(fa); tn == "DeliveryAttempt" {
							if f == "Outcome" {
								outcome, _ = constString(st.Val)
							}
							if f == "DeadReason" {
								rv := st.Val
								// the reason read back from the action being built
								if u, ok := rv.(*ssa.UnOp); ok && u.Op == token.MUL {
									if fa2, ok := u.X.(*ssa.FieldAddr); ok {
										if a2, ok := fa2.X.(*ssa.Alloc); ok {
											_, f2, _ := fieldAddrName(fa2)
											if v2 := structFieldStoresOnPath(a2, blocksUpTo(pa.Blocks, b))[f2]; v2 != nil {
												rv = v2
											}
										}
									}
								}
								reasonRecorded, _ = constString(resolvePhi(rv, pa.PhiPred))
							}
						}
					}
				}
				if ci, ok := ins.(ssa.CallInstruction); ok {
					if isInvokeOf(ci, queuePath, "Store", "RecordAttempt") {
						recorded = true
					}
					if f := ci.Common().StaticCallee(); f != nil && p.FuncReaches(f, func(x ssa.CallInstruction) bool { return isInvokeOf(x, queuePath, "Store", "RecordAttempt") }, map[*ssa.Function]bool{}) {
						recorded = true
					}
				}
			}
		}
		var row, wantOutcome string
		switch {
		case sSeen && sT:
			row, wantOutcome = "success=>ack", "acked"
			kinds["ack"] = kind
		case rT && leSeen && leT:
			row, wantOutcome = "retryable∧attempt<=max=>nack", "retry"
			kinds["nack"] = kind
			// delay must be the result of a call taking (attempt, retry config)
			if call, ok := fields["delay"].(*ssa.Call); !ok || call.Call.StaticCallee() == nil {
				c.Fail(rule, FuncName(fn)+":"+row+":delay", p.InstrPos(pa.Ret), "nack delay is not the result of the backoff function")
			}
		case denyT:
			row, wantOutcome = "policy-denied=>dead(policy_denied)", "dead"
			kinds["dead"] = kind
			if reason != "policy_denied" {
				c.Fail(rule, FuncName(fn)+":"+row, p.InstrPos(pa.Ret), "policy denial dead-lettered with reason "+reason)
			}
		case rT:
			row, wantOutcome = "retryable∧attempt>max=>dead(max_retries)", "dead"
			kinds["dead"] = kind
			if reason != "max_retries" {
				c.Fail(rule, FuncName(fn)+":"+row, p.InstrPos(pa.Ret), "exhausted retries dead-lettered with reason "+reason)
			}
		default:
			row, wantOutcome = "not-retryable=>dead(no_retry)", "dead"
			kinds["dead"] = kind
			if reason != "no_retry" {
				c.Fail(rule, FuncName(fn)+":"+row, p.InstrPos(pa.Ret), "non-retryable failure dead-lettered with reason "+reason)
			}
		}
		if wantOutcome == "dead" && reasonRecorded != reason {
			c.Fail(rule, FuncName(fn)+":"+row+":recorded-reason", p.InstrPos(pa.Ret), fmt.Sprintf("attempt recorded with dead reason %q but message dead-lettered as %q", reasonRecorded, reason))
		}
		if !recorded || outcome != wantOutcome {
			c.Fail(rule, FuncName(fn)+":"+row+":attempt-recorded", p.InstrPos(pa.Ret), fmt.Sprintf("path does not record the attempt with outcome %q (recorded=%v outcome=%q)", wantOutcome, recorded, outcome))
		}
		rows[row]++
	}
	c.Count(rule+".paths", nPaths)
	var names []string
	for r := range rows {
		names = append(names, r)
	}
	sort.Strings(names)
	for _, want := range []string{"success=>ack", "retryable∧attempt<=max=>nack", "policy-denied=>dead(policy_denied)", "retryable∧attempt>max=>dead(max_retries)", "not-retryable=>dead(no_retry)"} {
		c.Check(rows[want] > 0, rule, FuncName(fn)+":row:"+want, p.Pos(fn.Pos()), fmt.Sprintf("%d path(s)", rows[want]), "decision table row missing: "+want)
	}
	distinct := map[int64]bool{}
	for _, k := range kinds {
		distinct[k] = true
	}
	c.Check(len(kinds) == 3 && len(distinct) == 3, rule, FuncName(fn)+":three-distinct-action-kinds", p.Pos(fn.Pos()), fmt.Sprint(kinds), "ack/nack/dead are not three distinct action kinds: "+fmt.Sprint(kinds))
	return kinds
}

func checkActionApplication(c *Ctx, rule string, kinds map[string]int64) {
	p := c.P
	want := map[string]string{"Ack": "ack", "AckBatch": "ack", "Nack": "nack", "NackBatch": "nack", "MarkDead": "dead", "MarkDeadBatch": "dead"}
	argField := map[string]string{"Nack": "delay", "MarkDead": "reason"}
	n := 0
	for _, fn := range p.FuncsInPkg("dispatcher") {
		for _, call := range allCalls(fn, func(ci ssa.CallInstruction) bool {
			com := ci.Common()
			return com.IsInvoke() && namedPkgPath(com.Value.Type()) == queuePath && want[com.Method.Name()] != ""
		}) {
			mname := call.Common().Method.Name()
			k := kinds[want[mname]]
			key := fmt.Sprintf("%s:%s", FuncName(fn), mname)
			if !hasKindDispatch(fn) {
				// no kind dispatch in this function: only the stop-path requeue (Nack) is allowed
				if mname == "Nack" {
					n++
					c.Ok(rule, key+":requeue-on-stop", p.InstrPos(call), "Nack outside the action dispatch (requeue of untouched leases)")
				} else {
					c.Fail(rule, key+":behind-kind", p.InstrPos(call), "Store."+mname+" called outside the action-kind dispatch")
				}
				continue
			}
			n++
			sites := []ssa.Instruction{call}
			how := "call site"
			if strings.HasSuffix(mname, "Batch") {
				if feed := batchFeedSites(fn, call); len(feed) > 0 {
					sites, how = feed, "grouping site(s) feeding the batch"
				}
			}
			bad := false
			for _, site := range sites {
				pk := possibleKinds(fn, site, kinds)
				if len(pk) != 1 || pk[0] != want[mname] {
					bad = true
					c.Fail(rule, key+":behind-kind", p.InstrPos(site), fmt.Sprintf("Store.%s can be reached for action kind(s) %v; must be exactly [%s]", mname, pk, want[mname]))
				}
			}
			if !bad {
				c.Ok(rule, key+":behind-kind", p.InstrPos(call), fmt.Sprintf("Store.%s reachable only for action.kind == %d (%s) — %s", mname, k, want[mname], how))
			}
			if f := argField[mname]; f != "" {
				arg := call.Common().Args[1]
				sym, _ := symOf(arg)
				c.Check(strings.HasSuffix(sym, "."+f), rule, key+":arg-"+f, p.InstrPos(call), "second argument is action."+f, fmt.Sprintf("Store.%s second argument is %q, not the action's %s", mname, sym, f))
			}
		}
	}
	c.Floor(rule, "store_settle_call_sites", n, 7)
}

// kindEdges: edges whose atom compares a `.kind` symbol with a constant.
func kindAtom(e Edge) (op token.Token, k int64, ok bool) {
	a, isIf := edgeAtom(e)
	if !isIf {
		return 0, 0, false
	}
	n, isC := intConst(a.Y)
	if !isC || (a.Op != token.EQL && a.Op != token.NEQ) {
		return 0, 0, false
	}
	if sym, ok := symOf(a.X); ok && strings.HasSuffix(sym, ".kind") {
		return a.Op, n, true
	}
	return 0, 0, false
}

func hasKindDispatch(fn *ssa.Function) bool {
	for _, b := range fn.Blocks {
		for i := range b.Succs {
			if _, _, ok := kindAtom(Edge{b, i}); ok {
				return true
			}
		}
	}
	return false
}

// possibleKinds: the action kinds for which site is reachable, i.e. reachable
// without taking an edge that contradicts action.kind == k.
func possibleKinds(fn *ssa.Function, site ssa.Instruction, kinds map[string]int64) []string {
	var out []string
	for _, name := range []string{"ack", "nack", "dead"} {
		k := kinds[name]
		av := EdgeSet{}
		for _, b := range fn.Blocks {
			for i := range b.Succs {
				if op, n, ok := kindAtom(Edge{b, i}); ok {
					if (op == token.EQL && n != k) || (op == token.NEQ && n == k) {
						av[Edge{b, i}] = true
					}
				}
			}
		}
		par := reach([]*ssa.BasicBlock{fn.Blocks[0]}, av, nil)
		if _, ok := par[site.Block()]; ok {
			out = append(out, name)
		}
	}
	return out
}

// batchFeedSites: the append / map-update sites that build the list handed to a *Batch call.
func batchFeedSites(fn *ssa.Function, call ssa.CallInstruction) []ssa.Instruction {
	arg := call.Common().Args[0]
	src := arg
	if cl, ok := arg.(*ssa.Call); ok && len(cl.Call.Args) == 1 {
		src = cl.Call.Args[0]
	}
	apps := appendSitesOf(src, fn)
	if len(apps) == 0 {
		if ex, ok := src.(*ssa.Extract); ok {
			if nx, ok := ex.Tuple.(*ssa.Next); ok {
				if r, ok := nx.Iter.(*ssa.Range); ok {
					for _, ref := range *r.X.Referrers() {
						if mu, ok := ref.(*ssa.MapUpdate); ok {
							apps = append(apps, mu)
						}
					}
				}
			}
		}
	}
	return apps
}

// checkRetryCompile: in package config, every store into dispatcher-facing RetryConfig
// fields is dominated by its validity guard.
func checkRetryCompile(c *Ctx, rule string) {
	p := c.P
	n := 0
	for _, fn := range p.FuncsInPkg("config") {
		for _, b := range fn.Blocks {
			for _, ins := range b.Instrs {
				st, ok := ins.(*ssa.Store)
				if !ok {
					continue
				}
				fa, ok := st.Addr.(*ssa.FieldAddr)
				if !ok {
					continue
				}
				tn, f, _ := fieldAddrName(fa)
				if tn != "RetryConfig" || (f != "Max" && f != "Jitter") {
					continue
				}
				if _, isConst := st.Val.(*ssa.Const); isConst {
					continue // defaults
				}
				n++
				// guard: some edge with atom (val > 0) / (val >= 0 ∧ val <= 1)
				var guards []Edge
				for _, bb := range fn.Blocks {
					for i := range bb.Succs {
						a, ok := edgeAtom(Edge{bb, i})
						if !ok {
							continue
						}
						if a.X == st.Val || sameOrigin(a.X, st.Val) {
							if f == "Max" && ((a.Op == token.GTR && isIntConst(a.Y, 0)) || (a.Op == token.GEQ && isIntConst(a.Y, 1))) {
								guards = append(guards, Edge{bb, i})
							}
							if f == "Jitter" && (a.Op == token.LEQ || a.Op == token.GEQ) {
								guards = append(guards, Edge{bb, i})
							}
						}
					}
				}
				key := fmt.Sprintf("config.%s:RetryConfig.%s", FuncName(fn), f)
				okp, path := p.MustPass(fn, st, guards)
				if okp && len(guards) > 0 {
					c.Ok(rule, key, p.InstrPos(st), "store is behind its range guard")
				} else {
					c.Fail(rule, key, p.InstrPos(st), "RetryConfig."+f+" accepted without its range guard", path...)
				}
			}
		}
	}
	c.Floor(rule, "guarded_retry_field_stores", n, 2)
}

func sameOrigin(a, b ssa.Value) bool {
	oa, ia := origin(a)
	ob, ib := origin(b)
	return oa == ob && ia == ib
}
