package main

import (
	"fmt"
	"go/ast"
	"go/token"
	"go/types"
	"regexp"
	"sort"
	"strings"

	"golang.org/x/tools/go/ssa"
)

// C13.R7 — retention parity.
//
// Every backend prunes on access by the operator's retention settings. Which items disappear, and
// when, is observable (listings, counts, a later dequeue), so per retention class (the state pruned)
// the age field compared, the boundary (closed/open) and the setting the cut-off derives from must be
// the same in the memory store and in SQLite. Postgres is compared as well and printed as a note (F8).

type retentionClass struct {
	state   string
	fields  []string // envelope fields the age is measured from
	op      string   // "<=" or "<": item pruned when age-field op cutoff
	setting []string // store fields the cut-off derives from
	pos     string
}

func (r retentionClass) String() string {
	return fmt.Sprintf("%s %s now-%s", strings.Join(r.fields, "|"), r.op, strings.Join(r.setting, "|"))
}

var colToField = map[string]string{"received_at": "ReceivedAt", "next_run_at": "NextRunAt", "lease_until": "LeaseUntil"}

var reRetState = regexp.MustCompile(`(?i)^state\s*=\s*'([a-z_]+)'$`)

// dominatingConds lists branch outcomes that hold whenever block b executes (within the loop headed by stop, if any).
func dominatingConds(b *ssa.BasicBlock, stop *ssa.BasicBlock) []pathCond {
	reaches := func(from, to *ssa.BasicBlock) bool {
		if from == to {
			return true
		}
		seen := map[*ssa.BasicBlock]bool{from: true}
		work := []*ssa.BasicBlock{from}
		for len(work) > 0 {
			x := work[len(work)-1]
			work = work[:len(work)-1]
			if x == stop {
				continue
			}
			for _, s := range x.Succs {
				if s == to {
					return true
				}
				if !seen[s] {
					seen[s] = true
					work = append(work, s)
				}
			}
		}
		return false
	}
	var out []pathCond
	for x := b.Idom(); x != nil; x = x.Idom() {
		if ifi, ok := x.Instrs[len(x.Instrs)-1].(*ssa.If); ok {
			for i := 0; i < 2; i++ {
				if reaches(x.Succs[i], b) && !reaches(x.Succs[1-i], b) {
					cond, val := ifi.Cond, i == 0
					for {
						if u, ok := cond.(*ssa.UnOp); ok && u.Op == token.NOT {
							cond, val = u.X, !val
							continue
						}
						break
					}
					out = append(out, pathCond{cond, val})
				}
			}
		}
		if x == stop {
			break
		}
	}
	return out
}

// storeFieldsIn collects names of fields of the store receiver loaded anywhere in v's definition.
func storeFieldsIn(v ssa.Value, typeName string, depth int, seen map[ssa.Value]bool, out map[string]bool) {
	if v == nil || seen[v] || depth > 8 {
		return
	}
	seen[v] = true
	if tn, f, ok := fieldOfLoad(v); ok && tn == typeName {
		out[f] = true
		return
	}
	if ins, ok := v.(ssa.Instruction); ok {
		for _, op := range ins.Operands(nil) {
			if *op != nil {
				storeFieldsIn(*op, typeName, depth+1, seen, out)
			}
		}
	}
}

func sortedKeys(m map[string]bool) []string {
	var out []string
	for k := range m {
		out = append(out, k)
	}
	sort.Strings(out)
	return out
}

func memoryRetentionClasses(p *Program) []retentionClass {
	var out []retentionClass
	// deleters: MemoryStore methods containing delete(s.items, …)
	deletes := func(f *ssa.Function) bool {
		for _, b := range f.Blocks {
			for _, ins := range b.Instrs {
				if call, ok := ins.(*ssa.Call); ok {
					if bi, ok := call.Call.Value.(*ssa.Builtin); ok && bi.Name() == "delete" {
						if tn, f, ok := fieldOfLoad(call.Call.Args[0]); ok && tn == "MemoryStore" && f == p.rolesOf("MemoryStore").items {
							return true
						}
					}
				}
			}
		}
		return false
	}
	for _, fn := range p.MethodsOf("queue", "MemoryStore") {
		for _, ci := range allCalls(fn, nil) {
			g := ci.Common().StaticCallee()
			isDel := g != nil && IsModuleFunc(g) && deletes(g)
			if call, ok := ci.(*ssa.Call); ok && !isDel {
				if bi, ok := call.Call.Value.(*ssa.Builtin); ok && bi.Name() == "delete" {
					if tn, f, ok := fieldOfLoad(call.Call.Args[0]); ok && tn == "MemoryStore" && f == p.rolesOf("MemoryStore").items {
						isDel = true
					}
				}
			}
			if !isDel {
				continue
			}
			h := loopHeaderOf(ci.Block())
			if h == nil {
				continue
			}
			rc := retentionClass{pos: p.InstrPos(ci)}
			fields := map[string]bool{}
			setting := map[string]bool{}
			for _, pc := range dominatingConds(ci.Block(), h) {
				switch x := pc.Cond.(type) {
				case *ssa.BinOp:
					a := condAtom(x, pc.Val)
					if _, f, ok := fieldOfLoad(a.X); ok && f == "State" && a.Op == token.EQL {
						if cst, ok := a.Y.(*ssa.Const); ok && cst.Value != nil {
							rc.state = strings.Trim(cst.Value.ExactString(), `"`)
						}
					}
				case *ssa.Call:
					g := x.Call.StaticCallee()
					if g == nil || g.Pkg == nil || g.Pkg.Pkg.Path() != "time" || len(x.Call.Args) != 2 {
						continue
					}
					recv, arg := x.Call.Args[0], x.Call.Args[1]
					op := ""
					switch {
					case g.Name() == "After" && !pc.Val:
						op = "<="
					case g.Name() == "Before" && pc.Val:
						op = "<"
					case g.Name() == "Before" && !pc.Val:
						op = ">="
					case g.Name() == "After" && pc.Val:
						op = ">"
					}
					st := map[string]bool{}
					storeFieldsIn(arg, "MemoryStore", 0, map[ssa.Value]bool{}, st)
					if len(st) == 0 {
						continue // not a retention cut-off comparison
					}
					rc.op = op
					for k := range st {
						setting[k] = true
					}
					for _, s := range p.sourcesThroughWrappers(recv, 0) {
						if s.Kind == "field" && strings.HasPrefix(s.Desc, "Envelope.") {
							fields[strings.TrimPrefix(s.Desc, "Envelope.")] = true
						} else if s.Kind != "const" {
							fields["?"+s.Desc] = true
						}
					}
				}
			}
			if rc.op == "" || rc.state == "" {
				continue
			}
			rc.fields, rc.setting = sortedKeys(fields), sortedKeys(setting)
			out = append(out, rc)
		}
	}
	return out
}

func sqlRetentionClasses(p *Program, backend string) []retentionClass {
	m := p.SQL()
	var out []retentionClass
	for _, s := range m.Stmts {
		if s.Backend != backend || s.Verb() != "DELETE" || s.Table() != "queue_items" || s.Fn == nil {
			continue
		}
		rc := retentionClass{pos: s.Pos}
		for _, w := range s.St.where {
			if mm := reRetState.FindStringSubmatch(strings.TrimSpace(m.R(s, w))); mm != nil {
				rc.state = mm[1]
				continue
			}
			mm := reCmp.FindStringSubmatch(strings.TrimSpace(w))
			if mm == nil || colToField[strings.ToLower(mm[1])] == "" {
				continue
			}
			ex := m.operandExpr(s, mm[3])
			if ex == nil {
				continue
			}
			obj, _ := s.Fn.Object().(*types.Func)
			fd, pk := p.funcDecl(obj)
			if fd == nil {
				continue
			}
			setting := map[string]bool{}
			collectRecvFields(pk.TypesInfo, fd, ex, 0, setting)
			if len(setting) == 0 {
				continue
			}
			rc.fields = []string{colToField[strings.ToLower(mm[1])]}
			rc.op = mm[2]
			rc.setting = sortedKeys(setting)
		}
		if rc.state != "" && rc.op != "" {
			out = append(out, rc)
		}
	}
	return out
}

// collectRecvFields: names of struct fields selected on the method receiver inside ex, following local variables.
func collectRecvFields(info *types.Info, fd *ast.FuncDecl, ex ast.Expr, depth int, out map[string]bool) {
	if depth > 3 {
		return
	}
	var recv *types.Var
	if fd.Recv != nil && len(fd.Recv.List) > 0 && len(fd.Recv.List[0].Names) > 0 {
		recv, _ = info.Defs[fd.Recv.List[0].Names[0]].(*types.Var)
	}
	ast.Inspect(ex, func(n ast.Node) bool {
		switch x := n.(type) {
		case *ast.SelectorExpr:
			if id, ok := x.X.(*ast.Ident); ok && recv != nil && info.Uses[id] == recv {
				if sel := info.Selections[x]; sel != nil && sel.Kind() == types.FieldVal {
					out[x.Sel.Name] = true
				}
			}
		case *ast.Ident:
			if v, ok := info.Uses[x].(*types.Var); ok && v != recv && !v.IsField() {
				// nearest preceding assignment in the same block chain: take all assignments that
				// textually precede ex and are closest (the prune code re-declares cutoff per class)
				var best ast.Expr
				var bestPos token.Pos
				ast.Inspect(fd.Body, func(k ast.Node) bool {
					as, ok := k.(*ast.AssignStmt)
					if !ok || len(as.Lhs) != len(as.Rhs) {
						return true
					}
					for i, l := range as.Lhs {
						if lid, ok := l.(*ast.Ident); ok && (info.Defs[lid] == v || info.Uses[lid] == v) {
							if as.Pos() < ex.Pos() && as.Pos() > bestPos {
								best, bestPos = as.Rhs[i], as.Pos()
							}
						}
					}
					return true
				})
				if best != nil {
					collectRecvFields(info, fd, best, depth+1, out)
				}
			}
		}
		return true
	})
}

func checkRetentionParity(c *Ctx, rule string) {
	mem := memoryRetentionClasses(c.P)
	sq := sqlRetentionClasses(c.P, "sqlite")
	pg := sqlRetentionClasses(c.P, "postgres")
	c.Count("memory retention classes", len(mem))
	c.Count("sqlite retention classes", len(sq))
	index := func(xs []retentionClass) map[string]retentionClass {
		out := map[string]retentionClass{}
		for _, x := range xs {
			out[x.state] = x
		}
		return out
	}
	mi, si, pi := index(mem), index(sq), index(pg)
	states := map[string]bool{}
	for k := range mi {
		states[k] = true
	}
	for k := range si {
		states[k] = true
	}
	for _, st := range sortedKeys(states) {
		a, okA := mi[st]
		b, okB := si[st]
		construct := "retention of " + st + " items:memory vs sqlite"
		if !okA || !okB {
			pos := a.pos
			if !okA {
				pos = b.pos
			}
			c.Fail(rule, construct, pos, fmt.Sprintf("age-based pruning of %s items exists in memory=%v sqlite=%v", st, okA, okB))
			continue
		}
		fieldsOK := len(a.fields) == 1 && a.fields[0] == b.fields[0]
		// frozen exception: measuring from NextRunAt, the memory store falls back to ReceivedAt when NextRunAt
		// is the zero time (the SQL column is NOT NULL, so the fallback never applies there)
		if !fieldsOK && b.fields[0] == "NextRunAt" && strings.Join(a.fields, ",") == "NextRunAt,ReceivedAt" {
			fieldsOK = true
		}
		ok := fieldsOK && a.op == b.op && strings.Join(a.setting, ",") == strings.Join(b.setting, ",")
		c.Check(ok, rule, construct, a.pos,
			"both prune when "+b.String(),
			fmt.Sprintf("memory prunes %s items when %s, sqlite (%s) when %s: with that retention configured the two backends keep different items", st, a.String(), b.pos, b.String()))
		if pgc, has := pi[st]; has {
			if strings.Join(pgc.fields, ",") != strings.Join(b.fields, ",") || pgc.op != b.op {
				c.Note("C13.R7: Postgres prunes %s items when %s, SQLite when %s (not armed: cannot be demonstrated without a server, F8)", st, pgc.String(), b.String())
			}
		}
	}
	c.Floor(rule, "retention classes compared", len(states), 3)
}
