package main

// K2: control-flow kernel on go/ssa — guard edges with branch polarity,
// must-pass-through and no-path queries, loop-iteration obligations.

import (
	"fmt"
	"go/constant"
	"go/token"
	"go/types"

	"golang.org/x/tools/go/ssa"
)

// Edge is the CFG edge From -> From.Succs[Idx].
type Edge struct {
	From *ssa.BasicBlock
	Idx  int
}

func (e Edge) To() *ssa.BasicBlock { return e.From.Succs[e.Idx] }

type EdgeSet map[Edge]bool

func (s EdgeSet) addAll(es []Edge) {
	for _, e := range es {
		s[e] = true
	}
}

// Atom is a normalised branch condition: X Op Y holds on the edge.
// Op is one of == != < <= > >= ; for plain booleans Y is the constant true.
type Atom struct {
	X  ssa.Value
	Op token.Token
	Y  ssa.Value
}

func negate(op token.Token) token.Token {
	switch op {
	case token.EQL:
		return token.NEQ
	case token.NEQ:
		return token.EQL
	case token.LSS:
		return token.GEQ
	case token.GEQ:
		return token.LSS
	case token.GTR:
		return token.LEQ
	case token.LEQ:
		return token.GTR
	}
	return token.ILLEGAL
}

func flipSides(op token.Token) token.Token {
	switch op {
	case token.LSS:
		return token.GTR
	case token.GTR:
		return token.LSS
	case token.LEQ:
		return token.GEQ
	case token.GEQ:
		return token.LEQ
	}
	return op
}

var trueConst = ssa.NewConst(constant.MakeBool(true), types.Typ[types.Bool])

// condAtom returns the atom that holds when cond evaluates to `want`.
func condAtom(cond ssa.Value, want bool) Atom {
	for {
		if u, ok := cond.(*ssa.UnOp); ok && u.Op == token.NOT {
			cond = u.X
			want = !want
			continue
		}
		break
	}
	if b, ok := cond.(*ssa.BinOp); ok {
		switch b.Op {
		case token.EQL, token.NEQ, token.LSS, token.LEQ, token.GTR, token.GEQ:
			op := b.Op
			if !want {
				op = negate(op)
			}
			x, y := b.X, b.Y
			// normalise: constant on the right
			if _, isC := x.(*ssa.Const); isC {
				if _, isC2 := y.(*ssa.Const); !isC2 {
					x, y = y, x
					op = flipSides(op)
				}
			}
			// bool == true / false
			if c, ok := y.(*ssa.Const); ok && c.Value != nil && c.Value.Kind() == constant.Bool && (op == token.EQL || op == token.NEQ) {
				w := constant.BoolVal(c.Value)
				if op == token.NEQ {
					w = !w
				}
				return condAtom(x, w)
			}
			return Atom{x, op, y}
		}
	}
	if want {
		return Atom{cond, token.EQL, trueConst}
	}
	return Atom{cond, token.NEQ, trueConst}
}

// edgeAtom returns the atom established on edge e (ok=false if the block does
// not end in an If).
func edgeAtom(e Edge) (Atom, bool) {
	if len(e.From.Instrs) == 0 {
		return Atom{}, false
	}
	ifi, ok := e.From.Instrs[len(e.From.Instrs)-1].(*ssa.If)
	if !ok {
		return Atom{}, false
	}
	return condAtom(ifi.Cond, e.Idx == 0), true
}

func isNilConst(v ssa.Value) bool {
	c, ok := v.(*ssa.Const)
	return ok && c.Value == nil
}

func isIntConst(v ssa.Value, n int64) bool {
	c, ok := v.(*ssa.Const)
	if !ok || c.Value == nil || c.Value.Kind() != constant.Int {
		return false
	}
	i, exact := constant.Int64Val(c.Value)
	return exact && i == n
}

func intConst(v ssa.Value) (int64, bool) {
	c, ok := v.(*ssa.Const)
	if !ok || c.Value == nil || c.Value.Kind() != constant.Int {
		return 0, false
	}
	i, exact := constant.Int64Val(c.Value)
	return i, exact
}

func isBoolTrue(v ssa.Value) bool { return v == trueConst }

// origin strips value-preserving wrappers and resolves loads from local cells.
// It returns the defining value and, for tuple extracts, the result index
// (-1 when the value is the whole single result).
func origin(v ssa.Value) (ssa.Value, int) {
	return originRec(v, map[ssa.Value]bool{})
}

func originRec(v ssa.Value, visiting map[ssa.Value]bool) (ssa.Value, int) {
	idx := -1
	for i := 0; i < 20; i++ {
		switch x := v.(type) {
		case *ssa.Extract:
			idx = x.Index
			v = x.Tuple
			return v, idx
		case *ssa.ChangeInterface:
			v = x.X
		case *ssa.ChangeType:
			v = x.X
		case *ssa.MakeInterface:
			v = x.X
		case *ssa.UnOp:
			if x.Op == token.MUL {
				if a, ok := x.X.(*ssa.Alloc); ok {
					if sv := reachingStore(a, x); sv != nil {
						v = sv
						continue
					}
				}
			}
			return v, idx
		case *ssa.Phi:
			// phi whose operands all share one origin
			var o ssa.Value
			oi := -1
			same := true
			if visiting[x] {
				return v, idx
			}
			visiting[x] = true
			for _, e := range x.Edges {
				if e == x {
					continue
				}
				eo, ei := originRec(e, visiting)
				if eo == x {
					continue // loop-carried self reference
				}
				if o == nil {
					o, oi = eo, ei
				} else if eo != o || ei != oi {
					same = false
				}
			}
			if same && o != nil && o != v {
				return o, oi
			}
			return v, idx
		default:
			return v, idx
		}
	}
	return v, idx
}

// reachingStore finds the value of the unique store to local cell a that
// reaches load ld along straight-line/single-predecessor code. nil if unknown.
func reachingStore(a *ssa.Alloc, ld ssa.Instruction) ssa.Value {
	b := ld.Block()
	// position of ld in its block
	start := -1
	for i, ins := range b.Instrs {
		if ins == ld {
			start = i
			break
		}
	}
	seen := map[*ssa.BasicBlock]bool{}
	for b != nil && !seen[b] {
		seen[b] = true
		for i := start - 1; i >= 0; i-- {
			switch s := b.Instrs[i].(type) {
			case *ssa.Store:
				if s.Addr == a {
					return s.Val
				}
			case ssa.CallInstruction:
				// a call could write the cell only if its address escaped into it
				for _, arg := range s.Common().Args {
					if arg == a {
						return nil
					}
				}
			}
		}
		if len(b.Preds) != 1 {
			// all predecessors must agree: look for the same store value
			if len(b.Preds) == 0 {
				return nil
			}
			var val ssa.Value
			for _, p := range b.Preds {
				v := lastStoreIn(a, p, seen)
				if v == nil {
					return nil
				}
				if val == nil {
					val = v
				} else if val != v {
					return nil
				}
			}
			return val
		}
		b = b.Preds[0]
		start = len(b.Instrs)
	}
	return nil
}

func lastStoreIn(a *ssa.Alloc, b *ssa.BasicBlock, seen map[*ssa.BasicBlock]bool) ssa.Value {
	for depth := 0; depth < 50 && b != nil; depth++ {
		for i := len(b.Instrs) - 1; i >= 0; i-- {
			if s, ok := b.Instrs[i].(*ssa.Store); ok && s.Addr == a {
				return s.Val
			}
		}
		if len(b.Preds) != 1 || seen[b] {
			return nil
		}
		seen[b] = true
		b = b.Preds[0]
	}
	return nil
}

// Outcome describes which result of a call is tested and what "ok" means.
type Outcome int

const (
	ErrNil    Outcome = iota // the call's error result (last result of type error) == nil
	BoolTrue                 // the call's (last) bool result is true
	BoolFalse                // the call's (last) bool result is false
	IntZero                  // the call's (last) int result == 0
	NonNilPtr                // the call's (first) pointer/interface result != nil
	ErrNonNil                // error result != nil
)

// resultIndex picks the result the outcome refers to; -1 = single result.
func resultIndex(call ssa.CallInstruction, oc Outcome) (int, bool) {
	sig := call.Common().Signature()
	res := sig.Results()
	n := res.Len()
	if n == 0 {
		return 0, false
	}
	match := func(t types.Type) bool {
		switch oc {
		case ErrNil, ErrNonNil:
			return types.Identical(t, types.Universe.Lookup("error").Type())
		case BoolTrue, BoolFalse:
			b, ok := t.Underlying().(*types.Basic)
			return ok && b.Kind() == types.Bool
		case IntZero:
			b, ok := t.Underlying().(*types.Basic)
			return ok && b.Info()&types.IsInteger != 0
		case NonNilPtr:
			switch t.Underlying().(type) {
			case *types.Pointer, *types.Interface, *types.Map, *types.Slice, *types.Signature:
				return true
			}
		}
		return false
	}
	if oc == NonNilPtr {
		for i := 0; i < n; i++ {
			if match(res.At(i).Type()) {
				if n == 1 {
					return -1, true
				}
				return i, true
			}
		}
		return 0, false
	}
	for i := n - 1; i >= 0; i-- {
		if match(res.At(i).Type()) {
			if n == 1 {
				return -1, true
			}
			return i, true
		}
	}
	return 0, false
}

// atomMatchesOutcome: does atom (about value with origin call/idx) establish oc (1), its negation (-1), or neither (0)?
func atomOutcome(a Atom, oc Outcome) int {
	switch oc {
	case ErrNil, ErrNonNil:
		if !isNilConst(a.Y) {
			return 0
		}
		r := 0
		if a.Op == token.EQL {
			r = 1
		} else if a.Op == token.NEQ {
			r = -1
		}
		if oc == ErrNonNil {
			r = -r
		}
		return r
	case NonNilPtr:
		if !isNilConst(a.Y) {
			return 0
		}
		if a.Op == token.NEQ {
			return 1
		} else if a.Op == token.EQL {
			return -1
		}
	case BoolTrue, BoolFalse:
		if !isBoolTrue(a.Y) {
			return 0
		}
		r := 0
		if a.Op == token.EQL {
			r = 1
		} else if a.Op == token.NEQ {
			r = -1
		}
		if oc == BoolFalse {
			r = -r
		}
		return r
	case IntZero:
		if !isIntConst(a.Y, 0) {
			return 0
		}
		if a.Op == token.EQL {
			return 1
		} else if a.Op == token.NEQ {
			return -1
		}
	}
	return 0
}

// GuardEdges returns, for the given calls, the edges on which the outcome is
// established (ok) and on which its negation is established (fail). tested
// reports for each call whether some branch tests its result.
func GuardEdges(fn *ssa.Function, calls []ssa.CallInstruction, oc Outcome) (ok, fail []Edge, untested []ssa.CallInstruction) {
	type key struct {
		v   ssa.Value
		idx int
	}
	want := map[key]ssa.CallInstruction{}
	tested := map[ssa.CallInstruction]bool{}
	for _, c := range calls {
		v, isV := c.(ssa.Value)
		if !isV {
			continue // go/defer: no result
		}
		idx, okk := resultIndex(c, oc)
		if !okk {
			continue
		}
		want[key{v, idx}] = c
	}
	for _, b := range fn.Blocks {
		if len(b.Instrs) == 0 {
			continue
		}
		ifi, isIf := b.Instrs[len(b.Instrs)-1].(*ssa.If)
		if !isIf {
			continue
		}
		for i := 0; i < 2; i++ {
			a := condAtom(ifi.Cond, i == 0)
			o, idx := origin(a.X)
			var matched []ssa.CallInstruction
			if c, found := want[key{o, idx}]; found {
				matched = []ssa.CallInstruction{c}
			} else if phi, isPhi := o.(*ssa.Phi); isPhi {
				// err = f() in one branch, err = g() in the other, tested after the merge
				// (an alternative that is the constant of the failing outcome — "dropped := false" before an optional
				// call — only adds paths to the failing edge: the succeeding edge still means a call succeeded)
				all := true
				for _, e := range phi.Edges {
					eo, ei := origin(e)
					if c, found := want[key{eo, ei}]; found {
						matched = append(matched, c)
					} else if isFailingConst(e, oc) {
						continue
					} else {
						all = false
					}
				}
				if !all {
					matched = nil
				}
			}
			if len(matched) == 0 {
				continue
			}
			switch atomOutcome(a, oc) {
			case 1:
				ok = append(ok, Edge{b, i})
				for _, c := range matched {
					tested[c] = true
				}
			case -1:
				fail = append(fail, Edge{b, i})
				for _, c := range matched {
					tested[c] = true
				}
			}
		}
	}
	for _, c := range calls {
		if !tested[c] {
			untested = append(untested, c)
		}
	}
	return
}

// reach does a forward search over blocks from the given start blocks, never
// taking an edge in avoid and never leaving through a block in stop (stop
// blocks are reached but not expanded). It returns the parent map.
func reach(starts []*ssa.BasicBlock, avoid EdgeSet, stop map[*ssa.BasicBlock]bool) map[*ssa.BasicBlock]*ssa.BasicBlock {
	parent := map[*ssa.BasicBlock]*ssa.BasicBlock{}
	var q []*ssa.BasicBlock
	for _, s := range starts {
		if _, ok := parent[s]; !ok {
			parent[s] = nil
			q = append(q, s)
		}
	}
	for len(q) > 0 {
		b := q[0]
		q = q[1:]
		if stop != nil && stop[b] {
			continue
		}
		for i, s := range b.Succs {
			if avoid != nil && avoid[Edge{b, i}] {
				continue
			}
			if _, ok := parent[s]; !ok {
				parent[s] = b
				q = append(q, s)
			}
		}
	}
	return parent
}

func (p *Program) blockPath(parent map[*ssa.BasicBlock]*ssa.BasicBlock, to *ssa.BasicBlock) []string {
	var chain []*ssa.BasicBlock
	for b := to; b != nil; b = parent[b] {
		chain = append(chain, b)
		if len(chain) > 200 {
			break
		}
	}
	var out []string
	for i := len(chain) - 1; i >= 0; i-- {
		b := chain[i]
		pos := "-"
		for _, ins := range b.Instrs {
			if ins.Pos().IsValid() {
				pos = p.Pos(ins.Pos())
				break
			}
		}
		out = append(out, fmt.Sprintf("block %d (%s) %s", b.Index, b.Comment, pos))
	}
	return out
}

// MustPass reports whether every path from the function entry to sink's block
// takes one of the edges in through. When it does not, a witness path is returned.
func (p *Program) MustPass(fn *ssa.Function, sink ssa.Instruction, through []Edge) (bool, []string) {
	av := EdgeSet{}
	av.addAll(through)
	par := reach([]*ssa.BasicBlock{fn.Blocks[0]}, av, nil)
	if _, ok := par[sink.Block()]; ok {
		return false, p.blockPath(par, sink.Block())
	}
	return true, nil
}

// MustPassBlock is MustPass for a block.
func (p *Program) MustPassBlock(fn *ssa.Function, blk *ssa.BasicBlock, through []Edge) (bool, []string) {
	av := EdgeSet{}
	av.addAll(through)
	par := reach([]*ssa.BasicBlock{fn.Blocks[0]}, av, nil)
	if _, ok := par[blk]; ok {
		return false, p.blockPath(par, blk)
	}
	return true, nil
}

// NoPathFrom reports whether no path starting with one of the edges in from
// reaches sink's block (without taking an edge in avoid).
func (p *Program) NoPathFrom(from []Edge, sink ssa.Instruction, avoid []Edge) (bool, []string) {
	av := EdgeSet{}
	av.addAll(avoid)
	var starts []*ssa.BasicBlock
	for _, e := range from {
		starts = append(starts, e.To())
	}
	par := reach(starts, av, nil)
	if _, ok := par[sink.Block()]; ok {
		return false, p.blockPath(par, sink.Block())
	}
	return true, nil
}

// instrIndex returns the index of ins in its block.
func instrIndex(ins ssa.Instruction) int {
	for i, x := range ins.Block().Instrs {
		if x == ins {
			return i
		}
	}
	return -1
}

// InstrDominates: a is executed before b on every path to b.
func InstrDominates(a, b ssa.Instruction) bool {
	if a.Block() == b.Block() {
		return instrIndex(a) < instrIndex(b)
	}
	return a.Block().Dominates(b.Block())
}

// MustPassInstr: every path from entry to sink executes at least one of the
// `through` instructions before it.
func (p *Program) MustPassInstr(fn *ssa.Function, sink ssa.Instruction, through []ssa.Instruction) (bool, []string) {
	// same block, earlier
	for _, t := range through {
		if t.Block() == sink.Block() && instrIndex(t) < instrIndex(sink) {
			return true, nil
		}
	}
	stop := map[*ssa.BasicBlock]bool{}
	for _, t := range through {
		if t.Block() != sink.Block() {
			stop[t.Block()] = true
		}
	}
	if stop[fn.Blocks[0]] {
		return true, nil
	}
	par := reach([]*ssa.BasicBlock{fn.Blocks[0]}, nil, stop)
	if _, ok := par[sink.Block()]; ok && !stop[sink.Block()] {
		return false, p.blockPath(par, sink.Block())
	}
	return true, nil
}

// allCalls lists call instructions (incl. go/defer) of fn satisfying pred.
func allCalls(fn *ssa.Function, pred func(ssa.CallInstruction) bool) []ssa.CallInstruction {
	var out []ssa.CallInstruction
	for _, b := range fn.Blocks {
		for _, ins := range b.Instrs {
			if c, ok := ins.(ssa.CallInstruction); ok && (pred == nil || pred(c)) {
				out = append(out, c)
			}
		}
	}
	return out
}

// calleeIs: static callee (function or method) with the given package path and name.
// recv is "" for package-level functions, or the receiver's named type name.
func calleeIs(c ssa.CallInstruction, pkgpath, recv, name string) bool {
	com := c.Common()
	if com.IsInvoke() {
		m := com.Method
		if m.Name() != name || m.Pkg() == nil && pkgpath != "" {
			return false
		}
		if m.Pkg() != nil && m.Pkg().Path() != pkgpath {
			return false
		}
		if recv == "" {
			return false
		}
		return namedName(com.Value.Type()) == recv
	}
	f := com.StaticCallee()
	if f == nil {
		return false
	}
	return funcIs(f, pkgpath, recv, name)
}

func funcIs(f *ssa.Function, pkgpath, recv, name string) bool {
	if f.Name() != name {
		return false
	}
	o := f.Object()
	if o == nil || o.Pkg() == nil || o.Pkg().Path() != pkgpath {
		return false
	}
	sig := f.Signature
	if sig.Recv() == nil {
		return recv == ""
	}
	return namedName(sig.Recv().Type()) == recv
}

func namedName(t types.Type) string {
	if p, ok := t.(*types.Pointer); ok {
		t = p.Elem()
	}
	if n, ok := t.(*types.Named); ok {
		return n.Obj().Name()
	}
	if a, ok := t.(*types.Alias); ok {
		return a.Obj().Name()
	}
	return ""
}

func namedPkgPath(t types.Type) string {
	if p, ok := t.(*types.Pointer); ok {
		t = p.Elem()
	}
	if n, ok := t.(*types.Named); ok && n.Obj().Pkg() != nil {
		return n.Obj().Pkg().Path()
	}
	return ""
}

// isInvokeOf: interface method call on interface type pkg.iface named method.
func isInvokeOf(c ssa.CallInstruction, pkgpath, iface, method string) bool {
	com := c.Common()
	if !com.IsInvoke() || com.Method.Name() != method {
		return false
	}
	return namedName(com.Value.Type()) == iface && namedPkgPath(com.Value.Type()) == pkgpath
}

// fieldOfLoad: if v is a load of field f of struct type T (through a pointer),
// returns (named struct type name, field name).
func fieldOfLoad(v ssa.Value) (string, string, bool) {
	switch x := v.(type) {
	case *ssa.UnOp:
		if x.Op == token.MUL {
			if fa, ok := x.X.(*ssa.FieldAddr); ok {
				return fieldAddrName(fa)
			}
		}
	case *ssa.Field:
		st, ok := x.X.Type().Underlying().(*types.Struct)
		if ok {
			return namedName(x.X.Type()), st.Field(x.Field).Name(), true
		}
	}
	return "", "", false
}

func fieldAddrName(fa *ssa.FieldAddr) (string, string, bool) {
	pt, ok := fa.X.Type().Underlying().(*types.Pointer)
	if !ok {
		return "", "", false
	}
	st, ok := pt.Elem().Underlying().(*types.Struct)
	if !ok {
		return "", "", false
	}
	return namedName(pt.Elem()), st.Field(fa.Field).Name(), true
}

// isFieldCall: call through a function-typed struct field T.F (a hook).
func isFieldCall(c ssa.CallInstruction, typeName, field string) bool {
	com := c.Common()
	if com.IsInvoke() {
		return false
	}
	t, f, ok := fieldOfLoad(com.Value)
	return ok && t == typeName && f == field
}

// returnsOf lists the Return instructions of fn.
func returnsOf(fn *ssa.Function) []*ssa.Return {
	var out []*ssa.Return
	for _, b := range fn.Blocks {
		if len(b.Instrs) == 0 {
			continue
		}
		if r, ok := b.Instrs[len(b.Instrs)-1].(*ssa.Return); ok {
			out = append(out, r)
		}
	}
	return out
}

// loopHeaderOf returns the innermost loop header whose natural loop contains
// blk (a block h that dominates blk and is reachable from blk through a back
// edge into h), or nil.
func loopHeaderOf(blk *ssa.BasicBlock) *ssa.BasicBlock {
	fn := blk.Parent()
	var best *ssa.BasicBlock
	for _, h := range fn.Blocks {
		if !h.Dominates(blk) {
			continue
		}
		// a loop header is the target of a back edge: some predecessor is dominated by it
		isHeader := false
		for _, pr := range h.Preds {
			if h.Dominates(pr) {
				isHeader = true
			}
		}
		if !isHeader {
			continue
		}
		// membership in the natural loop of h (blocks that reach a back-edge source of h without passing h)
		if !loopBody(h)[blk] {
			continue
		}
		if best == nil || best.Dominates(h) {
			best = h
		}
	}
	return best
}

// LoopIterationsPass reports whether every path from the loop header h around
// the loop back to h takes one of the `through` edges.
func (p *Program) LoopIterationsPass(h *ssa.BasicBlock, through []Edge) (bool, []string) {
	av := EdgeSet{}
	av.addAll(through)
	body := loopBody(h)
	for i, s := range h.Succs {
		if av[Edge{h, i}] || !body[s] {
			continue
		}
		stop := map[*ssa.BasicBlock]bool{h: true}
		for _, b := range h.Parent().Blocks {
			if !body[b] {
				stop[b] = true
			}
		}
		par := reach([]*ssa.BasicBlock{s}, av, stop)
		if s == h {
			return false, []string{fmt.Sprintf("self loop at block %d", h.Index)}
		}
		if _, ok := par[h]; ok {
			return false, p.blockPath(par, h)
		}
	}
	return true, nil
}

// loopBody: the natural loop of header h — blocks dominated by h from which h is reachable
// along blocks dominated by h.
func loopBody(h *ssa.BasicBlock) map[*ssa.BasicBlock]bool {
	body := map[*ssa.BasicBlock]bool{h: true}
	// backward search from the back-edge sources
	var work []*ssa.BasicBlock
	for _, pr := range h.Preds {
		if h.Dominates(pr) && !body[pr] {
			body[pr] = true
			work = append(work, pr)
		}
	}
	for len(work) > 0 {
		b := work[len(work)-1]
		work = work[:len(work)-1]
		for _, pr := range b.Preds {
			if !body[pr] && h.Dominates(pr) {
				body[pr] = true
				work = append(work, pr)
			}
		}
	}
	return body
}

// isFailingConst: v is the constant a result takes when the outcome oc did NOT happen (false for BoolTrue, true for
// BoolFalse); error outcomes have no such constant (a nil error is the succeeding one).
func isFailingConst(v ssa.Value, oc Outcome) bool {
	cst, ok := v.(*ssa.Const)
	if !ok || cst.Value == nil || cst.Value.Kind() != constant.Bool {
		return false
	}
	switch oc {
	case BoolTrue:
		return !constant.BoolVal(cst.Value)
	case BoolFalse:
		return constant.BoolVal(cst.Value)
	}
	return false
}
