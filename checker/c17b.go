package main

// C17.R4, decided by evaluation over the sign domain (same idea as K11).
//
// A "running best" selection scans the versions and, for each valid candidate, decides whether it replaces the one
// selected so far. That decision touches the two versions only through comparisons of the same field on both sides,
// so for the two fields involved (ValidFrom, ID) there are nine relation vectors; together with the selection mode
// (newest_valid / oldest_valid) that is 18 cases. The loop body is walked once per case — branches on the fields are
// decided from the vector, branches on the mode from the assumed mode, "candidate is valid" is taken as true and
// "nothing selected yet" as false — up to the back edge, where the value flowing into the loop-carried "selected"
// variable says whether the candidate replaced it. The verdict must be: newest_valid replaces iff the candidate's
// ValidFrom is later, oldest_valid iff it is earlier, and on equal ValidFrom iff the candidate's id is smaller.

import (
	"fmt"
	"go/constant"
	"go/token"
	"go/types"

	"golang.org/x/tools/go/ssa"
)

type selModel struct {
	cm       *cmpModel
	fn       *ssa.Function
	header   *ssa.BasicBlock
	body     map[*ssa.BasicBlock]bool
	selected *ssa.Phi   // loop-carried "selected so far"
	induct   *ssa.Phi   // loop index
	incr     ssa.Value  // the incremented index of a range loop
	selCell  *ssa.Alloc // "selected so far" kept in a cell (a struct variable) instead of a merged value
	flags    map[ssa.Value]bool // loop-carried "something is selected" flags
	preds    map[*ssa.Function]bool
	mode     string
	modeVals map[ssa.Value]bool
}

var selModes = []string{"newest_valid", "oldest_valid"}

// isCandidateDesignator: the value names the candidate of this iteration (the index, or the address of the element).
func (m *selModel) isCandidateDesignator(v ssa.Value, phis map[*ssa.Phi]ssa.Value, depth int) (bool, bool) {
	if depth > 6 {
		return false, false
	}
	if m.selected != nil && v == ssa.Value(m.selected) {
		return false, true // unchanged
	}
	if v == ssa.Value(m.induct) || (m.incr != nil && v == m.incr) {
		return true, true
	}
	switch x := v.(type) {
	case *ssa.IndexAddr:
		if x.Index == ssa.Value(m.induct) || (m.incr != nil && x.Index == m.incr) {
			return true, true
		}
	case *ssa.Phi:
		if pv, ok := phis[x]; ok {
			return m.isCandidateDesignator(pv, phis, depth+1)
		}
	case *ssa.Alloc:
		// a copy of the candidate taken into a local (`v := versions[i]; best = &v`)
		if s, _ := m.cm.side(x, 0); s == 1 {
			return true, true
		}
	}
	if s, f := m.cm.side(v, 0); s == 1 && f == "" {
		return true, true
	}
	if s, f := m.cm.side(v, 0); s == 2 && f == "" {
		return false, true
	}
	return false, false
}

// evalCond: a branch condition under the relation vector and the assumed mode.
func (m *selModel) evalCond(cond ssa.Value, rels map[string]int, phis map[*ssa.Phi]ssa.Value) (bool, bool) {
	neg := false
	for {
		if u, ok := cond.(*ssa.UnOp); ok && u.Op == token.NOT {
			cond, neg = u.X, !neg
			continue
		}
		break
	}
	if phi, ok := cond.(*ssa.Phi); ok {
		if pv, ok := phis[phi]; ok {
			r, okr := m.evalCond(pv, rels, phis)
			return r != neg, okr
		}
	}
	if m.flags[cond] {
		return !neg, true // a selection exists
	}
	if a := m.cm.eval(cond, rels, phis, 0); a.kind == 1 {
		return a.b != neg, true
	}
	switch x := cond.(type) {
	case *ssa.Call:
		// the validity predicate on the candidate: taken as true
		if f := x.Call.StaticCallee(); f != nil && m.preds[m.fnOrig(f)] {
			return !neg, true
		}
	case *ssa.BinOp:
		// nothing selected yet? — taken as false (a selection exists)
		for _, pair := range [][2]ssa.Value{{x.X, x.Y}, {x.Y, x.X}} {
			if m.selected != nil && stripConv(pair[0]) == ssa.Value(m.selected) {
				if isNilConst(pair[1]) {
					return (x.Op == token.NEQ) != neg, true
				}
				if n, ok := intConst(pair[1]); ok && pair[0] == x.X {
					switch {
					case x.Op == token.LSS && n == 0, x.Op == token.EQL && n == -1, x.Op == token.LEQ && n == -1:
						return neg, true
					case x.Op == token.GEQ && n == 0, x.Op == token.NEQ && n == -1, x.Op == token.GTR && n == -1:
						return !neg, true
					}
				}
			}
		}
		// mode tests: a string compared with a mode constant
		if x.Op == token.EQL || x.Op == token.NEQ {
			for _, pair := range [][2]ssa.Value{{x.X, x.Y}, {x.Y, x.X}} {
				if s, isC := constString(pair[1]); isC && isStringT(pair[0].Type()) {
					if _, f := m.cm.side(pair[0], 0); f != "" {
						continue // a field of a version, not the mode
					}
					isMode := s == "newest_valid" || s == "oldest_valid" || s == ""
					if !isMode {
						return false, false
					}
					eq := s == m.mode
					return ((x.Op == token.EQL) == eq) != neg, true
				}
			}
		}
		// a sign value compared with a mode-dependent constant (`order == wantOrder`)
		a, b := m.cm.eval(x.X, rels, phis, 0), m.cm.eval(x.Y, rels, phis, 0)
		if a.kind != 2 {
			if n, ok := m.modeConst(x.X); ok {
				a = absVal{kind: 2, s: n}
			}
		}
		if b.kind != 2 {
			if n, ok := m.modeConst(x.Y); ok {
				b = absVal{kind: 2, s: n}
			}
		}
		if a.kind == 2 && b.kind == 2 {
			// both are in {-1,0,1}: compare as numbers
			if r, ok := cmpOp(x.Op, sgn(a.s-b.s)); ok {
				return r != neg, true
			}
		}
	}
	return false, false
}

func sgn(n int) int {
	switch {
	case n < 0:
		return -1
	case n > 0:
		return 1
	}
	return 0
}

func (m *selModel) fnOrig(f *ssa.Function) *ssa.Function { return f }

// modeConst: a value defined before the loop as a merge of the constants -1/0/+1, one per mode: the constant that
// arrives over the edges consistent with the assumed mode.
func (m *selModel) modeConst(v ssa.Value) (int, bool) {
	phi, ok := stripConv(v).(*ssa.Phi)
	if !ok || m.body[phi.Block()] {
		return 0, false
	}
	found := false
	val := 0
	for i, e := range phi.Edges {
		cst, isC := e.(*ssa.Const)
		if !isC || cst.Value == nil || cst.Value.Kind() != constant.Int {
			return 0, false
		}
		if !m.edgeConsistent(phi.Block().Preds[i], phi.Block(), 0) {
			continue
		}
		n := constant.Sign(cst.Value)
		if found && n != val {
			return 0, false
		}
		found, val = true, n
	}
	return val, found
}

// edgeConsistent: control can pass pred→blk under the assumed mode (judging by the mode tests on the way; the empty
// setting stands for newest_valid). A block that only joins edges is reachable when one of its incoming edges is.
func (m *selModel) edgeConsistent(pred, blk *ssa.BasicBlock, depth int) bool {
	for _, a := range edgeConds(pred, blk) {
		if s, isS := constString(a.Y); isS && (a.Op == token.EQL || a.Op == token.NEQ) {
			if s != "newest_valid" && s != "oldest_valid" && s != "" {
				continue
			}
			eq := s == m.mode || (s == "" && m.mode == "newest_valid")
			holds := (a.Op == token.EQL) == eq
			if s == "" && m.mode == "newest_valid" && a.Op == token.NEQ {
				holds = true // "newest_valid" written out is not the empty string either
			}
			if !holds {
				return false
			}
		}
	}
	if depth < 4 && len(pred.Preds) > 1 {
		if _, isJump := pred.Instrs[len(pred.Instrs)-1].(*ssa.Jump); isJump {
			for _, pp := range pred.Preds {
				if m.edgeConsistent(pp, pred, depth+1) {
					return true
				}
			}
			return false
		}
	}
	return true
}

// verdict: does the candidate replace the selected version under (mode, rels)?  (replace, decided)
func (m *selModel) verdict(rels map[string]int) (bool, bool) {
	phis := map[*ssa.Phi]ssa.Value{}
	// enter the body from the header
	var b *ssa.BasicBlock
	for _, s := range m.header.Succs {
		if m.body[s] && s != m.header {
			b = s
		}
	}
	if b == nil {
		return false, false
	}
	prev := m.header
	replaced := false
	for steps := 0; steps < 400; steps++ {
		idx := -1
		for i, p := range b.Preds {
			if p == prev {
				idx = i
			}
		}
		if b == m.header {
			// back edge: what flows into the selected variable?
			if m.selCell != nil {
				return replaced, true
			}
			if idx < 0 {
				return false, false
			}
			rep, ok := m.isCandidateDesignator(m.selected.Edges[idx], phis, 0)
			return rep, ok
		}
		if m.selCell != nil {
			for _, ins := range b.Instrs {
				if st, ok := ins.(*ssa.Store); ok && st.Addr == ssa.Value(m.selCell) {
					if sd, f := m.cm.side(st.Val, 0); sd == 1 && f == "" {
						replaced = true
					} else {
						return false, false
					}
				}
			}
		}
		if !m.body[b] {
			return false, false
		}
		for _, ins := range b.Instrs {
			phi, ok := ins.(*ssa.Phi)
			if !ok {
				break
			}
			if idx >= 0 {
				phis[phi] = phi.Edges[idx]
			}
		}
		switch t := b.Instrs[len(b.Instrs)-1].(type) {
		case *ssa.If:
			r, ok := m.evalCond(t.Cond, rels, phis)
			if !ok {
				return false, false
			}
			prev = b
			if r {
				b = b.Succs[0]
			} else {
				b = b.Succs[1]
			}
		case *ssa.Jump:
			prev, b = b, b.Succs[0]
		default:
			return false, false
		}
	}
	return false, false
}

// checkSelectionByEvaluation returns false when the selection is not a running-best scan the evaluation understands
// (the caller then falls back to the shape rule).
func checkSelectionByEvaluation(c *Ctx, rule, sname string, sel *ssa.Function, preds []*ssa.Function) bool {
	p := c.P
	predSet := map[*ssa.Function]bool{}
	for _, f := range preds {
		predSet[p.Orig(f)] = true
	}
	v := p.ViewKeeping(sel, func(f *ssa.Function) bool { return predSet[p.Orig(f)] })
	// the scan loop: the loop that calls a validity predicate
	var header *ssa.BasicBlock
	for _, b := range v.Blocks {
		for _, ins := range b.Instrs {
			if call, ok := ins.(*ssa.Call); ok {
				if f := call.Call.StaticCallee(); f != nil && predSet[p.Orig(f)] {
					header = loopHeaderOf(b)
				}
			}
		}
	}
	if header == nil {
		return false
	}
	m := &selModel{fn: v, header: header, body: loopBody(header), preds: map[*ssa.Function]bool{}, flags: map[ssa.Value]bool{}}
	for f := range predSet {
		m.preds[f] = true
	}
	// loop-carried variables: the index (φ with an edge φ+1) and the selected one (the other int/pointer φ)
	for _, ins := range header.Instrs {
		phi, ok := ins.(*ssa.Phi)
		if !ok {
			break
		}
		isInd := false
		for _, e := range phi.Edges {
			if bo, ok := e.(*ssa.BinOp); ok && bo.Op == token.ADD && bo.X == ssa.Value(phi) && isIntConst(bo.Y, 1) {
				isInd = true
			}
		}
		if isInd {
			m.induct = phi
			continue
		}
		_ = ins
		switch t := phi.Type().Underlying().(type) {
		case *types.Basic:
			if t.Info()&types.IsBoolean != 0 {
				m.flags[phi] = true
			} else if m.selected == nil {
				m.selected = phi
			}
		case *types.Pointer, *types.Struct:
			m.selected = phi
		}
	}
	if m.induct == nil {
		return false
	}
	if m.selected == nil {
		// "selected so far" as a struct variable: a cell defined before the loop and stored in its body
		for _, b := range v.Blocks {
			if m.body[b] {
				continue
			}
			for _, ins := range b.Instrs {
				a, ok := ins.(*ssa.Alloc)
				if !ok {
					continue
				}
				if _, isStruct := a.Type().Underlying().(*types.Pointer).Elem().Underlying().(*types.Struct); !isStruct {
					continue
				}
				for _, ref := range *a.Referrers() {
					if st, ok := ref.(*ssa.Store); ok && st.Addr == ssa.Value(a) && m.body[st.Block()] {
						m.selCell = a
					}
				}
			}
		}
		if m.selCell == nil {
			return false
		}
	}
	m.cm = &cmpModel{fn: v, sideOf: map[ssa.Value]int{m.induct: 1}}
	if m.selected != nil {
		m.cm.sideOf[m.selected] = 2
	} else {
		m.cm.sideOf[m.selCell] = 2
	}
	// a range loop indexes with the incremented value (t = φ+1 computed in the header)
	for _, e := range m.induct.Edges {
		if bo, ok := e.(*ssa.BinOp); ok && bo.Op == token.ADD && bo.X == ssa.Value(m.induct) && bo.Block() == header {
			m.cm.sideOf[bo] = 1
			m.incr = bo
		}
	}
	type want struct {
		mode    string
		vf, id  int
		replace bool
	}
	undecided := 0
	var wrong []string
	for _, mode := range selModes {
		m.mode = mode
		for vf := -1; vf <= 1; vf++ {
			for id := -1; id <= 1; id++ {
				if vf == 0 && id == 0 {
					continue // ids are unique
				}
				rels := map[string]int{"ValidFrom": vf, "ID": id}
				got, ok := m.verdict(rels)
				if !ok {
					undecided++
					continue
				}
				exp := false
				switch {
				case vf == 0:
					exp = id < 0
				case mode == "newest_valid":
					exp = vf > 0
				default:
					exp = vf < 0
				}
				if got != exp {
					rel := map[int]string{-1: "<", 0: "=", 1: ">"}
					wrong = append(wrong, fmt.Sprintf("%s: candidate.ValidFrom %s selected.ValidFrom, candidate.ID %s selected.ID → replace=%v, want %v", mode, rel[vf], rel[id], got, exp))
				}
			}
		}
	}
	if undecided > 0 {
		return false
	}
	key := sname + ":selection order (newest/oldest by ValidFrom, ties by the smaller id)"
	if len(wrong) == 0 {
		c.Ok(rule, key, p.Pos(sel.Pos()), "16 cases (mode × relation of ValidFrom × relation of ID) evaluated over the sign domain: all as documented")
	} else {
		c.Fail(rule, key, p.Pos(sel.Pos()), "the replace decision of the scan differs from the documented order: "+wrong[0]+fmt.Sprintf(" (%d of 16 cases differ)", len(wrong)))
	}
	return true
}
