package main

import (
	"fmt"
	"go/ast"
	"go/token"
	"go/types"
	"os"
	"path/filepath"
	"sort"
	"strings"

	"golang.org/x/tools/go/callgraph"
	"golang.org/x/tools/go/callgraph/cha"
	"golang.org/x/tools/go/callgraph/vta"
	"golang.org/x/tools/go/packages"
	"golang.org/x/tools/go/ssa"
	"golang.org/x/tools/go/ssa/ssautil"
)

const modPath = "github.com/nuetzliches/hookaido"

// Program is the resolved whole program: syntax, types, SSA and (lazily) the
// VTA call graph of /repo's current working tree.
type Program struct {
	Root    string
	Fset    *token.FileSet
	Pkgs    []*packages.Package
	ByPath  map[string]*packages.Package
	SSA     *ssa.Program
	SSAPkgs map[string]*ssa.Package
	// all source functions of the module (including anonymous functions)
	SrcFuncs []*ssa.Function
	declOf   map[*ssa.Function]*ast.FuncDecl

	cg        *callgraph.Graph
	allFns    map[*ssa.Function]bool
	callers   map[*ssa.Function][]*ssa.Function
	wiring    map[fieldKey][]*ssa.Function
	implCache map[*types.Func][]*ssa.Function
	sqlModel  *SQLModel
	txModel   *txModel
	declCache map[*types.Func]*ast.FuncDecl
	clockVisiting map[*types.Var]bool
	mutFns    map[*ssa.Function]bool
	succCache map[*ssa.Function][]*ssa.Function
	rootsUsed map[*ssa.Function]bool
	auditing  bool
	roleCache map[string]storeRoles
	vrefs     map[*ssa.Function][]*ssa.Function
	tinst     map[string][]*ssa.Function
	rootReach map[*ssa.Function]bool
	memTrans  []Trans
	memFlow   *stateFlow
	sqlTrans  map[string][]Trans
	callSites map[*ssa.Function][]ssa.CallInstruction
	sentinels map[*ssa.Global]bool
	views     map[*ssa.Function]*viewInfo
	viewOf    map[*ssa.Function]*ssa.Function
	nonNilMemo map[interface{}]bool
	soleStores map[*ssa.Global]*ssa.Store
	atomicW    map[*ssa.Function]*ssa.Function
	reloadEnt  []*ssa.Function
}

func loadProgram(root string) (*Program, error) {
	for k, v := range map[string]string{"GOWORK": "off", "GOFLAGS": "-mod=mod", "GOPROXY": "off", "GOSUMDB": "off", "GOTOOLCHAIN": "local"} {
		os.Setenv(k, v)
	}
	if _, err := os.Stat("/opt/veriftools/go1.26.8/bin/go"); err == nil && !strings.HasPrefix(os.Getenv("PATH"), "/opt/veriftools/go1.26.8/bin") {
		os.Setenv("PATH", "/opt/veriftools/go1.26.8/bin:"+os.Getenv("PATH"))
	}
	cfg := &packages.Config{
		Mode:  packages.LoadAllSyntax,
		Dir:   root,
		Tests: false,
		Env:   append(os.Environ(), "GOOS=linux", "GOARCH=amd64", "CGO_ENABLED=0"),
	}
	pkgs, err := packages.Load(cfg, "./...")
	if err != nil {
		return nil, fmt.Errorf("packages.Load: %w", err)
	}
	nerr := 0
	var firstErr string
	packages.Visit(pkgs, nil, func(p *packages.Package) {
		for _, e := range p.Errors {
			if nerr == 0 {
				firstErr = e.Error()
			}
			nerr++
		}
	})
	if nerr > 0 {
		return nil, fmt.Errorf("%d load/type errors, first: %s", nerr, firstErr)
	}
	if len(pkgs) < 15 {
		return nil, fmt.Errorf("only %d packages loaded from %s (expected >= 15)", len(pkgs), root)
	}
	p := &Program{Root: root, Pkgs: pkgs, ByPath: map[string]*packages.Package{}, SSAPkgs: map[string]*ssa.Package{}}
	p.Fset = pkgs[0].Fset
	prog, _ := ssautil.AllPackages(pkgs, ssa.InstantiateGenerics)
	prog.Build()
	p.SSA = prog
	for _, pk := range pkgs {
		p.ByPath[pk.PkgPath] = pk
		sp := prog.Package(pk.Types)
		if sp == nil {
			return nil, fmt.Errorf("no SSA package for %s", pk.PkgPath)
		}
		p.SSAPkgs[pk.PkgPath] = sp
	}
	// collect source functions of the module
	seen := map[*ssa.Function]bool{}
	var add func(f *ssa.Function)
	add = func(f *ssa.Function) {
		if f == nil || seen[f] {
			return
		}
		seen[f] = true
		if len(f.Blocks) > 0 {
			p.SrcFuncs = append(p.SrcFuncs, f)
		}
		for _, a := range f.AnonFuncs {
			add(a)
		}
	}
	for _, sp := range p.SSAPkgs {
		for _, m := range sp.Members {
			switch m := m.(type) {
			case *ssa.Function:
				add(m)
			case *ssa.Type:
				for _, T := range []types.Type{m.Type(), types.NewPointer(m.Type())} {
					ms := prog.MethodSets.MethodSet(T)
					for i := 0; i < ms.Len(); i++ {
						fn := prog.MethodValue(ms.At(i))
						if fn != nil && fn.Pkg == sp && fn.Synthetic == "" {
							add(fn)
						}
					}
				}
			}
		}
	}
	sort.Slice(p.SrcFuncs, func(i, j int) bool { return p.SrcFuncs[i].Pos() < p.SrcFuncs[j].Pos() })
	return p, nil
}

// pkgPath expands a short internal package name ("queue") to its import path.
func pkgPath(short string) string {
	if strings.Contains(short, "/") && strings.HasPrefix(short, modPath) {
		return short
	}
	if short == "cmd" {
		return modPath + "/cmd/hookaido"
	}
	return modPath + "/internal/" + short
}

func (p *Program) Pkg(short string) *packages.Package { return p.ByPath[pkgPath(short)] }
func (p *Program) SPkg(short string) *ssa.Package      { return p.SSAPkgs[pkgPath(short)] }

// Func finds a package-level function ("Compile") or method ("(*Server).ServeHTTP",
// "Server.ServeHTTP") of an internal package. Returns nil when absent.
func (p *Program) Func(pkg, name string) *ssa.Function {
	// Named roots are handed out as inlined views (see inlk.go): what a rule then establishes inside the root does
	// not depend on which unexported helpers of the package the root's body happens to be split into.
	if os.Getenv("HK_NOVIEWS") == "" {
		return p.View(p.funcOrig(pkg, name))
	}
	return p.funcOrig(pkg, name)
}

func (p *Program) funcOrig(pkg, name string) *ssa.Function {
	sp := p.SPkg(pkg)
	if sp == nil {
		return nil
	}
	if !strings.Contains(name, ".") {
		return sp.Func(name)
	}
	ptr := false
	s := name
	if strings.HasPrefix(s, "(*") {
		ptr = true
		s = strings.TrimPrefix(s, "(*")
		s = strings.Replace(s, ")", "", 1)
	}
	parts := strings.SplitN(s, ".", 2)
	tm := sp.Type(parts[0])
	if tm == nil {
		return nil
	}
	var T types.Type = tm.Type()
	if ptr {
		T = types.NewPointer(T)
	}
	sel := p.SSA.MethodSets.MethodSet(T).Lookup(sp.Pkg, parts[1])
	if sel == nil {
		// try pointer receiver as fallback
		sel = p.SSA.MethodSets.MethodSet(types.NewPointer(tm.Type())).Lookup(sp.Pkg, parts[1])
		if sel == nil {
			return nil
		}
	}
	return p.SSA.MethodValue(sel)
}

// Named returns the named type pkg.Name.
func (p *Program) Named(pkg, name string) *types.Named {
	pk := p.Pkg(pkg)
	if pk == nil {
		return nil
	}
	o := pk.Types.Scope().Lookup(name)
	if o == nil {
		return nil
	}
	n, _ := o.Type().(*types.Named)
	return n
}

// MethodsOf returns all source methods (value and pointer receivers) of a named type.
func (p *Program) MethodsOf(pkg, typeName string) []*ssa.Function {
	n := p.Named(pkg, typeName)
	if n == nil {
		return nil
	}
	var out []*ssa.Function
	ms := p.SSA.MethodSets.MethodSet(types.NewPointer(n))
	for i := 0; i < ms.Len(); i++ {
		fn := p.SSA.MethodValue(ms.At(i))
		if fn != nil && len(fn.Blocks) > 0 && fn.Synthetic == "" {
			out = append(out, fn)
		}
	}
	sort.Slice(out, func(i, j int) bool { return out[i].Pos() < out[j].Pos() })
	return out
}

// FuncsInPkg returns all source functions (incl. anonymous) whose package is pkg.
func (p *Program) FuncsInPkg(pkg string) []*ssa.Function {
	sp := p.SPkg(pkg)
	var out []*ssa.Function
	for _, f := range p.SrcFuncs {
		if f.Package() == sp {
			out = append(out, f)
		}
	}
	return out
}

func (p *Program) Pos(pos token.Pos) string {
	if !pos.IsValid() {
		return "-"
	}
	ps := p.Fset.Position(pos)
	rel, err := filepath.Rel(p.Root, ps.Filename)
	if err != nil || strings.HasPrefix(rel, "..") {
		rel = ps.Filename
	}
	return fmt.Sprintf("%s:%d", rel, ps.Line)
}

// InstrPos returns the best position for an instruction (falls back to the
// nearest positioned instruction in the block, then the function).
func (p *Program) InstrPos(ins ssa.Instruction) string {
	if ins == nil {
		return "-"
	}
	if ins.Pos().IsValid() {
		return p.Pos(ins.Pos())
	}
	if c, ok := ins.(ssa.CallInstruction); ok {
		if c.Common().Pos().IsValid() {
			return p.Pos(c.Common().Pos())
		}
	}
	b := ins.Block()
	if b != nil {
		for _, i2 := range b.Instrs {
			if i2.Pos().IsValid() {
				return p.Pos(i2.Pos()) + "~"
			}
		}
		return p.Pos(b.Parent().Pos()) + "~"
	}
	return "-"
}

// FuncName is a short stable name for a function: pkg.(*T).M / pkg.F / pkg.F$1
func FuncName(f *ssa.Function) string {
	if f == nil {
		return "<nil>"
	}
	s := f.String()
	s = strings.ReplaceAll(s, modPath+"/internal/", "")
	s = strings.ReplaceAll(s, modPath+"/", "")
	return s
}

// CG returns the VTA call graph (computed once).
func (p *Program) CG() *callgraph.Graph {
	if p.cg == nil {
		p.allFns = ssautil.AllFunctions(p.SSA)
		p.cg = vta.CallGraph(p.allFns, cha.CallGraph(p.SSA))
	}
	return p.cg
}

// IsModuleFunc reports whether f belongs to the analysed module.
func IsModuleFunc(f *ssa.Function) bool {
	if f == nil {
		return false
	}
	if f.Pkg != nil {
		return strings.HasPrefix(f.Pkg.Pkg.Path(), modPath)
	}
	if f.Parent() != nil {
		return IsModuleFunc(f.Parent())
	}
	if o := f.Object(); o != nil && o.Pkg() != nil {
		return strings.HasPrefix(o.Pkg().Path(), modPath)
	}
	return false
}
