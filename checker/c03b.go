package main

import (
	"fmt"
	"go/token"

	"golang.org/x/tools/go/ssa"
)

// C03.R6 — the lease deadline written by SQLite is representable.
//
// SQLite stores lease_until as Unix nanoseconds. time.Time.UnixNano is undefined past the year 2262: for a lease
// TTL of about 236 years or more (nothing bounds it when pull_api.max_lease_ttl is unset) now.Add(ttl).UnixNano()
// wraps to a negative number, the row looks expired at once, and the very next dequeue hands the message to a
// second consumer while the first lease is unexpired. The memory store compares time.Time values and is not
// affected. Rule: in the function that computes the deadline of a LEASE statement (now.Add(ttl) whose result is
// bound, through UnixNano, to lease_until), the deadline or the TTL is bounded above before it is used — a
// comparison of the deadline with a fixed instant, or of the TTL with a constant, with a clamping store.

func checkLeaseDeadlineRepresentable(c *Ctx, rule string) {
	p := c.P
	n := 0
	seen := map[*ssa.Function]bool{}
	for _, t := range p.sqlTransitions("sqlite") {
		if t.To != "leased" || t.Stmt.Fn == nil {
			continue
		}
		// the deadline parameter/local of the statement's function traces to an Add call in a caller
		var adds []*ssa.Call
		var holders []*ssa.Function
		visit := map[*ssa.Function]bool{}
		var up func(fn *ssa.Function, depth int)
		up = func(fn *ssa.Function, depth int) {
			if depth > 3 || visit[fn] {
				return
			}
			visit[fn] = true
			found := false
			for _, b := range fn.Blocks {
				for _, ins := range b.Instrs {
					if call, ok := ins.(*ssa.Call); ok && calleeIs(call, "time", "Time", "Add") {
						// its result is passed on (to a callee or to UnixNano) — lease deadline candidates only: named leaseUntil-ish by flow to calls
						for _, ref := range *call.Referrers() {
							if ci, ok := ref.(ssa.CallInstruction); ok {
								g := ci.Common().StaticCallee()
								if g != nil && (p.Reach(g)[t.Stmt.Fn] || g == t.Stmt.Fn || (g.Name() == "UnixNano" && fn == t.Stmt.Fn)) {
									adds = append(adds, call)
									holders = append(holders, fn)
									found = true
								}
							}
						}
					}
				}
			}
			if found {
				return
			}
			for _, cs := range p.CallSitesOf(fn) {
				if cs.Parent().Package() == fn.Package() {
					up(cs.Parent(), depth+1)
				}
			}
		}
		up(t.Stmt.Fn, 0)
		for i, add := range adds {
			fn := holders[i]
			if seen[fn] {
				continue
			}
			seen[fn] = true
			n++
			bounded := ""
			// (b) deadline compared with an instant
			for _, ref := range *add.Referrers() {
				if call, ok := ref.(*ssa.Call); ok && (calleeIs(call, "time", "Time", "After") || calleeIs(call, "time", "Time", "Before")) {
					bounded = "deadline compared with a fixed instant at " + p.InstrPos(call)
				}
				if st, ok := ref.(*ssa.Store); ok {
					if al, ok := st.Addr.(*ssa.Alloc); ok {
						for _, r2 := range *al.Referrers() {
							if ld, ok := r2.(*ssa.UnOp); ok {
								for _, r3 := range *ld.Referrers() {
									if call, ok := r3.(*ssa.Call); ok && (calleeIs(call, "time", "Time", "After") || calleeIs(call, "time", "Time", "Before")) {
										bounded = "deadline compared with a fixed instant at " + p.InstrPos(call)
									}
								}
							}
						}
					}
				}
			}
			// (a) TTL bounded above by a constant, in this function or its callers in the package
			fns := []*ssa.Function{fn}
			for _, cs := range p.CallSitesOf(fn) {
				if cs.Parent().Package() == fn.Package() {
					fns = append(fns, cs.Parent())
				}
			}
			for _, f := range fns {
				for _, b := range f.Blocks {
					for i2 := range b.Succs {
						a, ok := edgeAtom(Edge{b, i2})
						if !ok || namedName(a.X.Type()) != "Duration" {
							continue
						}
						if _, isConst := a.Y.(*ssa.Const); !isConst {
							continue
						}
						if a.Op == token.GTR || a.Op == token.GEQ {
							if v, ok := intConst(a.Y); ok && v > 0 {
								bounded = "TTL compared with an upper bound at " + p.Pos(b.Instrs[len(b.Instrs)-1].Pos())
							}
						}
					}
				}
			}
			c.Check(bounded != "", rule, fmt.Sprintf("sqlite.%s:lease deadline is bounded before UnixNano", fn.Name()), p.InstrPos(add),
				bounded,
				"the lease deadline now.Add(ttl) is converted with UnixNano without any upper bound on the deadline or the TTL: for a TTL of about 236 years or more the stored lease_until wraps negative, the lease looks expired immediately and the message is leased to a second consumer while the first lease is unexpired (the memory store keeps such a lease)")
		}
	}
	c.Floor(rule, "lease deadline computations", n, 1)
}
