package main

import (
	"fmt"
	"go/token"

	"golang.org/x/tools/go/ssa"
)

// C03.R6 — the lease deadline written by SQLite is representable.
//
// SQLite stores lease_until as Unix nanoseconds. time.Time.UnixNano is undefined past the year 2262: for a lease
// TTL of about 236 years or more (nothing bounds it when pull_api.max_lease_ttl is unset) now.Add(ttl).UnixNano()
// wraps to a negative number, the row looks expired at once, and the very next dequeue hands the message to a
// second consumer while the first lease is unexpired. The memory store compares time.Time values and is not
// affected. Rule: in the function that computes the deadline of a LEASE statement (now.Add(ttl) whose result is
// bound, through UnixNano, to lease_until), the deadline or the TTL is bounded above before it is used — a
// comparison of the deadline with a fixed instant, or of the TTL with a constant, with a clamping store.

func checkLeaseDeadlineRepresentable(c *Ctx, rule string) {
	p := c.P
	n := 0
	seen := map[*ssa.Function]bool{}
	isCmp := func(call *ssa.Call) bool {
		return calleeIs(call, "time", "Time", "After") || calleeIs(call, "time", "Time", "Before")
	}
	for _, t := range p.sqlTransitions("sqlite") {
		if t.To != "leased" || t.Stmt.Fn == nil {
			continue
		}
		// the deadline parameter/local of the statement's function traces to an Add call in a caller
		type cand struct {
			add    *ssa.Call
			fn     *ssa.Function
			passed []ssa.Value // the values handed on towards the statement
			flow   map[ssa.Value]bool
		}
		var cands []cand
		visit := map[*ssa.Function]bool{}
		var up func(fn *ssa.Function, depth int)
		up = func(fn *ssa.Function, depth int) {
			if depth > 3 || visit[fn] {
				return
			}
			visit[fn] = true
			found := false
			for _, b := range fn.Blocks {
				for _, ins := range b.Instrs {
					call, ok := ins.(*ssa.Call)
					if !ok || !calleeIs(call, "time", "Time", "Add") {
						continue
					}
					flow := forwardFlow(call)
					var passed []ssa.Value
					for v := range flow {
						if v.Referrers() == nil {
							continue
						}
						for _, ref := range *v.Referrers() {
							ci, ok := ref.(ssa.CallInstruction)
							if !ok {
								continue
							}
							g := ci.Common().StaticCallee()
							if g != nil && (p.Reach(g)[t.Stmt.Fn] || g == t.Stmt.Fn || (g.Name() == "UnixNano" && fn == t.Stmt.Fn)) {
								passed = append(passed, v)
							}
						}
					}
					if len(passed) > 0 {
						cands = append(cands, cand{call, fn, passed, flow})
						found = true
					}
				}
			}
			if found {
				return
			}
			for _, cs := range p.CallSitesOf(fn) {
				if cs.Parent().Package() == fn.Package() {
					up(cs.Parent(), depth+1)
				}
			}
		}
		up(t.Stmt.Fn, 0)
		for _, cd := range cands {
			fn, add := cd.fn, cd.add
			if seen[fn] {
				continue
			}
			seen[fn] = true
			n++
			bounded := ""
			// (b) the deadline handed on is min(deadline, fixed instant): every value passed on is a merge that the raw
			// sum enters only on the not-after side of a comparison with an instant that does not derive from it
			// (or, for a captured variable, a comparison of the variable followed by a conditional overwrite).
			guardedEntry := func(phi *ssa.Phi) string {
				for i, e := range phi.Edges {
					if e != ssa.Value(add) {
						continue
					}
					pred := phi.Block().Preds[i]
					conds := dominatingConds(pred, nil)
					if ifi, ok := pred.Instrs[len(pred.Instrs)-1].(*ssa.If); ok {
						for k := 0; k < 2; k++ {
							if pred.Succs[k] == phi.Block() && pred.Succs[1-k] != phi.Block() {
								cond, val := ifi.Cond, k == 0
								for {
									if u, ok := cond.(*ssa.UnOp); ok && u.Op == token.NOT {
										cond, val = u.X, !val
										continue
									}
									break
								}
								conds = append(conds, pathCond{cond, val})
							}
						}
					}
					ok := false
					for _, pc := range conds {
						call, isCall := pc.Cond.(*ssa.Call)
						if !isCall || !isCmp(call) || pc.Val || len(call.Call.Args) != 2 {
							continue
						}
						a0, a1 := call.Call.Args[0], call.Call.Args[1]
						if calleeIs(call, "time", "Time", "After") && a0 == ssa.Value(add) && !cd.flow[a1] {
							ok = true
						}
						if calleeIs(call, "time", "Time", "Before") && a1 == ssa.Value(add) && !cd.flow[a0] {
							ok = true
						}
					}
					if !ok {
						return ""
					}
				}
				return "deadline saturated at a fixed instant at " + p.Pos(phi.Pos())
			}
			all := true
			why := ""
			for _, v := range cd.passed {
				switch x := v.(type) {
				case *ssa.Phi:
					w := guardedEntry(x)
					if w == "" {
						all = false
					} else {
						why = w
					}
				case *ssa.UnOp: // load of a captured/addressed variable
					al, _ := x.X.(*ssa.Alloc)
					w := ""
					if al != nil {
						for _, r2 := range *al.Referrers() {
							ld, ok := r2.(*ssa.UnOp)
							if !ok {
								continue
							}
							for _, r3 := range *ld.Referrers() {
								call, ok := r3.(*ssa.Call)
								if !ok || !isCmp(call) {
									continue
								}
								// a store into the same variable controlled by this comparison
								for _, r4 := range *al.Referrers() {
									if st, ok := r4.(*ssa.Store); ok && st.Val != ssa.Value(add) && !cd.flow[st.Val] {
										for _, pc := range dominatingConds(st.Block(), nil) {
											if pc.Cond == ssa.Value(call) {
												w = "deadline variable compared and overwritten at " + p.InstrPos(st)
											}
										}
									}
								}
							}
						}
					}
					if w == "" {
						all = false
					} else {
						why = w
					}
				default:
					all = false
				}
			}
			if all && why != "" {
				bounded = why
			}
			// (a) the TTL that is added is bounded above by a constant: the comparison is on a value the Add's duration
			// argument is merged from (in this function), or on the value a caller passes for that parameter
			back := backwardMerge(add.Call.Args[len(add.Call.Args)-1])
			ttlCmp := func(f *ssa.Function, vals map[ssa.Value]bool) string {
				for _, b := range f.Blocks {
					for i2 := range b.Succs {
						a, ok := edgeAtom(Edge{b, i2})
						if !ok || namedName(a.X.Type()) != "Duration" || !vals[a.X] {
							continue
						}
						if _, isConst := a.Y.(*ssa.Const); !isConst {
							continue
						}
						if a.Op == token.GTR || a.Op == token.GEQ {
							if v, ok := intConst(a.Y); ok && v > 0 {
								return "TTL compared with an upper bound at " + p.Pos(b.Instrs[len(b.Instrs)-1].Pos())
							}
						}
					}
				}
				return ""
			}
			if w := ttlCmp(fn, back); w != "" {
				bounded = w
			}
			for pi, prm := range fn.Params {
				if !back[prm] {
					continue
				}
				callers := p.CallSitesOf(fn)
				allBound := len(callers) > 0
				w := ""
				for _, cs := range callers {
					args := cs.Common().Args
					if cs.Parent().Package() != fn.Package() || pi >= len(args) {
						allBound = false
						continue
					}
					if x := ttlCmp(cs.Parent(), backwardMerge(args[pi])); x != "" {
						w = x
					} else {
						allBound = false
					}
				}
				if allBound && w != "" {
					bounded = w + " (every caller)"
				}
			}
			c.Check(bounded != "", rule, fmt.Sprintf("sqlite.%s:lease deadline is bounded before UnixNano", fn.Name()), p.InstrPos(add),
				bounded,
				"the lease deadline now.Add(ttl) is converted with UnixNano without any upper bound on the deadline or the TTL: for a TTL of about 236 years or more the stored lease_until wraps negative, the lease looks expired immediately and the message is leased to a second consumer while the first lease is unexpired (the memory store keeps such a lease)")
		}
	}
	c.Floor(rule, "lease deadline computations", n, 1)
}

// forwardFlow: v and every value v flows into unchanged inside its function — merges it enters and loads of
// variables it is stored to.
func forwardFlow(v ssa.Value) map[ssa.Value]bool {
	out := map[ssa.Value]bool{v: true}
	work := []ssa.Value{v}
	for len(work) > 0 {
		x := work[len(work)-1]
		work = work[:len(work)-1]
		if x.Referrers() == nil {
			continue
		}
		for _, ref := range *x.Referrers() {
			switch r := ref.(type) {
			case *ssa.Phi:
				if !out[r] {
					out[r] = true
					work = append(work, r)
				}
			case *ssa.Store:
				if r.Val != x {
					continue
				}
				if al, ok := r.Addr.(*ssa.Alloc); ok {
					for _, r2 := range *al.Referrers() {
						if ld, ok := r2.(*ssa.UnOp); ok && ld.Op == token.MUL && !out[ld] {
							out[ld] = true
							work = append(work, ld)
						}
					}
				}
			}
		}
	}
	return out
}

// backwardMerge: v and every value it is merged from (phi edges), within its function.
func backwardMerge(v ssa.Value) map[ssa.Value]bool {
	out := map[ssa.Value]bool{}
	var walk func(x ssa.Value)
	walk = func(x ssa.Value) {
		if out[x] {
			return
		}
		out[x] = true
		if ph, ok := x.(*ssa.Phi); ok {
			for _, e := range ph.Edges {
				walk(e)
			}
		}
	}
	walk(v)
	return out
}
