package main

import (
	"fmt"
	"go/types"
	"strings"
)

// C19.R11 — a parsed syntax tree is not kept between uses.
//
// The tools that format, diff, validate and rewrite the configuration work on config.Parse of the file's bytes. The
// mutation tools edit the tree they parsed in place (routes and blocks are reached through pointers and slices), so a
// tree that is remembered between calls — a parse cache keyed by content, a "last config" field — is shared with
// whatever was done to it before: a previewed or rolled-back mutation leaves the file unchanged and the remembered
// tree changed, and the next format of the unchanged file writes a different configuration. Decided by type: no
// long-lived object of the packages that rewrite the configuration (the MCP server, the app's runtime state and
// servers) has a field from which a config.Config syntax tree (or a part of it: a *config.Route, a block) is
// reachable.

func checkNoRetainedSyntaxTree(c *Ctx, rule string) {
	p := c.P
	cfgPkg := p.Pkg("config")
	if cfgPkg == nil {
		c.Fail(rule, "anchor:package config", "", "not loaded")
		return
	}
	root := p.Named("config", "Config")
	if root == nil {
		c.Fail(rule, "anchor:config.Config", "", "type not found")
		return
	}
	// syntax-tree types: struct types of package config reachable from Config
	ast := map[*types.Named]bool{}
	var walk func(t types.Type, depth int)
	walk = func(t types.Type, depth int) {
		if depth > 12 {
			return
		}
		switch x := t.(type) {
		case *types.Pointer:
			walk(x.Elem(), depth+1)
		case *types.Slice:
			walk(x.Elem(), depth+1)
		case *types.Array:
			walk(x.Elem(), depth+1)
		case *types.Map:
			walk(x.Elem(), depth+1)
		case *types.Alias:
			walk(types.Unalias(x), depth+1)
		case *types.Named:
			st, ok := x.Underlying().(*types.Struct)
			if !ok || ast[x] || x.Obj().Pkg() != cfgPkg.Types {
				return
			}
			ast[x] = true
			for i := 0; i < st.NumFields(); i++ {
				walk(st.Field(i).Type(), depth+1)
			}
		}
	}
	walk(root, 0)
	// holders: the long-lived objects
	holders := []struct{ pkg, name string }{{"mcp", "Server"}, {"app", "runtimeState"}, {"admin", "Server"}}
	n := 0
	for _, h := range holders {
		T := p.Named(h.pkg, h.name)
		if T == nil {
			continue
		}
		n++
		var path []string
		seen := map[*types.Named]bool{}
		var find func(t types.Type, depth int) bool
		find = func(t types.Type, depth int) bool {
			if depth > 10 {
				return false
			}
			switch x := t.(type) {
			case *types.Pointer:
				return find(x.Elem(), depth+1)
			case *types.Slice:
				return find(x.Elem(), depth+1)
			case *types.Array:
				return find(x.Elem(), depth+1)
			case *types.Map:
				return find(x.Key(), depth+1) || find(x.Elem(), depth+1)
			case *types.Alias:
				return find(types.Unalias(x), depth+1)
			case *types.Named:
				if ast[x] {
					path = append(path, x.Obj().Pkg().Name()+"."+x.Obj().Name())
					return true
				}
				if x.Obj().Pkg() == nil || !strings.HasPrefix(x.Obj().Pkg().Path(), modPath) || seen[x] {
					return false
				}
				seen[x] = true
				st, ok := x.Underlying().(*types.Struct)
				if !ok {
					return false
				}
				for i := 0; i < st.NumFields(); i++ {
					if find(st.Field(i).Type(), depth+1) {
						path = append(path, x.Obj().Name()+"."+st.Field(i).Name())
						return true
					}
				}
			}
			return false
		}
		found := find(T, 0)
		rev := make([]string, 0, len(path))
		for i := len(path) - 1; i >= 0; i-- {
			rev = append(rev, path[i])
		}
		c.Check(!found, rule, fmt.Sprintf("%s.%s holds no syntax tree", h.pkg, h.name), p.Pos(T.Obj().Pos()),
			fmt.Sprintf("no field path from %s.%s reaches one of the %d syntax-tree types of package config", h.pkg, h.name, len(ast)),
			fmt.Sprintf("a parsed syntax tree is kept in a long-lived object (%s): the mutation tools edit the tree they parsed through its pointers and slices, so a previewed or rolled-back mutation changes the remembered tree while the file stays the same, and the next format/diff/validate of the unchanged file answers for a different configuration", strings.Join(rev, " → ")))
	}
	c.Floor(rule, "long-lived holders examined", n, 2)
}
