package main

import (
	"fmt"
	"go/token"
	"go/types"
	"sort"
	"strings"

	"golang.org/x/tools/go/ssa"
)

// ---------------------------------------------------------------------------
// R3 access check dominates dispatch; the access predicate

type pathCond struct {
	Cond ssa.Value
	Val  bool
}

// pathConds lists the branch conditions taken along a path (NOT stripped into the polarity).
func pathConds(pa predPath) []pathCond {
	var out []pathCond
	for i := 0; i+1 < len(pa.Blocks); i++ {
		b := pa.Blocks[i]
		ifi, ok := b.Instrs[len(b.Instrs)-1].(*ssa.If)
		if !ok {
			continue
		}
		val := b.Succs[0] == pa.Blocks[i+1]
		cond := ifi.Cond
		// a phi condition (short-circuit &&/||) resolved on this path
		if phi, ok := cond.(*ssa.Phi); ok {
			if v, ok := pa.PhiPred[phi]; ok {
				cond = v
			}
		}
		for {
			if u, ok := cond.(*ssa.UnOp); ok && u.Op == token.NOT {
				cond = u.X
				val = !val
				continue
			}
			break
		}
		out = append(out, pathCond{cond, val})
	}
	return out
}

func isFieldLoad(v ssa.Value, field string) bool {
	u, ok := v.(*ssa.UnOp)
	if !ok || u.Op != token.MUL {
		return false
	}
	fa, ok := u.X.(*ssa.FieldAddr)
	if !ok {
		return false
	}
	_, f, _ := fieldAddrName(fa)
	return f == field
}

func (m *mcpModel) accessAtom(pc pathCond) (string, bool) {
	switch x := pc.Cond.(type) {
	case *ssa.Extract:
		if call, ok := x.Tuple.(*ssa.Call); ok && call.Call.StaticCallee() == m.roleTab.fn && x.Index == 1 {
			return "known", pc.Val
		}
	case *ssa.Call:
		switch x.Call.StaticCallee() {
		case m.mutFlag.fn:
			return "needMut", pc.Val
		case m.rtFlag.fn:
			return "needRt", pc.Val
		case m.mutating.fn:
			return "isMut", pc.Val
		}
		if g := x.Call.StaticCallee(); g != nil && g.Signature.Recv() != nil && g.Signature.Params().Len() == 1 && namedName(g.Signature.Params().At(0).Type()) == "Role" {
			// role test: argument must be the table's role
			if len(x.Call.Args) == 2 {
				if ex, ok := x.Call.Args[1].(*ssa.Extract); ok && ex.Index == 0 {
					if call, ok := ex.Tuple.(*ssa.Call); ok && call.Call.StaticCallee() == m.roleTab.fn {
						return "roleOK:" + g.Name(), pc.Val
					}
				}
			}
			return "roleOK-wrong-arg", pc.Val
		}
	case *ssa.UnOp:
		if isFieldLoad(x, "MutationsEnabled") {
			return "mutOn", pc.Val
		}
		if isFieldLoad(x, "RuntimeControlEnabled") {
			return "rtOn", pc.Val
		}
	case *ssa.BinOp:
		// the role test written out: rank(effective) >= rank(required) (or its negation / mirror image)
		if lc, lok := x.X.(*ssa.Call); lok {
			if rc, rok := x.Y.(*ssa.Call); rok && lc.Call.StaticCallee() != nil && lc.Call.StaticCallee() == rc.Call.StaticCallee() && len(lc.Call.Args) == 1 && len(rc.Call.Args) == 1 {
				isReq := func(v ssa.Value) bool {
					ex, ok := v.(*ssa.Extract)
					if !ok || ex.Index != 0 {
						return false
					}
					call, ok := ex.Tuple.(*ssa.Call)
					return ok && call.Call.StaticCallee() == m.roleTab.fn
				}
				reqY, reqX := isReq(rc.Call.Args[0]), isReq(lc.Call.Args[0])
				switch {
				case reqY && !reqX && x.Op == token.GEQ:
					m.inlineRank = lc.Call.StaticCallee()
					return "roleOK:inline", pc.Val
				case reqY && !reqX && x.Op == token.LSS:
					m.inlineRank = lc.Call.StaticCallee()
					return "roleOK:inline", !pc.Val
				case reqX && !reqY && x.Op == token.LEQ:
					m.inlineRank = lc.Call.StaticCallee()
					return "roleOK:inline", pc.Val
				case reqX && !reqY && x.Op == token.GTR:
					m.inlineRank = lc.Call.StaticCallee()
					return "roleOK:inline", !pc.Val
				}
				return "roleOK-wrong-arg", pc.Val
			}
		}
		if x.Op == token.EQL || x.Op == token.NEQ {
			if cst, ok := x.Y.(*ssa.Const); ok && cst.Value != nil && cst.Value.ExactString() == `""` {
				if m.isPrincipalValue(x.X, 0) {
					v := pc.Val
					if x.Op == token.NEQ {
						v = !v
					}
					return "principalEmpty", v
				}
			}
		}
	}
	return "", false
}

// isPrincipalValue: v is s.Principal, possibly through strings.TrimSpace / a Server method returning that.
func (m *mcpModel) isPrincipalValue(v ssa.Value, depth int) bool {
	if depth > 3 {
		return false
	}
	if isFieldLoad(v, "Principal") {
		return true
	}
	if call, ok := v.(*ssa.Call); ok {
		g := call.Call.StaticCallee()
		if g == nil {
			return false
		}
		if g.Pkg != nil && g.Pkg.Pkg.Path() == "strings" && g.Name() == "TrimSpace" {
			return m.isPrincipalValue(call.Call.Args[0], depth+1)
		}
		if IsModuleFunc(g) && len(g.Blocks) > 0 && g.Signature.Params().Len() == 0 {
			all := true
			for _, r := range returnsOf(g) {
				if len(r.Results) != 1 || !m.isPrincipalValue(r.Results[0], depth+1) {
					all = false
				}
			}
			return all
		}
	}
	return false
}

func checkMCPAccess(c *Ctx, m *mcpModel, rule string) {
	p := c.P
	fn := m.dispatch
	accessCalls := allCalls(fn, func(ci ssa.CallInstruction) bool { return ci.Common().StaticCallee() == m.access })
	if len(accessCalls) == 0 {
		c.Fail(rule, FuncName(fn)+":calls the access check", p.Pos(fn.Pos()), "the dispatch function never calls the access check")
		return
	}
	okE, failE, untested := GuardEdges(fn, accessCalls, ErrNil)
	for _, u := range untested {
		c.Fail(rule, FuncName(fn)+":access result tested", p.InstrPos(u), "the access check's result is not tested")
	}
	n := 0
	for _, ci := range allCalls(fn, func(ci ssa.CallInstruction) bool { return m.handlers[ci.Common().StaticCallee()] }) {
		n++
		h := ci.Common().StaticCallee()
		construct := FuncName(fn) + ":" + h.Name() + " only after access granted"
		must, w := p.MustPass(fn, ci, okE)
		no, w2 := p.NoPathFrom(failE, ci, nil)
		switch {
		case !must:
			c.Fail(rule, construct, p.InstrPos(ci), "a path reaches the handler without taking the access check's nil edge", w...)
		case !no:
			c.Fail(rule, construct, p.InstrPos(ci), "the handler is reachable after the access check refused", w2...)
		default:
			c.Ok(rule, construct, p.InstrPos(ci), "dominated by the nil edge of "+FuncName(m.access))
		}
	}
	c.Floor(rule, "handler calls in dispatch", n, 25)
	// handlers are called from nowhere else (outside other handlers)
	// (a helper that is itself only called from handlers or the dispatch function is part of those handlers)
	var onlyBehindDispatch func(f *ssa.Function, seen map[*ssa.Function]bool) bool
	onlyBehindDispatch = func(f *ssa.Function, seen map[*ssa.Function]bool) bool {
		for f.Parent() != nil {
			f = f.Parent()
		}
		if f == p.Orig(fn) || m.handlers[f] {
			return true
		}
		if seen[f] {
			return true
		}
		seen[f] = true
		if f.Object() == nil || f.Object().Exported() {
			return false
		}
		sites := p.CallSitesOf(f)
		if len(sites) == 0 {
			return false
		}
		for _, cs := range sites {
			if !onlyBehindDispatch(cs.Parent(), seen) {
				return false
			}
		}
		return true
	}
	for _, h := range sortedFuncs(m.handlers) {
		for _, cs := range p.CallSitesOf(h) {
			caller := cs.Parent()
			if caller == fn || m.handlers[caller] || onlyBehindDispatch(caller, map[*ssa.Function]bool{}) {
				continue
			}
			c.Fail(rule, FuncName(h)+":called only through dispatch", p.InstrPos(cs), "tool handler is also called from "+FuncName(caller)+", bypassing the access check")
		}
	}

	// the access predicate
	paths := enumeratePaths(m.access.Blocks[0], 4000)
	nNil := 0
	for _, pa := range paths {
		if len(pa.Ret.Results) != 1 || !isNilConst(pa.Ret.Results[0]) {
			continue
		}
		nNil++
		atoms := map[string]bool{}
		var desc []string
		for _, pc := range pathConds(pa) {
			if k, v := m.accessAtom(pc); k != "" {
				atoms[k] = v
				desc = append(desc, fmt.Sprintf("%s=%v", k, v))
			}
		}
		has := func(k string, want bool) bool { v, ok := atoms[k]; return ok && v == want }
		roleOK := false
		for k, v := range atoms {
			if strings.HasPrefix(k, "roleOK:") && v {
				roleOK = true
			}
		}
		var missing []string
		if !has("known", true) {
			missing = append(missing, "tool known")
		}
		if !(has("needMut", false) || has("mutOn", true)) {
			missing = append(missing, "mutations flag on when required")
		}
		if !(has("needRt", false) || has("rtOn", true)) {
			missing = append(missing, "runtime-control flag on when required")
		}
		if !roleOK {
			missing = append(missing, "role rank ≥ the table's role")
		}
		if !(has("isMut", false) || has("principalEmpty", false)) {
			missing = append(missing, "principal configured for mutating tools")
		}
		construct := fmt.Sprintf("%s:grant path #%d", FuncName(m.access), nNil)
		c.Check(len(missing) == 0, rule, construct, p.InstrPos(pa.Ret),
			"granted under "+strings.Join(desc, " ∧ "),
			"access is granted on a path ("+strings.Join(desc, " ∧ ")+") that does not establish: "+strings.Join(missing, "; "))
	}
	c.Floor(rule, "grant paths of the access check", nNil, 1)
	if m.inlineRank != nil {
		checkRankFunction(c, m, rule, m.inlineRank)
	}

	// the role comparison: rank(effective) >= rank(required) with admin > operate > anything else
	for _, g := range p.MethodsOf("mcp", "Server") {
		if g.Signature.Params().Len() != 1 || namedName(g.Signature.Params().At(0).Type()) != "Role" || g.Signature.Results().Len() != 1 {
			continue
		}
		called := false
		for _, ci := range allCalls(m.access, nil) {
			if ci.Common().StaticCallee() == g {
				called = true
			}
		}
		if !called {
			continue
		}
		ok := false
		detail := "not a single rank comparison"
		rets := returnsOf(g)
		if len(rets) == 1 {
			if bo, isB := rets[0].Results[0].(*ssa.BinOp); isB {
				lc, lok := bo.X.(*ssa.Call)
				rc, rok := bo.Y.(*ssa.Call)
				if lok && rok && lc.Call.StaticCallee() != nil && lc.Call.StaticCallee() == rc.Call.StaticCallee() {
					_, reqIsParam := rc.Call.Args[0].(*ssa.Parameter)
					_, effIsParam := lc.Call.Args[0].(*ssa.Parameter)
					switch {
					case bo.Op == token.GEQ && reqIsParam && !effIsParam:
						ok = true
					case bo.Op == token.LEQ && effIsParam && !reqIsParam:
						ok = true
					}
					detail = fmt.Sprintf("%s(…) %s %s(required)", lc.Call.StaticCallee().Name(), bo.Op, rc.Call.StaticCallee().Name())
					if ok {
						checkRankFunction(c, m, rule, lc.Call.StaticCallee())
					}
				}
			}
		}
		c.Check(ok, rule, FuncName(g)+":rank(effective) >= rank(required)", p.Pos(g.Pos()), detail, "the role test is "+detail+", not rank(effective role) >= rank(required role)")
	}
}

func checkRankFunction(c *Ctx, m *mcpModel, rule string, rank *ssa.Function) {
	p := c.P
	ranks := map[string]int64{}
	def := int64(-1)
	for _, pa := range enumeratePaths(rank.Blocks[0], 100) {
		v, ok := intConst(pa.Ret.Results[0])
		if !ok {
			c.Undecided(rule, FuncName(rank)+":constant ranks", p.InstrPos(pa.Ret), "rank is not a constant on some path")
			return
		}
		eq := ""
		for _, pc := range pathConds(pa) {
			if bo, ok := pc.Cond.(*ssa.BinOp); ok && bo.Op == token.EQL && pc.Val {
				if cst, ok := bo.Y.(*ssa.Const); ok && cst.Value != nil {
					eq = strings.Trim(cst.Value.ExactString(), `"`)
				}
			}
		}
		if eq == "" {
			def = v
		} else {
			ranks[eq] = v
		}
	}
	ok := ranks["admin"] > ranks["operate"] && ranks["operate"] > def && def >= 0 && len(ranks) == 2
	c.Check(ok, rule, FuncName(rank)+":admin > operate > everything else", p.Pos(rank.Pos()),
		fmt.Sprintf("admin=%d operate=%d default=%d", ranks["admin"], ranks["operate"], def),
		fmt.Sprintf("ranks %v default=%d do not order admin > operate > other (an unknown or read role would outrank a privileged one)", ranks, def))
}

// ---------------------------------------------------------------------------
// R4 list/call agreement

func checkMCPList(c *Ctx, m *mcpModel, rule string) {
	p := c.P
	fn := m.descr
	accessCalls := allCalls(fn, func(ci ssa.CallInstruction) bool { return ci.Common().StaticCallee() == m.access })
	if len(accessCalls) == 0 {
		c.Fail(rule, FuncName(fn)+":filters through the access check", p.Pos(fn.Pos()), "the descriptor list is not filtered by the access check used for calls")
		return
	}
	okE, failE, _ := GuardEdges(fn, accessCalls, ErrNil)
	// the returned slice: walk its definition chain
	rets := returnsOf(fn)
	nApp := 0
	for _, r := range rets {
		seen := map[ssa.Value]bool{}
		var walk func(v ssa.Value)
		bad := ""
		walk = func(v ssa.Value) {
			if v == nil || seen[v] || bad != "" {
				return
			}
			seen[v] = true
			switch x := v.(type) {
			case *ssa.Phi:
				for _, e := range x.Edges {
					walk(e)
				}
			case *ssa.MakeSlice:
			case *ssa.Const:
			case *ssa.Call:
				if bi, ok := x.Call.Value.(*ssa.Builtin); ok && bi.Name() == "append" {
					nApp++
					// within the iteration: from the loop header (or entry) the append is reached only through the nil edge
					start := fn.Blocks[0]
					if h := loopHeaderOf(x.Block()); h != nil {
						start = h
					}
					av := EdgeSet{}
					av.addAll(okE)
					_, reached := reach([]*ssa.BasicBlock{start}, av, nil)[x.Block()]
					must, _ := p.MustPass(fn, x, okE)
					must = must && !reached
					no := len(failE) > 0
					// the appended element's Name must be what the access check was asked about
					sameName := m.appendedIsChecked(x, accessCalls)
					construct := FuncName(fn) + ":append to the returned list"
					switch {
					case !must || !no:
						c.Fail(rule, construct, p.InstrPos(x), "a descriptor is appended to the returned list on a path that does not pass the access check's nil edge")
					case !sameName:
						c.Fail(rule, construct, p.InstrPos(x), "the descriptor appended is not the one whose name the access check was asked about")
					default:
						c.Ok(rule, construct, p.InstrPos(x), "appended only when "+FuncName(m.access)+"(descriptor.Name) == nil")
					}
					walk(x.Call.Args[0])
					return
				}
				bad = "the returned list comes from " + shortVal(v)
			case *ssa.Slice:
				bad = "the returned list is (a slice of) the unfiltered descriptor literal"
			case *ssa.UnOp:
				if al, ok := x.X.(*ssa.Alloc); ok && x.Op == token.MUL {
					for _, ref := range *al.Referrers() {
						if st, ok := ref.(*ssa.Store); ok && st.Addr == al {
							walk(st.Val)
						}
					}
					return
				}
				bad = "the returned list comes from " + shortVal(v)
			default:
				bad = "the returned list comes from " + shortVal(v)
			}
		}
		walk(r.Results[0])
		c.Check(bad == "", rule, FuncName(fn)+":returns only the filtered list", p.InstrPos(r),
			"the result is built from make + guarded appends", bad+": tools are advertised without the access check")
	}
	c.Floor(rule, "guarded appends to the returned list", nApp, 1)
}

// appendedIsChecked: append(list, elem) where elem is loaded from the same element whose .Name was passed to an access call.
func (m *mcpModel) appendedIsChecked(app *ssa.Call, accessCalls []ssa.CallInstruction) bool {
	if len(app.Call.Args) != 2 {
		return false
	}
	// variadic append packs the element into a fresh array: find stores into it
	var elems []ssa.Value
	if sl, ok := app.Call.Args[1].(*ssa.Slice); ok {
		if al, ok := sl.X.(*ssa.Alloc); ok {
			for _, ref := range *al.Referrers() {
				if ia, ok := ref.(*ssa.IndexAddr); ok {
					for _, r2 := range *ia.Referrers() {
						if st, ok := r2.(*ssa.Store); ok && st.Addr == ia {
							elems = append(elems, st.Val)
						}
					}
				}
			}
		}
	}
	if len(elems) != 1 {
		return false
	}
	base := elemBase(elems[0])
	if base == nil {
		return false
	}
	for _, ac := range accessCalls {
		args := ac.Common().Args
		arg := args[len(args)-1]
		// arg: load of FieldAddr(base', Name) or Field(load base', Name)
		switch x := arg.(type) {
		case *ssa.UnOp:
			if fa, ok := x.X.(*ssa.FieldAddr); ok {
				if _, f, _ := fieldAddrName(fa); f == "Name" && sameElemBase(elemBase(fa.X), base) {
					return true
				}
			}
		case *ssa.Field:
			st := x.X.Type().Underlying().(*types.Struct)
			if st.Field(x.Field).Name() == "Name" && sameElemBase(elemBase(x.X), base) {
				return true
			}
		}
	}
	return false
}

// sameElemBase: the same cell, or two addresses of the same element (same slice value, same index value).
func sameElemBase(a, b ssa.Value) bool {
	if a == b {
		return true
	}
	ia, ok1 := a.(*ssa.IndexAddr)
	ib, ok2 := b.(*ssa.IndexAddr)
	return ok1 && ok2 && ia.X == ib.X && ia.Index == ib.Index
}

// elemBase normalises "the ranged element": a load of a cell/index address, or the address itself.
func elemBase(v ssa.Value) ssa.Value {
	for i := 0; i < 6; i++ {
		switch x := v.(type) {
		case *ssa.UnOp:
			if x.Op == token.MUL {
				v = x.X
				continue
			}
		case *ssa.Alloc:
			// a local copy `tool := tools[i]`: identify by the cell
			return x
		case *ssa.IndexAddr:
			return x
		}
		break
	}
	return v
}

// ---------------------------------------------------------------------------
// R5 audit

func checkMCPAudit(c *Ctx, m *mcpModel, rule string) {
	p := c.P
	fn := m.dispatch
	emits := allCalls(fn, func(ci ssa.CallInstruction) bool { return ci.Common().StaticCallee() == m.emitter })
	accessCalls := allCalls(fn, func(ci ssa.CallInstruction) bool { return ci.Common().StaticCallee() == m.access })
	if len(emits) == 0 || len(accessCalls) == 0 {
		c.Fail(rule, FuncName(fn)+":calls the audit emitter", p.Pos(fn.Pos()), "no audit emitter call in the dispatch function")
		return
	}
	okE, failE, _ := GuardEdges(fn, accessCalls, ErrNil)
	var through []ssa.Instruction
	for _, e := range emits {
		through = append(through, e)
	}
	// result constant of each emit call
	resultOf := func(ci ssa.CallInstruction) string {
		for _, a := range ci.Common().Args {
			if cst, ok := a.(*ssa.Const); ok && cst.Value != nil && isStringT(cst.Type()) {
				return strings.Trim(cst.Value.ExactString(), `"`)
			}
		}
		return "?"
	}
	// the error of the dispatched handler: a phi of the handlers' error results, tested against nil
	var errOk, errFail []Edge
	for _, b := range fn.Blocks {
		ifi, ok := b.Instrs[len(b.Instrs)-1].(*ssa.If)
		if !ok {
			continue
		}
		for i := 0; i < 2; i++ {
			a := condAtom(ifi.Cond, i == 0)
			if !isNilConst(a.Y) || !isErrorT(a.X.Type()) {
				continue
			}
			if !m.isHandlerErr(a.X, map[ssa.Value]bool{}) {
				continue
			}
			if a.Op == token.EQL {
				errOk = append(errOk, Edge{b, i})
			} else if a.Op == token.NEQ {
				errFail = append(errFail, Edge{b, i})
			}
		}
	}
	for _, e := range emits {
		res := resultOf(e)
		construct := fmt.Sprintf("%s:audit result %q matches its branch", FuncName(fn), res)
		// one emit whose result was chosen from the handler's error beforehand (`result := "success"; if err != nil
		// { result = "error" }`): every alternative of the merged constant arrives over the edge that justifies it
		if res == "?" {
			var phi *ssa.Phi
			for _, a := range e.Common().Args {
				if ph, ok := a.(*ssa.Phi); ok && isStringT(ph.Type()) {
					phi = ph
				}
			}
			if phi != nil {
				okAll := len(phi.Edges) > 0
				var alts []string
				for i, ed := range phi.Edges {
					sv, isC := constString(ed)
					if !isC {
						okAll = false
						continue
					}
					alts = append(alts, sv)
					justified := false
					for _, a := range edgeConds(phi.Block().Preds[i], phi.Block()) {
						if !isNilConst(a.Y) || !isErrorT(a.X.Type()) || !m.isHandlerErr(a.X, map[ssa.Value]bool{}) {
							continue
						}
						if (sv == "error" && a.Op == token.NEQ) || (sv == "success" && a.Op == token.EQL) {
							justified = true
						}
					}
					if !justified {
						okAll = false
					}
				}
				must2, _ := p.MustPass(fn, e, okE)
				construct = fmt.Sprintf("%s:audit result %s matches its branch", FuncName(fn), strings.Join(alts, "/"))
				c.Check(okAll && must2, rule, construct, p.InstrPos(e), "each alternative of the result arrives over the handler's err == nil / err != nil edge it stands for, after access was granted",
					"the audit result is chosen from "+strings.Join(alts, "/")+" on an edge that does not establish it")
				res = "merged"
			}
		}
		switch res {
		case "merged":
		case "denied":
			must, w := p.MustPass(fn, e, failE)
			c.Check(must, rule, construct, p.InstrPos(e), "only on the refusing edge of the access check", "recorded as denied on a path where access was not refused: "+strings.Join(w, " → "))
		case "error":
			must, w := p.MustPass(fn, e, errFail)
			must2, _ := p.MustPass(fn, e, okE)
			c.Check(must && must2 && len(errFail) > 0, rule, construct, p.InstrPos(e), "only after access granted and on the handler's err != nil edge", "recorded as error on a path where the handler did not fail: "+strings.Join(w, " → "))
		case "success":
			must, w := p.MustPass(fn, e, errOk)
			must2, _ := p.MustPass(fn, e, okE)
			c.Check(must && must2 && len(errOk) > 0, rule, construct, p.InstrPos(e), "only after access granted and on the handler's err == nil edge", "recorded as success on a path where the handler's error was not nil: "+strings.Join(w, " → "))
		default:
			c.Fail(rule, construct, p.InstrPos(e), "audit result is not one of denied / error / success")
		}
		// the emitter receives the tool name and the call's arguments unchanged
		args := e.Common().Args
		if len(args) >= 3 {
			_, nameIsParam := args[1].(*ssa.Parameter)
			_, argsIsParam := args[2].(*ssa.Parameter)
			c.Check(nameIsParam && argsIsParam, rule, fmt.Sprintf("%s:audit %q records the call's own name and arguments", FuncName(fn), res), p.InstrPos(e),
				"tool name and arguments are the dispatch function's parameters", "the audit record is given "+shortVal(args[1])+" / "+shortVal(args[2])+" instead of the call's tool name and arguments")
		}
	}
	// every return after the access check is preceded by an emit (the dispatch default is unreachable when R1 holds)
	nRet := 0
	for _, r := range returnsOf(fn) {
		if m.isDispatchDefault(r) {
			c.Ok(rule, FuncName(fn)+":default clause return", p.InstrPos(r), "reached only when no dispatch case matches; unreachable after a granted access check because dispatch cases = role-table domain (C20.R1)")
			continue
		}
		nRet++
		must, w := p.MustPassInstr(fn, r, through)
		c.Check(must, rule, fmt.Sprintf("%s:return #%d preceded by an audit event", FuncName(fn), nRet), p.InstrPos(r),
			"every path to this return passes the audit emitter", "a call can complete without an audit event: "+strings.Join(w, " → "))
	}
	c.Floor(rule, "returns of the dispatch function", nRet, 3)

	// the emitter itself
	em := m.emitter
	var enc []ssa.CallInstruction
	for _, ci := range allCalls(em, nil) {
		g := ci.Common().StaticCallee()
		if g != nil && g.Name() == "Encode" && g.Signature.Recv() != nil && namedName(g.Signature.Recv().Type()) == "Encoder" {
			enc = append(enc, ci)
		}
		if ci.Common().IsInvoke() && ci.Common().Method.Name() == "Write" {
			enc = append(enc, ci)
		}
	}
	if len(enc) != 1 {
		c.Undecided(rule, FuncName(em)+":one record write", p.Pos(em.Pos()), fmt.Sprintf("%d record writes found, expected exactly one (one record per call)", len(enc)))
		return
	}
	// not inside a loop
	c.Check(loopHeaderOf(enc[0].Block()) == nil, rule, FuncName(em)+":one record per event", p.InstrPos(enc[0]), "the record write is not in a loop", "the record write sits in a loop")
	// the writer is the configured audit writer
	wOK := false
	if call, ok := enc[0].Common().Args[0].(*ssa.Call); ok {
		if g := call.Call.StaticCallee(); g != nil && g.Name() == "NewEncoder" && len(call.Call.Args) == 1 {
			wOK = isFieldLoad(call.Call.Args[0], "AuditWriter")
		}
	}
	c.Check(wOK, rule, FuncName(em)+":writes to the configured audit writer", p.InstrPos(enc[0]), "json.NewEncoder(s.AuditWriter)", "the record is not written to Server.AuditWriter")
	// paths that skip the write
	nSkip := 0
	for _, pa := range enumeratePaths(em.Blocks[0], 2000) {
		passes := false
		for _, b := range pa.Blocks {
			if b == enc[0].Block() {
				passes = true
			}
		}
		if passes {
			continue
		}
		nSkip++
		excused := ""
		for _, pc := range pathConds(pa) {
			if call, ok := pc.Cond.(*ssa.Call); ok && call.Call.StaticCallee() == m.mutating.fn && !pc.Val {
				if _, isP := call.Call.Args[0].(*ssa.Parameter); isP {
					excused = "tool is not mutating"
				}
			}
			if bo, ok := pc.Cond.(*ssa.BinOp); ok && isNilConst(bo.Y) {
				eq := (bo.Op == token.EQL) == pc.Val
				if eq {
					if _, isP := bo.X.(*ssa.Parameter); isP {
						excused = "nil server"
					}
					if isFieldLoad(bo.X, "AuditWriter") {
						excused = "no audit writer configured"
					}
				}
			}
		}
		c.Check(excused != "", rule, fmt.Sprintf("%s:skip path #%d is excused", FuncName(em), nSkip), p.InstrPos(pa.Ret),
			"no record only because "+excused, "a path returns without writing the record although the tool is mutating and a writer is configured")
	}
	c.Floor(rule, "emitter skip paths", nSkip, 2)
	// record keys
	want := map[string]string{"timestamp": "", "principal": "", "role": "", "tool": "", "input_hash": "", "result": "", "duration_ms": ""}
	var recordMap ssa.Value
	if mi, ok := enc[0].Common().Args[len(enc[0].Common().Args)-1].(*ssa.MakeInterface); ok {
		recordMap = mi.X
	}
	got := map[string]ssa.Value{}
	for _, b := range em.Blocks {
		for _, ins := range b.Instrs {
			if mu, ok := ins.(*ssa.MapUpdate); ok && mu.Map == recordMap {
				if cst, ok := mu.Key.(*ssa.Const); ok && cst.Value != nil && b.Dominates(enc[0].Block()) {
					got[strings.Trim(cst.Value.ExactString(), `"`)] = mu.Value
				}
			}
		}
	}
	for _, k := range setKeys(want) {
		v, ok := got[k]
		detail := "set unconditionally before the write"
		good := ok
		if ok {
			inner := v
			if mi, isMI := v.(*ssa.MakeInterface); isMI {
				inner = mi.X
			}
			switch k {
			case "tool", "result":
				pr, isP := inner.(*ssa.Parameter)
				good = isP && isStringT(pr.Type())
				if good {
					detail = "the emitter's parameter " + pr.Name()
				} else {
					detail = "value is " + shortVal(inner) + ", not the parameter"
				}
			case "principal":
				good = m.isPrincipalValue(inner, 0)
				detail = "the configured principal"
				if !good {
					detail = "value is " + shortVal(inner) + ", not the configured principal"
				}
			}
		}
		c.Check(good, rule, FuncName(em)+":record key "+k, p.Pos(em.Pos()), detail, "the audit record lacks key "+k+" (or it is set only on some paths / from the wrong value): "+detail)
	}
}

func (m *mcpModel) isHandlerErr(v ssa.Value, seen map[ssa.Value]bool) bool {
	if seen[v] {
		return true
	}
	seen[v] = true
	switch x := v.(type) {
	case *ssa.Phi:
		n := 0
		for _, e := range x.Edges {
			if cst, ok := e.(*ssa.Const); ok && cst.Value == nil {
				continue
			}
			if !m.isHandlerErr(e, seen) {
				return false
			}
			n++
		}
		return n > 0
	case *ssa.Extract:
		if call, ok := x.Tuple.(*ssa.Call); ok && m.handlers[call.Call.StaticCallee()] && x.Index == 1 {
			return true
		}
	case *ssa.UnOp:
		if al, ok := x.X.(*ssa.Alloc); ok && x.Op == token.MUL {
			n := 0
			for _, ref := range *al.Referrers() {
				if st, ok := ref.(*ssa.Store); ok && st.Addr == al {
					if cst, ok := st.Val.(*ssa.Const); ok && cst.Value == nil {
						continue
					}
					if !m.isHandlerErr(st.Val, seen) {
						return false
					}
					n++
				}
			}
			return n > 0
		}
	}
	return false
}

// isDispatchDefault: the return sits in the block reached by the false edge of the last case comparison.
func (m *mcpModel) isDispatchDefault(r *ssa.Return) bool {
	b := r.Block()
	if len(b.Preds) != 1 {
		return false
	}
	pr := b.Preds[0]
	ifi, ok := pr.Instrs[len(pr.Instrs)-1].(*ssa.If)
	if !ok || pr.Succs[1] != b {
		return false
	}
	bo, ok := ifi.Cond.(*ssa.BinOp)
	if !ok || bo.Op != token.EQL {
		return false
	}
	cst, ok := bo.Y.(*ssa.Const)
	if !ok || cst.Value == nil {
		return false
	}
	_, isCase := m.cases[strings.Trim(cst.Value.ExactString(), `"`)]
	return isCase
}

// ---------------------------------------------------------------------------
// R6 confinement

type originSet struct {
	ok  []string
	bad []string
}

func (o *originSet) addOK(s string)  { o.ok = append(o.ok, s) }
func (o *originSet) addBad(s string) { o.bad = append(o.bad, s) }

func (m *mcpModel) resolvers() map[*ssa.Function]bool {
	out := map[*ssa.Function]bool{}
	for _, f := range m.p.MethodsOf("mcp", "Server") {
		ps, rs := f.Signature.Params(), f.Signature.Results()
		if ps.Len() == 1 && isMapStringAny(ps.At(0).Type()) && rs.Len() == 2 && isStringT(rs.At(0).Type()) && isErrorT(rs.At(1).Type()) {
			out[f] = true
		}
	}
	return out
}

var passThroughPkgs = map[string]bool{"strings": true, "path/filepath": true, "path": true, "fmt": true, "strconv": true}

// pathOrigins classifies where a path-like value comes from.
func (m *mcpModel) pathOrigins(v ssa.Value, fn *ssa.Function, res map[*ssa.Function]bool, out *originSet, seen map[ssa.Value]bool, depth int) {
	if v == nil || seen[v] {
		return
	}
	seen[v] = true
	if depth > 32 {
		out.addBad("provenance too deep at " + shortVal(v))
		return
	}
	p := m.p
	switch x := v.(type) {
	case *ssa.Const:
		out.addOK("const")
	case *ssa.Global:
		out.addOK("global " + x.Name())
	case *ssa.Phi:
		for _, e := range x.Edges {
			m.pathOrigins(e, fn, res, out, seen, depth+1)
		}
	case *ssa.ChangeType:
		m.pathOrigins(x.X, fn, res, out, seen, depth+1)
	case *ssa.Convert:
		m.pathOrigins(x.X, fn, res, out, seen, depth+1)
	case *ssa.MakeInterface:
		m.pathOrigins(x.X, fn, res, out, seen, depth+1)
	case *ssa.BinOp:
		m.pathOrigins(x.X, fn, res, out, seen, depth+1)
		m.pathOrigins(x.Y, fn, res, out, seen, depth+1)
	case *ssa.Slice:
		m.pathOrigins(x.X, fn, res, out, seen, depth+1)
	case *ssa.Extract:
		call, ok := x.Tuple.(*ssa.Call)
		if !ok {
			out.addBad("tuple " + shortVal(x.Tuple))
			return
		}
		m.callOrigins(call, x.Index, fn, res, out, seen, depth)
	case *ssa.Call:
		m.callOrigins(x, 0, fn, res, out, seen, depth)
	case *ssa.Parameter:
		if isMapStringAny(x.Type()) {
			out.addBad("the caller-supplied arguments map")
			return
		}
		// follow to the call sites
		idx := -1
		for i, pr := range fn.Params {
			if pr == x {
				idx = i
			}
		}
		sites := p.CallSitesOf(fn)
		if idx < 0 || len(sites) == 0 {
			if fn.Signature.Recv() != nil && idx == 0 {
				out.addOK("receiver")
				return
			}
			out.addBad("parameter " + x.Name() + " of " + FuncName(fn) + " (no call sites found)")
			return
		}
		for _, cs := range sites {
			if idx < len(cs.Common().Args) {
				m.pathOrigins(cs.Common().Args[idx], cs.Parent(), res, out, seen, depth+1)
			}
		}
	case *ssa.FreeVar:
		// captured variable: find the binding in the enclosing function's MakeClosure
		par := fn.Parent()
		if par == nil {
			out.addBad("free variable " + x.Name())
			return
		}
		idx := -1
		for i, fv := range fn.FreeVars {
			if fv == x {
				idx = i
			}
		}
		for _, b := range par.Blocks {
			for _, ins := range b.Instrs {
				if mc, ok := ins.(*ssa.MakeClosure); ok && mc.Fn == fn && idx >= 0 && idx < len(mc.Bindings) {
					m.pathOrigins(mc.Bindings[idx], par, res, out, seen, depth+1)
				}
			}
		}
	case *ssa.Alloc:
		for _, ref := range *x.Referrers() {
			if st, ok := ref.(*ssa.Store); ok && st.Addr == x {
				m.pathOrigins(st.Val, fn, res, out, seen, depth+1)
			}
		}
	case *ssa.Field:
		st := x.X.Type().Underlying().(*types.Struct)
		if namedPkgPath(x.X.Type()) == pkgPath("config") {
			out.addOK("compiled config field " + st.Field(x.Field).Name())
			return
		}
		m.pathOrigins(x.X, fn, res, out, seen, depth+1)
	case *ssa.UnOp:
		if x.Op != token.MUL {
			out.addBad("operator " + x.Op.String())
			return
		}
		switch a := x.X.(type) {
		case *ssa.FieldAddr:
			tn, f, _ := fieldAddrName(a)
			switch {
			case tn == "Server":
				out.addOK("configured Server." + f)
			case namedPkgPath(fieldOwnerDeref(a)) == pkgPath("config"):
				out.addOK("compiled config field " + tn + "." + f)
			default:
				// a field of a local struct: look at what was stored there
				m.pathOrigins(a.X, fn, res, out, seen, depth+1)
				for _, ref := range *a.X.Referrers() {
					if fa2, ok := ref.(*ssa.FieldAddr); ok && fa2.Field == a.Field {
						for _, r2 := range *fa2.Referrers() {
							if st, ok := r2.(*ssa.Store); ok && st.Addr == fa2 {
								m.pathOrigins(st.Val, fn, res, out, seen, depth+1)
							}
						}
					}
				}
			}
		case *ssa.Alloc:
			m.pathOrigins(a, fn, res, out, seen, depth+1)
		case *ssa.Global:
			out.addOK("global " + a.Name())
		case *ssa.IndexAddr:
			m.pathOrigins(a.X, fn, res, out, seen, depth+1)
		case *ssa.FreeVar:
			m.pathOrigins(a, fn, res, out, seen, depth+1)
		default:
			out.addBad("load of " + shortVal(x.X))
		}
	case *ssa.Lookup:
		if isMapStringAny(x.X.Type()) {
			out.addBad("a value looked up in the caller-supplied arguments map")
			return
		}
		m.pathOrigins(x.X, fn, res, out, seen, depth+1)
	case *ssa.TypeAssert:
		m.pathOrigins(x.X, fn, res, out, seen, depth+1)
	case *ssa.IndexAddr:
		m.pathOrigins(x.X, fn, res, out, seen, depth+1)
	case *ssa.FieldAddr:
		m.pathOrigins(x.X, fn, res, out, seen, depth+1)
	default:
		out.addBad("unclassified value " + shortVal(v))
	}
}

func fieldOwnerDeref(fa *ssa.FieldAddr) types.Type {
	t := fa.X.Type()
	if pt, ok := t.Underlying().(*types.Pointer); ok {
		return pt.Elem()
	}
	return t
}

func (m *mcpModel) callOrigins(call *ssa.Call, idx int, fn *ssa.Function, res map[*ssa.Function]bool, out *originSet, seen map[ssa.Value]bool, depth int) {
	g := call.Call.StaticCallee()
	if g == nil {
		if call.Call.IsInvoke() {
			out.addBad("result of dynamic call " + call.Call.Method.Name())
		} else if bi, ok := call.Call.Value.(*ssa.Builtin); ok && bi.Name() == "append" {
			for _, a := range call.Call.Args {
				m.pathOrigins(a, fn, res, out, seen, depth+1)
			}
		} else {
			out.addBad("result of dynamic call")
		}
		return
	}
	if res[g] {
		if idx == 0 {
			out.addOK("resolver " + g.Name())
		}
		return
	}
	if g.Pkg != nil && !IsModuleFunc(g) {
		pk := g.Pkg.Pkg.Path()
		if passThroughPkgs[pk] {
			for _, a := range call.Call.Args {
				m.pathOrigins(a, fn, res, out, seen, depth+1)
			}
			return
		}
		if pk == "os" {
			switch g.Name() {
			case "CreateTemp", "Name", "Getwd", "Executable", "TempDir":
				for _, a := range call.Call.Args {
					m.pathOrigins(a, fn, res, out, seen, depth+1)
				}
				return
			}
		}
		out.addBad("result of " + pk + "." + g.Name())
		return
	}
	// a module function: the values it returns
	if len(g.Blocks) == 0 {
		out.addBad("result of " + FuncName(g))
		return
	}
	if g.Signature.Results().Len() > idx && namedPkgPath(g.Signature.Results().At(idx).Type()) == pkgPath("config") {
		out.addOK("compiled config from " + g.Name())
		return
	}
	for _, r := range returnsOf(g) {
		if idx < len(r.Results) {
			m.pathOrigins(r.Results[idx], g, res, out, seen, depth+1)
		}
	}
}

func dedupe(xs []string) []string {
	seen := map[string]bool{}
	var out []string
	for _, x := range xs {
		if !seen[x] {
			seen[x] = true
			out = append(out, x)
		}
	}
	sort.Strings(out)
	return out
}

func checkMCPConfinement(c *Ctx, m *mcpModel, rule string) {
	p := c.P
	res := m.resolvers()
	c.Count("path resolvers (Server methods (map[string]any) (string, error))", len(res))
	c.Floor(rule, "path resolvers", len(res), 2)

	// (a) each resolver returns a caller-supplied value only behind equality with the configured one
	for _, r := range sortedFuncs(res) {
		nPaths, nArg := 0, 0
		r := p.View(r) // a resolver may share its argument handling with its siblings through a helper
		for _, pa := range enumeratePaths(r.Blocks[0], 2000) {
			if len(pa.Ret.Results) != 2 || !isNilConst(pa.Ret.Results[1]) {
				continue
			}
			nPaths++
			v := resolveOnPath(pa.Ret.Results[0], pa)
			o := &originSet{}
			m.pathOrigins(v, r, map[*ssa.Function]bool{}, o, map[ssa.Value]bool{}, 0)
			if len(o.bad) == 0 {
				continue
			}
			nArg++
			// caller-supplied: the path must establish equality with a configured value
			eq := false
			for _, pc := range pathConds(pa) {
				bo, ok := pc.Cond.(*ssa.BinOp)
				if !ok || (bo.Op != token.EQL && bo.Op != token.NEQ) {
					continue
				}
				isEq := (bo.Op == token.EQL) == pc.Val
				if !isEq {
					continue
				}
				for _, pair := range [][2]ssa.Value{{bo.X, bo.Y}, {bo.Y, bo.X}} {
					a, b := resolveOnPath(pair[0], pa), resolveOnPath(pair[1], pa)
					if !sameValue(a, v) {
						continue
					}
					ob := &originSet{}
					m.pathOrigins(b, r, map[*ssa.Function]bool{}, ob, map[ssa.Value]bool{}, 0)
					configured := len(ob.bad) == 0
					for _, s := range ob.ok {
						if s == "const" && len(ob.ok) == 1 {
							configured = false
						}
					}
					if configured {
						eq = true
					}
				}
			}
			c.Check(eq, rule, fmt.Sprintf("%s:caller-supplied result #%d equals the configured value", FuncName(r), nArg), p.InstrPos(pa.Ret),
				"returned only on a path that compared it equal to the configured value",
				"the resolver returns a caller-supplied path ("+strings.Join(dedupe(o.bad), "; ")+") on a path that never established equality with the configured path")
		}
		c.Check(nPaths > 0, rule, FuncName(r)+":has success paths", p.Pos(r.Pos()), fmt.Sprintf("%d success paths, %d returning a caller-supplied value", nPaths, nArg), "no success path found")
	}

	// (b) sinks in package mcp reachable from handlers
	var roots []*ssa.Function
	for h := range m.handlers {
		roots = append(roots, h)
	}
	reach := p.Reach(roots...)
	nSink := 0
	for _, g := range sortedFuncs(reach) {
		if g.Package() != p.SPkg("mcp") {
			continue
		}
		for _, ci := range allCalls(g, nil) {
			callee := ci.Common().StaticCallee()
			if callee == nil || callee.Pkg == nil {
				continue
			}
			var argIdx []int
			what := ""
			switch callee.Pkg.Pkg.Path() {
			case "os":
				if callee.Signature.Recv() == nil {
					switch callee.Name() {
					case "WriteFile", "Remove", "RemoveAll", "ReadFile", "Open", "OpenFile", "Create", "Stat", "MkdirAll", "Truncate", "Lstat":
						argIdx, what = []int{0}, "os."+callee.Name()
					case "Rename":
						argIdx, what = []int{0, 1}, "os.Rename"
					case "CreateTemp":
						argIdx, what = []int{0, 1}, "os.CreateTemp"
					}
				}
			case "os/exec":
				if callee.Name() == "Command" {
					for i := range ci.Common().Args {
						argIdx = append(argIdx, i)
					}
					what = "exec.Command"
				}
			}
			for _, ai := range argIdx {
				nSink++
				o := &originSet{}
				m.pathOrigins(ci.Common().Args[ai], g, res, o, map[ssa.Value]bool{}, 0)
				construct := fmt.Sprintf("%s:%s argument %d", FuncName(g), what, ai)
				c.Check(len(o.bad) == 0, rule, construct, p.InstrPos(ci),
					"derives only from "+strings.Join(dedupe(o.ok), ", "),
					what+" is given a value that can come from "+strings.Join(dedupe(o.bad), "; ")+": a tool call could name a file or program outside the configured ones")
			}
		}
	}
	c.Count("file/process sink arguments traced", nSink)
	c.Floor(rule, "file/process sink arguments", nSink, 25)

	// (c) validate before write, restore on failure
	checkRewriteValidateRestore(c, rule)
}

func sameValue(a, b ssa.Value) bool {
	if a == b {
		return true
	}
	oa, ia := origin(a)
	ob, ib := origin(b)
	return oa != nil && oa == ob && ia == ib
}

// ---------------------------------------------------------------------------
// R7 principal binding

func checkMCPPrincipal(c *Ctx, m *mcpModel, rule string) {
	p := c.P
	sp := p.SPkg("mcp")
	// the binder: (string, string) (string, error) in package mcp comparing its two parameters
	var binder *ssa.Function
	for _, f := range p.FuncsInPkg("mcp") {
		ps, rs := f.Signature.Params(), f.Signature.Results()
		if f.Signature.Recv() != nil || ps.Len() != 2 || rs.Len() != 2 || !isStringT(ps.At(0).Type()) || !isStringT(ps.At(1).Type()) || !isStringT(rs.At(0).Type()) || !isErrorT(rs.At(1).Type()) {
			continue
		}
		if !strings.Contains(strings.ToLower(ps.At(1).Name()), "principal") {
			continue
		}
		binder = f
	}
	_ = sp
	if binder == nil {
		c.Undecided(rule, "actor binder", "", "no (actor, principal string) (string, error) function found in package mcp")
		return
	}
	// binder: on every success path, actor is empty, principal is empty, or actor == principal
	nOK := 0
	for _, pa := range enumeratePaths(binder.Blocks[0], 2000) {
		if !isNilConst(pa.Ret.Results[1]) {
			continue
		}
		nOK++
		good := false
		var desc []string
		for _, pc := range pathConds(pa) {
			bo, ok := pc.Cond.(*ssa.BinOp)
			if !ok || (bo.Op != token.EQL && bo.Op != token.NEQ) {
				continue
			}
			isEq := (bo.Op == token.EQL) == pc.Val
			x, y := resolveOnPath(bo.X, pa), resolveOnPath(bo.Y, pa)
			xs, ys := m.binderSym(x, binder), m.binderSym(y, binder)
			desc = append(desc, fmt.Sprintf("%s %s %s", xs, map[bool]string{true: "==", false: "!="}[isEq], ys))
			if !isEq {
				continue
			}
			if (xs == "actor" && ys == "principal") || (xs == "principal" && ys == "actor") {
				good = true
			}
			if (xs == "actor" || xs == "principal") && ys == `""` {
				good = true
			}
		}
		c.Check(good, rule, fmt.Sprintf("%s:success path #%d", FuncName(binder), nOK), p.InstrPos(pa.Ret),
			"succeeds only with "+strings.Join(desc, " ∧ "),
			"the binder succeeds on a path ("+strings.Join(desc, " ∧ ")+") where a supplied actor differs from the configured principal")
	}
	c.Floor(rule, "binder success paths", nOK, 1)

	// parsers: functions in mcp calling the binder with their principal parameter; they fail when it fails
	parsers := map[*ssa.Function]bool{}
	for _, cs := range p.CallSitesOf(binder) {
		f := cs.Parent()
		parsers[f] = true
		_, failE, untested := GuardEdges(f, []ssa.CallInstruction{cs}, ErrNil)
		good := len(untested) == 0 && len(failE) > 0
		if good {
			starts := []*ssa.BasicBlock{}
			for _, e := range failE {
				starts = append(starts, e.To())
			}
			par := reach(starts, nil, nil)
			for _, r := range returnsOf(f) {
				if _, reached := par[r.Block()]; reached {
					last := r.Results[len(r.Results)-1]
					if isNilConst(last) {
						good = false
					}
				}
			}
		}
		c.Check(good, rule, FuncName(f)+":fails when the binder fails", p.InstrPos(cs), "every return after the binder's error edge carries an error", "the binder's refusal is ignored: a success return is reachable after it failed")
		// principal argument is the function's principal parameter
		_, isParam := cs.Common().Args[1].(*ssa.Parameter)
		c.Check(isParam, rule, FuncName(f)+":binds against its principal parameter", p.InstrPos(cs), "second argument is the principal parameter", "the binder is not given the caller's principal")
	}
	c.Floor(rule, "audit-argument parsers", len(parsers), 2)

	// tools accepting an actor
	actorTools := m.descriptorsWithKey("actor")
	c.Count("tools whose schema accepts an actor", len(actorTools))
	c.Floor(rule, "tools accepting an actor", len(actorTools), 10)
	effectPred := m.effectCallPred()
	memo := map[*ssa.Function]bool{}
	for _, name := range actorTools {
		h := m.cases[name]
		if h == nil {
			continue
		}
		// parser calls in the handler (directly, or one helper deep with the principal passed on)
		var pcalls []ssa.CallInstruction
		for _, ci := range allCalls(h, nil) {
			g := ci.Common().StaticCallee()
			if g == nil {
				continue
			}
			if parsers[g] && m.lastArgIsPrincipal(ci) {
				pcalls = append(pcalls, ci)
			}
		}
		if len(pcalls) == 0 {
			c.Fail(rule, "tool "+name+":parses audit arguments against the configured principal", p.Pos(h.Pos()), "the handler accepts an actor but never binds it to the configured principal")
			continue
		}
		okE, failE, _ := GuardEdges(h, pcalls, ErrNil)
		nEff := 0
		for _, ci := range allCalls(h, nil) {
			isP := false
			for _, pc := range pcalls {
				if pc == ci {
					isP = true
				}
			}
			if isP || !p.CallReaches(ci, effectPred, memo) {
				continue
			}
			nEff++
			must, w := p.MustPass(h, ci, okE)
			no, w2 := p.NoPathFrom(failE, ci, nil)
			construct := fmt.Sprintf("tool %s:%s only after actor bound", name, callDescCI(ci))
			switch {
			case !must:
				c.Fail(rule, construct, p.InstrPos(ci), "an effect is reachable without the actor having been bound to the principal", w...)
			case !no:
				c.Fail(rule, construct, p.InstrPos(ci), "an effect is reachable after the binding failed", w2...)
			default:
				c.Ok(rule, construct, p.InstrPos(ci), "behind the ok edge of the audit-argument parser")
			}
		}
		if nEff == 0 {
			c.Fail(rule, "tool "+name+":has effect sites", p.Pos(h.Pos()), "no effect call found in the handler of an actor-accepting tool (rule would be vacuous)")
		}
	}
}

func callDescCI(ci ssa.CallInstruction) string {
	if g := ci.Common().StaticCallee(); g != nil {
		return g.Name()
	}
	if ci.Common().IsInvoke() {
		return ci.Common().Method.Name()
	}
	return "dynamic call"
}

func (m *mcpModel) lastArgIsPrincipal(ci ssa.CallInstruction) bool {
	for _, a := range ci.Common().Args {
		if isStringT(a.Type()) && m.isPrincipalValue(a, 0) {
			return true
		}
	}
	return false
}

func (m *mcpModel) binderSym(v ssa.Value, binder *ssa.Function) string {
	if cst, ok := v.(*ssa.Const); ok && cst.Value != nil {
		return cst.Value.ExactString()
	}
	// strip TrimSpace
	for i := 0; i < 4; i++ {
		if call, ok := v.(*ssa.Call); ok {
			if g := call.Call.StaticCallee(); g != nil && g.Pkg != nil && g.Pkg.Pkg.Path() == "strings" && g.Name() == "TrimSpace" {
				v = call.Call.Args[0]
				continue
			}
		}
		break
	}
	if pr, ok := v.(*ssa.Parameter); ok {
		if pr == binder.Params[0] {
			return "actor"
		}
		if pr == binder.Params[1] {
			return "principal"
		}
	}
	return shortVal(v)
}

// descriptorsWithKey lists tools whose descriptor literal mentions the given property key.
func (m *mcpModel) descriptorsWithKey(key string) []string {
	fd := m.decl(m.descr)
	var out []string
	if fd == nil {
		return nil
	}
	for name, pos := range m.descrPos {
		found := false
		astInspectAt(fd, pos, func(lit string) {
			if lit == key {
				found = true
			}
		}, m)
		if found {
			out = append(out, name)
		}
	}
	sort.Strings(out)
	return out
}

// effectCallPred: call instructions that are effects (queue mutation statements are matched by function).
func (m *mcpModel) effectCallPred() func(ssa.CallInstruction) bool {
	p := m.p
	reachesQueueMutation(p, m.dispatch)
	return func(ci ssa.CallInstruction) bool {
		g := ci.Common().StaticCallee()
		if g == nil {
			return false
		}
		if p.mutFns[g] {
			return true
		}
		if isFileWriteSink(ci) != "" {
			return true
		}
		if g.Pkg != nil && g.Pkg.Pkg.Path() == "os/exec" {
			return true
		}
		if g.Pkg != nil && g.Pkg.Pkg.Path() == "syscall" && g.Name() == "Kill" {
			return true
		}
		if g.Name() == "callAdminJSON" && len(ci.Common().Args) >= 3 {
			if cst, ok := ci.Common().Args[2].(*ssa.Const); ok && cst.Value != nil {
				meth := strings.Trim(cst.Value.ExactString(), `"`)
				return meth != "GET" && meth != "HEAD"
			}
			return true
		}
		return false
	}
}
