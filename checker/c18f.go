package main

import (
	"fmt"
	"go/types"
	"sort"
	"strings"

	"golang.org/x/tools/go/ssa"
)

// C18.R12 — whatever the running state derives from the configuration at start-up, a reload derives again.
//
// runtimeState is what the per-request hooks read. A field that start-up fills from the compiled configuration — the
// route table, an index over it, limits, limiters — has to be re-derived by the reload's apply step; otherwise the
// reload "succeeds", the route table is the new one and the field still describes the configuration the process
// started with: a per-route limit lowered by the reload is not enforced, a publish switch turned off stays on.
// Decided structurally: for every field of runtimeState that some function reachable from the construction of the
// state stores with a value depending on a config.Compiled value (a parameter of that type, through field reads,
// calls, conversions, and containers filled from it), a function reachable from each reload entry must store that
// field too, or call a method/function on the field's current value with operands that depend on the new
// config.Compiled (an update in place, which C18.R11 requires to happen under the write lock).

func checkReloadRederives(c *Ctx, rule string, entries []*ssa.Function) {
	p := c.P
	isCompiled := func(t types.Type) bool {
		return namedName(t) == "Compiled" && strings.HasSuffix(namedPkgPath(t), "/internal/config")
	}
	var dep func(v ssa.Value, depth int, seen map[ssa.Value]bool) bool
	dep = func(v ssa.Value, depth int, seen map[ssa.Value]bool) bool {
		if v == nil || depth > 10 || seen[v] {
			return false
		}
		seen[v] = true
		if isCompiled(v.Type()) {
			if _, isPar := v.(*ssa.Parameter); isPar {
				return true
			}
		}
		switch x := v.(type) {
		case *ssa.Parameter:
			return isCompiled(x.Type())
		case *ssa.MakeMap, *ssa.MakeSlice, *ssa.Alloc:
			// a container: what is put into it
			if refs := v.Referrers(); refs != nil {
				for _, r := range *refs {
					switch y := r.(type) {
					case *ssa.MapUpdate:
						if dep(y.Key, depth+1, seen) || dep(y.Value, depth+1, seen) {
							return true
						}
					case *ssa.Store:
						if y.Addr == v && dep(y.Val, depth+1, seen) {
							return true
						}
					case *ssa.IndexAddr, *ssa.FieldAddr:
						if rr := y.(ssa.Value).Referrers(); rr != nil {
							for _, r2 := range *rr {
								if st, ok := r2.(*ssa.Store); ok && dep(st.Val, depth+1, seen) {
									return true
								}
							}
						}
					}
				}
			}
			return false
		}
		if ins, ok := v.(ssa.Instruction); ok {
			for _, op := range ins.Operands(nil) {
				if op != nil && *op != nil && dep(*op, depth+1, seen) {
					return true
				}
			}
		}
		return false
	}
	// construction of the state: functions that allocate a runtimeState, and what they reach
	var ctors []*ssa.Function
	for _, fn := range p.FuncsInPkg("app") {
		for _, b := range fn.Blocks {
			for _, ins := range b.Instrs {
				if al, ok := ins.(*ssa.Alloc); ok && namedName(al.Type()) == "runtimeState" {
					ctors = append(ctors, fn)
				}
			}
		}
	}
	if len(ctors) == 0 {
		c.Fail(rule, "app:construction of runtimeState", "", "no function allocates a runtimeState")
		return
	}
	type site struct{ pos, fn string }
	derived := map[string]site{}
	for fn := range p.Reach(ctors...) {
		for _, st := range runtimeStateStores(fn) {
			_, f, _ := fieldAddrName(st.Addr.(*ssa.FieldAddr))
			if _, have := derived[f]; have {
				continue
			}
			if dep(st.Val, 0, map[ssa.Value]bool{}) {
				derived[f] = site{p.InstrPos(st), fn.Name()}
			}
		}
	}
	var fields []string
	for f := range derived {
		fields = append(fields, f)
	}
	sort.Strings(fields)
	for _, entry := range entries {
		ename := "app." + entry.Name()
		stored := map[string]bool{}
		updated := map[string]bool{}
		for fn := range p.Reach(entry) {
			for _, st := range runtimeStateStores(fn) {
				_, f, _ := fieldAddrName(st.Addr.(*ssa.FieldAddr))
				stored[f] = true
			}
			for _, ci := range allCalls(fn, nil) {
				args := ci.Common().Args
				for i, a := range args {
					root, f, ok := fieldPathRootOfLoad(a)
					if !ok || root != "runtimeState" {
						continue
					}
					for j, b := range args {
						if j != i && dep(b, 0, map[ssa.Value]bool{}) {
							updated[f] = true
						}
					}
				}
			}
		}
		for _, f := range fields {
			d := derived[f]
			c.Check(stored[f] || updated[f], rule, fmt.Sprintf("%s:runtimeState.%s is derived again", ename, f), d.pos,
				"stored (or updated in place from the new configuration) on the reload path",
				fmt.Sprintf("start-up derives runtimeState.%s from the compiled configuration (in %s) but nothing reachable from the reload entry stores it or updates it from the new configuration: after a successful reload the hooks that read it still answer for the configuration the process started with, while the route table is the new one", f, d.fn))
		}
	}
	c.Floor(rule, "runtimeState fields derived from the configuration at start-up", len(fields), 5)
}
