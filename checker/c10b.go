package main

import (
	"fmt"
	"go/token"
	"go/types"
	"sort"
	"strings"

	"golang.org/x/tools/go/ssa"
)

// C10.R5 — a compiled route owns its match lists.
//
// Named matchers are shared by several routes. If a route's list is the named matcher's slice itself (same
// backing array) instead of a copy, a later append for one route writes into spare capacity that another
// route's list also covers: routes end up admitting each other's hosts, prefixes or methods. The rule
// classifies every slice stored into a field of config.MatchConfig: it must be rooted in fresh storage (nil,
// make, append onto the destination's own or fresh list, a local struct) and never in a value loaded from
// shared storage (map value, slice element, pointer target) or passed in from such a value.

type ownClass int

const (
	ownFresh ownClass = iota
	ownShared
)

type ownEnv struct {
	params map[*ssa.Parameter]ownRes
	depth  int
}

type ownRes struct {
	class ownClass
	why   string
}

func (p *Program) sliceOwnership(v ssa.Value, fn *ssa.Function, env ownEnv, seen map[ssa.Value]bool) ownRes {
	if v == nil || seen[v] {
		return ownRes{ownFresh, ""}
	}
	seen[v] = true
	defer delete(seen, v)
	join := func(rs ...ownRes) ownRes {
		for _, r := range rs {
			if r.class == ownShared {
				return r
			}
		}
		return ownRes{ownFresh, ""}
	}
	switch x := v.(type) {
	case *ssa.Const, *ssa.MakeSlice, *ssa.Alloc:
		return ownRes{ownFresh, ""}
	case *ssa.Convert:
		return p.sliceOwnership(x.X, fn, env, seen)
	case *ssa.ChangeType:
		return p.sliceOwnership(x.X, fn, env, seen)
	case *ssa.Slice:
		return p.sliceOwnership(x.X, fn, env, seen)
	case *ssa.Phi:
		var rs []ownRes
		for _, e := range x.Edges {
			rs = append(rs, p.sliceOwnership(e, fn, env, seen))
		}
		return join(rs...)
	case *ssa.Lookup:
		return ownRes{ownShared, "a value of the map " + shortVal(x.X)}
	case *ssa.Extract:
		return p.sliceOwnership(x.Tuple, fn, env, seen)
	case *ssa.Parameter:
		if r, ok := env.params[x]; ok {
			return r
		}
		// join over all call sites
		idx := -1
		for i, pr := range fn.Params {
			if pr == x {
				idx = i
			}
		}
		var rs []ownRes
		if env.depth < 3 && idx >= 0 {
			for _, cs := range p.CallSitesOf(fn) {
				if idx < len(cs.Common().Args) {
					rs = append(rs, p.sliceOwnership(cs.Common().Args[idx], cs.Parent(), ownEnv{depth: env.depth + 1}, map[ssa.Value]bool{}))
				}
			}
		}
		return join(rs...)
	case *ssa.Field:
		return p.sliceOwnership(x.X, fn, env, seen)
	case *ssa.UnOp:
		if x.Op != token.MUL {
			return ownRes{ownFresh, ""}
		}
		switch a := x.X.(type) {
		case *ssa.FieldAddr:
			// field of a struct: class of the struct's storage
			switch base := a.X.(type) {
			case *ssa.Alloc:
				// local struct: what was stored into it as a whole (e.g. a by-value parameter copy) decides
				var rs []ownRes
				for _, ref := range *base.Referrers() {
					if st, ok := ref.(*ssa.Store); ok && st.Addr == base {
						rs = append(rs, p.sliceOwnership(st.Val, fn, env, seen))
					}
				}
				return join(rs...)
			case *ssa.Parameter:
				r := p.sliceOwnership(base, fn, env, seen)
				if r.class == ownFresh {
					return ownRes{ownShared, "a field reached through pointer parameter " + base.Name()}
				}
				return r
			default:
				return ownRes{ownShared, "a field of " + shortVal(a.X)}
			}
		case *ssa.Alloc:
			var rs []ownRes
			for _, ref := range *a.Referrers() {
				if st, ok := ref.(*ssa.Store); ok && st.Addr == a {
					rs = append(rs, p.sliceOwnership(st.Val, fn, env, seen))
				}
			}
			return join(rs...)
		case *ssa.IndexAddr:
			return ownRes{ownShared, "an element of " + shortVal(a.X)}
		}
		return ownRes{ownShared, "a load through " + shortVal(x.X)}
	case *ssa.Call:
		if bi, ok := x.Call.Value.(*ssa.Builtin); ok {
			if bi.Name() == "append" {
				// appending onto an alias keeps (and may write into) the shared backing array
				return p.sliceOwnership(x.Call.Args[0], fn, env, seen)
			}
			return ownRes{ownFresh, ""}
		}
		g := x.Call.StaticCallee()
		if g == nil || !IsModuleFunc(g) || len(g.Blocks) == 0 || env.depth > 3 {
			return ownRes{ownFresh, ""}
		}
		inner := ownEnv{params: map[*ssa.Parameter]ownRes{}, depth: env.depth + 1}
		for i, pr := range g.Params {
			if i < len(x.Call.Args) {
				inner.params[pr] = p.sliceOwnership(x.Call.Args[i], fn, env, seen)
			}
		}
		var rs []ownRes
		for _, r := range returnsOf(g) {
			for _, res := range r.Results {
				rs = append(rs, p.sliceOwnership(res, g, inner, map[ssa.Value]bool{}))
			}
		}
		r := join(rs...)
		if r.class == ownShared {
			r.why += " (returned by " + g.Name() + ")"
		}
		return r
	}
	return ownRes{ownFresh, ""}
}

func checkMatchListsOwned(c *Ctx, rule string) {
	p := c.P
	n := 0
	var bad []string
	for _, fn := range p.FuncsInPkg("config") {
		for _, b := range fn.Blocks {
			for _, ins := range b.Instrs {
				st, ok := ins.(*ssa.Store)
				if !ok {
					continue
				}
				// (1) a slice stored into a field of MatchConfig
				if fa, isFA := st.Addr.(*ssa.FieldAddr); isFA {
					tn, f, _ := fieldAddrName(fa)
					if tn == "MatchConfig" {
						if _, isSlice := st.Val.Type().Underlying().(*types.Slice); isSlice {
							n++
							r := p.sliceOwnership(st.Val, fn, ownEnv{}, map[ssa.Value]bool{})
							construct := fmt.Sprintf("config.%s:MatchConfig.%s is the route's own list", fn.Name(), f)
							if r.class == ownShared {
								bad = append(bad, construct)
								c.Fail(rule, construct, p.InstrPos(st), "the list stored into MatchConfig."+f+" can be "+r.why+" — shared storage, not a copy: an append for one route then shows up in (or is overwritten by) another route that starts from the same named matcher")
							} else {
								c.Ok(rule, construct, p.InstrPos(st), "fresh storage (nil / make / append onto the destination's own list)")
							}
						}
					}
				}
				// (2) a whole MatchConfig stored: each slice field of the stored value
				if namedName(st.Val.Type()) == "MatchConfig" {
					if call, isCall := st.Val.(*ssa.Call); isCall {
						g := call.Call.StaticCallee()
						if g != nil && IsModuleFunc(g) && len(g.Blocks) > 0 {
							// fields assigned inside g are covered by (1) in g with g's parameters joined over call sites
							continue
						}
					}
				}
			}
		}
	}
	sort.Strings(bad)
	c.Count("stores of a list into config.MatchConfig", n)
	c.Floor(rule, "stores of a list into MatchConfig", n, 7)
	_ = strings.Join
}
