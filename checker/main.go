package main

import (
	"golang.org/x/tools/go/ssa"
	"flag"
	"fmt"
	"os"
	"path/filepath"
	"runtime/debug"
	"sort"
	"strconv"
	"strings"
)

// registry: property id -> rule set. Each function records obligations in ctx.
var registry = map[string]func(*Ctx){}

func register(id string, f func(*Ctx)) { registry[id] = f }

var baseAssumptions = []string{
	"analysed program = what `go build ./...` builds for GOOS=linux GOARCH=amd64 without build tags; _test.go files are not loaded",
	"go/types, go/ssa and the VTA/CHA call graph of golang.org/x/tools v0.50.0 (go1.26.8) are trusted",
	"reflection and generated protobuf code are opaque",
	"a rule decides the named structural clause for all paths the code admits; it does not establish the runtime behaviour",
}

func main() {
	repo := flag.String("repo", "/repo", "repository root")
	verif := flag.String("verif", "/verif", "verif root (evidence, known findings)")
	tier := flag.String("tier", "quick", "quick|thorough")
	list := flag.Bool("list", false, "list obligations")
	dump := flag.String("dump", "", "debug dump: sql|sqlall")
	flag.Parse()
	args := flag.Args()
	if *dump != "" {
		prog, err := loadProgram(*repo)
		if err != nil {
			fmt.Println("ERROR:", err)
			os.Exit(2)
		}
		switch *dump {
		case "sql":
			dumpSQL(prog, false)
		case "sqlall":
			dumpSQL(prog, true)
		case "states":
			dumpStates(prog)
		case "loop":
			dumpLoop(prog)
		case "inline":
			nm := ""
			if len(args) > 0 {
				nm = args[0]
			}
			dumpInline(prog, nm)
		}
		return
	}
	if len(args) < 1 {
		fmt.Println("usage: hkcheck [flags] <property-id|all>")
		os.Exit(2)
	}
	seed := 0
	if s := os.Getenv("VERIF_SEED"); s != "" {
		seed, _ = strconv.Atoi(s)
	}
	ids := args
	if args[0] == "all" {
		ids = nil
		for id := range registry {
			ids = append(ids, id)
		}
		sort.Strings(ids)
	}
	known, err := loadKnown(filepath.Join(*verif, "known_findings.json"))
	if err != nil {
		fmt.Println("ERROR: known_findings.json:", err)
		os.Exit(2)
	}
	prog, err := loadProgram(*repo)
	if err != nil {
		// a tree that does not load cannot be decided: fail every requested property
		fmt.Println("ERROR: cannot load program:", err)
		for _, id := range ids {
			c := newCtx(id, *tier, nil)
			c.Rule(id+".R0", "the repository loads and type-checks")
			c.Fail(id+".R0", "load", "", err.Error())
			c.finish(*verif, seed, known, baseAssumptions)
		}
		os.Exit(1)
	}
	fmt.Printf("LOADED packages=%d source_functions=%d root=%s\n", len(prog.Pkgs), len(prog.SrcFuncs), *repo)
	exit := 0
	for _, id := range ids {
		f, ok := registry[id]
		if !ok {
			fmt.Println("ERROR: unknown property", id)
			os.Exit(2)
		}
		c := newCtx(id, *tier, prog)
		prog.rootsUsed = map[*ssa.Function]bool{}
		c.Count("packages", len(prog.Pkgs))
		c.Count("source_functions", len(prog.SrcFuncs))
		func() {
			defer func() {
				if r := recover(); r != nil {
					st := string(debug.Stack())
					lines := strings.Split(st, "\n")
					if len(lines) > 14 {
						lines = lines[:14]
					}
					c.Fail(id+".R0", "checker-panic", "", fmt.Sprintf("checker panicked: %v\n%s", r, strings.Join(lines, "\n")))
				}
			}()
			f(c)
			if *tier == "thorough" {
				checkResolverCompleteness(c)
				checkViewsWellFormed(c)
				if os.Getenv("HK_NO_AUDIT") == "" { runChangeAudit(c, *verif, *repo) }
			}
		}()
		if *list {
			for _, o := range c.Obs {
				fmt.Printf("  %-9s %-10s %-70s %s  %s\n", o.Rule, o.Status, o.Construct, o.Pos, o.Detail)
			}
		}
		if e := c.finish(*verif, seed, known, baseAssumptions); e > exit {
			exit = e
		}
	}
	os.Exit(exit)
}
