package main

import (
	"fmt"
	"sort"
	"strings"

	"golang.org/x/tools/go/ssa"
)

func dumpSQL(p *Program, all bool) {
	m := p.SQL()
	for _, s := range m.Stmts {
		if !all && (s.Table() != "queue_items" || !s.IsMutation()) {
			continue
		}
		fmt.Printf("\n%s %s [%s] key=%q\n", s.Pos, s.Site.fn, s.Site.recvKind, m.Key(s))
		fmt.Printf("   %s %s\n", s.St.verb, s.Table())
		var ks []string
		for k := range s.St.set {
			ks = append(ks, k)
		}
		sort.Strings(ks)
		for _, k := range ks {
			fmt.Printf("   SET %s = %s\n", k, m.R(s, s.St.set[k]))
		}
		for _, w := range s.St.where {
			fmt.Printf("   WHERE %s\n", m.R(s, w))
		}
		for _, w := range s.St.optWhere {
			fmt.Printf("   WHERE? %s\n", m.R(s, w))
		}
		if s.St.orderBy != "" || s.St.limit != "" {
			fmt.Printf("   ORDER BY %s  LIMIT %s\n", s.St.orderBy, m.R(s, s.St.limit))
		}
		for i, c := range s.St.insertCols {
			v := "?"
			if i < len(s.St.insertVals) {
				v = m.R(s, s.St.insertVals[i])
			}
			fmt.Printf("   COL %s <- %s\n", c, v)
		}
		if len(s.St.selectCols) > 0 {
			fmt.Printf("   SELECT %s\n", strings.Join(s.St.selectCols, ", "))
		}
		if len(s.St.returning) > 0 {
			fmt.Printf("   RETURNING %s\n", strings.Join(s.St.returning, ", "))
		}
		if len(s.Site.scan) > 0 {
			fmt.Printf("   SCAN %d dests\n", len(s.Site.scan))
		}
		for _, u := range s.Undecided {
			fmt.Printf("   UNDECIDED: %s\n", u)
		}
	}
	fmt.Printf("\nstatements: %d notes: %d\n", len(m.Stmts), len(m.Notes))
	for _, n := range m.Notes {
		fmt.Println("NOTE", n)
	}
}

func dumpStates(p *Program) {
	sf := newStateFlow(p, "MemoryStore")
	sf.Run()
	for _, e := range sf.Events {
		fmt.Printf("%-26s %-12s %-34s -> %-12s %-22s %s\n", e.Root, e.Kind, e.From.String(), e.ToStr, p.InstrPos(e.Instr), e.Chain)
	}
	fmt.Println("events:", len(sf.Events))
}

func dumpLoop(p *Program) {
	fn := p.Func("queue", "(*MemoryStore).filterManageCandidatesLocked")
	for _, ci := range allCalls(fn, func(ci ssa.CallInstruction) bool {
		bi, ok := ci.Common().Value.(*ssa.Builtin)
		return ok && bi.Name() == "append"
	}) {
		h := loopHeaderOf(ci.Block())
		hi := -1
		if h != nil {
			hi = h.Index
		}
		fmt.Println("append in block", ci.Block().Index, "header", hi)
	}
}
