package main

// C19 — config fmt round-trips: structural necessary conditions.
//
// Everything here is decided on the type-checked syntax tree of package config:
// the formatter cannot reproduce what it never emits, the parser cannot read back
// a directive the formatter spells under a keyword whose clause stores into another
// field, the lexer cannot read back a spelling whose escape/stop tables differ from
// the writer's, and list order is only preserved by in-order emission.

import (
	"fmt"
	"go/ast"
	"go/constant"
	"go/token"
	"go/types"
	"sort"
	"strings"

	"golang.org/x/tools/go/packages"
)

func init() { register("C19", checkC19) }

type cfgModel struct {
	p        *Program
	pkg      *packages.Package
	info     *types.Info
	decls    map[*types.Func]*ast.FuncDecl
	parent   map[ast.Node]ast.Node
	astTypes map[string]bool
	byName   map[string]*types.Func
}

func newCfgModel(p *Program) *cfgModel {
	m := &cfgModel{p: p, pkg: p.Pkg("config"), decls: map[*types.Func]*ast.FuncDecl{}, parent: map[ast.Node]ast.Node{}, astTypes: map[string]bool{}, byName: map[string]*types.Func{}}
	if m.pkg == nil {
		return nil
	}
	m.info = m.pkg.TypesInfo
	for _, f := range m.pkg.Syntax {
		for _, d := range f.Decls {
			fd, ok := d.(*ast.FuncDecl)
			if !ok || fd.Body == nil {
				continue
			}
			obj, ok := m.info.Defs[fd.Name].(*types.Func)
			if !ok {
				continue
			}
			m.decls[obj] = fd
			name := obj.Name()
			if sig := obj.Type().(*types.Signature); sig.Recv() != nil {
				name = namedName(sig.Recv().Type()) + "." + name
			}
			m.byName[name] = obj
			var stack []ast.Node
			ast.Inspect(fd, func(n ast.Node) bool {
				if n == nil {
					stack = stack[:len(stack)-1]
					return true
				}
				if len(stack) > 0 {
					m.parent[n] = stack[len(stack)-1]
				}
				stack = append(stack, n)
				return true
			})
		}
	}
	root := m.pkg.Types.Scope().Lookup("Config")
	if root == nil {
		return nil
	}
	var walk func(t types.Type)
	walk = func(t types.Type) {
		switch x := t.(type) {
		case *types.Pointer:
			walk(x.Elem())
		case *types.Slice:
			walk(x.Elem())
		case *types.Array:
			walk(x.Elem())
		case *types.Map:
			walk(x.Key())
			walk(x.Elem())
		case *types.Named:
			if x.Obj().Pkg() == m.pkg.Types && !m.astTypes[x.Obj().Name()] {
				if st, ok := x.Underlying().(*types.Struct); ok {
					m.astTypes[x.Obj().Name()] = true
					for i := 0; i < st.NumFields(); i++ {
						walk(st.Field(i).Type())
					}
				}
			}
		}
	}
	walk(root.Type())
	return m
}

func (m *cfgModel) reach(entries ...string) map[*types.Func]bool {
	seen := map[*types.Func]bool{}
	var work []*types.Func
	for _, e := range entries {
		if f := m.byName[e]; f != nil {
			work = append(work, f)
		}
	}
	for len(work) > 0 {
		f := work[len(work)-1]
		work = work[:len(work)-1]
		if seen[f] || m.decls[f] == nil {
			continue
		}
		seen[f] = true
		ast.Inspect(m.decls[f].Body, func(n ast.Node) bool {
			if id, ok := n.(*ast.Ident); ok {
				if fn, ok := m.info.Uses[id].(*types.Func); ok && m.decls[fn] != nil {
					work = append(work, fn)
				}
			}
			return true
		})
	}
	return seen
}

// fieldKey resolves a selector to "Type.Field" when it selects a field of a config syntax-tree struct.
func (m *cfgModel) fieldKey(x *ast.SelectorExpr) (string, *types.Var, bool) {
	sel := m.info.Selections[x]
	if sel == nil || sel.Kind() != types.FieldVal {
		return "", nil, false
	}
	recv := sel.Recv()
	if pt, ok := recv.(*types.Pointer); ok {
		recv = pt.Elem()
	}
	n, ok := recv.(*types.Named)
	if !ok || n.Obj().Pkg() != m.pkg.Types || !m.astTypes[n.Obj().Name()] {
		return "", nil, false
	}
	v, _ := sel.Obj().(*types.Var)
	if v == nil {
		return "", nil, false
	}
	return n.Obj().Name() + "." + v.Name(), v, true
}

func isFlagType(t types.Type) bool {
	switch x := t.Underlying().(type) {
	case *types.Basic:
		return x.Kind() == types.Bool
	case *types.Slice:
		return isFlagType(x.Elem())
	}
	return false
}

func (m *cfgModel) enclosingDecl(n ast.Node) *ast.FuncDecl {
	for n != nil {
		if fd, ok := n.(*ast.FuncDecl); ok {
			return fd
		}
		n = m.parent[n]
	}
	return nil
}

// isWriteOnly reports whether the selector occurrence is the target of an assignment (x.F = …, x.F[i] = …).
func (m *cfgModel) isWriteOnly(n ast.Node) bool {
	cur := n
	for {
		par := m.parent[cur]
		switch x := par.(type) {
		case *ast.ParenExpr:
			cur = par
			continue
		case *ast.IndexExpr:
			if x.X == cur {
				cur = par
				continue
			}
			return false
		case *ast.AssignStmt:
			for _, l := range x.Lhs {
				if l == cur {
					return x.Tok == token.ASSIGN || x.Tok == token.DEFINE
				}
			}
			return false
		default:
			return false
		}
	}
}

func (m *cfgModel) callee(call *ast.CallExpr) (fn *types.Func, builtin string, conversion bool) {
	fun := ast.Unparen(call.Fun)
	if tv, ok := m.info.Types[fun]; ok && tv.IsType() {
		return nil, "", true
	}
	switch f := fun.(type) {
	case *ast.Ident:
		switch o := m.info.Uses[f].(type) {
		case *types.Func:
			return o, "", false
		case *types.Builtin:
			return nil, o.Name(), false
		}
	case *ast.SelectorExpr:
		if o, ok := m.info.Uses[f.Sel].(*types.Func); ok {
			return o, "", false
		}
	}
	return nil, "", false
}

// emitKind classifies a callee: "sink" writes its arguments to the output, "pass" returns (a transformation of) them.
func (m *cfgModel) emitKind(fn *types.Func) string {
	if fn == nil || fn.Pkg() == nil {
		return ""
	}
	sig := fn.Type().(*types.Signature)
	switch fn.Pkg().Path() {
	case "fmt":
		switch fn.Name() {
		case "Fprintf", "Fprint", "Fprintln":
			return "sink"
		case "Sprintf", "Sprint":
			return "pass"
		}
	case "bytes", "strings":
		if sig.Recv() != nil {
			switch fn.Name() {
			case "WriteString", "WriteByte", "WriteRune", "Write":
				return "sink"
			}
			return ""
		}
		switch fn.Name() {
		case "TrimRight", "TrimSpace", "Join", "TrimLeft", "Trim", "TrimSuffix", "TrimPrefix":
			return "pass"
		}
	}
	return ""
}

// emitted decides whether the value at expression occurrence n flows into the formatter's output:
// through wrappers, conversions, appends, locals, fields of function-local struct types, range
// variables and parameters of package functions. Selecting a sub-field counts (the sub-field has
// its own obligation).
func (m *cfgModel) emitted(n ast.Node, visited map[ast.Node]bool) bool {
	if visited[n] {
		return false
	}
	visited[n] = true
	cur := n
	for {
		par := m.parent[cur]
		switch x := par.(type) {
		case *ast.ParenExpr, *ast.StarExpr:
			cur = par
			continue
		case *ast.UnaryExpr:
			if x.Op == token.AND {
				cur = par
				continue
			}
			return false
		case *ast.IndexExpr:
			if x.X == cur {
				cur = par
				continue
			}
			return false
		case *ast.SliceExpr:
			if x.X == cur {
				cur = par
				continue
			}
			return false
		case *ast.SelectorExpr:
			if x.X == cur {
				if s := m.info.Selections[x]; s != nil && s.Kind() == types.FieldVal {
					return true
				}
			}
			return false
		case *ast.BinaryExpr:
			if x.Op == token.ADD {
				if t := m.info.TypeOf(x); t != nil && isStringT(t) {
					cur = par
					continue
				}
			}
			return false
		case *ast.CallExpr:
			if x.Fun == cur {
				return false
			}
			fn, builtin, conv := m.callee(x)
			if conv || builtin == "append" {
				cur = par
				continue
			}
			if fn == nil {
				return false
			}
			switch m.emitKind(fn) {
			case "sink":
				return true
			case "pass":
				cur = par
				continue
			}
			if fd := m.decls[fn]; fd != nil {
				// follow into the parameter
				idx := -1
				for i, a := range x.Args {
					if a == cur {
						idx = i
					}
				}
				if idx < 0 {
					return false
				}
				pv := paramVarAt(m.info, fd, idx)
				if pv == nil {
					return false
				}
				if fn.Type().(*types.Signature).Results().Len() == 0 {
					// a writer: the parameter must reach an output write inside it
					return m.usesEmitted(fd, pv, visited)
				}
				// a helper with a result: the value must reach the result (directly or through a
				// local builder), and the result must in turn be emitted by the caller
				if m.returnsDerivedFrom(fd, pv) || m.usesEmitted(fd, pv, visited) {
					cur = par
					continue
				}
			}
			return false
		case *ast.KeyValueExpr:
			if x.Value != cur {
				return false
			}
			if id, ok := x.Key.(*ast.Ident); ok {
				if fv, ok := m.info.Uses[id].(*types.Var); ok && fv.IsField() {
					return m.fieldUsesEmitted(m.enclosingDecl(par), fv, visited)
				}
			}
			return false
		case *ast.CompositeLit:
			cur = par
			continue
		case *ast.AssignStmt:
			fd := m.enclosingDecl(par)
			for i, r := range x.Rhs {
				if r != cur {
					continue
				}
				if len(x.Lhs) != len(x.Rhs) {
					return false
				}
				return m.targetEmitted(fd, x.Lhs[i], visited)
			}
			return false
		case *ast.ValueSpec:
			fd := m.enclosingDecl(par)
			for i, r := range x.Values {
				if r == cur && i < len(x.Names) {
					if v, ok := m.info.Defs[x.Names[i]].(*types.Var); ok {
						return m.usesEmitted(fd, v, visited)
					}
				}
			}
			return false
		case *ast.RangeStmt:
			if x.X != cur {
				return false
			}
			fd := m.enclosingDecl(par)
			if id, ok := x.Value.(*ast.Ident); ok && id.Name != "_" {
				if v, ok := m.info.Defs[id].(*types.Var); ok {
					return m.usesEmitted(fd, v, visited)
				}
			}
			return false
		case *ast.ReturnStmt:
			// value returned by a helper: handled by returnsDerivedFrom at the call site
			return false
		default:
			return false
		}
	}
}

func (m *cfgModel) targetEmitted(fd *ast.FuncDecl, lhs ast.Expr, visited map[ast.Node]bool) bool {
	lhs = ast.Unparen(lhs)
	for {
		if ix, ok := lhs.(*ast.IndexExpr); ok {
			lhs = ix.X
			continue
		}
		break
	}
	switch l := lhs.(type) {
	case *ast.Ident:
		var v *types.Var
		if d, ok := m.info.Defs[l].(*types.Var); ok {
			v = d
		} else if u, ok := m.info.Uses[l].(*types.Var); ok {
			v = u
		}
		if v != nil {
			return m.usesEmitted(fd, v, visited)
		}
	case *ast.SelectorExpr:
		if s := m.info.Selections[l]; s != nil && s.Kind() == types.FieldVal {
			if fv, ok := s.Obj().(*types.Var); ok {
				return m.fieldUsesEmitted(fd, fv, visited)
			}
		}
	}
	return false
}

func (m *cfgModel) usesEmitted(fd *ast.FuncDecl, v *types.Var, visited map[ast.Node]bool) bool {
	if fd == nil {
		return false
	}
	found := false
	ast.Inspect(fd.Body, func(n ast.Node) bool {
		if found {
			return false
		}
		if id, ok := n.(*ast.Ident); ok && m.info.Uses[id] == v {
			if !m.isWriteOnly(id) && m.emitted(id, visited) {
				found = true
			}
		}
		return true
	})
	return found
}

func (m *cfgModel) fieldUsesEmitted(fd *ast.FuncDecl, fv *types.Var, visited map[ast.Node]bool) bool {
	if fd == nil {
		return false
	}
	found := false
	ast.Inspect(fd.Body, func(n ast.Node) bool {
		if found {
			return false
		}
		if se, ok := n.(*ast.SelectorExpr); ok {
			if s := m.info.Selections[se]; s != nil && s.Obj() == fv && !m.isWriteOnly(se) {
				if m.emitted(se, visited) {
					found = true
				}
			}
		}
		return true
	})
	return found
}

// returnsDerivedFrom: some return expression of fd mentions parameter pv.
func (m *cfgModel) returnsDerivedFrom(fd *ast.FuncDecl, pv *types.Var) bool {
	found := false
	ast.Inspect(fd.Body, func(n ast.Node) bool {
		if rs, ok := n.(*ast.ReturnStmt); ok {
			for _, r := range rs.Results {
				ast.Inspect(r, func(k ast.Node) bool {
					if id, ok := k.(*ast.Ident); ok && m.info.Uses[id] == pv {
						found = true
					}
					return true
				})
			}
		}
		return !found
	})
	return found
}

func paramVarAt(info *types.Info, fd *ast.FuncDecl, idx int) *types.Var {
	i := 0
	for _, f := range fd.Type.Params.List {
		if len(f.Names) == 0 {
			i++
			continue
		}
		for _, n := range f.Names {
			if i == idx {
				v, _ := info.Defs[n].(*types.Var)
				return v
			}
			i++
		}
	}
	// variadic: last parameter absorbs the rest
	if l := fd.Type.Params.List; len(l) > 0 {
		last := l[len(l)-1]
		if _, ok := last.Type.(*ast.Ellipsis); ok && len(last.Names) > 0 {
			v, _ := info.Defs[last.Names[len(last.Names)-1]].(*types.Var)
			return v
		}
	}
	return nil
}

type fieldOcc struct {
	key string
	v   *types.Var
	sel *ast.SelectorExpr
	fn  *types.Func
}

func (m *cfgModel) occurrences(fns map[*types.Func]bool) []fieldOcc {
	var out []fieldOcc
	var keys []*types.Func
	for f := range fns {
		keys = append(keys, f)
	}
	sort.Slice(keys, func(i, j int) bool { return m.decls[keys[i]].Pos() < m.decls[keys[j]].Pos() })
	for _, f := range keys {
		ast.Inspect(m.decls[f].Body, func(n ast.Node) bool {
			if se, ok := n.(*ast.SelectorExpr); ok {
				if k, v, ok := m.fieldKey(se); ok {
					out = append(out, fieldOcc{k, v, se, f})
				}
			}
			return true
		})
	}
	return out
}

func checkC19(c *Ctx) {
	c.Rule("C19.R1", "formatter covers the compiler: every syntax-tree field (types reachable from config.Config) read by code reachable from Compile is emitted by code reachable from Format — its value flows into an output write (value fields), a sub-field of it is selected or it is handed to a writer (block fields), or it is read (bool flags)")
	c.Rule("C19.R2", "formatter covers the parser: every syntax-tree field stored by code reachable from Parse is emitted/read by the formatter in the same sense")
	c.Rule("C19.R3", "token tables agree: every rune the string lexer treats specially is escaped by the quoting function and each escape pair is the inverse of the lexer's unescape switch; the runes that force quoting of values and of route paths include every rune at which the identifier lexer stops; every quoting decision ends in the quoting function")
	c.Rule("C19.R4", "keyword/field agreement: wherever the formatter spells a field's value after directive words, the parser has a clause for those words that stores into the same field (every string guard enclosing the parser's store is among the formatter's words)")
	c.Rule("C19.R5", "order and determinism: the formatter never iterates a map, sorts or reads clock/random sources; slices it builds from syntax-tree lists are only extended at the end (append to the slice, or to its last element)")
	c.Rule("C19.R6", "set-flag pairing: a parser clause that stores a value into field F also sets F's presence flag when the type has one, and a formatter emission of F guarded by a bare presence flag is guarded by F's own flag")
	c.Rule("C19.R7", "rewrites are re-validated: both config rewrite paths parse and compile the formatted bytes before the first write (C18.R7 on the same tree)")

	c.Rule("C19.R8", "the formatter withholds nothing the parser produced: a condition that decides whether the formatter writes (or skips an element) tests presence only — nil, presence/shape flags, lengths and indices, emptiness of a scalar field that has no presence flag — never the content of a directive or block")

	m := newCfgModel(c.P)
	if m == nil {
		c.Undecided("C19.R1", "config", "", "package config / type Config not found")
		return
	}
	fmtFns := m.reach("Format")
	compFns := m.reach("Compile")
	parseFns := m.reach("Parse")
	c.Count("config syntax-tree struct types", len(m.astTypes))
	c.Count("functions reachable from Format", len(fmtFns))
	c.Count("functions reachable from Compile", len(compFns))
	c.Count("functions reachable from Parse", len(parseFns))
	if len(fmtFns) < 5 || len(compFns) < 5 || len(parseFns) < 5 {
		c.Undecided("C19.R1", "config.Format/Compile/Parse", "", "entry points not found")
		return
	}

	// --- formatter handling per field ------------------------------------
	handled := map[string]string{} // key -> how
	readOnlyTests := map[string]string{}
	for _, o := range m.occurrences(fmtFns) {
		if m.isWriteOnly(o.sel) {
			continue
		}
		if isFlagType(o.v.Type()) {
			handled[o.key] = "flag read"
			continue
		}
		if handled[o.key] != "" {
			continue
		}
		if m.emitted(o.sel, map[ast.Node]bool{}) {
			handled[o.key] = "emitted at " + c.P.Pos(o.sel.Pos())
		} else if readOnlyTests[o.key] == "" {
			readOnlyTests[o.key] = c.P.Pos(o.sel.Pos())
		}
	}
	c.Count("syntax-tree fields emitted or read as flags by the formatter", len(handled))

	need := func(rule string, fns map[*types.Func]bool, writes bool, what string) {
		seen := map[string]string{}
		for _, o := range m.occurrences(fns) {
			w := m.isWriteOnly(o.sel)
			if w != writes {
				continue
			}
			if seen[o.key] == "" {
				seen[o.key] = c.P.Pos(o.sel.Pos())
			}
		}
		if writes {
			// keyed composite literals of syntax-tree types are stores too
			for f := range fns {
				ast.Inspect(m.decls[f].Body, func(n ast.Node) bool {
					cl, ok := n.(*ast.CompositeLit)
					if !ok {
						return true
					}
					t := m.info.TypeOf(cl)
					if t == nil {
						return true
					}
					if pt, ok := t.(*types.Pointer); ok {
						t = pt.Elem()
					}
					nn, ok := t.(*types.Named)
					if !ok || nn.Obj().Pkg() != m.pkg.Types || !m.astTypes[nn.Obj().Name()] {
						return true
					}
					for _, e := range cl.Elts {
						if kv, ok := e.(*ast.KeyValueExpr); ok {
							if id, ok := kv.Key.(*ast.Ident); ok {
								k := nn.Obj().Name() + "." + id.Name
								if seen[k] == "" {
									seen[k] = c.P.Pos(kv.Pos())
								}
							}
						}
					}
					return true
				})
			}
		}
		var keys []string
		for k := range seen {
			keys = append(keys, k)
		}
		sort.Strings(keys)
		for _, k := range keys {
			if h := handled[k]; h != "" {
				c.Ok(rule, k, seen[k], what+"; formatter: "+h)
			} else if at := readOnlyTests[k]; at != "" {
				c.Fail(rule, k, seen[k], what+" but the formatter only tests it (e.g. "+at+"): its value never reaches an output write")
			} else {
				c.Fail(rule, k, seen[k], what+" but no function reachable from Format reads it")
			}
		}
		c.Floor(rule, "fields", len(keys), 250)
	}
	need("C19.R1", compFns, false, "read by the compiler")
	need("C19.R2", parseFns, true, "stored by the parser")

	checkTokenTables(c, m, "C19.R3")
	checkKeywordAgreement(c, m, fmtFns, parseFns, "C19.R4")
	checkFormatOrder(c, m, fmtFns, "C19.R5")
	checkSetFlagPairing(c, m, fmtFns, parseFns, "C19.R6")
	checkRewriteValidateRestore(c, "C19.R7")
	checkFormatterWithholdsNothing(c, m, fmtFns, compFns, "C19.R8")
	c.Rule("C19.R9", "the formatter writes every character it was given: no rune is narrowed to a byte in the code reachable from Format unless a dominating test established that it is ASCII")
	checkNoRuneNarrowing(c, "C19.R9")
	c.Rule("C19.R10", "every escape the quoting function writes can be read back: besides the constant spellings (C19.R3) a formatted, numeric escape uses only fixed-width hex verbs (%0Nx) and its operand is bounded by 16^N-1 — by its type or by a dominating comparison — because %0N is a minimum width and a wider value would be read back as another character followed by a literal digit")
	checkEscapeWidths(c, "C19.R10")
	c.Rule("C19.R11", "a parsed syntax tree is not kept between uses: no field path from the long-lived objects that serve the configuration tools (mcp.Server, app.runtimeState, admin.Server) reaches a syntax-tree type of package config — every format, diff, validate and rewrite works on config.Parse of the bytes it was given, never on a remembered tree that an earlier (previewed or rolled-back) mutation edited in place")
	checkNoRetainedSyntaxTree(c, "C19.R11")
}

// ---------------------------------------------------------------------------
// R3 token tables

func (m *cfgModel) runeConst(e ast.Expr) (rune, bool) {
	tv, ok := m.info.Types[e]
	if !ok || tv.Value == nil || tv.Value.Kind() != constant.Int {
		return 0, false
	}
	v, ok := constant.Int64Val(tv.Value)
	return rune(v), ok
}

func (m *cfgModel) stringConst(e ast.Expr) (string, bool) {
	tv, ok := m.info.Types[e]
	if !ok || tv.Value == nil || tv.Value.Kind() != constant.String {
		return "", false
	}
	return constant.StringVal(tv.Value), true
}

// switchRuneCases returns, for every switch on a rune-typed tag in body, the case rune sets with their clause.
type runeClause struct {
	runes  []rune
	clause *ast.CaseClause
	sw     *ast.SwitchStmt
}

func (m *cfgModel) runeSwitches(body ast.Node) []runeClause {
	var out []runeClause
	ast.Inspect(body, func(n ast.Node) bool {
		sw, ok := n.(*ast.SwitchStmt)
		if !ok || sw.Tag == nil {
			return true
		}
		t := m.info.TypeOf(sw.Tag)
		if t == nil {
			return true
		}
		if b, ok := t.Underlying().(*types.Basic); !ok || (b.Kind() != types.Int32 && b.Kind() != types.Uint8) {
			return true
		}
		for _, s := range sw.Body.List {
			cc := s.(*ast.CaseClause)
			rc := runeClause{clause: cc, sw: sw}
			for _, e := range cc.List {
				if r, ok := m.runeConst(e); ok {
					rc.runes = append(rc.runes, r)
				}
			}
			out = append(out, rc)
		}
		return true
	})
	return out
}

func runeSetStr(s map[rune]bool) string {
	var rs []int
	for r := range s {
		rs = append(rs, int(r))
	}
	sort.Ints(rs)
	var parts []string
	for _, r := range rs {
		parts = append(parts, fmt.Sprintf("%q", rune(r)))
	}
	return "{" + strings.Join(parts, ",") + "}"
}

// boolFuncRuneSet: for `func(r rune) bool { switch r { case …: return true } return false }` returns the set mapped to want.
func (m *cfgModel) boolFuncRuneSet(fd *ast.FuncDecl, want bool) (map[rune]bool, bool) {
	return m.boolFuncRuneSetRec(fd, want, 0)
}

// runesTrue: runes whose presence in the examined string (or equality with the examined rune) makes e true:
// r == 'x', a || b, strings.ContainsAny(s, CONST), strings.ContainsRune(s, 'x'), strings.IndexAny(s, CONST) >= 0,
// a predicate of the package applied to it, !e' for the complement form.
func (m *cfgModel) runesTrue(e ast.Expr, depth int) map[rune]bool {
	out := map[rune]bool{}
	if depth > 4 || e == nil {
		return out
	}
	add := func(s map[rune]bool) {
		for r := range s {
			out[r] = true
		}
	}
	switch x := ast.Unparen(e).(type) {
	case *ast.BinaryExpr:
		switch x.Op {
		case token.LOR:
			add(m.runesTrue(x.X, depth+1))
			add(m.runesTrue(x.Y, depth+1))
		case token.EQL:
			if r, ok := m.runeConst(x.Y); ok {
				if _, isLit := ast.Unparen(x.Y).(*ast.BasicLit); isLit {
					out[r] = true
				}
			}
		case token.GEQ, token.NEQ, token.GTR:
			// strings.IndexAny(s, CONST) >= 0 / != -1
			if ce, ok := ast.Unparen(x.X).(*ast.CallExpr); ok {
				if fn, _, _ := m.callee(ce); fn != nil && fn.Pkg() != nil && fn.Pkg().Path() == "strings" && (fn.Name() == "IndexAny" || fn.Name() == "IndexRune" || fn.Name() == "IndexByte") && len(ce.Args) == 2 {
					add(m.constRunes(ce.Args[1]))
				}
			}
		}
	case *ast.CallExpr:
		fn, _, _ := m.callee(x)
		if fn == nil {
			return out
		}
		if fn.Pkg() != nil && fn.Pkg().Path() == "strings" && len(x.Args) == 2 {
			switch fn.Name() {
			case "ContainsAny", "ContainsRune":
				add(m.constRunes(x.Args[1]))
			case "ContainsFunc":
				// strings.ContainsFunc(s, pred): some rune of s satisfies the package predicate
				var pf *types.Func
				switch a := ast.Unparen(x.Args[1]).(type) {
				case *ast.Ident:
					pf, _ = m.info.Uses[a].(*types.Func)
				case *ast.SelectorExpr:
					pf, _ = m.info.Uses[a.Sel].(*types.Func)
				}
				if pf != nil {
					if fd := m.decls[pf]; fd != nil {
						if set, ok := m.boolFuncRuneSetRec(fd, true, depth+1); ok {
							add(set)
						}
					}
				}
			}
			return out
		}
		if fd := m.decls[fn]; fd != nil {
			sig := fn.Type().(*types.Signature)
			if sig.Params().Len() == 1 && sig.Results().Len() == 1 && types.Identical(sig.Results().At(0).Type(), types.Typ[types.Bool]) {
				if set, ok := m.boolFuncRuneSetRec(fd, true, depth+1); ok {
					add(set)
				}
			}
		}
	}
	return out
}

// runesFalse: runes whose presence makes e false: !e', a && b.
func (m *cfgModel) runesFalse(e ast.Expr, depth int) map[rune]bool {
	out := map[rune]bool{}
	if depth > 4 || e == nil {
		return out
	}
	switch x := ast.Unparen(e).(type) {
	case *ast.UnaryExpr:
		if x.Op == token.NOT {
			return m.runesTrue(x.X, depth+1)
		}
	case *ast.BinaryExpr:
		if x.Op == token.LAND {
			for r := range m.runesFalse(x.X, depth+1) {
				out[r] = true
			}
			for r := range m.runesFalse(x.Y, depth+1) {
				out[r] = true
			}
		}
		if x.Op == token.NEQ {
			if r, ok := m.runeConst(x.Y); ok {
				if _, isLit := ast.Unparen(x.Y).(*ast.BasicLit); isLit {
					out[r] = true
				}
			}
		}
	}
	return out
}

// constRunes: the runes of a constant string (or a constant rune).
func (m *cfgModel) constRunes(e ast.Expr) map[rune]bool {
	out := map[rune]bool{}
	if sv, ok := m.stringConst(e); ok {
		for _, r := range sv {
			out[r] = true
		}
		return out
	}
	if r, ok := m.runeConst(e); ok {
		out[r] = true
	}
	return out
}

func (m *cfgModel) boolFuncRuneSetRec(fd *ast.FuncDecl, want bool, depth int) (map[rune]bool, bool) {
	out := map[rune]bool{}
	ok := false
	if fd == nil || depth > 4 {
		return out, false
	}
	// conditions that decide the verdict directly: if C { return want }, and a final return of an expression
	ast.Inspect(fd.Body, func(n ast.Node) bool {
		switch x := n.(type) {
		case *ast.IfStmt:
			if len(x.Body.List) == 1 {
				if rs, isRet := x.Body.List[0].(*ast.ReturnStmt); isRet && len(rs.Results) == 1 {
					if id, isID := rs.Results[0].(*ast.Ident); isID && (id.Name == "true" || id.Name == "false") && (id.Name == "true") == want {
						set := m.runesTrue(x.Cond, depth+1)
						for r := range set {
							out[r] = true
						}
						if len(set) > 0 {
							ok = true
						}
					}
				}
			}
		case *ast.ReturnStmt:
			if len(x.Results) == 1 {
				if _, isID := ast.Unparen(x.Results[0]).(*ast.Ident); !isID {
					var set map[rune]bool
					if want {
						set = m.runesTrue(x.Results[0], depth+1)
					} else {
						set = m.runesFalse(x.Results[0], depth+1)
					}
					for r := range set {
						out[r] = true
					}
					if len(set) > 0 {
						ok = true
					}
				}
			}
		}
		return true
	})
	for _, rc := range m.runeSwitches(fd.Body) {
		if len(rc.clause.Body) == 1 {
			if rs, isRet := rc.clause.Body[0].(*ast.ReturnStmt); isRet && len(rs.Results) == 1 {
				if id, isID := rs.Results[0].(*ast.Ident); isID && (id.Name == "true") == want && (id.Name == "true" || id.Name == "false") {
					for _, r := range rc.runes {
						out[r] = true
					}
					ok = true
				}
			}
		}
	}
	return out, ok
}

// comparedRunes: runes r is compared with (== / !=) anywhere in node, plus the set of any rune-class predicate called.
func (m *cfgModel) comparedRunes(node ast.Node) map[rune]bool {
	out := map[rune]bool{}
	ast.Inspect(node, func(n ast.Node) bool {
		switch x := n.(type) {
		case *ast.BinaryExpr:
			if x.Op == token.EQL || x.Op == token.NEQ {
				if r, ok := m.runeConst(x.Y); ok {
					if _, isLit := ast.Unparen(x.Y).(*ast.BasicLit); isLit {
						out[r] = true
					}
				}
			}
		case *ast.CallExpr:
			if fn, _, _ := m.callee(x); fn != nil && m.decls[fn] != nil {
				sig := fn.Type().(*types.Signature)
				if sig.Params().Len() == 1 && sig.Results().Len() == 1 && types.Identical(sig.Results().At(0).Type(), types.Typ[types.Bool]) {
					if set, ok := m.boolFuncRuneSet(m.decls[fn], true); ok {
						for r := range set {
							out[r] = true
						}
					}
				}
			}
		}
		return true
	})
	return out
}

func checkTokenTables(c *Ctx, m *cfgModel, rule string) {
	p := c.P
	// Roles are found structurally.
	// quoting function: string -> string whose rune switch writes literals starting with a backslash.
	// string lexer: the lexer method that contains a rune switch nested under a `r == '\\'` test.
	var quoteFn, lexStr, lexIdent *types.Func
	var lexerType *types.Named
	if tn, ok := m.pkg.Types.Scope().Lookup("lexer").(*types.TypeName); ok {
		lexerType, _ = tn.Type().(*types.Named)
	}
	for obj, fd := range m.decls {
		sig := obj.Type().(*types.Signature)
		if sig.Recv() == nil && sig.Params().Len() == 1 && sig.Results().Len() == 1 && isStringT(sig.Params().At(0).Type()) && isStringT(sig.Results().At(0).Type()) {
			esc := false
			for _, rc := range m.runeSwitches(fd.Body) {
				ast.Inspect(rc.clause, func(n ast.Node) bool {
					if s, ok := n.(ast.Expr); ok {
						if v, ok := m.stringConst(s); ok && strings.HasPrefix(v, `\`) && len(v) == 2 {
							esc = true
						}
					}
					return true
				})
			}
			if esc {
				if quoteFn != nil {
					c.Undecided(rule, "quoting function", p.Pos(fd.Pos()), "two candidate quoting functions: "+quoteFn.Name()+", "+obj.Name())
					return
				}
				quoteFn = obj
			}
		}
		if sig.Recv() != nil && lexerType != nil && namedName(sig.Recv().Type()) == "lexer" {
			// string lexer returns (string, error); identifier lexer returns string
			if sig.Results().Len() == 2 && isStringT(sig.Results().At(0).Type()) && sig.Params().Len() == 0 {
				lexStr = obj
			}
			if sig.Results().Len() == 1 && isStringT(sig.Results().At(0).Type()) && sig.Params().Len() == 0 {
				// several token readers may have this shape (a comment reader, say): the identifier lexer is the one
				// that stops at the largest class of runes
				if lexIdent == nil || len(m.comparedRunes(fd.Body)) > len(m.comparedRunes(m.decls[lexIdent].Body)) ||
					(len(m.comparedRunes(fd.Body)) == len(m.comparedRunes(m.decls[lexIdent].Body)) && obj.Name() < lexIdent.Name()) {
					lexIdent = obj
				}
			}
		}
	}
	stdQuote := ""
	if quoteFn == nil {
		// the quoting function by use: the string->string function every spelling function ((string, bool) -> string)
		// calls on its value parameter; it may delegate to the standard library
		counts := map[*types.Func]int{}
		for obj, fd := range m.decls {
			sig := obj.Type().(*types.Signature)
			if sig.Recv() != nil || sig.Params().Len() != 2 || sig.Results().Len() != 1 || !isStringT(sig.Params().At(0).Type()) || !isStringT(sig.Results().At(0).Type()) {
				continue
			}
			ast.Inspect(fd.Body, func(n ast.Node) bool {
				if ce, ok := n.(*ast.CallExpr); ok {
					if fn, _, _ := m.callee(ce); fn != nil && m.decls[fn] != nil {
						fs := fn.Type().(*types.Signature)
						if fs.Recv() == nil && fs.Params().Len() == 1 && fs.Results().Len() == 1 && isStringT(fs.Params().At(0).Type()) && isStringT(fs.Results().At(0).Type()) {
							counts[fn]++
						}
					}
				}
				return true
			})
		}
		for fn, n := range counts {
			if n >= 2 && (quoteFn == nil || n > counts[quoteFn]) {
				quoteFn = fn
			}
		}
		if quoteFn != nil {
			ast.Inspect(m.decls[quoteFn].Body, func(n ast.Node) bool {
				if ce, ok := n.(*ast.CallExpr); ok {
					if fn, _, _ := m.callee(ce); fn != nil && fn.Pkg() != nil && fn.Pkg().Path() == "strconv" && strings.HasPrefix(fn.Name(), "Quote") {
						stdQuote = "strconv." + fn.Name()
					}
				}
				return true
			})
			if stdQuote == "" {
				c.Undecided(rule, quoteFn.Name()+":escape table", p.Pos(m.decls[quoteFn].Pos()), "the quoting function has no rune switch writing backslash escapes and does not delegate to strconv.Quote*: its escape table cannot be read")
				return
			}
		}
	}
	if quoteFn == nil || lexStr == nil || lexIdent == nil {
		c.Undecided(rule, "roles", "", fmt.Sprintf("quoting function %v, string lexer %v, identifier lexer %v", quoteFn != nil, lexStr != nil, lexIdent != nil))
		return
	}
	if stdQuote != "" {
		// Go string-literal escapes written by strconv.Quote*: the lexer must decode each of them
		goEscapes := []string{`\a`, `\b`, `\f`, `\n`, `\r`, `\t`, `\v`, `\\`, `\"`, `\xNN`, `\uNNNN`, `\UNNNNNNNN`}
		decoded := map[string]bool{}
		for _, rc := range m.runeSwitches(m.decls[lexStr].Body) {
			for _, r := range rc.runes {
				decoded[string(r)] = true
			}
		}
		var missing []string
		for _, e := range goEscapes {
			code := string(e[1])
			// the lexer's clauses decode n, t, r to the control characters and keep \ and " as themselves;
			// any other letter is kept as the letter (not the rune strconv meant)
			ok := decoded[code] && (code == "n" || code == "t" || code == "r" || code == `\` || code == `"`)
			if !ok {
				missing = append(missing, e)
			}
		}
		c.Check(len(missing) == 0, rule, quoteFn.Name()+":escapes written by "+stdQuote+" are decoded by the lexer", p.Pos(m.decls[quoteFn].Pos()),
			"every Go escape has a decoding clause",
			"the quoting function delegates to "+stdQuote+", which writes "+strings.Join(missing, " ")+" for non-printing runes; the string lexer ("+lexStr.Name()+") has no clause for them and keeps the letter, so such a value is rewritten to a different one")
		return
	}
	c.Note("C19.R3 roles: quoting function %s, string lexer lexer.%s, identifier lexer lexer.%s", quoteFn.Name(), lexStr.Name(), lexIdent.Name())

	// writer's escape table
	escapes := map[rune]string{}
	for _, rc := range m.runeSwitches(m.decls[quoteFn].Body) {
		if len(rc.runes) == 0 {
			continue
		}
		var lit string
		n := 0
		ast.Inspect(rc.clause, func(k ast.Node) bool {
			if ce, ok := k.(*ast.CallExpr); ok {
				for _, a := range ce.Args {
					if v, ok := m.stringConst(a); ok {
						lit = v
						n++
					}
				}
			}
			return true
		})
		for _, r := range rc.runes {
			if n == 1 {
				escapes[r] = lit
			} else {
				escapes[r] = "?"
			}
		}
	}
	// reader's unescape table: rune switch in the string lexer whose clauses append
	unescape := map[rune]rune{}
	defaultIdentity := false
	var special = map[rune]bool{}
	lexFD := m.decls[lexStr]
	// the unescape switch may live in a function of the package the string lexer calls (rune in, rune out)
	lexBodies := []ast.Node{lexFD.Body}
	ast.Inspect(lexFD.Body, func(n ast.Node) bool {
		if ce, ok := n.(*ast.CallExpr); ok {
			if fn, _, _ := m.callee(ce); fn != nil && m.decls[fn] != nil && fn != lexStr {
				sig := fn.Type().(*types.Signature)
				if sig.Params().Len() == 1 && sig.Results().Len() >= 1 {
					if b, ok := sig.Params().At(0).Type().Underlying().(*types.Basic); ok && (b.Kind() == types.Int32 || b.Kind() == types.Uint8) {
						lexBodies = append(lexBodies, m.decls[fn].Body)
					}
				}
			}
		}
		return true
	})
	var lexSwitches []runeClause
	for _, body := range lexBodies {
		lexSwitches = append(lexSwitches, m.runeSwitches(body)...)
	}
	for _, rc := range lexSwitches {
		var appended ast.Expr
		ast.Inspect(rc.clause, func(k ast.Node) bool {
			switch x := k.(type) {
			case *ast.CallExpr:
				fn, b, _ := m.callee(x)
				if b == "append" && len(x.Args) == 2 {
					appended = x.Args[1]
				}
				// a strings.Builder / bytes.Buffer accumulator
				if fn != nil && len(x.Args) == 1 && (fn.Name() == "WriteRune" || fn.Name() == "WriteByte") {
					appended = x.Args[0]
				}
			case *ast.ReturnStmt:
				// the produced rune returned by an unescape helper
				if len(x.Results) >= 1 && appended == nil {
					if t := m.info.TypeOf(x.Results[0]); t != nil {
						if b, ok := t.Underlying().(*types.Basic); ok && (b.Kind() == types.Int32 || b.Kind() == types.Uint8 || b.Kind() == types.UntypedRune) {
							appended = x.Results[0]
						}
					}
				}
			}
			return true
		})
		if appended == nil {
			continue
		}
		if len(rc.clause.List) == 0 {
			if _, ok := m.runeConst(appended); !ok {
				defaultIdentity = true
			}
			continue
		}
		for _, r := range rc.runes {
			if v, ok := m.runeConst(appended); ok {
				unescape[r] = v
			} else {
				unescape[r] = r // appends the switch tag itself
			}
		}
	}
	// specials of the string lexer: runes compared with == in if conditions of its body
	ast.Inspect(lexFD.Body, func(n ast.Node) bool {
		if is, ok := n.(*ast.IfStmt); ok {
			if be, ok := is.Cond.(*ast.BinaryExpr); ok && be.Op == token.EQL {
				if r, ok := m.runeConst(be.Y); ok {
					if _, isLit := ast.Unparen(be.Y).(*ast.BasicLit); isLit {
						special[r] = true
					}
				}
			}
		}
		return true
	})
	// bytes rewritten by the input normaliser / output canonicaliser ([]byte -> []byte functions reachable
	// from Parse or Format): `if b == c1 { … append(out, c2) … }` with c2 != c1
	rewritten := map[rune]string{}
	for obj := range m.reach("Parse", "Format") {
		fd := m.decls[obj]
		sig := obj.Type().(*types.Signature)
		if sig.Params().Len() != 1 || sig.Results().Len() != 1 || !isByteSlice(sig.Params().At(0).Type()) || !isByteSlice(sig.Results().At(0).Type()) {
			continue
		}
		ast.Inspect(fd.Body, func(n ast.Node) bool {
			is, ok := n.(*ast.IfStmt)
			if !ok {
				return true
			}
			be, ok := is.Cond.(*ast.BinaryExpr)
			if !ok || be.Op != token.EQL {
				return true
			}
			c1, ok := m.runeConst(be.Y)
			if !ok {
				return true
			}
			ast.Inspect(is.Body, func(k ast.Node) bool {
				if ce, ok := k.(*ast.CallExpr); ok {
					if _, b, _ := m.callee(ce); b == "append" && len(ce.Args) == 2 {
						if c2, ok := m.runeConst(ce.Args[1]); ok && c2 != c1 {
							rewritten[c1] = fmt.Sprintf("%s rewrites %q to %q", obj.Name(), c1, c2)
						}
					}
				}
				return true
			})
			return true
		})
	}
	c.Count("bytes rewritten by input normalisation / output canonicalisation", len(rewritten))
	c.Floor(rule, "rewritten bytes", len(rewritten), 1)
	var rw []int
	for r := range rewritten {
		rw = append(rw, int(r))
	}
	sort.Ints(rw)
	for _, ri := range rw {
		r := rune(ri)
		_, ok := escapes[r]
		c.Check(ok, rule, fmt.Sprintf("%s:escapes %q (rewritten byte)", quoteFn.Name(), r), p.Pos(m.decls[quoteFn].Pos()),
			rewritten[r]+" and the quoting function escapes it",
			rewritten[r]+" on the way in or out, but the quoting function writes it raw inside a quoted string: the value changes (or the string no longer terminates on its line)")
	}
	c.Count("escape pairs written by the quoting function", len(escapes))
	c.Count("runes the string lexer treats specially", len(special))
	var sp []int
	for r := range special {
		sp = append(sp, int(r))
	}
	sort.Ints(sp)
	for _, ri := range sp {
		r := rune(ri)
		_, ok := escapes[r]
		c.Check(ok, rule, fmt.Sprintf("%s:escapes %q", quoteFn.Name(), r), p.Pos(m.decls[quoteFn].Pos()),
			"the string lexer treats this rune specially and the quoting function escapes it",
			"the string lexer ("+lexStr.Name()+") terminates, rejects or unescapes at this rune but the quoting function writes it raw")
	}
	var es []int
	for r := range escapes {
		es = append(es, int(r))
	}
	sort.Ints(es)
	for _, ri := range es {
		r := rune(ri)
		lit := escapes[r]
		ok := false
		detail := ""
		if len(lit) == 2 && lit[0] == '\\' {
			code := rune(lit[1])
			if back, has := unescape[code]; has {
				ok = back == r
				detail = fmt.Sprintf("written %q, lexer maps \\%c to %q", lit, code, back)
			} else if defaultIdentity {
				ok = code == r
				detail = fmt.Sprintf("written %q, lexer keeps unknown escape %q as itself", lit, code)
			} else {
				detail = fmt.Sprintf("written %q, lexer has no clause for %q", lit, code)
			}
		} else {
			detail = fmt.Sprintf("written %q is not a two-byte backslash escape", lit)
		}
		c.Check(ok, rule, fmt.Sprintf("%s:escape of %q reads back", quoteFn.Name(), r), p.Pos(m.decls[quoteFn].Pos()), detail, detail)
	}
	c.Floor(rule, "escape pairs", len(escapes), 3)

	// identifier stop class vs the formatter's safe-unquoted predicates
	stop := m.comparedRunes(m.decls[lexIdent].Body)
	c.Count("runes at which the identifier lexer stops", len(stop))
	c.Floor(rule, "identifier stop runes", len(stop), 5)
	nPred := 0
	for obj, fd := range m.decls {
		sig := obj.Type().(*types.Signature)
		if sig.Recv() != nil || sig.Params().Len() != 1 || sig.Results().Len() != 1 || !isStringT(sig.Params().At(0).Type()) || !types.Identical(sig.Results().At(0).Type(), types.Typ[types.Bool]) {
			continue
		}
		// a safe-unquoted predicate is one whose result decides between raw and quoted spelling:
		// it is called in the condition of an if whose body returns its argument raw and whose fall-through quotes.
		if !m.decidesRawSpelling(obj, quoteFn) {
			continue
		}
		nPred++
		reject, ok := m.boolFuncRuneSet(fd, false)
		if !ok {
			c.Undecided(rule, obj.Name()+":reject-set", p.Pos(fd.Pos()), "no rune switch returning false found")
			continue
		}
		var missing []string
		var st []int
		for r := range stop {
			st = append(st, int(r))
		}
		sort.Ints(st)
		for _, ri := range st {
			if !reject[rune(ri)] {
				missing = append(missing, fmt.Sprintf("%q", rune(ri)))
			}
		}
		c.Check(len(missing) == 0, rule, obj.Name()+":reject-set ⊇ identifier stop class", p.Pos(fd.Pos()),
			"rejects "+runeSetStr(reject)+" ⊇ stop class "+runeSetStr(stop),
			"spells a value unquoted although it contains "+strings.Join(missing, ",")+", where the identifier lexer ("+lexIdent.Name()+") ends the token")
		// the empty string cannot be spelled unquoted
		c.Check(m.rejectsEmpty(fd), rule, obj.Name()+":rejects the empty value", p.Pos(fd.Pos()),
			"returns false for \"\"", "an empty value would be spelled as nothing and the next token read in its place")
	}
	c.Floor(rule, "safe-unquoted predicates", nPred, 2)

	// spelling functions: (string, bool) -> string deciding between raw and quoted
	nSpell := 0
	for obj, fd := range m.decls {
		sig := obj.Type().(*types.Signature)
		if sig.Recv() != nil || sig.Params().Len() != 2 || sig.Results().Len() != 1 || !isStringT(sig.Params().At(0).Type()) || !isStringT(sig.Results().At(0).Type()) {
			continue
		}
		if b, ok := sig.Params().At(1).Type().Underlying().(*types.Basic); !ok || b.Kind() != types.Bool {
			continue
		}
		pv := paramVarAt(m.info, fd, 0)
		callsQuote := false
		ast.Inspect(fd.Body, func(n ast.Node) bool {
			if ce, ok := n.(*ast.CallExpr); ok {
				if fn, _, _ := m.callee(ce); fn == quoteFn {
					callsQuote = true
				}
			}
			return true
		})
		if !callsQuote || pv == nil {
			continue
		}
		nSpell++
		ast.Inspect(fd.Body, func(n ast.Node) bool {
			rs, ok := n.(*ast.ReturnStmt)
			if !ok || len(rs.Results) != 1 {
				return true
			}
			res := ast.Unparen(rs.Results[0])
			construct := fmt.Sprintf("%s:return %s", obj.Name(), types.ExprString(res))
			if ce, ok := res.(*ast.CallExpr); ok {
				if fn, _, _ := m.callee(ce); fn == quoteFn && len(ce.Args) == 1 {
					if id, ok := ast.Unparen(ce.Args[0]).(*ast.Ident); ok && m.info.Uses[id] == pv {
						c.Ok(rule, construct, p.Pos(rs.Pos()), "quoted spelling of the unchanged value")
						return true
					}
				}
			}
			if id, ok := res.(*ast.Ident); ok && m.info.Uses[id] == pv {
				// raw: must sit in the then-branch of a safe-unquoted predicate on the same value
				guarded := false
				child := ast.Node(rs)
				for cur := m.parent[rs]; cur != nil; child, cur = cur, m.parent[cur] {
					is, ok := cur.(*ast.IfStmt)
					if !ok || is.Body != child {
						continue
					}
					for _, cj := range splitAnd(is.Cond) {
						ce, ok := ast.Unparen(cj).(*ast.CallExpr)
						if !ok || len(ce.Args) != 1 {
							continue
						}
						if fn, _, _ := m.callee(ce); fn != nil && m.decidesRawSpelling(fn, quoteFn) {
							if aid, ok := ast.Unparen(ce.Args[0]).(*ast.Ident); ok && m.info.Uses[aid] == pv {
								if _, hasReject := m.boolFuncRuneSet(m.decls[fn], false); hasReject {
									guarded = true
								}
							}
						}
					}
				}
				c.Check(guarded, rule, construct, p.Pos(rs.Pos()),
					"raw spelling only behind the safe-unquoted predicate on the same value",
					"the value is written raw without the safe-unquoted predicate having accepted it")
				return true
			}
			c.Fail(rule, construct, p.Pos(rs.Pos()), "a spelling function returns something other than the raw value or its quoted form")
			return true
		})
	}
	c.Floor(rule, "spelling functions", nSpell, 2)
}

func isByteSlice(t types.Type) bool {
	sl, ok := t.Underlying().(*types.Slice)
	if !ok {
		return false
	}
	b, ok := sl.Elem().Underlying().(*types.Basic)
	return ok && b.Kind() == types.Uint8
}

func isStringT(t types.Type) bool {
	b, ok := t.Underlying().(*types.Basic)
	return ok && b.Kind() == types.String
}

// decidesRawSpelling: pred is called as an if condition in a (string, bool) -> string function whose
// then-branch returns the parameter unchanged and whose other returns call the quoting function.
func (m *cfgModel) decidesRawSpelling(pred, quoteFn *types.Func) bool {
	for _, fd := range m.decls {
		found := false
		ast.Inspect(fd.Body, func(n ast.Node) bool {
			is, ok := n.(*ast.IfStmt)
			if !ok {
				return true
			}
			// the predicate is the condition or one of its conjuncts (!quoted && pred(v))
			var ce *ast.CallExpr
			for _, cj := range splitAnd(is.Cond) {
				if c2, ok := ast.Unparen(cj).(*ast.CallExpr); ok {
					if fn, _, _ := m.callee(c2); fn == pred {
						ce = c2
					}
				}
			}
			if ce == nil {
				return true
			}
			if len(is.Body.List) == 1 {
				if rs, ok := is.Body.List[0].(*ast.ReturnStmt); ok && len(rs.Results) == 1 {
					if id, ok := rs.Results[0].(*ast.Ident); ok && len(ce.Args) == 1 {
						if aid, ok := ce.Args[0].(*ast.Ident); ok && m.info.Uses[aid] == m.info.Uses[id] {
							found = true
						}
					}
				}
			}
			return true
		})
		if found {
			return true
		}
	}
	return false
}

func (m *cfgModel) rejectsEmpty(fd *ast.FuncDecl) bool {
	ok := false
	// "" has no non-empty prefix: if !strings.HasPrefix(x, "/") { return false } rejects it too
	ast.Inspect(fd.Body, func(n ast.Node) bool {
		is, isIf := n.(*ast.IfStmt)
		if !isIf || len(is.Body.List) != 1 {
			return true
		}
		rs, isRet := is.Body.List[0].(*ast.ReturnStmt)
		if !isRet || len(rs.Results) != 1 {
			return true
		}
		if id, isID := rs.Results[0].(*ast.Ident); !isID || id.Name != "false" {
			return true
		}
		// top-level disjuncts of the condition
		var disj []ast.Expr
		var split func(e ast.Expr)
		split = func(e ast.Expr) {
			if be, isBE := ast.Unparen(e).(*ast.BinaryExpr); isBE && be.Op == token.LOR {
				split(be.X)
				split(be.Y)
				return
			}
			disj = append(disj, ast.Unparen(e))
		}
		split(is.Cond)
		for _, d := range disj {
			ue, isU := d.(*ast.UnaryExpr)
			if !isU || ue.Op != token.NOT {
				continue
			}
			ce, isCall := ast.Unparen(ue.X).(*ast.CallExpr)
			if !isCall || len(ce.Args) != 2 {
				continue
			}
			if fn, _, _ := m.callee(ce); fn != nil && fn.Pkg() != nil && fn.Pkg().Path() == "strings" && (fn.Name() == "HasPrefix" || fn.Name() == "HasSuffix" || fn.Name() == "Contains") {
				if v, isS := m.stringConst(ce.Args[1]); isS && v != "" {
					ok = true
				}
			}
		}
		return true
	})
	if ok {
		return true
	}
	ast.Inspect(fd.Body, func(n ast.Node) bool {
		is, isIf := n.(*ast.IfStmt)
		if !isIf {
			return true
		}
		mentions := false
		ast.Inspect(is.Cond, func(k ast.Node) bool {
			if be, isBE := k.(*ast.BinaryExpr); isBE && be.Op == token.EQL {
				if v, isS := m.stringConst(be.Y); isS && v == "" {
					mentions = true
				}
			}
			return true
		})
		if !mentions {
			return true
		}
		// must be a top-level disjunct
		top := true
		ast.Inspect(is.Cond, func(k ast.Node) bool {
			if be, isBE := k.(*ast.BinaryExpr); isBE && be.Op == token.LAND {
				top = false
			}
			return true
		})
		if top && len(is.Body.List) == 1 {
			if rs, isRet := is.Body.List[0].(*ast.ReturnStmt); isRet && len(rs.Results) == 1 {
				if id, isID := rs.Results[0].(*ast.Ident); isID && id.Name == "false" {
					ok = true
				}
			}
		}
		return true
	})
	return ok
}
