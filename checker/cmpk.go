package main

// Comparator kernel: which lexicographic order does a comparator implement?
//
// A comparator touches its two elements only through comparisons of the same field on both sides (Equal / After /
// Before / Compare / < > == on strings and numbers / strings.Compare / cmp.Compare / cmp.Or). For k fields there are
// 3^k possible relation vectors (each field of a is <, = or > that of b). For a candidate key list
// [(F1,dir1),(F2,dir2)…] the kernel walks the comparator once per relation vector, deciding every branch from the
// vector (abstract interpretation over the sign domain — no input is run), and compares the verdict with the one the
// lexicographic order prescribes. The key list that agrees on all vectors is the comparator's order. Works for
// sort.Slice-style `less(i, j) bool` closures and slices.SortFunc-style `cmp(a, b) int` functions, whatever the
// spelling.

import (
	"go/constant"
	"go/token"
	"go/types"
	"sort"
	"strings"

	"golang.org/x/tools/go/ssa"
)

type cmpModel struct {
	fn      *ssa.Function
	isLess  bool
	sideOf  map[ssa.Value]int // element roots: parameter a / b, or index parameter i / j
	forced  map[ssa.Value]bool // mode conditions (not about the elements) fixed for this evaluation
	unknown ssa.Value          // first undecided condition met
}

func newCmpModel(fn *ssa.Function) *cmpModel {
	if fn == nil || len(fn.Params) != 2 || len(fn.Blocks) == 0 || fn.Signature.Results().Len() != 1 {
		return nil
	}
	m := &cmpModel{fn: fn, sideOf: map[ssa.Value]int{fn.Params[0]: 1, fn.Params[1]: 2}}
	rt, ok := fn.Signature.Results().At(0).Type().Underlying().(*types.Basic)
	if !ok {
		return nil
	}
	switch {
	case rt.Kind() == types.Bool:
		m.isLess = true
	case rt.Info()&types.IsInteger != 0:
	default:
		return nil
	}
	return m
}

// side: which element (1 = a, 2 = b) the value is read from, and the field path read.
func (m *cmpModel) side(v ssa.Value, depth int) (int, string) {
	if depth > 10 {
		return 0, ""
	}
	if s, ok := m.sideOf[v]; ok {
		return s, ""
	}
	switch x := v.(type) {
	case *ssa.UnOp:
		if x.Op == token.MUL {
			return m.side(x.X, depth+1)
		}
	case *ssa.FieldAddr:
		s, path := m.side(x.X, depth+1)
		if s == 0 {
			return 0, ""
		}
		_, f, _ := fieldAddrName(x)
		return s, joinPath(path, f)
	case *ssa.Field:
		s, path := m.side(x.X, depth+1)
		if s == 0 {
			return 0, ""
		}
		st := x.X.Type().Underlying().(*types.Struct)
		return s, joinPath(path, st.Field(x.Field).Name())
	case *ssa.IndexAddr:
		// slice[i] / slice[j]
		if s, ok := m.sideOf[x.Index]; ok {
			return s, ""
		}
	case *ssa.Index:
		if s, ok := m.sideOf[x.Index]; ok {
			return s, ""
		}
	case *ssa.Convert:
		return m.side(x.X, depth+1)
	case *ssa.ChangeType:
		return m.side(x.X, depth+1)
	case *ssa.Alloc:
		// a parameter spilled into a cell, or a copy of an element taken into a local
		if sv := spilledParam(x); sv != nil {
			return m.side(sv, depth+1)
		}
		var only ssa.Value
		nSt := 0
		for _, ref := range *x.Referrers() {
			if st, ok := ref.(*ssa.Store); ok && st.Addr == x {
				nSt++
				only = st.Val
			}
		}
		if nSt == 1 {
			return m.side(only, depth+1)
		}
	case *ssa.Call:
		// a.F.UTC(), a.F.UnixNano(): order-preserving views of the field
		if f := x.Call.StaticCallee(); f != nil && f.Pkg != nil && f.Pkg.Pkg.Path() == "time" && len(x.Call.Args) == 1 {
			switch f.Name() {
			case "UTC", "UnixNano", "Unix", "UnixMilli", "UnixMicro", "Local":
				return m.side(x.Call.Args[0], depth+1)
			}
		}
	}
	return 0, ""
}

func joinPath(a, b string) string {
	if a == "" {
		return b
	}
	return a + "." + b
}

// fields mentioned on both sides.
func (m *cmpModel) fields() []string {
	seen := map[string]int{}
	for _, b := range m.fn.Blocks {
		for _, ins := range b.Instrs {
			v, ok := ins.(ssa.Value)
			if !ok {
				continue
			}
			if s, f := m.side(v, 0); s != 0 && f != "" {
				seen[f] |= s
			}
		}
	}
	var out []string
	for f, s := range seen {
		if s == 3 {
			out = append(out, f)
		}
	}
	// keep only the longest paths (a.X.F mentions a.X on the way)
	var leaf []string
	for _, f := range out {
		isPrefix := false
		for _, g := range out {
			if g != f && strings.HasPrefix(g, f+".") {
				isPrefix = true
			}
		}
		if !isPrefix {
			leaf = append(leaf, f)
		}
	}
	sort.Strings(leaf)
	return leaf
}

// sign of (x ? y) for two operands that are the same field of the two elements: relation of a to b, oriented.
func (m *cmpModel) rel(x, y ssa.Value, rels map[string]int) (int, bool) {
	sx, fx := m.side(x, 0)
	sy, fy := m.side(y, 0)
	if sx == 0 || sy == 0 || sx == sy || fx != fy || fx == "" {
		return 0, false
	}
	r, ok := rels[fx]
	if !ok {
		return 0, false
	}
	if sx == 2 {
		r = -r
	}
	return r, true
}

type absVal struct {
	kind int // 0 unknown, 1 bool, 2 sign
	b    bool
	s    int
}

func cmpOp(op token.Token, s int) (bool, bool) {
	switch op {
	case token.EQL:
		return s == 0, true
	case token.NEQ:
		return s != 0, true
	case token.LSS:
		return s < 0, true
	case token.LEQ:
		return s <= 0, true
	case token.GTR:
		return s > 0, true
	case token.GEQ:
		return s >= 0, true
	}
	return false, false
}

func (m *cmpModel) eval(v ssa.Value, rels map[string]int, phis map[*ssa.Phi]ssa.Value, depth int) absVal {
	if depth > 12 {
		return absVal{}
	}
	switch x := v.(type) {
	case *ssa.Const:
		if x.Value == nil {
			return absVal{}
		}
		switch x.Value.Kind() {
		case constant.Bool:
			return absVal{kind: 1, b: constant.BoolVal(x.Value)}
		case constant.Int:
			return absVal{kind: 2, s: constant.Sign(x.Value)}
		}
	case *ssa.Phi:
		if pv, ok := phis[x]; ok {
			return m.eval(pv, rels, phis, depth+1)
		}
	case *ssa.UnOp:
		a := m.eval(x.X, rels, phis, depth+1)
		if x.Op == token.NOT && a.kind == 1 {
			return absVal{kind: 1, b: !a.b}
		}
		if x.Op == token.SUB && a.kind == 2 {
			return absVal{kind: 2, s: -a.s}
		}
	case *ssa.Convert:
		return m.eval(x.X, rels, phis, depth+1)
	case *ssa.BinOp:
		// (== on a struct such as time.Time compares representations, not the ordering the fields stand for)
		if _, basic := x.X.Type().Underlying().(*types.Basic); basic {
			if r, ok := m.rel(x.X, x.Y, rels); ok {
				if b, ok := cmpOp(x.Op, r); ok {
					return absVal{kind: 1, b: b}
				}
			}
		}
		// sign value against 0
		a, b := m.eval(x.X, rels, phis, depth+1), m.eval(x.Y, rels, phis, depth+1)
		if a.kind == 2 && b.kind == 2 && b.s == 0 {
			if r, ok := cmpOp(x.Op, a.s); ok {
				return absVal{kind: 1, b: r}
			}
		}
		if a.kind == 2 && b.kind == 2 && a.s == 0 {
			if r, ok := cmpOp(x.Op, -b.s); ok {
				return absVal{kind: 1, b: r}
			}
		}
	case *ssa.Call:
		f := x.Call.StaticCallee()
		if f == nil {
			return absVal{}
		}
		pk := ""
		if f.Pkg != nil {
			pk = f.Pkg.Pkg.Path()
		} else if o := f.Origin(); o != nil && o.Pkg != nil {
			pk = o.Pkg.Pkg.Path()
		}
		name := f.Name()
		if o := f.Origin(); o != nil {
			name = o.Name()
		}
		args := x.Call.Args
		switch {
		case pk == "time" && len(args) == 2 && (name == "Equal" || name == "After" || name == "Before" || name == "Compare"):
			r, ok := m.rel(args[0], args[1], rels)
			if !ok {
				return absVal{}
			}
			switch name {
			case "Equal":
				return absVal{kind: 1, b: r == 0}
			case "After":
				return absVal{kind: 1, b: r > 0}
			case "Before":
				return absVal{kind: 1, b: r < 0}
			default:
				return absVal{kind: 2, s: r}
			}
		case (pk == "strings" || pk == "cmp" || pk == "bytes") && name == "Compare" && len(args) == 2:
			if r, ok := m.rel(args[0], args[1], rels); ok {
				return absVal{kind: 2, s: r}
			}
		case pk == "cmp" && name == "Or":
			// first non-zero operand
			if len(args) == 1 {
				if elems, ok := varargElems(args[0]); ok {
					for _, e := range elems {
						a := m.eval(e, rels, phis, depth+1)
						if a.kind != 2 {
							return absVal{}
						}
						if a.s != 0 {
							return a
						}
					}
					return absVal{kind: 2, s: 0}
				}
			}
		}
	}
	return absVal{}
}

// verdict walks the comparator under the relation vector.
func (m *cmpModel) verdict(rels map[string]int) absVal {
	phis := map[*ssa.Phi]ssa.Value{}
	b := m.fn.Blocks[0]
	var prev *ssa.BasicBlock
	for steps := 0; steps < 200; steps++ {
		if prev != nil {
			idx := -1
			for i, p := range b.Preds {
				if p == prev {
					idx = i
				}
			}
			for _, ins := range b.Instrs {
				phi, ok := ins.(*ssa.Phi)
				if !ok {
					break
				}
				if idx >= 0 {
					phis[phi] = phi.Edges[idx]
				}
			}
		}
		switch t := b.Instrs[len(b.Instrs)-1].(type) {
		case *ssa.Return:
			if len(t.Results) != 1 {
				return absVal{}
			}
			return m.eval(t.Results[0], rels, phis, 0)
		case *ssa.If:
			c := m.eval(t.Cond, rels, phis, 0)
			if fv, ok := m.forced[t.Cond]; ok && c.kind != 1 {
				c = absVal{kind: 1, b: fv}
			}
			if c.kind != 1 {
				if m.unknown == nil {
					m.unknown = t.Cond
				}
				return absVal{}
			}
			prev = b
			if c.b {
				b = b.Succs[0]
			} else {
				b = b.Succs[1]
			}
		case *ssa.Jump:
			prev, b = b, b.Succs[0]
		default:
			return absVal{}
		}
	}
	return absVal{}
}

type sortKey struct {
	Field string
	Desc  bool
}

// implements: the comparator orders by the key list (lexicographically) on every relation vector.
func (m *cmpModel) implements(keys []sortKey, fields []string) bool {
	n := len(fields)
	total := 1
	for i := 0; i < n; i++ {
		total *= 3
	}
	for code := 0; code < total; code++ {
		rels := map[string]int{}
		c := code
		for _, f := range fields {
			rels[f] = c%3 - 1
			c /= 3
		}
		// expected: sign of "a sorts before b" = -1, after = +1, tie on all keys = 0
		want := 0
		for _, k := range keys {
			r := rels[k.Field]
			if r == 0 {
				continue
			}
			// ascending: a<b → before
			want = r
			if k.Desc {
				want = -r
			}
			break
		}
		got := m.verdict(rels)
		if m.isLess {
			// fields outside the key list must not matter; a tie is "not less"
			if got.kind != 1 || got.b != (want < 0) {
				return false
			}
		} else {
			if got.kind != 2 || got.s != want {
				return false
			}
		}
	}
	return true
}

// comparatorKeyAlternatives: the key lists the comparator implements, one per setting of its mode conditions
// (conditions that do not look at the elements, e.g. `order == asc`).
func comparatorKeyAlternatives(fn *ssa.Function) ([][]string, bool) {
	var out [][]string
	var rec func(forced map[ssa.Value]bool, depth int) bool
	rec = func(forced map[ssa.Value]bool, depth int) bool {
		keys, ok, unknown := comparatorKeysUnder(fn, forced)
		if ok {
			out = append(out, keys)
			return true
		}
		if unknown == nil || depth >= 2 {
			return false
		}
		// the undecided condition must not depend on the elements
		m := newCmpModel(fn)
		if m == nil || dependsOn(unknown, fn.Params[0], map[ssa.Value]bool{}) || dependsOn(unknown, fn.Params[1], map[ssa.Value]bool{}) {
			return false
		}
		for _, b := range []bool{true, false} {
			nf := map[ssa.Value]bool{}
			for k, v := range forced {
				nf[k] = v
			}
			nf[unknown] = b
			if !rec(nf, depth+1) {
				return false
			}
		}
		return true
	}
	if !rec(map[ssa.Value]bool{}, 0) {
		return nil, false
	}
	return out, true
}

// comparatorKeys: the key list the comparator implements ("F DESC", …), or false.
func comparatorKeys(fn *ssa.Function) ([]string, bool) {
	keys, ok, _ := comparatorKeysUnder(fn, nil)
	return keys, ok
}

func comparatorKeysUnder(fn *ssa.Function, forced map[ssa.Value]bool) ([]string, bool, ssa.Value) {
	m := newCmpModel(fn)
	if m == nil {
		return nil, false, nil
	}
	m.forced = forced
	fields := m.fields()
	if len(fields) == 0 || len(fields) > 3 {
		return nil, false, nil
	}
	// candidate key lists: permutations of the fields × directions (shorter lists cannot be right when a further
	// field decides some vector, and all fields are compared, so only full-length lists are tried)
	var perms [][]string
	var permute func(cur []string, rest []string)
	permute = func(cur []string, rest []string) {
		if len(rest) == 0 {
			perms = append(perms, append([]string{}, cur...))
			return
		}
		for i := range rest {
			nr := append(append([]string{}, rest[:i]...), rest[i+1:]...)
			permute(append(cur, rest[i]), nr)
		}
	}
	permute(nil, fields)
	for _, pm := range perms {
		for mask := 0; mask < 1<<len(pm); mask++ {
			var keys []sortKey
			for i, f := range pm {
				keys = append(keys, sortKey{f, mask&(1<<i) != 0})
			}
			if m.implements(keys, fields) {
				var out []string
				for _, k := range keys {
					d := "ASC"
					if k.Desc {
						d = "DESC"
					}
					out = append(out, k.Field+" "+d)
				}
				return out, true, nil
			}
		}
	}
	return nil, false, m.unknown
}

// isSortCall: sort.Slice / sort.SliceStable / slices.SortFunc / slices.SortStableFunc; returns the comparator operand.
func sortComparatorArg(ci ssa.CallInstruction) (ssa.Value, bool) {
	if calleeIs(ci, "sort", "", "Slice") || calleeIs(ci, "sort", "", "SliceStable") {
		return ci.Common().Args[1], true
	}
	if f := ci.Common().StaticCallee(); f != nil {
		if o := f.Origin(); o != nil && o.Pkg != nil && o.Pkg.Pkg.Path() == "slices" && (o.Name() == "SortFunc" || o.Name() == "SortStableFunc") && len(ci.Common().Args) == 2 {
			return ci.Common().Args[1], true
		}
	}
	return nil, false
}
