package main

// K5b: linear normal form of integer comparisons over a small symbol set
// (active count A, active+delivered count D, batch size N, max depth M).

import (
	"fmt"
	"go/token"
	"go/types"
	"sort"
	"strings"

	"golang.org/x/tools/go/ssa"
)

type linForm struct {
	c    map[string]int64
	k    int64
	bad  string // non-empty: not linear over the symbol set
}

func (l linForm) String() string {
	if l.bad != "" {
		return "?(" + l.bad + ")"
	}
	var ks []string
	for s := range l.c {
		if l.c[s] != 0 {
			ks = append(ks, s)
		}
	}
	sort.Strings(ks)
	var parts []string
	for _, s := range ks {
		parts = append(parts, fmt.Sprintf("%+d·%s", l.c[s], s))
	}
	parts = append(parts, fmt.Sprintf("%+d", l.k))
	return strings.Join(parts, " ")
}

func linConst(k int64) linForm { return linForm{c: map[string]int64{}, k: k} }
func linSym(s string) linForm  { return linForm{c: map[string]int64{s: 1}} }
func linAdd(a, b linForm, sign int64) linForm {
	if a.bad != "" {
		return a
	}
	if b.bad != "" {
		return b
	}
	o := linForm{c: map[string]int64{}, k: a.k + sign*b.k}
	for s, v := range a.c {
		o.c[s] += v
	}
	for s, v := range b.c {
		o.c[s] += sign * v
	}
	return o
}

type linCtx struct {
	p        *Program
	classify func(f *ssa.Function) string // "A", "D" or ""
	maxField string
	params   map[*ssa.Parameter][]linForm // call-site bindings
}

// forms returns the set of linear forms a value can take.
func (lc *linCtx) forms(v ssa.Value, depth int) []linForm {
	if depth > 12 {
		return []linForm{{bad: "depth"}}
	}
	switch x := v.(type) {
	case *ssa.Const:
		if n, ok := intConst(x); ok {
			return []linForm{linConst(n)}
		}
	case *ssa.Convert:
		return lc.forms(x.X, depth+1)
	case *ssa.ChangeType:
		return lc.forms(x.X, depth+1)
	case *ssa.BinOp:
		if x.Op == token.ADD || x.Op == token.SUB {
			sign := int64(1)
			if x.Op == token.SUB {
				sign = -1
			}
			var out []linForm
			for _, a := range lc.forms(x.X, depth+1) {
				for _, b := range lc.forms(x.Y, depth+1) {
					out = append(out, linAdd(a, b, sign))
				}
			}
			return out
		}
	case *ssa.Parameter:
		if fs, ok := lc.params[x]; ok {
			return fs
		}
		if b, ok := x.Type().Underlying().(*types.Basic); ok && b.Info()&types.IsInteger != 0 {
			return []linForm{linSym("N")}
		}
	case *ssa.Phi:
		// loop-carried variable (needed--): use the entry values only
		var out []linForm
		for _, e := range x.Edges {
			if dependsOnPhi(e, x, 0) {
				continue
			}
			out = append(out, lc.forms(e, depth+1)...)
		}
		if len(out) > 0 {
			return out
		}
	case *ssa.Extract:
		if call, ok := x.Tuple.(*ssa.Call); ok && x.Index == 0 {
			return lc.callForms(call, depth)
		}
	case *ssa.Call:
		if l := lenArg(x); l != nil {
			if strings.Contains(l.Type().String(), "nvelope") || strings.Contains(l.Type().String(), "prepared") {
				return []linForm{linSym("N")}
			}
			return []linForm{linSym("len:" + l.Type().String())}
		}
		return lc.callForms(x, depth)
	case *ssa.UnOp:
		if x.Op == token.MUL {
			if _, f, ok := fieldOfLoad(x); ok {
				if f == lc.maxField {
					return []linForm{linSym("M")}
				}
				return []linForm{{bad: "field " + f}}
			}
			if a, ok := x.X.(*ssa.Alloc); ok {
				var out []linForm
				for _, ref := range *a.Referrers() {
					if st, ok := ref.(*ssa.Store); ok && st.Addr == a {
						if dependsOnCell(st.Val, a, 0) {
							continue
						}
						out = append(out, lc.forms(st.Val, depth+1)...)
					}
				}
				if len(out) > 0 {
					return out
				}
			}
		}
	}
	return []linForm{{bad: fmt.Sprintf("%T %s", v, v.Name())}}
}

func dependsOnPhi(v ssa.Value, phi *ssa.Phi, depth int) bool {
	if depth > 6 {
		return false
	}
	if v == phi {
		return true
	}
	if bo, ok := v.(*ssa.BinOp); ok {
		return dependsOnPhi(bo.X, phi, depth+1) || dependsOnPhi(bo.Y, phi, depth+1)
	}
	return false
}

func dependsOnCell(v ssa.Value, a *ssa.Alloc, depth int) bool {
	if depth > 6 {
		return false
	}
	switch x := v.(type) {
	case *ssa.UnOp:
		return x.X == a
	case *ssa.BinOp:
		return dependsOnCell(x.X, a, depth+1) || dependsOnCell(x.Y, a, depth+1)
	}
	return false
}

func (lc *linCtx) callForms(call *ssa.Call, depth int) []linForm {
	f := call.Call.StaticCallee()
	if f == nil || !IsModuleFunc(f) {
		return []linForm{{bad: "call " + callDesc(call)}}
	}
	if k := lc.classify(f); k != "" {
		return []linForm{linSym(k)}
	}
	// an int-valued helper: union of its returned forms with parameters bound to the arguments
	if len(f.Blocks) == 0 || f.Signature.Results().Len() == 0 {
		return []linForm{{bad: "call " + f.Name()}}
	}
	saved := map[*ssa.Parameter][]linForm{}
	for i, prm := range f.Params {
		if i < len(call.Call.Args) {
			if b, ok := prm.Type().Underlying().(*types.Basic); ok && b.Info()&types.IsInteger != 0 {
				saved[prm] = lc.params[prm]
				lc.params[prm] = lc.forms(call.Call.Args[i], depth+1)
			}
		}
	}
	var out []linForm
	for _, r := range returnsOf(f) {
		out = append(out, lc.forms(r.Results[0], depth+1)...)
	}
	for prm, old := range saved {
		if old == nil {
			delete(lc.params, prm)
		} else {
			lc.params[prm] = old
		}
	}
	return out
}

// normGE rewrites `lhs op rhs` into `form >= 0`-style (form, k) meaning form >= k, for the atom as it holds.
func normGE(lhs, rhs linForm, op token.Token) (linForm, int64, bool) {
	d := linAdd(lhs, rhs, -1) // lhs - rhs
	if d.bad != "" {
		return d, 0, false
	}
	switch op {
	case token.GEQ:
		return d, 0, true
	case token.GTR:
		return d, 1, true
	case token.LEQ: // lhs - rhs <= 0  ⇔  rhs - lhs >= 0
		return linAdd(rhs, lhs, -1), 0, true
	case token.LSS:
		return linAdd(rhs, lhs, -1), 1, true
	}
	return d, 0, false
}
