package main

import (
	"fmt"
	"go/token"
	"go/types"
	"strings"

	"golang.org/x/tools/go/ssa"
)

// C12.R5 — an eviction shortfall is detected.
//
// Under drop_oldest a message is admitted over max_depth only in exchange for evicted queued messages — one per
// stored message. The code that evicts (SQLite: the function executing the DELETE of oldest queued rows; memory:
// the victim selector) can come back with fewer than were needed (leased messages hold the capacity). Every
// caller must notice: a one-at-a-time evictor (bool result / LIMIT 1) is called in a loop that runs until the
// depth fits, or exactly once for a single message; an evictor that takes the number wanted must have its
// result compared with that number (not merely with zero) before anything is stored.

func valueDerivesFrom(v, src ssa.Value, depth int) bool {
	if v == nil || depth > 6 {
		return false
	}
	if v == src {
		return true
	}
	switch x := v.(type) {
	case *ssa.Extract:
		return valueDerivesFrom(x.Tuple, src, depth+1)
	case *ssa.Convert:
		return valueDerivesFrom(x.X, src, depth+1)
	case *ssa.ChangeType:
		return valueDerivesFrom(x.X, src, depth+1)
	case *ssa.Call:
		if bi, ok := x.Call.Value.(*ssa.Builtin); ok && bi.Name() == "len" {
			return valueDerivesFrom(x.Call.Args[0], src, depth+1)
		}
	case *ssa.Phi:
		for _, e := range x.Edges {
			if valueDerivesFrom(e, src, depth+1) {
				return true
			}
		}
	case *ssa.UnOp:
		if al, ok := x.X.(*ssa.Alloc); ok {
			for _, ref := range *al.Referrers() {
				if st, ok := ref.(*ssa.Store); ok && st.Addr == al && valueDerivesFrom(st.Val, src, depth+1) {
					return true
				}
			}
		}
	}
	return false
}

func checkEvictionShortfall(c *Ctx, rule string) {
	p := c.P
	// evictors: SQLite functions holding a drop-oldest DELETE (delete of queued rows reachable from Enqueue, not the shared prune helper);
	// memory: methods of MemoryStore returning []string with one int parameter, called from Enqueue/EnqueueBatch
	evictors := map[*ssa.Function]string{}
	for _, t := range p.sqlTransitions("sqlite") {
		if t.Kind == "delete" && t.HasFrom && t.From == ssParse("queued") && (t.Root == "Enqueue" || t.Root == "EnqueueBatch") && t.Stmt.Fn != nil {
			if p.SharedBy(t.Stmt.Fn) >= 4 {
				continue // retention prune helper
			}
			evictors[t.Stmt.Fn] = "sqlite"
		}
	}
	for _, name := range []string{"Enqueue", "EnqueueBatch"} {
		if fn := p.Orig(p.Func("queue", "(*MemoryStore)."+name)); fn != nil {
			// (the victim selector is named by its role — a method taking the number wanted and returning ids — so the
			// operation is analysed as written, not through its inlined view)
			for _, ci := range allCalls(fn, nil) {
				g := ci.Common().StaticCallee()
				if g == nil || !IsModuleFunc(g) || g.Signature.Recv() == nil {
					continue
				}
				rs, ps := g.Signature.Results(), g.Signature.Params()
				if rs.Len() == 1 && isStringSlice(rs.At(0).Type()) && ps.Len() == 1 {
					if b, ok := ps.At(0).Type().Underlying().(*types.Basic); ok && b.Kind() == types.Int {
						evictors[g] = "memory"
					}
				}
			}
		}
	}
	checkEvictionSingleRow(c, rule, evictors)
	n := 0
	for _, ev := range sortedFuncs(boolSet(evictors)) {
		backend := evictors[ev]
		// does it take the number wanted?
		var want *ssa.Parameter
		for _, pr := range ev.Params {
			if b, ok := pr.Type().Underlying().(*types.Basic); ok && b.Kind() == types.Int {
				want = pr
			}
		}
		for _, cs := range p.CallSitesOf(ev) {
			F := cs.Parent()
			n++
			construct := fmt.Sprintf("%s.%s:shortfall of %s is detected", backend, F.Name(), ev.Name())
			res, _ := cs.(ssa.Value)
			if want == nil {
				// one at a time: in a loop whose condition involves max depth, or guarded by a depth comparison for a single message
				inLoop := false
				if h := loopHeaderOf(cs.Block()); h != nil {
					for b := range loopBody(h) {
						if ifi, ok := b.Instrs[len(b.Instrs)-1].(*ssa.If); ok {
							if valueMentionsField(ifi.Cond, p.rolesOf("SQLiteStore").maxDepth, 0) || valueMentionsField(ifi.Cond, p.rolesOf("MemoryStore").maxDepth, 0) {
								inLoop = true
							}
						}
					}
				}
				single := false
				for _, pc := range dominatingConds(cs.Block(), nil) {
					if valueMentionsField(pc.Cond, p.rolesOf("SQLiteStore").maxDepth, 0) || valueMentionsField(pc.Cond, p.rolesOf("MemoryStore").maxDepth, 0) {
						single = true
					}
				}
				// its "nothing evicted" outcome must be tested
				okE, failE, untested := GuardEdges(F, []ssa.CallInstruction{cs}, BoolTrue)
				c.Check((inLoop || single) && len(untested) == 0 && len(okE)+len(failE) > 0, rule, construct, p.InstrPos(cs),
					"one-at-a-time evictor: called until the depth fits (or once for one message) and its outcome is tested",
					"a one-at-a-time evictor is called without a depth-driven loop/guard or its outcome is ignored")
				continue
			}
			// counted evictor: result compared with the wanted number
			var wantArg ssa.Value
			for i, pr := range ev.Params {
				if pr == want && i < len(cs.Common().Args) {
					wantArg = cs.Common().Args[i]
				}
			}
			cmp := false
			constOne := isIntConst(wantArg, 1)
			for _, b := range F.Blocks {
				ifi, ok := b.Instrs[len(b.Instrs)-1].(*ssa.If)
				if !ok {
					continue
				}
				bo, ok := ifi.Cond.(*ssa.BinOp)
				if !ok {
					continue
				}
				switch bo.Op {
				case token.LSS, token.LEQ, token.GTR, token.GEQ, token.EQL, token.NEQ:
				default:
					continue
				}
				for _, pair := range [][2]ssa.Value{{bo.X, bo.Y}, {bo.Y, bo.X}} {
					if !valueDerivesFrom(pair[0], res, 0) {
						continue
					}
					if valueDerivesFrom(pair[1], wantArg, 0) || sameOriginLoad(pair[1], wantArg) {
						cmp = true
					}
					if constOne {
						if cst, ok := pair[1].(*ssa.Const); ok && cst.Value != nil && (cst.Value.String() == "0" || cst.Value.String() == "1") {
							cmp = true
						}
					}
				}
			}
			if !cmp {
				// the comparison may be the evictor's own verdict: it returns `evicted >= wanted` (or ==) as a bool, and
				// the caller tests that bool
				inside := false
				for _, r := range returnsOf(ev) {
					if len(r.Results) == 0 {
						continue
					}
					if bo, ok := r.Results[0].(*ssa.BinOp); ok {
						switch bo.Op {
						case token.GEQ, token.EQL, token.LEQ:
							for _, pair := range [][2]ssa.Value{{bo.X, bo.Y}, {bo.Y, bo.X}} {
								if valueDerivesFrom(pair[1], want, 0) && !valueDerivesFrom(pair[0], want, 0) {
									if _, isC := pair[0].(*ssa.Const); !isC {
										inside = true
									}
								}
							}
						}
					}
				}
				if inside {
					okE, failE, untested := GuardEdges(F, []ssa.CallInstruction{cs}, BoolTrue)
					cmp = len(untested) == 0 && len(okE)+len(failE) > 0
				}
			}
			c.Check(cmp, rule, construct, p.InstrPos(cs),
				"the number evicted/selected is compared with the number wanted",
				"the evictor is asked for "+shortVal(wantArg)+" item(s) but its result is never compared with that number (at most with zero): when fewer queued messages exist than are needed, the call stores all its messages anyway — the queue ends above max_depth and fewer messages are dropped than stored")
		}
	}
	c.Floor(rule, "eviction call sites", n, 2) // one per backend; sites duplicated between Enqueue and EnqueueBatch may be shared
}

func boolSet(m map[*ssa.Function]string) map[*ssa.Function]bool {
	out := map[*ssa.Function]bool{}
	for k := range m {
		out[k] = true
	}
	return out
}

// checkEvictionSingleRow: a one-at-a-time SQL evictor removes one row.
func checkEvictionSingleRow(c *Ctx, rule string, evictors map[*ssa.Function]string) {
	p := c.P
	if evictors == nil {
		evictors = map[*ssa.Function]string{}
		for _, t := range p.sqlTransitions("sqlite") {
			if t.Kind == "delete" && t.HasFrom && t.From == ssParse("queued") && (t.Root == "Enqueue" || t.Root == "EnqueueBatch") && t.Stmt.Fn != nil && p.SharedBy(t.Stmt.Fn) < 4 {
				evictors[t.Stmt.Fn] = "sqlite"
			}
		}
	}
	nStmt := 0
	// a one-at-a-time SQL evictor removes one row: its callers count one eviction per call, so a DELETE that can take
	// several rows (all rows tying on the oldest received_at, say) loses queued messages nobody accounted for
	msql := p.SQL()
	seenStmt := map[*SQLStmt]bool{}
	for _, t := range p.sqlTransitions("sqlite") {
		if t.Kind != "delete" || !t.HasFrom || t.From != ssParse("queued") || (t.Root != "Enqueue" && t.Root != "EnqueueBatch") || t.Stmt.Fn == nil || seenStmt[t.Stmt] {
			continue
		}
		if evictors[t.Stmt.Fn] != "sqlite" {
			continue
		}
		counted := false
		for _, pr := range t.Stmt.Fn.Params {
			if b, ok := pr.Type().Underlying().(*types.Basic); ok && b.Kind() == types.Int {
				counted = true
			}
		}
		if counted {
			if !seenStmt[t.Stmt] {
				seenStmt[t.Stmt] = true
				nStmt++ // a counted evictor: how many rows it removed is its callers' business (shortfall obligation)
				lim := strings.Contains(strings.ToLower(t.Stmt.St.raw), "limit")
				c.Check(lim, rule, msql.Key(t.Stmt)+":a counted eviction removes at most the number asked for", t.Pos,
					"DELETE bounded by a LIMIT (the callers compare the number removed with the number wanted, C12.R5)",
					"the counted evictor's DELETE carries no LIMIT: it can remove more queued messages than the call accounts for")
			}
			continue
		}
		seenStmt[t.Stmt] = true
		nStmt++
		single := false
		var conj []string
		for _, w := range t.Stmt.St.where {
			lw := strings.Join(strings.Fields(strings.ToLower(msql.R(t.Stmt, w))), " ")
			conj = append(conj, lw)
			if strings.HasPrefix(lw, "id = ?") || strings.HasPrefix(lw, "id = $") {
				single = true
			}
			if strings.HasPrefix(lw, "id = (") && strings.Contains(lw, "limit 1") {
				single = true
			}
		}
		c.Check(single, rule, msql.Key(t.Stmt)+":one eviction removes one row", t.Pos,
			"DELETE keyed by a single id (id = (SELECT … LIMIT 1))",
			"the one-at-a-time evictor's DELETE is not keyed by a single id (WHERE "+strings.Join(conj, " AND ")+"): one counted eviction can remove several queued messages — e.g. every message of a batch, which share one received_at")
	}
	c.Floor(rule, "eviction statements", nStmt, 1)
}
