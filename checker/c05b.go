package main

import (
	"fmt"
	"go/types"

	"golang.org/x/tools/go/ssa"
)

// Each lease action is applied with its own parameter.
//
// The dispatcher computes, per message, a retry delay (backoff of that message's attempt, jitter) or a dead
// reason, collects actions and applies them singly or in batches. "Offered from now+d and never earlier" holds
// only if the d handed to the Store is the d computed for that message: a single call takes lease id and
// parameter from the same action value; a batch call takes its ids from one group of a map keyed by the
// parameter and its parameter from that group's key, and actions are filed under the key read from themselves.

func fieldBaseOf(v ssa.Value, field string) (ssa.Value, bool) {
	switch x := v.(type) {
	case *ssa.Field:
		st := x.X.Type().Underlying().(*types.Struct)
		if st.Field(x.Field).Name() == field {
			return x.X, true
		}
	case *ssa.UnOp:
		if fa, ok := x.X.(*ssa.FieldAddr); ok {
			if _, f, _ := fieldAddrName(fa); f == field {
				return fa.X, true
			}
		}
	}
	return nil, false
}

func sameBase(a, b ssa.Value) bool {
	if a == b {
		return true
	}
	// loads of the same cell
	ua, ok1 := a.(*ssa.UnOp)
	ub, ok2 := b.(*ssa.UnOp)
	if ok1 && ok2 && ua.X == ub.X {
		return true
	}
	return false
}

func checkActionOwnParameter(c *Ctx, rule string) {
	p := c.P
	type spec struct{ method, field string }
	specs := []spec{{"Nack", "delay"}, {"MarkDead", "reason"}, {"NackBatch", "delay"}, {"MarkDeadBatch", "reason"}}
	n := 0
	for _, fn := range p.FuncsInPkg("dispatcher") {
		for _, ci := range allCalls(fn, nil) {
			com := ci.Common()
			if !com.IsInvoke() || namedPkgPath(com.Value.Type()) != queuePath {
				continue
			}
			var sp *spec
			for i := range specs {
				if specs[i].method == com.Method.Name() {
					sp = &specs[i]
				}
			}
			if sp == nil || len(com.Args) != 2 {
				continue
			}
			construct := fmt.Sprintf("dispatcher.%s:%s applies each action's own %s", fn.Name(), sp.method, sp.field)
			idArg, parArg := com.Args[0], com.Args[1]
			if _, isSlice := idArg.Type().Underlying().(*types.Slice); !isSlice {
				// single: both from the same action value. Calls that settle an envelope's lease directly with a
				// caller-given parameter (the stop-path requeue of untouched leases, C05.R5) are not action applications.
				if _, isAction := fieldBaseOf(idArg, "leaseID"); !isAction {
					continue
				}
				n++
				b1, ok1 := fieldBaseOf(idArg, "leaseID")
				b2, ok2 := fieldBaseOf(parArg, sp.field)
				c.Check(ok1 && ok2 && sameBase(b1, b2), rule, construct, p.InstrPos(ci),
					"lease id and "+sp.field+" are fields of the same action value",
					"the "+sp.field+" handed to the Store does not come from the action whose lease id is settled")
				continue
			}
			// batch: parameter = key of a map range step, ids derived from the value of the same step
			n++
			key, okK := parArg.(*ssa.Extract)
			var tuple ssa.Value
			if okK {
				tuple = key.Tuple
			}
			nx, isNext := tuple.(*ssa.Next)
			if !okK || !isNext || key.Index != 1 {
				c.Fail(rule, construct, p.InstrPos(ci), "the batch's "+sp.field+" is "+shortVal(parArg)+", not the key of the group of actions being settled: every action in the call gets one action's "+sp.field)
				continue
			}
			idsFromGroup := false
			var walk func(v ssa.Value, d int)
			walk = func(v ssa.Value, d int) {
				if d > 5 || v == nil {
					return
				}
				if ex, ok := v.(*ssa.Extract); ok && ex.Tuple == tuple && ex.Index == 2 {
					idsFromGroup = true
					return
				}
				if call, ok := v.(*ssa.Call); ok {
					for _, a := range call.Call.Args {
						walk(a, d+1)
					}
				}
				if sl, ok := v.(*ssa.Slice); ok {
					walk(sl.X, d+1)
				}
			}
			walk(idArg, 0)
			if !idsFromGroup {
				c.Fail(rule, construct, p.InstrPos(ci), "the ids of the batch call are not derived from the group whose key is used as "+sp.field)
				continue
			}
			// the map: filed under the action's own field
			rng, _ := nx.Iter.(*ssa.Range)
			filedOK, nUpd := true, 0
			if rng != nil {
				for _, b := range fn.Blocks {
					for _, ins := range b.Instrs {
						mu, ok := ins.(*ssa.MapUpdate)
						if !ok || mu.Map != rng.X {
							continue
						}
						nUpd++
						kb, okk := fieldBaseOf(mu.Key, sp.field)
						if !okk {
							filedOK = false
							continue
						}
						// value: append(m[k], elem) with elem the same action
						app, okA := mu.Value.(*ssa.Call)
						same := false
						if okA {
							if sl, ok := app.Call.Args[len(app.Call.Args)-1].(*ssa.Slice); ok {
								if al, ok := sl.X.(*ssa.Alloc); ok {
									for _, ref := range *al.Referrers() {
										if ia, ok := ref.(*ssa.IndexAddr); ok {
											for _, r2 := range *ia.Referrers() {
												if st, ok := r2.(*ssa.Store); ok && st.Addr == ia && sameBase(st.Val, kb) {
													same = true
												}
												if st, ok := r2.(*ssa.Store); ok && st.Addr == ia {
													if u, ok := st.Val.(*ssa.UnOp); ok && u.X == kb {
														same = true
													}
												}
											}
										}
									}
								}
							}
						}
						if !same {
							filedOK = false
						}
					}
				}
			}
			c.Check(rng != nil && nUpd > 0 && filedOK, rule, construct, p.InstrPos(ci),
				"ids and "+sp.field+" come from one group of a map whose entries are filed under the action's own "+sp.field,
				"actions are not filed under their own "+sp.field+" in the map the batch call iterates")
		}
	}
	c.Floor(rule, "settle calls with a parameter", n, 3)
}
