package main

// Thorough tier: everything the quick tier decides, plus
//  T1  a completeness audit of the checker's own call resolution against the whole-program VTA call
//      graph: every module function that VTA can reach from a root used by this property's rules but
//      that the rules' resolver (static calls + bound methods + closures + wiring table + module CHA)
//      does not reach must be effect-free (no SQL/OS/process/network call, no store through a
//      non-local pointer, no map update/delete on non-local maps). An effectful function outside the
//      resolver's reach means a "no path"/"effects of" rule could be blind to a real call path.
//  T3  every inlined view (inlk.go) the rules analysed passes the SSA sanity and operand-dominance checks.
//  T2  the change audit: every patch under variants/<id>/ and seeded/<id>-*/ is applied to a scratch
//      copy of the current tree and the property's quick rules are run on it in a fresh process.
//      Breaking patches must be reported, benign ones must stay silent; a patch that no longer
//      applies is recorded as skipped. T2 is evidence about the checker and never decides the exit
//      code of the property (hookaido is not at fault when the checker misses a seeded change), but a
//      missed break or an alarm on a benign patch is printed as AUDIT-MISMATCH.

import (
	"fmt"
	"os"
	"os/exec"
	"path/filepath"
	"regexp"
	"sort"
	"strings"
	"sync"

	"go/types"

	"golang.org/x/tools/go/callgraph"
	"golang.org/x/tools/go/ssa"
)

func isEffectful(f *ssa.Function) (string, bool) {
	for _, b := range f.Blocks {
		for _, ins := range b.Instrs {
			switch x := ins.(type) {
			case ssa.CallInstruction:
				if g := x.Common().StaticCallee(); g != nil && g.Pkg != nil && !IsModuleFunc(g) {
					switch g.Pkg.Pkg.Path() {
					case "database/sql", "os/exec", "syscall", "net/http", "net":
						if g.Pkg.Pkg.Path() == "net/http" && g.Signature.Recv() == nil {
							continue // http.Error, StatusText, …: response helpers are handled by the response-sink rules
						}
						return g.Pkg.Pkg.Path() + "." + g.Name(), true
					case "os":
						if isFileWriteSink(x) != "" {
							return "os." + g.Name(), true
						}
					}
				}
				if call, ok := ins.(*ssa.Call); ok {
					if bi, ok := call.Call.Value.(*ssa.Builtin); ok && bi.Name() == "delete" {
						if _, _, ok := fieldOfLoad(call.Call.Args[0]); ok {
							return "delete on a struct-field map", true
						}
					}
				}
			case *ssa.MapUpdate:
				if _, _, ok := fieldOfLoad(x.Map); ok {
					return "update of a struct-field map", true
				}
			case *ssa.Store:
				if fa, ok := x.Addr.(*ssa.FieldAddr); ok {
					if _, isLocal := fa.X.(*ssa.Alloc); !isLocal {
						if _, isParam := fa.X.(*ssa.Parameter); isParam && f.Signature.Recv() == nil {
							continue
						}
						tn, fld, _ := fieldAddrName(fa)
						return "store to " + tn + "." + fld, true
					}
				}
			}
		}
	}
	return "", false
}

// t1Exceptions: single named constructs the resolver deliberately does not enter, each with its reason.
var t1Exceptions = map[string]string{
	"(*app.statusWriter).Write":       "access-log wrapper around http.ResponseWriter: records the status on itself and forwards to the wrapped writer; handlers are analysed against the http.ResponseWriter interface (response-sink rules), the wrapper adds no effect on queue, config or auth state",
	"(*app.statusWriter).WriteHeader": "same wrapper: stores the status code on itself and forwards",
}

// checkViewsWellFormed (T3): every inlined view this property's rules analysed is structurally valid SSA (go/ssa's
// own sanity checker) and every operand's definition dominates its use. A malformed view would make a rule decide
// on a function that is not the program's.
func checkViewsWellFormed(c *Ctx) {
	p := c.P
	rule := c.Prop + ".T3"
	c.Rule(rule, "inlined views are well-formed (thorough): every view used by this property's rules passes go/ssa's structural checker and the operand-dominance check")
	n, bad := 0, 0
	var names []string
	byName := map[string]*ssa.Function{}
	for v := range p.views {
		k := FuncName(p.Orig(v)) + fmt.Sprintf("@%p", v)
		names = append(names, k)
		byName[k] = v
	}
	sort.Strings(names)
	for _, k := range names {
		v := byName[k]
		n++
		if pr := ssa.HKSanity(v); len(pr) > 0 {
			bad++
			c.Fail(rule, "view of "+FuncName(p.Orig(v)), p.Pos(v.Pos()), "malformed inlined view: "+pr[0])
		}
	}
	if bad == 0 {
		c.Ok(rule, "views analysed", "", fmt.Sprintf("%d inlined view(s), all well-formed", n))
	}
}

func checkResolverCompleteness(c *Ctx) {
	p := c.P
	rule := c.Prop + ".T1"
	c.Rule(rule, "call-resolution completeness (thorough): module functions reachable in the whole-program VTA call graph from the roots this property's rules explored, but not reached by the rules' resolver, are effect-free")
	roots := sortedFuncs(p.rootsUsed)
	p.auditing = true
	defer func() { p.auditing = false }()
	if len(roots) == 0 {
		c.Ok(rule, "no call-graph roots used by this property", "", "the property's rules are intra-procedural / syntax-tree rules")
		return
	}
	cg := p.CG()
	nMissing, nEffectful, nExplained := 0, 0, 0
	exceptionsUsed := map[string]string{}
	for _, r := range roots {
		ours := p.Reach(r)
		node := cg.Nodes[r]
		if node == nil {
			continue
		}
		seen := map[*callgraph.Node]bool{node: true}
		work := []*callgraph.Node{node}
		var missing []*ssa.Function
		for len(work) > 0 {
			n := work[len(work)-1]
			work = work[:len(work)-1]
			for _, e := range n.Out {
				if !seen[e.Callee] {
					seen[e.Callee] = true
					// do not walk through the standard library into unrelated module code: VTA merges
					// all fmt/sort/sync callbacks; a module function reached only through such an edge
					// is counted (below) but not expanded
					if e.Callee.Func != nil && (IsModuleFunc(e.Callee.Func) || IsModuleFunc(n.Func)) {
						work = append(work, e.Callee)
					}
				}
			}
		}
		for n := range seen {
			f := n.Func
			if f == nil || !IsModuleFunc(f) || len(f.Blocks) == 0 || f.Synthetic != "" || ours[f] {
				continue
			}
			missing = append(missing, f)
		}
		sort.Slice(missing, func(i, j int) bool { return missing[i].String() < missing[j].String() })
		var bad []string
		for _, f := range missing {
			nMissing++
			what, eff := isEffectful(f)
			if !eff {
				continue
			}
			// explained (A): nobody the resolver reaches holds f as a value — the VTA edge is a
			// context-insensitive merge of function-typed parameters (e.g. every closure ever passed to
			// one helper), which the resolver binds per call site instead
			heldByOurs := false
			for _, g := range p.valueRefs()[f] {
				if ours[g] {
					heldByOurs = true
				}
			}
			// explained (B): f is a method and no function the resolver reaches creates a value of its
			// receiver type or converts one to an interface, nor can a root parameter carry it —
			// VTA reached it through interface dispatch inside the standard library (io.Writer, error, …)
			typeFlows := false
			if recv := f.Signature.Recv(); recv != nil {
				tn := namedName(recv.Type())
				tp := namedPkgPath(recv.Type())
				for _, g := range p.typeInst()[tp+"."+tn] {
					if ours[g] {
						typeFlows = true
					}
				}
				for _, pr := range r.Params {
					if it, ok := pr.Type().Underlying().(*types.Interface); ok {
						if types.Implements(recv.Type(), it) || types.Implements(types.NewPointer(recv.Type()), it) {
							typeFlows = true
						}
					}
				}
			} else if f.Parent() == nil {
				// a plain named function is called statically; all its callers are outside the resolver's reach
				typeFlows = false
			}
			if f.Signature.Recv() == nil && !heldByOurs {
				nExplained++
				continue
			}
			if f.Signature.Recv() != nil && !heldByOurs && !typeFlows {
				nExplained++
				continue
			}
			if why, ok := t1Exceptions[FuncName(f)]; ok {
				nExplained++
				exceptionsUsed[FuncName(f)] = why
				continue
			}
			nEffectful++
			bad = append(bad, FuncName(f)+" ("+what+")")
		}
		construct := "root " + FuncName(r)
		if len(bad) == 0 {
			c.Ok(rule, construct, p.Pos(r.Pos()), fmt.Sprintf("resolver reach %d module functions; VTA adds %d, all effect-free (String/Error methods, callbacks reached only through the standard library)", len(ours), len(missing)))
		} else {
			if len(bad) > 6 {
				bad = append(bad[:6], fmt.Sprintf("… +%d more", len(bad)-6))
			}
			c.Fail(rule, construct, p.Pos(r.Pos()), "VTA reaches effectful module functions that the rules' call resolution does not: "+strings.Join(bad, ", "))
		}
	}
	for k, v := range exceptionsUsed {
		c.Assume("T1 exception " + k + ": " + v)
	}
	c.Count("thorough: call-graph roots audited", len(roots))
	c.Count("thorough: module functions only VTA reaches", nMissing)
	c.Count("thorough: effectful but explained (value never held / receiver type never created within the resolver's reach)", nExplained)
	c.Count("thorough: effectful and unexplained", nEffectful)
}

var reFinding = regexp.MustCompile(`(?m)^FINDING rule=(C\d+\.[RT]\d+) status=(\w+) construct="([^"]*)"`)

type auditResult struct {
	Name     string   `json:"name"`
	Kind     string   `json:"kind"`
	Status   string   `json:"status"`
	Findings []string `json:"findings,omitempty"`
}

func runChangeAudit(c *Ctx, verifDir, repoDir string) {
	var items [][2]string // name, path
	vs, _ := filepath.Glob(filepath.Join(verifDir, "variants", c.Prop, "*.diff"))
	for _, v := range vs {
		items = append(items, [2]string{"variants/" + c.Prop + "/" + filepath.Base(v), v})
	}
	ss, _ := filepath.Glob(filepath.Join(verifDir, "seeded", c.Prop+"-*", "patch.diff"))
	for _, s := range ss {
		items = append(items, [2]string{"seeded/" + filepath.Base(filepath.Dir(s)), s})
	}
	if len(items) == 0 {
		c.Note("thorough T2: no recorded changes for %s", c.Prop)
		return
	}
	self, err := os.Executable()
	if err != nil {
		c.Note("thorough T2: cannot locate own binary: %v", err)
		return
	}
	results := make([]auditResult, len(items))
	sem := make(chan struct{}, 5)
	var wg sync.WaitGroup
	for i, it := range items {
		wg.Add(1)
		go func(i int, name, patch string) {
			defer wg.Done()
			sem <- struct{}{}
			defer func() { <-sem }()
			kind := "break"
			if strings.HasSuffix(name, ".benign.diff") {
				kind = "benign"
			}
			res := auditResult{Name: name, Kind: kind}
			w, err := os.MkdirTemp("", "hkaudit.")
			if err != nil {
				res.Status = "skipped: " + err.Error()
				results[i] = res
				return
			}
			defer os.RemoveAll(w)
			if out, err := exec.Command("rsync", "-a", "--exclude", ".git", repoDir+"/", w+"/repo/").CombinedOutput(); err != nil {
				res.Status = "skipped: copy failed: " + strings.TrimSpace(string(out))
				results[i] = res
				return
			}
			if out, err := exec.Command("patch", "-p1", "-s", "-d", w+"/repo", "-i", patch).CombinedOutput(); err != nil {
				res.Status = "skipped: patch does not apply to the current tree"
				_ = out
				results[i] = res
				return
			}
			_ = os.MkdirAll(w+"/verif/evidence", 0o755)
			if b, err := os.ReadFile(filepath.Join(verifDir, "known_findings.json")); err == nil {
				_ = os.WriteFile(w+"/verif/known_findings.json", b, 0o644)
			}
			out, _ := exec.Command(self, "-repo", w+"/repo", "-verif", w+"/verif", "-tier", "quick", c.Prop).CombinedOutput()
			seen := map[string]bool{}
			for _, m := range reFinding.FindAllStringSubmatch(string(out), -1) {
				k := m[1] + " " + m[3]
				if !seen[k] && len(res.Findings) < 4 {
					seen[k] = true
					res.Findings = append(res.Findings, k)
				}
			}
			reported := len(res.Findings) > 0
			switch {
			case kind == "break" && reported:
				res.Status = "reported"
			case kind == "break":
				res.Status = "MISSED"
			case reported:
				res.Status = "FALSE-ALARM"
			default:
				res.Status = "silent"
			}
			results[i] = res
		}(i, it[0], it[1])
	}
	wg.Wait()
	nOK, nBad, nSkip := 0, 0, 0
	for _, r := range results {
		switch {
		case strings.HasPrefix(r.Status, "skipped"):
			nSkip++
		case r.Status == "MISSED" || r.Status == "FALSE-ALARM":
			nBad++
			fmt.Printf("AUDIT-MISMATCH property=%s change=%s kind=%s outcome=%s\n", c.Prop, r.Name, r.Kind, r.Status)
		default:
			nOK++
		}
		first := ""
		if len(r.Findings) > 0 {
			first = " — " + r.Findings[0]
		}
		c.Note("thorough T2: %s [%s] %s%s", r.Name, r.Kind, r.Status, first)
	}
	c.Count("thorough: recorded changes applied", len(results)-nSkip)
	c.Count("thorough: recorded changes with the expected outcome", nOK)
	c.Count("thorough: recorded changes with an unexpected outcome", nBad)
	c.Count("thorough: recorded changes skipped (patch no longer applies)", nSkip)
}

// valueRefs: for every function, the module functions that hold it as a value (closure creation, method
// value, function operand other than the callee position of a static call).
func (p *Program) valueRefs() map[*ssa.Function][]*ssa.Function {
	if p.vrefs != nil {
		return p.vrefs
	}
	p.vrefs = map[*ssa.Function][]*ssa.Function{}
	for _, g := range p.SrcFuncs {
		for _, b := range g.Blocks {
			for _, ins := range b.Instrs {
				if mc, ok := ins.(*ssa.MakeClosure); ok {
					if f, ok := mc.Fn.(*ssa.Function); ok {
						p.vrefs[f] = append(p.vrefs[f], g)
					}
				}
				var callee ssa.Value
				if ci, ok := ins.(ssa.CallInstruction); ok && !ci.Common().IsInvoke() {
					callee = ci.Common().Value
				}
				for _, op := range ins.Operands(nil) {
					if *op == nil || *op == callee {
						continue
					}
					if f, ok := (*op).(*ssa.Function); ok {
						p.vrefs[unwrapBound(f)] = append(p.vrefs[unwrapBound(f)], g)
						p.vrefs[f] = append(p.vrefs[f], g)
					}
				}
			}
		}
	}
	return p.vrefs
}

// typeInst: "pkgpath.Type" -> module functions that allocate a value of the type or convert one to an interface.
func (p *Program) typeInst() map[string][]*ssa.Function {
	if p.tinst != nil {
		return p.tinst
	}
	p.tinst = map[string][]*ssa.Function{}
	add := func(t types.Type, g *ssa.Function) {
		if pt, ok := t.(*types.Pointer); ok {
			t = pt.Elem()
		}
		if n, ok := t.(*types.Named); ok && n.Obj().Pkg() != nil {
			k := n.Obj().Pkg().Path() + "." + n.Obj().Name()
			p.tinst[k] = append(p.tinst[k], g)
		}
	}
	for _, g := range p.SrcFuncs {
		for _, b := range g.Blocks {
			for _, ins := range b.Instrs {
				switch x := ins.(type) {
				case *ssa.Alloc:
					add(x.Type(), g)
				case *ssa.MakeInterface:
					add(x.X.Type(), g)
				case *ssa.ChangeInterface:
					add(x.X.Type(), g)
				}
			}
		}
	}
	return p.tinst
}
