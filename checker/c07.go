package main

import (
	"fmt"
	"go/ast"
	"go/token"
	"go/types"
	"strings"

	"golang.org/x/tools/go/ssa"
)

func init() { register("C07", checkC07) }

func isCallTo(desc, suffix string) bool { return strings.Contains(desc, suffix) }

func checkC07(c *Ctx) {
	p := c.P
	c.Rule("C07.R1", "payload passthrough: Envelope.Payload is written only from io.ReadAll (ingress) or base64 DecodeString (publish); EncodeToString / gRPC copy / Delivery.Body / the push request body read only Envelope.Payload, with no transforming instruction in between")
	c.Rule("C07.R2", "row mapping agreement: every INSERT binds payload/headers_json/trace_json/id/route/target to the envelope's fields and every SELECT/RETURNING scans those columns back into the same fields")
	c.Rule("C07.R3", "header strip set: the ingress header copier never stores authorization/proxy-authorization/cookie, canonicalises names and comma-joins values")
	c.Rule("C07.R4", "no in-place mutation of accepted bytes: no store through an element of a []byte parameter in package ingress (authenticators do not write the body)")
	c.Rule("C07.R5", "the received header map is read-only in package ingress: no Header.Set/Add/Del or map update on the inbound request's Header, directly or through a holder it was stored into by reference (authenticators run before the envelope headers are copied)")

	c.Rule("C07.R6", "the configured forward-auth copy_headers are the ones in force after a reload: an authenticator of the running state is installed again by a reload only behind a predicate that compares every field the builder sets from the configuration — the header list among them (the analysis of C18.R13, claimed here because a retained authenticator keeps storing the headers the old configuration listed)")
	checkCarryOverCoversConfig(c, "C07.R6", reloadEntries(p))
	// ---- R1 ----
	serve := p.Func("ingress", "(*Server).ServeHTTP")
	if serve == nil {
		c.Fail("C07.R1", "anchor:ingress.ServeHTTP", "", "anchor not found")
	} else {
		sts := fieldStores(serve, "Envelope", "Payload")
		c.Floor("C07.R1", "ingress_payload_stores", len(sts), 1)
		for i, st := range sts {
			ss := sourcesOf(st.Val)
			ok := allSourcesMatch(ss, func(s vsource) bool {
				if s.Kind != "call" {
					return false
				}
				if isCallTo(s.Desc, "io.ReadAll#0") {
					return true
				}
				// a buffer local to this request is as good as io.ReadAll's fresh slice
				if isCallTo(s.Desc, "(*bytes.Buffer).Bytes#0") {
					if call, ok := s.Val.(*ssa.Call); ok && len(call.Call.Args) == 1 {
						_, local := call.Call.Args[0].(*ssa.Alloc)
						return local
					}
				}
				return false
			})
			c.Check(ok, "C07.R1", fmt.Sprintf("ingress.ServeHTTP:Envelope.Payload<-io.ReadAll#%d", i+1), p.InstrPos(st), "payload = result of io.ReadAll (fresh buffer)", "ingress payload does not come straight from io.ReadAll: "+sourcesString(ss))
			// the read returns the whole body or fails: the reader is the request body itself or http.MaxBytesReader over it
			// (which errors past the limit) — or io.LimitReader(body, limit+1) with the stored length tested against
			// limit —, never a reader that stops silently at a limit: a truncated body would be acknowledged and stored
			for _, s := range ss {
				call, isCall := s.Val.(*ssa.Call)
				if s.Kind != "call" || !isCallTo(s.Desc, "io.ReadAll#0") || !isCall {
					continue
				}
				whole, why := readsWholeBody(serve, call)
				c.Check(whole, "C07.R1", fmt.Sprintf("ingress.ServeHTTP:body read #%d returns the whole body or fails", i+1), p.InstrPos(call), why,
					"the body is read through a reader that stops silently ("+why+"): a request body longer than the limit is cut, acknowledged and stored truncated")
			}
		}
	}
	nPub := 0
	for _, fn := range p.FuncsInPkg("admin") {
		for _, st := range fieldStores(fn, "Envelope", "Payload") {
			nPub++
			ss := sourcesOf(st.Val)
			ok := allSourcesMatch(ss, func(s vsource) bool {
				return (s.Kind == "call" && isCallTo(s.Desc, "Encoding).DecodeString#0")) || (s.Kind == "const" && strings.HasPrefix(s.Desc, "array-literal[0]")) || s.Kind == "makeslice"
			})
			c.Check(ok, "C07.R1", "admin."+fn.Name()+":Envelope.Payload<-base64.DecodeString", p.InstrPos(st), "payload = decoded payload_b64 (or empty)", "published payload does not come straight from base64 DecodeString: "+sourcesString(ss))
		}
	}
	c.Floor("C07.R1", "publish_payload_stores", nPub, 1)
	// readers
	nEnc := 0
	for _, pkg := range []string{"pullapi", "admin", "workerapi", "mcp"} {
		for _, fn := range p.FuncsInPkg(pkg) {
			for _, call := range allCalls(fn, func(ci ssa.CallInstruction) bool { return calleeIs(ci, "encoding/base64", "Encoding", "EncodeToString") }) {
				arg := call.Common().Args[1]
				ss := sourcesOf(arg)
				// only encodings of envelope payloads are in scope
				touches := false
				for _, s := range ss {
					if strings.Contains(s.Desc, "Envelope.Payload") {
						touches = true
					}
				}
				if !touches {
					continue
				}
				nEnc++
				ok := allSourcesMatch(ss, func(s vsource) bool { return s.Kind == "field" && strings.HasPrefix(s.Desc, "Envelope.Payload") })
				c.Check(ok, "C07.R1", fmt.Sprintf("%s.%s:EncodeToString(Envelope.Payload)#%d", pkg, fn.Name(), nEnc), p.InstrPos(call), "base64 of the stored payload, untouched", "encoded bytes are not the untouched Envelope.Payload: "+sourcesString(ss))
			}
		}
	}
	c.Floor("C07.R1", "payload_encode_sites", nEnc, 2)
	// gRPC copy
	nG := 0
	for _, fn := range p.FuncsInPkg("workerapi") {
		for _, b := range fn.Blocks {
			for _, ins := range b.Instrs {
				st, ok := ins.(*ssa.Store)
				if !ok {
					continue
				}
				fa, ok := st.Addr.(*ssa.FieldAddr)
				if !ok {
					continue
				}
				if _, f, _ := fieldAddrName(fa); f != "Payload" {
					continue
				}
				nG++
				okv := false
				why := sourcesString(sourcesOf(st.Val))
				if call, ok := st.Val.(*ssa.Call); ok {
					if bi, ok := call.Call.Value.(*ssa.Builtin); ok && bi.Name() == "append" && len(call.Call.Args) == 2 {
						base := sourcesOf(call.Call.Args[0])
						src := sourcesOf(call.Call.Args[1])
						okv = allSourcesMatch(base, func(s vsource) bool { return s.Kind == "const" }) &&
							allSourcesMatch(src, func(s vsource) bool { return s.Kind == "field" && strings.HasPrefix(s.Desc, "Envelope.Payload") })
						why = "append(" + sourcesString(base) + ", " + sourcesString(src) + "...)"
					}
				}
				c.Check(okv, "C07.R1", "workerapi."+fn.Name()+":Payload<-copy(Envelope.Payload)", p.InstrPos(st), "gRPC payload = copy of the stored payload", "gRPC payload is not a plain copy of Envelope.Payload: "+why)
			}
		}
	}
	c.Floor("C07.R1", "grpc_payload_stores", nG, 1)
	// push
	nBody := 0
	for _, fn := range p.FuncsInPkg("dispatcher") {
		for _, st := range fieldStores(fn, "Delivery", "Body") {
			nBody++
			ss := sourcesOf(st.Val)
			ok := allSourcesMatch(ss, func(s vsource) bool { return s.Kind == "field" && strings.HasPrefix(s.Desc, "Envelope.Payload") })
			c.Check(ok, "C07.R1", "dispatcher."+fn.Name()+":Delivery.Body<-Envelope.Payload", p.InstrPos(st), "delivery body = stored payload", "delivery body is not the untouched Envelope.Payload: "+sourcesString(ss))
		}
		for _, call := range allCalls(fn, func(ci ssa.CallInstruction) bool { return calleeIs(ci, "net/http", "", "NewRequestWithContext") || calleeIs(ci, "net/http", "", "NewRequest") }) {
			nBody++
			bodyArg := call.Common().Args[len(call.Common().Args)-1]
			ss := sourcesOf(bodyArg)
			ok := false
			why := sourcesString(ss)
			if len(ss) == 1 && ss[0].Kind == "call" && isCallTo(ss[0].Desc, "bytes.NewReader#0") {
				rd := ss[0].Val.(*ssa.Call)
				in := sourcesOf(rd.Call.Args[0])
				ok = allSourcesMatch(in, func(s vsource) bool { return s.Kind == "field" && strings.HasPrefix(s.Desc, "Delivery.Body") })
				why = "bytes.NewReader(" + sourcesString(in) + ")"
			}
			c.Check(ok, "C07.R1", "dispatcher."+fn.Name()+":request-body<-Delivery.Body", p.InstrPos(call), "request body = bytes.NewReader(delivery.Body)", "push request body is not bytes.NewReader(delivery.Body): "+why)
		}
	}
	c.Floor("C07.R1", "push_body_sites", nBody, 2)

	checkRowMapping(c, "C07.R2")
	checkHeaderStrip(c, "C07.R3")

	// ---- R4 ----
	nStores, nBad := 0, 0
	for _, fn := range p.FuncsInPkg("ingress") {
		for _, b := range fn.Blocks {
			for _, ins := range b.Instrs {
				st, ok := ins.(*ssa.Store)
				if !ok {
					continue
				}
				nStores++
				if ia, ok := st.Addr.(*ssa.IndexAddr); ok {
					for _, s := range sourcesOf(ia.X) {
						if s.Kind == "param" {
							if sl, ok := s.Val.Type().Underlying().(*types.Slice); ok {
								if bt, ok := sl.Elem().Underlying().(*types.Basic); ok && bt.Kind() == types.Byte {
									nBad++
									c.Fail("C07.R4", "ingress."+FuncName(fn)+":writes-into-byte-parameter", p.InstrPos(st), "store through an element of a []byte parameter (the request body is shared with the stored payload)")
								}
							}
						}
					}
				}
			}
		}
	}
	c.Count("C07.R4.stores_examined", nStores)
	c.Check(nBad == 0 && nStores > 20, "C07.R4", "ingress:no-write-into-byte-parameters", "", fmt.Sprintf("%d store instructions examined, none writes through a []byte parameter", nStores), "see findings")
	checkInboundHeadersReadOnly(c, "C07.R5")
}

func checkRowMapping(c *Ctx, rule string) {
	p := c.P
	m := p.SQL()
	info := m.ev.info
	colField := map[string]string{"id": "ID", "route": "Route", "target": "Target", "payload": "Payload", "headers_json": "Headers", "trace_json": "Trace"}
	selField := func(e ast.Expr) (string, bool) {
		for {
			switch x := e.(type) {
			case *ast.ParenExpr:
				e = x.X
				continue
			case *ast.UnaryExpr:
				if x.Op == token.AND {
					e = x.X
					continue
				}
			}
			break
		}
		if se, ok := e.(*ast.SelectorExpr); ok {
			if tv, ok := info.Types[se.X]; ok && namedName(tv.Type) == "Envelope" {
				return se.Sel.Name, true
			}
		}
		return "", false
	}
	// a variable that carries a marshalled/unmarshalled map: find the Envelope field it is tied to in decl
	varTiedField := func(v *types.Var, decl *types.Func) string {
		fd, _ := p.funcDecl(decl)
		if fd == nil || v == nil {
			return ""
		}
		found := ""
		ast.Inspect(fd, func(n ast.Node) bool {
			as, ok := n.(*ast.AssignStmt)
			if !ok {
				return true
			}
			for i, l := range as.Lhs {
				// v = f(env.Headers)
				if id, ok := l.(*ast.Ident); ok && (info.Defs[id] == v || info.Uses[id] == v) {
					rhs := as.Rhs[0]
					if len(as.Rhs) == len(as.Lhs) {
						rhs = as.Rhs[i]
					}
					ast.Inspect(rhs, func(nn ast.Node) bool {
						if f, ok := nn.(ast.Expr); ok {
							if fld, ok := selField(f); ok {
								found = fld
							}
						}
						return true
					})
				}
				// env.Headers = f(v)
				if fld, ok := selField(l); ok {
					rhs := as.Rhs[0]
					if len(as.Rhs) == len(as.Lhs) {
						rhs = as.Rhs[i]
					}
					uses := false
					ast.Inspect(rhs, func(nn ast.Node) bool {
						if id, ok := nn.(*ast.Ident); ok && info.Uses[id] == v {
							uses = true
						}
						return true
					})
					if uses {
						found = fld
					}
				}
			}
			return true
		})
		return found
	}
	identVar := func(e ast.Expr) *types.Var {
		for {
			switch x := e.(type) {
			case *ast.ParenExpr:
				e = x.X
				continue
			case *ast.UnaryExpr:
				if x.Op == token.AND {
					e = x.X
					continue
				}
			}
			break
		}
		if id, ok := e.(*ast.Ident); ok {
			v, _ := info.Uses[id].(*types.Var)
			return v
		}
		// struct-field carrier (p.headersJSON): treat the selector's field object
		if se, ok := e.(*ast.SelectorExpr); ok {
			if v, ok := info.Uses[se.Sel].(*types.Var); ok {
				return v
			}
		}
		return nil
	}
	nIns, nSel := 0, 0
	for _, s := range m.Stmts {
		if s.Table() != "queue_items" || s.Backend == "other" {
			continue
		}
		key := m.Key(s)
		if s.Verb() == "INSERT" {
			nIns++
			bad := false
			for i, col := range s.St.insertCols {
				want, ok := colField[strings.ToLower(col)]
				if !ok || i >= len(s.St.insertVals) {
					continue
				}
				ex := m.operandExpr(s, s.St.insertVals[i])
				if ex == nil {
					bad = true
					c.Fail(rule, key+":insert-"+col, s.Pos, "column "+col+" is not bound to a Go expression")
					continue
				}
				got, isSel := selField(ex)
				if !isSel {
					if v := identVar(ex); v != nil {
						// the function the operand is written in (the statement's, or a helper that returns the list)
						home := s.Decl
						if d := p.declContaining("queue", ex.Pos()); d != nil {
							home = d
						}
						got = varTiedField(v, home)
						if got == "" {
							got = paramTiedField(p, info, v, home, varTiedField)
						}
						if got == "" && v.IsField() {
							// carrier struct field: find where it is assigned in the same declaration
							got = carrierFieldTied(p, info, v, s.Decl, selField)
							if got == "" && home != s.Decl {
								got = carrierFieldTied(p, info, v, home, selField)
							}
						}
					}
				}
				if got != want {
					bad = true
					c.Fail(rule, key+":insert-"+col, s.Pos, fmt.Sprintf("column %s is bound to %s (field %q); must carry Envelope.%s", col, exprStr(ex), got, want))
				}
			}
			if !bad {
				c.Ok(rule, key+":insert-columns", s.Pos, "id/route/target/payload/headers_json/trace_json bound to the envelope's fields")
			}
			continue
		}
		// readers
		cols := s.St.selectCols
		if len(s.St.returning) > 0 {
			cols = s.St.returning
		}
		if len(cols) == 0 || len(s.Site.scan) != len(cols) {
			continue
		}
		relevant := false
		bad := false
		for i, col := range cols {
			lc := strings.ToLower(col)
			name := lc
			// CASE WHEN ? THEN payload ELSE NULL END
			for cn := range colField {
				if strings.Contains(lc, " then "+cn+" ") {
					name = cn
				}
			}
			want, ok := colField[name]
			if !ok {
				continue
			}
			relevant = true
			dest := s.Site.scan[i]
			got, isSel := selField(dest)
			if !isSel {
				if v := identVar(dest); v != nil {
					got = varTiedField(v, s.Decl)
					if got == "" {
						// the scanned variable is handed to a function of the package that fills the envelope from it
						got = argPassedTiedField(p, info, v, s.Decl, varTiedField)
					}
				}
			}
			if got != want && !(got == "" && (name == "id" || name == "route" || name == "target")) {
				bad = true
				c.Fail(rule, key+":scan-"+name, s.Pos, fmt.Sprintf("column %s is scanned into %s (field %q); must end up in Envelope.%s", name, exprStr(dest), got, want))
			}
		}
		if relevant {
			nSel++
			if !bad {
				c.Ok(rule, key+":scan-columns", s.Pos, fmt.Sprintf("%d column(s) scanned back into the matching envelope fields", len(cols)))
			}
		}
	}
	c.Floor(rule, "insert_statements", nIns, 1) // non-vacuity only: the backends (and the three SQLite inserts) may share one statement
	c.Floor(rule, "reading_statements", nSel, 6)
}

// carrierFieldTied: v is a field of a helper struct (prepared.headersJSON); find the composite literal
// or assignment in decl that fills it and the envelope field used there.
func carrierFieldTied(p *Program, info *types.Info, v *types.Var, decl *types.Func, selField func(ast.Expr) (string, bool)) string {
	fd, pk := p.funcDecl(decl)
	if fd == nil {
		return ""
	}
	if got := carrierFieldTiedIn(info, v, fd, selField); got != "" {
		return got
	}
	// the record is filled in elsewhere in the package (and handed to the function that binds it): every literal that
	// sets the field must tie it to the same envelope field
	agreed := ""
	for _, f := range pk.Syntax {
		for _, d := range f.Decls {
			ofd, ok := d.(*ast.FuncDecl)
			if !ok || ofd.Body == nil || ofd == fd {
				continue
			}
			got := carrierFieldTiedIn(info, v, ofd, selField)
			if got == "" {
				continue
			}
			if agreed != "" && agreed != got {
				return ""
			}
			agreed = got
		}
	}
	return agreed
}

func carrierFieldTiedIn(info *types.Info, v *types.Var, fd *ast.FuncDecl, selField func(ast.Expr) (string, bool)) string {
	found := ""
	ast.Inspect(fd, func(n ast.Node) bool {
		kv, ok := n.(*ast.KeyValueExpr)
		if !ok {
			return true
		}
		id, ok := kv.Key.(*ast.Ident)
		if !ok || info.Uses[id] != v {
			return true
		}
		// value is a variable assigned from f(env.X)
		if vid, ok := kv.Value.(*ast.Ident); ok {
			if vv, ok := info.Uses[vid].(*types.Var); ok {
				ast.Inspect(fd, func(nn ast.Node) bool {
					as, ok := nn.(*ast.AssignStmt)
					if !ok {
						return true
					}
					for _, l := range as.Lhs {
						if lid, ok := l.(*ast.Ident); ok && (info.Defs[lid] == vv || info.Uses[lid] == vv) {
							for _, r := range as.Rhs {
								ast.Inspect(r, func(x ast.Node) bool {
									if e, ok := x.(ast.Expr); ok {
										if f, ok := selField(e); ok {
											found = f
										}
									}
									return true
								})
							}
						}
					}
					return true
				})
			}
		}
		return true
	})
	return found
}

// paramTiedField: v is a parameter of decl; follow it to the argument variables at the call sites in the package.
func paramTiedField(p *Program, info *types.Info, v *types.Var, decl *types.Func, tied func(*types.Var, *types.Func) string) string {
	fd, pk := p.funcDecl(decl)
	if fd == nil {
		return ""
	}
	pi, owner := paramIndex(info, fd, v)
	if pi < 0 || owner != nil {
		return ""
	}
	found := ""
	for _, f := range pk.Syntax {
		for _, d := range f.Decls {
			cfd, ok := d.(*ast.FuncDecl)
			if !ok || cfd.Body == nil {
				continue
			}
			cobj, _ := info.Defs[cfd.Name].(*types.Func)
			ast.Inspect(cfd.Body, func(n ast.Node) bool {
				ce, ok := n.(*ast.CallExpr)
				if !ok || pi >= len(ce.Args) {
					return true
				}
				var callee *types.Func
				switch fx := ce.Fun.(type) {
				case *ast.SelectorExpr:
					callee, _ = info.Uses[fx.Sel].(*types.Func)
				case *ast.Ident:
					callee, _ = info.Uses[fx].(*types.Func)
				}
				if callee != decl {
					return true
				}
				if id, ok := ce.Args[pi].(*ast.Ident); ok {
					if av, ok := info.Uses[id].(*types.Var); ok {
						if t := tied(av, cobj); t != "" {
							found = t
						}
					}
				}
				return true
			})
		}
	}
	return found
}

func checkHeaderStrip(c *Ctx, rule string) {
	p := c.P
	// functions that produce the value stored into Envelope.Headers by the ingress handler
	producers := map[*ssa.Function]bool{}
	hdrVals := map[ssa.Value]bool{}
	serve := p.Func("ingress", "(*Server).ServeHTTP")
	if serve != nil {
		for _, st := range fieldStores(serve, "Envelope", "Headers") {
			for _, src := range sourcesOf(st.Val) {
				hdrVals[src.Val] = true
				if call, ok := src.Val.(*ssa.Call); ok && src.Kind == "call" {
					if f := call.Call.StaticCallee(); f != nil {
						for g := range p.Reach(f) {
							producers[g] = true
						}
					}
				}
			}
		}
	}
	c.Count(rule+".header_producer_functions", len(producers))
	// the copier: function of package ingress with a MapUpdate on map[string]string whose key is http.CanonicalHeaderKey(...) inside a range over http.Header
	n := 0
	cands := p.FuncsInPkg("ingress")
	if serve != nil && p.IsView(serve) {
		cands = append(cands, serve) // the copier may be part of the handler itself
	}
	for _, fn := range cands {
		var upd *ssa.MapUpdate
		rangesHeader := false
		for _, b := range fn.Blocks {
			for _, ins := range b.Instrs {
				if mu, ok := ins.(*ssa.MapUpdate); ok {
					if call, ok := mu.Key.(*ssa.Call); ok && calleeIs(call, "net/http", "", "CanonicalHeaderKey") {
						// the update inside the loop over the received header map
						if h := loopHeaderOf(mu.Block()); h != nil {
							for _, hi := range h.Instrs {
								if nx, ok := hi.(*ssa.Next); ok {
									if r, ok := nx.Iter.(*ssa.Range); ok && namedName(r.X.Type()) == "Header" {
										upd = mu
									}
								}
							}
						}
					}
				}
				if r, ok := ins.(*ssa.Range); ok && namedName(r.X.Type()) == "Header" {
					rangesHeader = true
				}
			}
		}
		if upd == nil || !rangesHeader {
			continue
		}
		if fn == serve && p.IsView(serve) {
			flows := false
			for _, src := range sourcesOf(upd.Map) {
				if hdrVals[src.Val] {
					flows = true
				}
			}
			if !flows {
				continue
			}
		} else if !producers[fn] {
			continue
		}
		n++
		name := FuncName(fn)
		// compared constants of the lower-cased name
		stripped := map[string][]Edge{}
		for _, b := range fn.Blocks {
			for i := range b.Succs {
				a, ok := edgeAtom(Edge{b, i})
				if !ok || a.Op != token.EQL {
					continue
				}
				cs, isC := constString(a.Y)
				if !isC {
					continue
				}
				if call, ok := a.X.(*ssa.Call); ok && calleeIs(call, "strings", "", "ToLower") {
					stripped[cs] = append(stripped[cs], Edge{b, i})
				}
			}
		}
		// the same test written as membership in a package-level set of lower-cased names
		for _, b := range fn.Blocks {
			for i := range b.Succs {
				a, ok := edgeAtom(Edge{b, i})
				if !ok || a.Op != token.EQL || !isBoolTrue(a.Y) {
					continue
				}
				var lk *ssa.Lookup
				switch x := a.X.(type) {
				case *ssa.Lookup:
					lk = x
				case *ssa.Extract:
					if l2, ok := x.Tuple.(*ssa.Lookup); ok && x.Index == 1 {
						lk = l2
					}
				}
				if lk == nil {
					continue
				}
				call, ok := lk.Index.(*ssa.Call)
				if !ok || !calleeIs(call, "strings", "", "ToLower") {
					continue
				}
				if u, ok := lk.X.(*ssa.UnOp); ok {
					if g, ok := u.X.(*ssa.Global); ok {
						for _, k := range p.globalMapKeys(g) {
							stripped[k] = append(stripped[k], Edge{b, i})
						}
					}
				}
			}
		}
		h := loopHeaderOf(upd.Block())
		for _, want := range []string{"authorization", "proxy-authorization", "cookie"} {
			es := stripped[want]
			key := name + ":strips-" + want
			if len(es) == 0 {
				c.Fail(rule, key, p.InstrPos(upd), "the header copier never compares the lower-cased name with \""+want+"\"")
				continue
			}
			var starts []*ssa.BasicBlock
			for _, e := range es {
				starts = append(starts, e.To())
			}
			stop := map[*ssa.BasicBlock]bool{}
			if h != nil {
				stop[h] = true
			}
			par := reach(starts, nil, stop)
			if _, reached := par[upd.Block()]; reached {
				c.Fail(rule, key, p.InstrPos(upd), "the store of a header is reachable in the same iteration after the name matched \""+want+"\"", p.blockPath(par, upd.Block())...)
			} else {
				c.Ok(rule, key, p.InstrPos(upd), "iteration skips the store when the lower-cased name is \""+want+"\"")
			}
		}
		// value is strings.Join(v, ",")
		okJoin := false
		if call, ok := upd.Value.(*ssa.Call); ok && calleeIs(call, "strings", "", "Join") {
			if sep, ok := constString(call.Call.Args[1]); ok && sep == "," {
				okJoin = true
			}
		}
		c.Check(okJoin, rule, name+":values-comma-joined", p.InstrPos(upd), "value = strings.Join(values, \",\")", "stored header value is not the comma-joined value list")
		c.Ok(rule, name+":name-canonicalised", p.InstrPos(upd), "key = http.CanonicalHeaderKey(name)")
	}
	c.Floor(rule, "header_copiers", n, 1)
}

// globalMapKeys: the constant string keys of a package-level map that is built once in the package initialiser
// and never written elsewhere in the module (nil when it is written elsewhere or a key is not constant).
func (p *Program) globalMapKeys(g *ssa.Global) []string {
	var keys []string
	nStores := 0
	for _, fn := range p.SrcFuncs {
		for _, b := range fn.Blocks {
			for _, ins := range b.Instrs {
				switch x := ins.(type) {
				case *ssa.Store:
					if x.Addr == ssa.Value(g) {
						nStores++
						mm, ok := x.Val.(*ssa.MakeMap)
						if !ok || fn.Name() != "init" {
							return nil
						}
						for _, ref := range *mm.Referrers() {
							if mu, ok := ref.(*ssa.MapUpdate); ok {
								k, ok := constString(mu.Key)
								if !ok {
									return nil
								}
								keys = append(keys, k)
							}
						}
					}
				case *ssa.MapUpdate:
					if u, ok := x.Map.(*ssa.UnOp); ok && u.X == ssa.Value(g) {
						return nil // written after initialisation
					}
				case *ssa.Call:
					if bi, ok := x.Call.Value.(*ssa.Builtin); ok && (bi.Name() == "delete" || bi.Name() == "clear") && len(x.Call.Args) > 0 {
						if u, ok := x.Call.Args[0].(*ssa.UnOp); ok && u.X == ssa.Value(g) {
							return nil
						}
					}
				}
			}
		}
	}
	if nStores != 1 {
		return nil
	}
	return keys
}

// argPassedTiedField: v is passed (as a plain identifier) to a function of the package in decl; the envelope field
// the corresponding parameter is tied to there (all such calls must agree).
func argPassedTiedField(p *Program, info *types.Info, v *types.Var, decl *types.Func, tied func(*types.Var, *types.Func) string) string {
	fd, _ := p.funcDecl(decl)
	if fd == nil {
		return ""
	}
	agreed := ""
	conflict := false
	ast.Inspect(fd, func(n ast.Node) bool {
		ce, ok := n.(*ast.CallExpr)
		if !ok {
			return true
		}
		var callee *types.Func
		switch f := ce.Fun.(type) {
		case *ast.Ident:
			callee, _ = info.Uses[f].(*types.Func)
		case *ast.SelectorExpr:
			callee, _ = info.Uses[f.Sel].(*types.Func)
		}
		if callee == nil || decl.Pkg() == nil || callee.Pkg() != decl.Pkg() {
			return true
		}
		sig := callee.Type().(*types.Signature)
		for i, a := range ce.Args {
			id, ok := ast.Unparen(a).(*ast.Ident)
			if !ok || info.Uses[id] != v || i >= sig.Params().Len() {
				continue
			}
			got := tied(sig.Params().At(i), callee)
			if got == "" {
				continue
			}
			if agreed != "" && agreed != got {
				conflict = true
			}
			agreed = got
		}
		return true
	})
	if conflict {
		return ""
	}
	return agreed
}

// readsWholeBody: the reader handed to io.ReadAll yields every byte of the request body or an error.
func readsWholeBody(fn *ssa.Function, readAll *ssa.Call) (bool, string) {
	var descs []string
	for _, s := range sourcesOf(readAll.Call.Args[0]) {
		descs = append(descs, s.Desc)
		switch {
		case s.Kind == "call" && strings.Contains(s.Desc, "http.MaxBytesReader"):
		case strings.Contains(s.Desc, "Request.Body"):
		case s.Kind == "call" && strings.Contains(s.Desc, "io.LimitReader"):
			lr, ok := s.Val.(*ssa.Call)
			if !ok || len(lr.Call.Args) != 2 {
				return false, s.Desc
			}
			// limit+1, and len(result) > limit leads away from every use of the body
			add, ok := stripConv(lr.Call.Args[1]).(*ssa.BinOp)
			if !ok || add.Op != token.ADD {
				return false, "io.LimitReader with a limit that is not limit+1"
			}
			n, isC := numConst(add.Y)
			if !isC || n != 1 {
				return false, "io.LimitReader with a limit that is not limit+1"
			}
			limit := stripConv(add.X)
			guarded := false
			for _, b := range fn.Blocks {
				for i := range b.Succs {
					a, ok := edgeAtom(Edge{b, i})
					if !ok {
						continue
					}
					if lenArgDeep(a.X) != nil && stripConv(a.Y) == limit && (a.Op == token.LEQ) {
						// every enqueue lies behind this edge
						all := true
						for _, e := range allCalls(fn, isAnyEnqueue) {
							av := EdgeSet{}
							av.addAll([]Edge{{b, i}})
							if _, reached := reach([]*ssa.BasicBlock{fn.Blocks[0]}, av, nil)[e.Block()]; reached {
								all = false
							}
						}
						if all {
							guarded = true
						}
					}
				}
			}
			if !guarded {
				return false, "io.LimitReader(limit+1) without a len(body) <= limit test before the enqueue"
			}
		default:
			return false, s.Desc
		}
	}
	if len(descs) == 0 {
		return false, "reader of unknown origin"
	}
	return true, "reader = " + strings.Join(descs, ", ")
}
