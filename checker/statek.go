package main

// K3: branch-sensitive finite-set dataflow of queue.Envelope.State over the
// memory store. Facts are sets of possible State constants attached to
// (a) *Envelope pointers, (b) id keys of the item table ("the item stored under
// this id"), (c) slices of either (element facts). Missing fact = any state.

import (
	"fmt"
	"go/constant"
	"go/token"
	"go/types"
	"sort"
	"strings"

	"golang.org/x/tools/go/ssa"
)

type sset uint8

var stateNames = []string{"queued", "leased", "delivered", "dead", "canceled"}

const (
	ssTop   sset = 0xff
	ssOther sset = 0x80
)

func ssOf(name string) sset {
	for i, n := range stateNames {
		if n == name {
			return 1 << i
		}
	}
	return ssOther
}

func (s sset) String() string {
	if s == ssTop {
		return "ANY"
	}
	var out []string
	for i, n := range stateNames {
		if s&(1<<i) != 0 {
			out = append(out, n)
		}
	}
	if s&ssOther != 0 {
		out = append(out, "?")
	}
	return "{" + strings.Join(out, ",") + "}"
}

func ssParse(names ...string) sset {
	var s sset
	for _, n := range names {
		s |= ssOf(n)
	}
	return s
}

type sfEvent struct {
	Root   string // entry operation (exported method) the event is reachable from
	Fn     *ssa.Function
	Kind   string // "store" | "delete" | "insert" | "lease-delete"
	From   sset
	To     sset // for store
	ToStr  string
	Instr  ssa.Instruction
	Chain  string
	Fields []string // other Envelope fields written through the same pointer in the same block run
}

type sfFact map[ssa.Value]sset

func (f sfFact) clone() sfFact {
	o := make(sfFact, len(f))
	for k, v := range f {
		o[k] = v
	}
	return o
}

func sfJoin(a, b sfFact) sfFact {
	o := sfFact{}
	for k, v := range a {
		if w, ok := b[k]; ok {
			o[k] = v | w
		}
	}
	return o
}

func sfEq(a, b sfFact) bool {
	if len(a) != len(b) {
		return false
	}
	for k, v := range a {
		if w, ok := b[k]; !ok || w != v {
			return false
		}
	}
	return true
}

type stateFlow struct {
	p        *Program
	storeT   *types.Named // the store type whose item table is analysed (MemoryStore)
	envT     *types.Named
	stateT   *types.Named
	Events   []sfEvent
	memo     map[string]sfFact // summary: result facts keyed by ctx signature
	active   map[string]bool
	contCache map[ssa.Value]sset
	contBusy  map[ssa.Value]bool
	// per-call-context parameter container sets
	paramSets map[*ssa.Parameter]sset
	mayStoreMemo map[*ssa.Function]sset
	idField      *string
}

func newStateFlow(p *Program, storeType string) *stateFlow {
	return &stateFlow{p: p, storeT: p.Named("queue", storeType), envT: p.Named("queue", "Envelope"), stateT: p.Named("queue", "State"),
		memo: map[string]sfFact{}, active: map[string]bool{}, contCache: map[ssa.Value]sset{}, contBusy: map[ssa.Value]bool{}, paramSets: map[*ssa.Parameter]sset{}}
}

func (sf *stateFlow) isEnvPtr(t types.Type) bool {
	pt, ok := t.(*types.Pointer)
	return ok && types.Identical(pt.Elem(), sf.envT)
}

func (sf *stateFlow) isStateType(t types.Type) bool { return types.Identical(t, sf.stateT) }

// constState: a State (or string) constant as a set.
func constState(v ssa.Value) (sset, bool) {
	for {
		switch x := v.(type) {
		case *ssa.ChangeType:
			v = x.X
			continue
		case *ssa.Convert:
			v = x.X
			continue
		}
		break
	}
	c, ok := v.(*ssa.Const)
	if !ok || c.Value == nil || c.Value.Kind() != constant.String {
		return 0, false
	}
	return ssOf(constant.StringVal(c.Value)), true
}

// stateFieldPtr: v is the address &p.State (FieldAddr) -> p.
func (sf *stateFlow) envFieldAddr(v ssa.Value) (ptr ssa.Value, field string, ok bool) {
	fa, isFA := v.(*ssa.FieldAddr)
	if !isFA {
		return nil, "", false
	}
	if !sf.isEnvPtr(fa.X.Type()) {
		return nil, "", false
	}
	st := sf.envT.Underlying().(*types.Struct)
	return fa.X, st.Field(fa.Field).Name(), true
}

// stateLoad: v is a load of p.State -> p.
func (sf *stateFlow) stateLoad(v ssa.Value) (ssa.Value, bool) {
	for {
		if ct, ok := v.(*ssa.ChangeType); ok {
			v = ct.X
			continue
		}
		if cv, ok := v.(*ssa.Convert); ok {
			v = cv.X
			continue
		}
		break
	}
	u, ok := v.(*ssa.UnOp)
	if !ok || u.Op != token.MUL {
		return nil, false
	}
	p, f, ok := sf.envFieldAddr(u.X)
	if !ok || f != "State" {
		return nil, false
	}
	return p, true
}

// isItemTable: v is a load of the store's map[string]*Envelope field.
func (sf *stateFlow) isItemTable(v ssa.Value) bool {
	mt, ok := v.Type().Underlying().(*types.Map)
	if !ok || !sf.isEnvPtr(mt.Elem()) {
		return false
	}
	tn, _, ok := fieldOfLoad(v)
	return ok && tn == sf.storeT.Obj().Name()
}

func (sf *stateFlow) isLeaseIndex(v ssa.Value) bool {
	mt, ok := v.Type().Underlying().(*types.Map)
	if !ok {
		return false
	}
	if b, ok := mt.Elem().Underlying().(*types.Basic); !ok || b.Kind() != types.String {
		return false
	}
	tn, fn, ok := fieldOfLoad(v)
	return ok && tn == sf.storeT.Obj().Name() && strings.Contains(strings.ToLower(fn), "lease")
}

// keyOf: the id key under which pointer p was looked up in the item table.
func (sf *stateFlow) keyOf(p ssa.Value) ssa.Value {
	switch x := p.(type) {
	case *ssa.Lookup:
		if sf.isItemTable(x.X) {
			return x.Index
		}
	case *ssa.Extract:
		switch t := x.Tuple.(type) {
		case *ssa.Lookup:
			if x.Index == 0 && sf.isItemTable(t.X) {
				return t.Index
			}
		case *ssa.Next:
			if x.Index == 2 {
				if r, ok := t.Iter.(*ssa.Range); ok && sf.isItemTable(r.X) {
					// the key extract of the same Next
					for _, ref := range *t.Referrers() {
						if e, ok := ref.(*ssa.Extract); ok && e.Index == 1 {
							return e
						}
					}
				}
			}
		}
	}
	return nil
}

// varargElems: elements stored into the backing array of a slice literal.
func varargElems(v ssa.Value) ([]ssa.Value, bool) {
	sl, ok := v.(*ssa.Slice)
	if !ok {
		return nil, false
	}
	al, ok := sl.X.(*ssa.Alloc)
	if !ok {
		return nil, false
	}
	var out []ssa.Value
	for _, ref := range *al.Referrers() {
		ia, ok := ref.(*ssa.IndexAddr)
		if !ok {
			continue
		}
		for _, r2 := range *ia.Referrers() {
			if st, ok := r2.(*ssa.Store); ok && st.Addr == ia {
				out = append(out, st.Val)
			}
		}
	}
	return out, true
}

// containerSet: over-approximation of the State constants a slice/map of
// State may contain (flow-insensitive).
func (sf *stateFlow) containerSet(v ssa.Value) sset {
	if s, ok := sf.contCache[v]; ok {
		return s
	}
	if sf.contBusy[v] {
		return 0
	}
	sf.contBusy[v] = true
	defer delete(sf.contBusy, v)
	res := ssTop
	switch x := v.(type) {
	case *ssa.Const:
		if x.Value == nil {
			res = 0
		}
	case *ssa.Slice:
		if elems, ok := varargElems(x); ok {
			res = 0
			for _, e := range elems {
				res |= sf.elemSet(e, x)
			}
		} else {
			res = sf.containerSet(x.X)
		}
	case *ssa.Phi:
		res = 0
		for _, e := range x.Edges {
			res |= sf.containerSet(e)
		}
	case *ssa.Parameter:
		if s, ok := sf.paramSets[x]; ok {
			res = s
		}
	case *ssa.UnOp:
		if a, ok := x.X.(*ssa.Alloc); ok && x.Op == token.MUL {
			res = 0
			for _, ref := range *a.Referrers() {
				if st, ok := ref.(*ssa.Store); ok && st.Addr == a {
					res |= sf.containerSet(st.Val)
				}
			}
		}
		// a package-level table: assigned exactly once (in the package initialiser) and never written through
		if g, ok := x.X.(*ssa.Global); ok && x.Op == token.MUL {
			if st := sf.p.soleStoreTo(g); st != nil {
				res = sf.containerSet(st.Val)
			}
		}
	case *ssa.MakeSlice:
		res = 0
		res |= sf.appendedInto(x)
	case *ssa.MakeMap:
		res = 0
		for _, ref := range *x.Referrers() {
			if mu, ok := ref.(*ssa.MapUpdate); ok && mu.Map == x {
				res |= sf.elemSet(mu.Key, mu)
			}
		}
	case *ssa.Call:
		if b, ok := x.Call.Value.(*ssa.Builtin); ok && b.Name() == "append" {
			res = sf.containerSet(x.Call.Args[0])
			if len(x.Call.Args) > 1 {
				if elems, ok := varargElems(x.Call.Args[1]); ok {
					for _, e := range elems {
						res |= sf.elemSet(e, x)
					}
				} else {
					res |= sf.containerSet(x.Call.Args[1])
				}
			}
		}
	}
	sf.contCache[v] = res
	return res
}

// appendedInto is a placeholder for slices grown later through append chains
// (the append result is a different SSA value that is analysed on its own).
func (sf *stateFlow) appendedInto(v ssa.Value) sset { return 0 }

// elemSet: the set a single State-typed value may take.
func (sf *stateFlow) elemSet(v ssa.Value, at ssa.Instruction) sset {
	if s, ok := constState(v); ok {
		return s
	}
	switch x := v.(type) {
	case *ssa.Extract:
		// element of a ranged container
		if n, ok := x.Tuple.(*ssa.Next); ok {
			if r, ok := n.Iter.(*ssa.Range); ok {
				return sf.containerSet(r.X)
			}
		}
	case *ssa.UnOp:
		if x.Op == token.MUL {
			if ia, ok := x.X.(*ssa.IndexAddr); ok {
				return sf.containerSet(ia.X)
			}
			if _, ok := x.X.(*ssa.FieldAddr); ok && at != nil {
				if s, ok := sf.membershipDominates(x, at); ok {
					return s
				}
			}
		}
	case *ssa.Field:
		// request field: only known when `at` is dominated by a membership test of the same field
		if at != nil {
			if s, ok := sf.membershipDominates(x, at); ok {
				return s
			}
		}
	}
	return ssTop
}

func sameFieldOfParam(a, b ssa.Value) bool {
	fa, ok1 := a.(*ssa.Field)
	fb, ok2 := b.(*ssa.Field)
	if ok1 && ok2 {
		return fa.X == fb.X && fa.Field == fb.Field
	}
	// loads of the same field of a spilled by-value parameter (written once, at entry)
	ua, ok1 := a.(*ssa.UnOp)
	ub, ok2 := b.(*ssa.UnOp)
	if ok1 && ok2 && ua.Op == token.MUL && ub.Op == token.MUL {
		xa, ok1 := ua.X.(*ssa.FieldAddr)
		xb, ok2 := ub.X.(*ssa.FieldAddr)
		if ok1 && ok2 && xa.X == xb.X && xa.Field == xb.Field {
			if al, ok := xa.X.(*ssa.Alloc); ok && cellWrittenOnce(al) {
				return true
			}
		}
	}
	return a == b
}

// cellWrittenOnce: the local cell is stored exactly once as a whole (parameter
// spill) and none of its fields is stored to.
func cellWrittenOnce(al *ssa.Alloc) bool {
	n := 0
	for _, ref := range *al.Referrers() {
		switch r := ref.(type) {
		case *ssa.Store:
			if r.Addr == al {
				n++
			}
		case *ssa.FieldAddr:
			for _, r2 := range *r.Referrers() {
				if st, ok := r2.(*ssa.Store); ok && st.Addr == r {
					return false
				}
			}
		}
	}
	return n == 1
}

// structLitFact: for a struct value built by a composite literal (load of a
// local cell), the union of the facts of the id/pointer values stored into
// its fields.
func (sf *stateFlow) structLitFact(v ssa.Value, f sfFact) (sset, bool) {
	u, ok := v.(*ssa.UnOp)
	if !ok || u.Op != token.MUL {
		return 0, false
	}
	al, ok := u.X.(*ssa.Alloc)
	if !ok {
		return 0, false
	}
	var acc sset
	found := false
	for _, ref := range *al.Referrers() {
		fa, ok := ref.(*ssa.FieldAddr)
		if !ok {
			continue
		}
		for _, r2 := range *fa.Referrers() {
			if st, ok := r2.(*ssa.Store); ok && st.Addr == fa {
				if s, ok := f[st.Val]; ok {
					acc |= s
					found = true
				}
			}
		}
	}
	return acc, found
}

// membershipDominates: `at` is only reachable through the true edge of
// `_, ok := M[key]` for a key structurally equal to v; returns containerSet(M).
func (sf *stateFlow) membershipDominates(v ssa.Value, at ssa.Instruction) (sset, bool) {
	fn := at.Parent()
	for _, b := range fn.Blocks {
		for si := range b.Succs {
			a, ok := edgeAtom(Edge{b, si})
			if !ok || !isBoolTrue(a.Y) || a.Op != token.EQL {
				continue
			}
			// slices.Contains(T, v) == true
			if call, isCall := a.X.(*ssa.Call); isCall && len(call.Call.Args) == 2 {
				g := call.Call.StaticCallee()
				if g != nil && g.Origin() != nil {
					g = g.Origin()
				}
				if g != nil && g.Pkg != nil && g.Pkg.Pkg.Path() == "slices" && g.Name() == "Contains" && sameFieldOfParam(call.Call.Args[1], v) {
					if okp, _ := sf.p.MustPass(fn, at, []Edge{{b, si}}); okp {
						return sf.containerSet(call.Call.Args[0]), true
					}
				}
				continue
			}
			ex, ok := a.X.(*ssa.Extract)
			if !ok || ex.Index != 1 {
				continue
			}
			lk, ok := ex.Tuple.(*ssa.Lookup)
			if !ok || !lk.CommaOk || !sameFieldOfParam(lk.Index, v) {
				continue
			}
			if okp, _ := sf.p.MustPass(fn, at, []Edge{{b, si}}); okp {
				return sf.containerSet(lk.X), true
			}
		}
	}
	return 0, false
}

// analyze runs the dataflow on fn with the given entry fact and returns the
// joined fact of returned values (keyed by result index as a pseudo key).
func (sf *stateFlow) analyze(fn *ssa.Function, entry sfFact, root string, chain string, depth int) map[int]sset {
	if len(fn.Blocks) == 0 || depth > 5 {
		return nil
	}
	sig := sf.ctxSig(fn, entry)
	if sf.active[sig] {
		return nil
	}
	sf.active[sig] = true
	defer delete(sf.active, sig)

	in := map[*ssa.BasicBlock]sfFact{fn.Blocks[0]: entry}
	work := []*ssa.BasicBlock{fn.Blocks[0]}
	inWork := map[*ssa.BasicBlock]bool{fn.Blocks[0]: true}
	iter := 0
	for len(work) > 0 && iter < 20000 {
		iter++
		b := work[0]
		work = work[1:]
		inWork[b] = false
		out := sf.transfer(b, in[b].clone(), false, root, chain, depth, nil)
		for i, s := range b.Succs {
			ef := sf.refine(Edge{b, i}, out)
			ef = sf.phiEdge(b, s, ef)
			if old, ok := in[s]; ok {
				j := sfJoin(old, ef)
				if !sfEq(j, old) {
					in[s] = j
					if !inWork[s] {
						work = append(work, s)
						inWork[s] = true
					}
				}
			} else {
				in[s] = ef
				if !inWork[s] {
					work = append(work, s)
					inWork[s] = true
				}
			}
		}
	}
	rets := map[int]sset{}
	for _, b := range fn.Blocks {
		f, ok := in[b]
		if !ok {
			continue
		}
		sf.transfer(b, f.clone(), true, root, chain, depth, rets)
	}
	return rets
}

func (sf *stateFlow) ctxSig(fn *ssa.Function, entry sfFact) string {
	var parts []string
	for i, p := range fn.Params {
		if s, ok := entry[p]; ok {
			parts = append(parts, fmt.Sprintf("%d=%d", i, s))
		}
		if s, ok := sf.paramSets[p]; ok {
			parts = append(parts, fmt.Sprintf("c%d=%d", i, s))
		}
	}
	return fn.String() + "|" + strings.Join(parts, ",")
}

// phiEdge assigns phi values of succ from the operands on edge pred->succ.
func (sf *stateFlow) phiEdge(pred, succ *ssa.BasicBlock, f sfFact) sfFact {
	idx := -1
	for i, p := range succ.Preds {
		if p == pred {
			idx = i
			break
		}
	}
	if idx < 0 {
		return f
	}
	var out sfFact
	for _, ins := range succ.Instrs {
		phi, ok := ins.(*ssa.Phi)
		if !ok {
			break
		}
		op := phi.Edges[idx]
		s, has := sf.valueFact(op, f)
		if out == nil {
			out = f.clone()
		}
		if has {
			out[phi] = s
		} else {
			delete(out, phi)
		}
	}
	if out == nil {
		return f
	}
	return out
}

// valueFact: the fact of value v under f (consts and empty slices are known).
func (sf *stateFlow) valueFact(v ssa.Value, f sfFact) (sset, bool) {
	if s, ok := f[v]; ok {
		return s, true
	}
	switch x := v.(type) {
	case *ssa.Const:
		if x.Value == nil {
			return 0, true // nil pointer / nil slice: no item
		}
	case *ssa.MakeSlice:
		return 0, true
	case *ssa.Slice:
		return sf.valueFact(x.X, f)
	}
	return ssTop, false
}

func (sf *stateFlow) refine(e Edge, out sfFact) sfFact {
	a, ok := edgeAtom(e)
	if !ok {
		return out
	}
	// p.State == / != const
	if a.Op == token.EQL || a.Op == token.NEQ {
		if p, ok := sf.stateLoad(a.X); ok {
			if c, ok := constState(a.Y); ok {
				o := out.clone()
				cur, has := o[p]
				if !has {
					cur = ssTop
				}
				if a.Op == token.EQL {
					cur &= c
				} else {
					cur &^= c
				}
				sf.set(o, p, cur)
				return o
			}
		}
		// p.State == element of a constant table (a hand-written membership loop, expanded into the operation)
		if a.Op == token.EQL {
			for _, pair := range [][2]ssa.Value{{a.X, a.Y}, {a.Y, a.X}} {
				p, ok := sf.stateLoad(pair[0])
				if !ok {
					continue
				}
				ld, ok := pair[1].(*ssa.UnOp)
				if !ok || ld.Op != token.MUL {
					continue
				}
				ia, ok := ld.X.(*ssa.IndexAddr)
				if !ok {
					continue
				}
				if set := sf.containerSet(ia.X); set != ssTop {
					o := out.clone()
					cur, has := o[p]
					if !has {
						cur = ssTop
					}
					sf.set(o, p, cur&set)
					return o
				}
			}
		}
		// p == nil
		if isNilConst(a.Y) && sf.isEnvPtr(a.X.Type()) && a.Op == token.EQL {
			o := out.clone()
			sf.set(o, a.X, 0)
			return o
		}
		// membership: slices.Contains(T, p.State) == true
		if isBoolTrue(a.Y) && a.Op == token.EQL {
			if call, ok := a.X.(*ssa.Call); ok && len(call.Call.Args) == 2 {
				g := call.Call.StaticCallee()
				if g != nil && g.Origin() != nil {
					g = g.Origin() // an instance of the generic function
				}
				if g != nil && g.Pkg != nil && g.Pkg.Pkg.Path() == "slices" && g.Name() == "Contains" {
					if p, ok := sf.stateLoad(call.Call.Args[1]); ok {
						if set := sf.containerSet(call.Call.Args[0]); set != ssTop {
							o := out.clone()
							cur, has := o[p]
							if !has {
								cur = ssTop
							}
							sf.set(o, p, cur&set)
							return o
						}
					}
				}
			}
		}
		// membership: ok(M[p.State]) == true
		if isBoolTrue(a.Y) && a.Op == token.EQL {
			if ex, ok := a.X.(*ssa.Extract); ok && ex.Index == 1 {
				if lk, ok := ex.Tuple.(*ssa.Lookup); ok && lk.CommaOk {
					if p, ok := sf.stateLoad(lk.Index); ok {
						set := sf.containerSet(lk.X)
						if set != ssTop {
							o := out.clone()
							cur, has := o[p]
							if !has {
								cur = ssTop
							}
							sf.set(o, p, cur&set)
							return o
						}
					}
				}
			}
		}
	}
	return out
}

// set assigns the fact of pointer p and of the id key it was looked up with.
func (sf *stateFlow) set(f sfFact, p ssa.Value, s sset) {
	f[p] = s
	if k := sf.keyOf(p); k != nil {
		f[k] = s
	}
}

func (sf *stateFlow) event(record bool, ev sfEvent) {
	if record {
		sf.Events = append(sf.Events, ev)
	}
}

func (sf *stateFlow) transfer(b *ssa.BasicBlock, f sfFact, record bool, root, chain string, depth int, rets map[int]sset) sfFact {
	fn := b.Parent()
	for _, ins := range b.Instrs {
		switch x := ins.(type) {
		case *ssa.Lookup:
			if sf.isItemTable(x.X) && !x.CommaOk {
				if s, ok := f[x.Index]; ok {
					f[x] = s
				} else {
					delete(f, x)
				}
			}
		case *ssa.Extract:
			if lk, ok := x.Tuple.(*ssa.Lookup); ok && x.Index == 0 && sf.isItemTable(lk.X) {
				if s, ok := f[lk.Index]; ok {
					f[x] = s
				} else {
					delete(f, x)
				}
			}
			if n, ok := x.Tuple.(*ssa.Next); ok {
				// new iteration: the element facts come from the ranged container
				if r, ok := n.Iter.(*ssa.Range); ok {
					if sf.isItemTable(r.X) {
						delete(f, x)
					} else if s, ok := f[r.X]; ok && x.Index == 2 {
						f[x] = s
					} else {
						delete(f, x)
					}
				}
			}
		case *ssa.UnOp:
			if x.Op == token.MUL {
				switch a := x.X.(type) {
				case *ssa.IndexAddr:
					if s, ok := sf.valueFact(a.X, f); ok {
						f[x] = s
					} else {
						delete(f, x)
					}
				case *ssa.Alloc:
					if s, ok := f[a]; ok {
						f[x] = s
					} else {
						delete(f, x)
					}
				case *ssa.FieldAddr:
					// field of a struct element of a slice with element facts (items[i].id)
					if ia, ok := a.X.(*ssa.IndexAddr); ok {
						if s, ok := f[ia.X]; ok {
							f[x] = s
						} else {
							delete(f, x)
						}
					}
				}
			}
		case *ssa.Slice:
			if s, ok := sf.valueFact(x.X, f); ok {
				f[x] = s
			} else {
				delete(f, x)
			}
		case *ssa.Store:
			if cell, ok := x.Addr.(*ssa.Alloc); ok {
				if s, ok := sf.valueFact(x.Val, f); ok {
					f[cell] = s
				} else {
					delete(f, cell)
				}
			}
			if p, field, ok := sf.envFieldAddr(x.Addr); ok && field == "State" {
				if _, isLocal := p.(*ssa.Alloc); isLocal {
					continue // construction of a local envelope, not an item of the table
				}
				from, has := f[p]
				if !has {
					from = ssTop
				}
				to, isC := constState(x.Val)
				ts := "?"
				if isC {
					ts = to.String()
				} else {
					to = ssTop
				}
				sf.event(record, sfEvent{Root: root, Fn: fn, Kind: "store", From: from, To: to, ToStr: ts, Instr: x, Chain: chain})
				sf.set(f, p, to)
			}
		case *ssa.MapUpdate:
			if sf.isItemTable(x.Map) {
				sf.event(record, sfEvent{Root: root, Fn: fn, Kind: "insert", Instr: x, Chain: chain})
				delete(f, x.Key)
			}
		case *ssa.Return:
			if rets != nil {
				for i, r := range x.Results {
					if s, ok := sf.valueFact(r, f); ok {
						if old, seen := rets[i]; seen {
							rets[i] = old | s
						} else {
							rets[i] = s
						}
					} else {
						rets[i] = ssTop
					}
				}
			}
		case ssa.CallInstruction:
			com := x.Common()
			if bi, ok := com.Value.(*ssa.Builtin); ok {
				switch bi.Name() {
				case "delete":
					m, k := com.Args[0], com.Args[1]
					if sf.isItemTable(m) {
						from, has := f[k]
						if !has {
							from = ssTop
							// pointers looked up with this key
							for v, s := range f {
								if sf.keyOf(v) == k {
									from, has = s, true
								}
							}
						}
						if !has {
							// the key is the identity field of a record whose state is known: the table is keyed by
							// that field on every insert, so this deletes that record
							if ptr, fld, ok := sf.envFieldLoad(k); ok && fld == sf.identityField() && fld != "" {
								if s, ok := f[ptr]; ok {
									from, has = s, true
								}
							}
						}
						sf.event(record, sfEvent{Root: root, Fn: fn, Kind: "delete", From: from, Instr: x, Chain: chain})
						f[k] = 0
					} else if sf.isLeaseIndex(m) {
						sf.event(record, sfEvent{Root: root, Fn: fn, Kind: "lease-delete", Instr: x, Chain: chain})
					}
				case "append":
					if v, ok := x.(ssa.Value); ok {
						base, hasBase := sf.valueFact(com.Args[0], f)
						if hasBase && len(com.Args) > 1 {
							acc := base
							known := true
							if elems, ok := varargElems(com.Args[1]); ok {
								for _, e := range elems {
									if s, ok := sf.valueFact(e, f); ok {
										acc |= s
									} else if s, ok := sf.structLitFact(e, f); ok {
										acc |= s
									} else {
										known = false
									}
								}
							} else if s, ok := sf.valueFact(com.Args[1], f); ok {
								acc |= s
							} else {
								known = false
							}
							if known {
								f[v] = acc
							} else {
								delete(f, v)
							}
						} else if hasBase {
							f[v] = base
						}
					}
				}
				continue
			}
			callee := com.StaticCallee()
			if callee == nil || !IsModuleFunc(callee) || len(callee.Blocks) == 0 {
				// dynamic or external call: only closures that write State could interfere
				continue
			}
			touches := false
			cf := sfFact{}
			savedSets := map[*ssa.Parameter]sset{}
			for i, a := range com.Args {
				if i >= len(callee.Params) {
					break
				}
				pt := a.Type()
				if sf.isEnvPtr(pt) || (types.Identical(pt, types.NewPointer(sf.storeT))) {
					touches = true
				}
				if s, ok := f[a]; ok {
					cf[callee.Params[i]] = s
				}
				// State containers passed as parameters
				switch ut := pt.Underlying().(type) {
				case *types.Slice:
					if sf.isStateType(ut.Elem()) {
						savedSets[callee.Params[i]] = sf.paramSets[callee.Params[i]]
						sf.paramSets[callee.Params[i]] = sf.containerSet(a)
						touches = true
					}
				}
			}
			if !touches {
				continue
			}
			// parameter container sets change the callee's container cache: reset it for the call
			oldCache := sf.contCache
			if len(savedSets) > 0 {
				sf.contCache = map[ssa.Value]sset{}
			}
			rets2 := sf.analyzeCall(callee, cf, root, chain+" > "+callee.Name(), depth+1, record)
			if len(savedSets) > 0 {
				sf.contCache = oldCache
				for p, s := range savedSets {
					if s == 0 {
						delete(sf.paramSets, p)
					} else {
						sf.paramSets[p] = s
					}
				}
			}
			// the callee may have stored new states into any item: weaken every fact by the
			// set of states the callee can store (deletions leave "state if present" facts valid)
			if w := sf.mayStore(callee); w != 0 {
				for k, v := range f {
					f[k] = v | w
				}
			}
			if v, ok := x.(ssa.Value); ok && rets2 != nil {
				if s, ok := rets2[0]; ok && s != ssTop && callee.Signature.Results().Len() == 1 {
					f[v] = s
				}
			}
		}
	}
	return f
}

// analyzeCall analyses a callee in a calling context. Events are recorded only
// in the recording pass of the caller (so each context contributes once).
func (sf *stateFlow) analyzeCall(callee *ssa.Function, entry sfFact, root, chain string, depth int, record bool) map[int]sset {
	if !record {
		// fixpoint pass of the caller: we only need the return facts
		saved := sf.Events
		r := sf.analyze(callee, entry, root, chain, depth)
		sf.Events = saved
		return r
	}
	return sf.analyze(callee, entry, root, chain, depth)
}

// Run analyses every exported method of the store type as an entry operation.
func (sf *stateFlow) Run() {
	ms := sf.p.MethodsOf("queue", sf.storeT.Obj().Name())
	for _, fn := range ms {
		if !token.IsExported(fn.Name()) {
			continue
		}
		sf.analyze(sf.p.View(fn), sfFact{}, fn.Name(), fn.Name(), 0)
	}
	// de-duplicate events (same root, instruction, from)
	seen := map[string]bool{}
	var out []sfEvent
	for _, e := range sf.Events {
		k := fmt.Sprintf("%s|%p|%d|%s|%s", e.Root, e.Instr, e.From, e.Kind, e.Chain)
		if !seen[k] {
			seen[k] = true
			out = append(out, e)
		}
	}
	sort.SliceStable(out, func(i, j int) bool {
		if out[i].Root != out[j].Root {
			return out[i].Root < out[j].Root
		}
		return out[i].Instr.Pos() < out[j].Instr.Pos()
	})
	sf.Events = out
}

// mayStore: the set of State constants that fn (transitively) may store into an item.
func (sf *stateFlow) mayStore(fn *ssa.Function) sset {
	if sf.mayStoreMemo == nil {
		sf.mayStoreMemo = map[*ssa.Function]sset{}
	}
	if s, ok := sf.mayStoreMemo[fn]; ok {
		return s
	}
	var w sset
	for g := range sf.p.Reach(fn) {
		for _, b := range g.Blocks {
			for _, ins := range b.Instrs {
				if st, ok := ins.(*ssa.Store); ok {
					if _, field, ok := sf.envFieldAddr(st.Addr); ok && field == "State" {
						if c, ok := constState(st.Val); ok {
							w |= c
						} else {
							w = ssTop
						}
					}
				}
			}
		}
	}
	sf.mayStoreMemo[fn] = w
	return w
}

// envFieldLoad: v is a load of field F through an envelope pointer.
func (sf *stateFlow) envFieldLoad(v ssa.Value) (ptr ssa.Value, field string, ok bool) {
	u, isLoad := v.(*ssa.UnOp)
	if !isLoad || u.Op != token.MUL {
		return nil, "", false
	}
	return sf.envFieldAddr(u.X)
}

// identityField: the envelope field under which every insert into the item table files the record ("" if the
// inserts do not agree or a key is not such a field).
func (sf *stateFlow) identityField() string {
	if sf.idField != nil {
		return *sf.idField
	}
	name := ""
	ok := true
	n := 0
	for _, fn := range sf.p.FuncsInPkg("queue") {
		for _, b := range fn.Blocks {
			for _, ins := range b.Instrs {
				mu, isMU := ins.(*ssa.MapUpdate)
				if !isMU || !sf.isItemTable(mu.Map) {
					continue
				}
				n++
				u, isLoad := mu.Key.(*ssa.UnOp)
				if !isLoad || u.Op != token.MUL {
					ok = false
					continue
				}
				fa, isFA := u.X.(*ssa.FieldAddr)
				if !isFA {
					ok = false
					continue
				}
				tn, f, _ := fieldAddrName(fa)
				if tn != sf.envT.Obj().Name() {
					ok = false
					continue
				}
				if name == "" {
					name = f
				} else if name != f {
					ok = false
				}
			}
		}
	}
	if !ok || n == 0 {
		name = ""
	}
	sf.idField = &name
	return name
}

// soleStoreTo: the only store to package-level variable g in the module, provided it sits in a package initialiser
// and no element of the stored slice/map is written anywhere (nil otherwise).
func (p *Program) soleStoreTo(g *ssa.Global) *ssa.Store {
	if p.soleStores == nil {
		p.soleStores = map[*ssa.Global]*ssa.Store{}
		count := map[*ssa.Global]int{}
		dirty := map[*ssa.Global]bool{}
		for _, fn := range p.SrcFuncs {
			for _, b := range fn.Blocks {
				for _, ins := range b.Instrs {
					switch x := ins.(type) {
					case *ssa.Store:
						if gg, ok := x.Addr.(*ssa.Global); ok {
							count[gg]++
							if fn.Name() == "init" {
								p.soleStores[gg] = x
							} else {
								dirty[gg] = true
							}
						}
						// element store through a load of the global: g[i] = …
						if ia, ok := x.Addr.(*ssa.IndexAddr); ok {
							if u, ok := ia.X.(*ssa.UnOp); ok {
								if gg, ok := u.X.(*ssa.Global); ok && fn.Name() != "init" {
									dirty[gg] = true
								}
							}
						}
					case *ssa.MapUpdate:
						if u, ok := x.Map.(*ssa.UnOp); ok {
							if gg, ok := u.X.(*ssa.Global); ok {
								dirty[gg] = true
							}
						}
					}
				}
			}
		}
		for gg := range p.soleStores {
			if count[gg] != 1 || dirty[gg] {
				delete(p.soleStores, gg)
			}
		}
	}
	return p.soleStores[g]
}
