package main

import (
	"fmt"
	"go/types"
	"sort"
	"strings"

	"golang.org/x/tools/go/ssa"
)

// C11.R6 — one key for authorization and resolution.
//
// The per-route token override is chosen by looking the addressed endpoint up in the path→route table;
// the route whose queue is then touched is chosen by a second lookup in the same table. If the two
// lookups use differently normalised keys, a spelling exists that resolves to a route whose own token
// list was not the one consulted. The rule computes, per API, the symbolic term of both lookup keys over
// the API entry's parameters (through the hook wiring and helper functions) and requires them to be the
// same term, or the resolver's key to be the presented endpoint itself (then nothing the authorizer did
// not see can resolve).

type keyTerm struct {
	term string
	pos  string
	via  string
}

// hookArgTerms: terms of the argument #argIdx passed to dynamic calls through field `field` reachable by static
// calls from entry, over entry's parameters.
func hookArgTerms(p *Program, entry *ssa.Function, field string, argIdx int) []keyTerm {
	var out []keyTerm
	var walk func(fn *ssa.Function, env termEnv, depth int, via string)
	walk = func(fn *ssa.Function, env termEnv, depth int, via string) {
		if depth > 3 {
			return
		}
		for _, ci := range allCalls(fn, nil) {
			com := ci.Common()
			if !com.IsInvoke() {
				if _, f, ok := fieldOfLoad(com.Value); ok && f == field && argIdx < len(com.Args) {
					out = append(out, keyTerm{termOf(com.Args[argIdx], env), p.InstrPos(ci), via})
					continue
				}
			}
			g := com.StaticCallee()
			if g == nil || !IsModuleFunc(g) || len(g.Blocks) == 0 || g.Package() != entry.Package() {
				continue
			}
			sub := map[*ssa.Parameter]string{}
			for i, pr := range g.Params {
				if i < len(com.Args) {
					sub[pr] = termOf(com.Args[i], env)
				}
			}
			walk(g, termEnv{fn: g, subst: sub, depth: env.depth}, depth+1, via+"→"+g.Name())
		}
	}
	walk(entry, termEnv{fn: entry}, 0, entry.Name())
	return out
}

// lookupKeyTerms: terms of the index of every lookup in the struct-field map `mapField` in fn (helpers inlined by termOf only
// for values; lookups inside static callees of the same package are followed).
func lookupKeyTerms(p *Program, fn *ssa.Function, mapField string) []keyTerm {
	var out []keyTerm
	var walk func(f *ssa.Function, env termEnv, depth int)
	walk = func(f *ssa.Function, env termEnv, depth int) {
		if depth > 2 {
			return
		}
		for _, b := range f.Blocks {
			for _, ins := range b.Instrs {
				switch x := ins.(type) {
				case *ssa.Lookup:
					if _, fld, ok := fieldOfLoad(x.X); ok && fld == mapField {
						out = append(out, keyTerm{termOf(x.Index, env), p.InstrPos(x), f.Name()})
					}
				case ssa.CallInstruction:
					g := x.Common().StaticCallee()
					if g == nil || !IsModuleFunc(g) || len(g.Blocks) == 0 || g.Package() != fn.Package() || g == f {
						continue
					}
					// only helpers that themselves look the map up
					has := false
					for _, bb := range g.Blocks {
						for _, i2 := range bb.Instrs {
							if lk, ok := i2.(*ssa.Lookup); ok {
								if _, fld, ok := fieldOfLoad(lk.X); ok && fld == mapField {
									has = true
								}
							}
						}
					}
					if !has {
						continue
					}
					sub := map[*ssa.Parameter]string{}
					for i, pr := range g.Params {
						if i < len(x.Common().Args) {
							sub[pr] = termOf(x.Common().Args[i], env)
						}
					}
					walk(g, termEnv{fn: g, subst: sub}, depth+1)
				}
			}
		}
	}
	walk(fn, termEnv{fn: fn}, 0)
	return out
}

// substTerm replaces the placeholder of the (single) parameter of type-class `class` in inner by outer.
func substParam(inner string, idx int, outer string) string {
	return strings.ReplaceAll(inner, "$"+itoa(idx), outer)
}

func checkOneKey(c *Ctx, rule string) {
	p := c.P
	w := p.wiringTable()
	type api struct {
		name      string
		pkg       string
		authArg   int // index (in Common().Args) of the argument of the Authorize hook that carries the addressed endpoint / request
		resolvArg int
	}
	apis := []api{{"pull HTTP", "pullapi", 0, 0}, {"worker gRPC", "workerapi", 1, 0}}
	for _, a := range apis {
		authImpls := w[fieldKey{a.pkg + ".Server", "Authorize"}]
		resImpls := w[fieldKey{a.pkg + ".Server", "ResolveRoute"}]
		if a.pkg == "workerapi" && len(resImpls) == 0 {
			resImpls = w[fieldKey{"pullapi.Server", "ResolveRoute"}]
		}
		if len(authImpls) == 0 || len(resImpls) == 0 {
			c.Undecided(rule, a.name+":hook wiring", "", fmt.Sprintf("Authorize wired to %d function(s), ResolveRoute to %d", len(authImpls), len(resImpls)))
			continue
		}
		// the path→route table: the struct-field map the wired resolver looks its argument up in (found by use, not by name)
		tableField := ""
		for _, impl := range resImpls {
			for _, b := range impl.Blocks {
				for _, ins := range b.Instrs {
					if lk, ok := ins.(*ssa.Lookup); ok {
						if _, f, ok := fieldOfLoad(lk.X); ok && tableField == "" {
							if mt, ok := lk.X.Type().Underlying().(*types.Map); ok && isStringT(mt.Key()) && isStringT(mt.Elem()) {
								tableField = f
							}
						}
					}
				}
			}
		}
		if tableField == "" {
			c.Undecided(rule, a.name+":path→route table", "", "the wired resolver does not look its argument up in a map[string]string field")
			continue
		}
		// entries: functions of the API package that (transitively, within the package) call both hooks
		n := 0
		for _, entry := range p.FuncsInPkg(a.pkg) {
			if entry.Parent() != nil {
				continue
			}
			auths := hookArgTerms(p, entry, "Authorize", a.authArg)
			ress := hookArgTerms(p, entry, "ResolveRoute", a.resolvArg)
			if len(auths) == 0 || len(ress) == 0 {
				continue
			}
			// only the outermost such function is an entry (skip helpers whose callers also qualify)
			inner := false
			for _, cs := range p.CallSitesOf(entry) {
				if cs.Parent().Package() == entry.Package() {
					inner = true
				}
			}
			if inner {
				continue
			}
			n++
			// compose with the implementations' lookup keys
			var kAuth, kRes []string
			for _, at := range auths {
				for _, impl := range authImpls {
					lks := lookupKeyTerms(p, impl, tableField)
					for _, lk := range lks {
						// the implementation's parameter that receives the hook argument: the hook argument index maps to
						// impl parameter index (+1 for the bound receiver)
						pi := a.authArg
						if impl.Signature.Recv() != nil {
							pi++
						}
						kAuth = append(kAuth, substParam(lk.term, pi, at.term))
					}
				}
			}
			for _, rt := range ress {
				for _, impl := range resImpls {
					lks := lookupKeyTerms(p, impl, tableField)
					if len(lks) == 0 {
						kRes = append(kRes, "?no-lookup-in-"+impl.Name())
					}
					for _, lk := range lks {
						pi := a.resolvArg
						if impl.Signature.Recv() != nil {
							pi++
						}
						kRes = append(kRes, substParam(lk.term, pi, rt.term))
					}
				}
			}
			kAuth, kRes = dedupe(kAuth), dedupe(kRes)
			sort.Strings(kAuth)
			construct := fmt.Sprintf("%s %s:authorization and resolution use one key", a.name, FuncName(entry))
			if len(kAuth) == 0 {
				c.Undecided(rule, construct, p.Pos(entry.Pos()), "the wired authorizer never looks the endpoint up in the path→route table")
				continue
			}
			// presented endpoint terms: what the API hands to the authorizer hook
			presented := map[string]bool{}
			for _, at := range auths {
				presented[at.term] = true
			}
			ok := true
			var why []string
			authAlts := map[string]bool{}
			for _, ka := range kAuth {
				for _, alt := range termAlternatives(ka) {
					authAlts[alt] = true
				}
			}
			for _, kr := range kRes {
				for _, alt := range termAlternatives(kr) {
					if authAlts[alt] || presented[alt] {
						continue // same derivation, or exactly what was presented to the authorizer
					}
					ok = false
					why = append(why, alt)
				}
			}
			c.Check(ok, rule, construct, p.Pos(entry.Pos()),
				"resolver key "+strings.Join(kRes, " , ")+" ; authorizer key "+strings.Join(kAuth, " , "),
				"the route is resolved with key "+strings.Join(why, " , ")+" but the per-route token override was selected with key "+strings.Join(kAuth, " , ")+" (presented: "+strings.Join(setKeysBool(presented), " , ")+"): a spelling the resolver normalises and the authorizer does not reaches a route without that route's own allowlist having been consulted")
		}
		c.Check(n > 0, rule, a.name+":entry found", "", fmt.Sprintf("%d API entry function(s) analysed", n), "no function of package "+a.pkg+" reaches both hooks")
	}
}

func setKeysBool(m map[string]bool) []string {
	var out []string
	for k := range m {
		out = append(out, k)
	}
	sort.Strings(out)
	return out
}

// termAlternatives flattens the top-level choice constructors (phi{…}, ret{…}, cell{…}) of a term into its alternatives.
func termAlternatives(t string) []string {
	for _, pre := range []string{"phi{", "ret{", "cell{"} {
		if strings.HasPrefix(t, pre) && strings.HasSuffix(t, "}") {
			inner := t[len(pre) : len(t)-1]
			var parts []string
			depth, last := 0, 0
			for i := 0; i < len(inner); i++ {
				switch inner[i] {
				case '{', '(':
					depth++
				case '}', ')':
					depth--
				case '|':
					if depth == 0 && i > 0 && inner[i-1] == ' ' {
						parts = append(parts, strings.TrimSpace(inner[last:i]))
						last = i + 1
					}
				}
			}
			parts = append(parts, strings.TrimSpace(inner[last:]))
			var out []string
			for _, p := range parts {
				out = append(out, termAlternatives(p)...)
			}
			return out
		}
	}
	return []string{t}
}
