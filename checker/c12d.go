package main

import (
	"fmt"
	"go/token"
	"strings"

	"golang.org/x/tools/go/ssa"
)

// C12.R6 / C13.R11 — a capacity refusal is decided on the stored depth.
//
// ErrQueueFull says "the queue holds max_depth messages now". In the SQLite store the depth lives in the database
// (queue_counters, or a COUNT over queue_items); several writers change it in autocommit statements that pass no
// common choke point (operator cancel, retention deletes). A refusal answered from process-local memory — a
// remembered "it was full" verdict, a generation counter — goes stale after such a write: the store keeps refusing
// although capacity is free, where the memory backend (which counts its table) admits. Decided structurally: on the
// inlined view of each SQLite enqueue operation, every point that yields ErrQueueFull (a return of it, or a store of
// it into the operation's result) is reached only through a call that reads the depth from the database in the same
// invocation.

func checkRefusalReadsStoredDepth(c *Ctx, rule string) {
	p := c.P
	readers := map[*ssa.Function]bool{}
	for _, s := range p.SQL().Stmts {
		if s.Backend != "sqlite" || s.Fn == nil || s.Verb() != "SELECT" {
			continue
		}
		t := strings.ToLower(s.Table())
		isCount := false
		for _, col := range s.St.selectCols {
			if strings.Contains(strings.ToLower(col), "count(") {
				isCount = true
			}
		}
		if t == "queue_counters" || (t == "queue_items" && isCount) {
			readers[p.Orig(s.Fn)] = true
		}
	}
	c.Count("sqlite depth readers", len(readers))
	if len(readers) == 0 {
		c.Fail(rule, "sqlite:depth readers", "", "no function reads the depth (queue_counters / COUNT over queue_items)")
		return
	}
	isFullSentinel := func(v ssa.Value) bool {
		for i := 0; i < 4; i++ {
			switch x := v.(type) {
			case *ssa.MakeInterface:
				v = x.X
				continue
			case *ssa.ChangeInterface:
				v = x.X
				continue
			}
			break
		}
		u, ok := v.(*ssa.UnOp)
		if !ok || u.Op != token.MUL {
			return false
		}
		g, ok := u.X.(*ssa.Global)
		return ok && g.Name() == "ErrQueueFull"
	}
	n := 0
	for _, name := range []string{"Enqueue", "EnqueueBatch"} {
		root := p.Func("queue", "(*SQLiteStore)."+name)
		if root == nil {
			c.Fail(rule, "anchor:sqlite."+name, "", "not found")
			continue
		}
		v := p.ViewKeeping(root, func(callee *ssa.Function) bool { return readers[p.Orig(callee)] })
		var reads []ssa.Instruction
		for _, ci := range allCalls(v, func(ci ssa.CallInstruction) bool {
			g := ci.Common().StaticCallee()
			return g != nil && readers[p.Orig(g)]
		}) {
			reads = append(reads, ci)
		}
		k := 0
		for _, b := range v.Blocks {
			for _, ins := range b.Instrs {
				yields := false
				switch x := ins.(type) {
				case *ssa.Return:
					for _, r := range x.Results {
						if isFullSentinel(r) {
							yields = true
						}
					}
				case *ssa.Store:
					if _, isCell := x.Addr.(*ssa.Alloc); isCell && isFullSentinel(x.Val) {
						yields = true
					}
				}
				if !yields {
					continue
				}
				n++
				k++
				okp, path := p.MustPassInstr(v, ins, reads)
				key := fmt.Sprintf("sqlite.%s:refusal#%d reads the stored depth", name, k)
				if okp && len(reads) > 0 {
					c.Ok(rule, key, p.InstrPos(ins), "ErrQueueFull only after the depth was read from the database in this call")
				} else {
					c.Fail(rule, key, p.InstrPos(ins), "ErrQueueFull can be answered without reading the depth from the database in this call (a remembered verdict): writers that free capacity in autocommit statements — operator cancel, retention deletes — do not pass whatever invalidates the memory, so the store keeps refusing a queue that has room, where the memory backend admits", path...)
				}
			}
		}
	}
	c.Floor(rule, "ErrQueueFull yield points in the SQLite enqueue operations", n, 3)
}
