package main

// C16.R7 — "evaluated against the policy": CIDR rules are written for IPv4 or IPv6 prefixes, and
// netip.Prefix.Contains is false for an IPv4-mapped IPv6 address against an IPv4 prefix. Every address that reaches a
// prefix match therefore has to be in canonical (unmapped) form, whether it came from the resolver or from an IP
// literal in the URL (`http://[::ffff:10.1.2.3]/`). The rule follows each operand of a prefix match backwards —
// through helper results, parameters (to every call site), merges and slice elements (literals, appends) — and
// requires every source to be the result of Addr.Unmap(), or to sit on an edge where the address is known not to be
// IPv4(-mapped) (`ip.To4() == nil`, `!addr.Is4In6()`).

import (
	"fmt"
	"go/token"
	"go/types"
	"strings"

	"golang.org/x/tools/go/ssa"
)

type canonModel struct {
	p    *Program
	why  string
	busy map[ssa.Value]bool
}

func isNetipMethod(ci ssa.CallInstruction, recv, name string) bool {
	return calleeIs(ci, "net/netip", recv, name)
}

func (m *canonModel) fail(v ssa.Value, fn *ssa.Function, what string) bool {
	if m.why == "" {
		pos := ""
		if v != nil && v.Pos().IsValid() {
			pos = " at " + m.p.Pos(v.Pos())
		}
		m.why = what + pos + " in " + FuncName(m.p.Orig(fn))
	}
	return false
}

// notMappedOnEdge: control passes pred→blk only when the address is known not to be IPv4 / IPv4-mapped.
func notMappedOnEdge(pred, blk *ssa.BasicBlock) bool {
	for _, a := range edgeConds(pred, blk) {
		call, ok := a.X.(*ssa.Call)
		if !ok {
			continue
		}
		if calleeIs(call, "net", "IP", "To4") && isNilConst(a.Y) && a.Op == token.EQL {
			return true
		}
		if (isNetipMethod(call, "Addr", "Is4In6") || isNetipMethod(call, "Addr", "Is4")) && isBoolTrue(a.Y) && a.Op == token.NEQ {
			return true
		}
	}
	return false
}

// notMappedAt: the block runs only when the address is known not to be IPv4 / IPv4-mapped.
func notMappedAt(b *ssa.BasicBlock) bool {
	for _, pc := range dominatingConds(b, nil) {
		a := condAtom(pc.Cond, pc.Val)
		call, ok := a.X.(*ssa.Call)
		if !ok {
			continue
		}
		if calleeIs(call, "net", "IP", "To4") && isNilConst(a.Y) && a.Op == token.EQL {
			return true
		}
		if (isNetipMethod(call, "Addr", "Is4In6") || isNetipMethod(call, "Addr", "Is4")) && isBoolTrue(a.Y) && a.Op == token.NEQ {
			return true
		}
	}
	return false
}

func (m *canonModel) canonical(v ssa.Value, fn *ssa.Function, depth int) bool {
	if depth > 14 {
		return m.fail(v, fn, "provenance too deep")
	}
	if m.busy[v] {
		return true
	}
	m.busy[v] = true
	defer delete(m.busy, v)
	switch x := v.(type) {
	case *ssa.Const:
		return true // the zero Addr matches nothing
	case *ssa.Call:
		if isNetipMethod(x, "Addr", "Unmap") {
			return true
		}
		if isNetipMethod(x, "Addr", "WithZone") {
			return m.canonical(x.Call.Args[0], fn, depth+1)
		}
		if f := x.Call.StaticCallee(); f != nil && IsModuleFunc(f) && len(f.Blocks) > 0 {
			return m.returnsCanonical(f, 0, false, depth+1)
		}
		return m.fail(v, fn, "address from "+callDesc(x)+" is used without Unmap()")
	case *ssa.Extract:
		call, ok := x.Tuple.(*ssa.Call)
		if !ok {
			return m.fail(v, fn, "address of unknown origin")
		}
		if f := call.Call.StaticCallee(); f != nil && IsModuleFunc(f) && len(f.Blocks) > 0 {
			return m.returnsCanonical(f, x.Index, false, depth+1)
		}
		return m.fail(v, fn, "address from "+callDesc(call)+" is used without Unmap()")
	case *ssa.Phi:
		for i, e := range x.Edges {
			if notMappedOnEdge(x.Block().Preds[i], x.Block()) {
				continue
			}
			if !m.canonical(e, fn, depth+1) {
				return false
			}
		}
		return true
	case *ssa.Parameter:
		return m.paramAtCallSites(x, fn, false, depth+1)
	case *ssa.UnOp:
		if x.Op != token.MUL {
			return m.fail(v, fn, "address of unknown origin")
		}
		switch a := x.X.(type) {
		case *ssa.IndexAddr:
			return m.elements(a.X, fn, depth+1)
		case *ssa.Alloc:
			ok := true
			n := 0
			for _, ref := range *a.Referrers() {
				if st, isSt := ref.(*ssa.Store); isSt && st.Addr == a {
					n++
					if !m.canonical(st.Val, fn, depth+1) {
						ok = false
					}
				}
			}
			if n == 0 {
				return m.fail(v, fn, "address cell never stored")
			}
			return ok
		}
		return m.fail(v, fn, "address loaded from "+shortVal(x.X))
	case *ssa.Index:
		return m.elements(x.X, fn, depth+1)
	case *ssa.Lookup:
		return m.elements(x.X, fn, depth+1)
	}
	return m.fail(v, fn, "address "+shortVal(v)+" of unknown origin")
}

// elements: every element of the slice is canonical.
func (m *canonModel) elements(s ssa.Value, fn *ssa.Function, depth int) bool {
	if depth > 14 {
		return m.fail(s, fn, "provenance too deep")
	}
	if m.busy[s] {
		return true
	}
	m.busy[s] = true
	defer delete(m.busy, s)
	switch x := s.(type) {
	case *ssa.Const:
		return true
	case *ssa.Phi:
		for _, e := range x.Edges {
			if !m.elements(e, fn, depth+1) {
				return false
			}
		}
		return true
	case *ssa.Parameter:
		return m.paramAtCallSites(x, fn, true, depth+1)
	case *ssa.Extract:
		if call, ok := x.Tuple.(*ssa.Call); ok {
			if f := call.Call.StaticCallee(); f != nil && IsModuleFunc(f) && len(f.Blocks) > 0 {
				return m.returnsCanonical(f, x.Index, true, depth+1)
			}
		}
		return m.fail(s, fn, "address list of unknown origin")
	case *ssa.Call:
		if bi, ok := x.Call.Value.(*ssa.Builtin); ok && bi.Name() == "append" && len(x.Call.Args) == 2 {
			if !m.elements(x.Call.Args[0], fn, depth+1) {
				return false
			}
			if elems, ok := varargElems(x.Call.Args[1]); ok {
				for _, e := range elems {
					if !m.canonical(e, fn, depth+1) {
						return false
					}
				}
				return true
			}
			return m.elements(x.Call.Args[1], fn, depth+1)
		}
		if f := x.Call.StaticCallee(); f != nil && IsModuleFunc(f) && len(f.Blocks) > 0 {
			return m.returnsCanonical(f, 0, true, depth+1)
		}
		return m.fail(s, fn, "address list from "+callDesc(x))
	case *ssa.MakeSlice:
		// filled through stores into its elements
		ok := true
		for _, ref := range *x.Referrers() {
			if ia, isIA := ref.(*ssa.IndexAddr); isIA {
				for _, r2 := range *ia.Referrers() {
					if st, isSt := r2.(*ssa.Store); isSt && st.Addr == ia && !m.canonical(st.Val, fn, depth+1) {
						ok = false
					}
				}
			}
		}
		return ok
	case *ssa.Slice:
		if a, ok := x.X.(*ssa.Alloc); ok {
			okAll := true
			for _, ref := range *a.Referrers() {
				if ia, isIA := ref.(*ssa.IndexAddr); isIA {
					for _, r2 := range *ia.Referrers() {
						if st, isSt := r2.(*ssa.Store); isSt && st.Addr == ia && !m.canonical(st.Val, fn, depth+1) {
							okAll = false
						}
					}
				}
			}
			return okAll
		}
		return m.elements(x.X, fn, depth+1)
	case *ssa.UnOp:
		if a, ok := x.X.(*ssa.Alloc); ok && x.Op == token.MUL {
			okAll := true
			for _, ref := range *a.Referrers() {
				if st, isSt := ref.(*ssa.Store); isSt && st.Addr == a && !m.elements(st.Val, fn, depth+1) {
					okAll = false
				}
			}
			return okAll
		}
	}
	return m.fail(s, fn, "address list "+shortVal(s)+" of unknown origin")
}

func (m *canonModel) returnsCanonical(f *ssa.Function, idx int, list bool, depth int) bool {
	fv := m.p.View(m.p.Orig(f))
	for _, r := range returnsOf(fv) {
		if idx >= len(r.Results) || notMappedAt(r.Block()) {
			continue
		}
		if list {
			if !m.elements(r.Results[idx], fv, depth+1) {
				return false
			}
		} else if !m.canonical(r.Results[idx], fv, depth+1) {
			return false
		}
	}
	return true
}

func (m *canonModel) paramAtCallSites(prm *ssa.Parameter, fn *ssa.Function, list bool, depth int) bool {
	idx := -1
	for i, q := range fn.Params {
		if q == prm {
			idx = i
		}
	}
	sites := m.p.CallSitesOf(m.p.Orig(fn))
	if idx < 0 || len(sites) == 0 {
		return m.fail(prm, fn, "parameter "+prm.Name()+" has no visible call site")
	}
	for _, cs := range sites {
		if idx >= len(cs.Common().Args) || cs.Parent() == nil {
			continue
		}
		// the caller as it stands (its own helpers are followed when a value leads into them)
		caller := cs.Parent()
		if list {
			if !m.elements(cs.Common().Args[idx], caller, depth+1) {
				return false
			}
		} else if !m.canonical(cs.Common().Args[idx], caller, depth+1) {
			return false
		}
	}
	return true
}

func checkCanonicalAddresses(c *Ctx, rule string) {
	p := c.P
	n := 0
	for _, fn := range p.FuncsInPkg("dispatcher") {
		for _, b := range fn.Blocks {
			for _, ins := range b.Instrs {
				// direct: prefix.Contains(addr)
				if call, ok := ins.(*ssa.Call); ok && isNetipMethod(call, "Prefix", "Contains") && len(call.Call.Args) == 2 {
					n++
					m := &canonModel{p: p, busy: map[ssa.Value]bool{}}
					okc := m.canonical(call.Call.Args[1], fn, 0)
					c.Check(okc, rule, fmt.Sprintf("%s:prefix match #%d sees unmapped addresses", FuncName(fn), n), p.InstrPos(call),
						"every address reaching the match is the result of Unmap() or known not to be IPv4-mapped",
						"an address can reach the CIDR match in IPv4-mapped form ("+m.why+"): `[::ffff:10.1.2.3]` then matches no IPv4 deny rule and the delivery is sent")
					continue
				}
				// as a predicate: slices.ContainsFunc(addrs, prefix.Contains)
				call, ok := ins.(*ssa.Call)
				if !ok || len(call.Call.Args) != 2 {
					continue
				}
				g := call.Call.StaticCallee()
				if g == nil || g.Origin() == nil || g.Origin().Pkg == nil || g.Origin().Pkg.Pkg.Path() != "slices" || !strings.Contains(g.Origin().Name(), "Func") {
					continue
				}
				mc, ok := call.Call.Args[1].(*ssa.MakeClosure)
				if !ok {
					continue
				}
				bf, ok := mc.Fn.(*ssa.Function)
				if !ok || !strings.HasPrefix(bf.Name(), "Contains$bound") || len(mc.Bindings) != 1 || types.TypeString(mc.Bindings[0].Type(), nil) != "net/netip.Prefix" {
					continue
				}
				n++
				m := &canonModel{p: p, busy: map[ssa.Value]bool{}}
				okc := m.elements(call.Call.Args[0], fn, 0)
				c.Check(okc, rule, fmt.Sprintf("%s:prefix match #%d sees unmapped addresses", FuncName(fn), n), p.InstrPos(call),
					"every element of the address list is the result of Unmap() or known not to be IPv4-mapped",
					"an address can reach the CIDR match in IPv4-mapped form ("+m.why+"): `[::ffff:10.1.2.3]` then matches no IPv4 deny rule and the delivery is sent")
			}
		}
	}
	c.Floor(rule, "prefix matches", n, 1)
}
