package main

import (
	"fmt"
	"go/types"
	"sort"
	"strings"

	"golang.org/x/tools/go/ssa"
)

// C18.R11 — a reload changes the running system only inside its commit critical section.
//
// Everything a reload prepares before it takes the write lock (authenticators, limiters, route tables) has to be a
// new object: the reload can still fail after that point (secrets that do not load), and requests are being served
// from the old objects all the while. A store into a field of an object the running state already holds — a limiter
// "re-configured in place", a map of the running state updated before the swap — is a change of running behaviour
// that happens although the reload may be refused, and at a different instant than the rest of the configuration.
//
// Decided structurally: for every function reachable from a reload entry, every store into a field (or map held in a
// field) of a struct type that the runtime state can hold must either execute with the write lock held (directly, or
// because every call path from the entry to the function holds it), or target a fresh object: one allocated in the
// function, returned by a function all of whose results are fresh, or handed in by callers that pass a fresh object.

func checkReloadPreparesFreshObjects(c *Ctx, rule string, entries []*ssa.Function) {
	p := c.P
	rs := p.Named("app", "runtimeState")
	if rs == nil {
		c.Fail(rule, "anchor:runtimeState", "", "type not found")
		return
	}
	// struct types the running state can hold (module types, through pointers, maps, slices, fields, function-free)
	held := map[*types.Named]bool{}
	var visit func(t types.Type, depth int)
	visit = func(t types.Type, depth int) {
		if depth > 8 {
			return
		}
		switch x := t.(type) {
		case *types.Pointer:
			visit(x.Elem(), depth+1)
		case *types.Slice:
			visit(x.Elem(), depth+1)
		case *types.Array:
			visit(x.Elem(), depth+1)
		case *types.Map:
			visit(x.Key(), depth+1)
			visit(x.Elem(), depth+1)
		case *types.Alias:
			visit(types.Unalias(x), depth+1)
		case *types.Named:
			if x.Obj().Pkg() == nil || !strings.HasPrefix(x.Obj().Pkg().Path(), modPath) {
				return
			}
			st, ok := x.Underlying().(*types.Struct)
			if !ok || held[x] {
				return
			}
			held[x] = true
			for i := 0; i < st.NumFields(); i++ {
				visit(st.Field(i).Type(), depth+1)
			}
		}
	}
	visit(rs, 0)
	delete(held, rs) // stores to the state itself are C18.R1
	isHeld := func(t types.Type) (*types.Named, bool) {
		if pt, ok := t.Underlying().(*types.Pointer); ok {
			t = pt.Elem()
		}
		n, ok := types.Unalias(t).(*types.Named)
		if !ok {
			return nil, false
		}
		n = n.Origin()
		return n, held[n]
	}

	for _, entry := range entries {
		ename := "app." + entry.Name()
		reachE := p.Reach(entry)
		lm := p.lockAnalysisRW("app", "runtimeState", p.mutexField("app", "runtimeState"), reachE)
		isStateMethod := func(f *ssa.Function) bool {
			return f.Signature.Recv() != nil && namedName(f.Signature.Recv().Type()) == "runtimeState" && f.Parent() == nil
		}
		// lockedOnly[f]: every call site of f on the reload path executes with the write lock held
		lockedOnly := map[*ssa.Function]bool{}
		for f := range reachE {
			lockedOnly[f] = f != p.Orig(entry)
		}
		var insHeld func(ins ssa.Instruction) bool
		insHeld = func(ins ssa.Instruction) bool {
			f := ins.Parent()
			for f.Parent() != nil { // a function literal runs where its parent put it
				f = f.Parent()
			}
			if isStateMethod(f) && ins.Parent() == f {
				return lm.heldWrite[ins]
			}
			return lockedOnly[f]
		}
		for iter := 0; iter < 10; iter++ {
			changed := false
			for f := range reachE {
				if !lockedOnly[f] || f.Parent() != nil {
					continue
				}
				sites := 0
				ok := true
				for _, cs := range p.CallSitesOf(f) {
					if !reachE[p.Orig(cs.Parent())] {
						continue
					}
					sites++
					if !insHeld(cs) {
						ok = false
					}
				}
				if sites == 0 {
					ok = false // reached dynamically only: nothing known about the lock
				}
				if !ok {
					lockedOnly[f] = false
					changed = true
				}
			}
			if !changed {
				break
			}
		}

		// freshness of a value inside its function
		var fresh func(v ssa.Value, depth int, seen map[ssa.Value]bool) (bool, *ssa.Parameter)
		fresh = func(v ssa.Value, depth int, seen map[ssa.Value]bool) (bool, *ssa.Parameter) {
			if v == nil || depth > 8 {
				return false, nil
			}
			if seen[v] {
				return true, nil
			}
			seen[v] = true
			switch x := v.(type) {
			case *ssa.Alloc:
				if _, isPtrCell := x.Type().(*types.Pointer).Elem().Underlying().(*types.Pointer); isPtrCell {
					// a local cell holding a pointer: what was stored in it
					okAll := true
					var par *ssa.Parameter
					n := 0
					for _, ref := range *x.Referrers() {
						if st, ok := ref.(*ssa.Store); ok && st.Addr == x {
							n++
							f, pp := fresh(st.Val, depth+1, seen)
							if !f {
								okAll = false
								if pp != nil {
									par = pp
								}
							}
						}
					}
					return okAll && n > 0, par
				}
				return true, nil
			case *ssa.MakeMap, *ssa.MakeSlice, *ssa.MakeChan, *ssa.MakeClosure:
				return true, nil
			case *ssa.Const:
				return true, nil // nil
			case *ssa.Parameter:
				return false, x
			case *ssa.Phi:
				var par *ssa.Parameter
				for _, e := range x.Edges {
					f, pp := fresh(e, depth+1, seen)
					if !f {
						return false, pp
					}
					_ = par
				}
				return true, nil
			case *ssa.ChangeType:
				return fresh(x.X, depth+1, seen)
			case *ssa.MakeInterface:
				return fresh(x.X, depth+1, seen)
			case *ssa.Extract:
				if call, ok := x.Tuple.(*ssa.Call); ok {
					return freshResult(p, call, x.Index, depth, fresh)
				}
				return false, nil
			case *ssa.Call:
				return freshResult(p, x, 0, depth, fresh)
			case *ssa.UnOp:
				if al, ok := x.X.(*ssa.Alloc); ok {
					return fresh(al, depth+1, seen)
				}
				return false, nil
			case *ssa.FieldAddr:
				// a field of a fresh object is fresh storage
				return fresh(x.X, depth+1, seen)
			case *ssa.IndexAddr:
				return fresh(x.X, depth+1, seen)
			case *ssa.Slice:
				return fresh(x.X, depth+1, seen)
			}
			return false, nil
		}

		type finding struct{ key, pos, msg string }
		var bad []finding
		nStores, nFresh, nLocked := 0, 0, 0
		// paramFreshAtCallers: is the object bound to parameter par of f fresh at every unlocked call site on the path?
		var paramFresh func(f *ssa.Function, par *ssa.Parameter, depth int) (bool, string)
		paramFresh = func(f *ssa.Function, par *ssa.Parameter, depth int) (bool, string) {
			if depth > 5 {
				return false, "call chain too deep"
			}
			idx := -1
			for i, q := range f.Params {
				if q == par {
					idx = i
				}
			}
			if idx < 0 {
				return false, "captured variable"
			}
			sites := 0
			for _, cs := range p.CallSitesOf(f) {
				caller := p.Orig(cs.Parent())
				if !reachE[caller] {
					continue
				}
				sites++
				if insHeld(cs) {
					continue
				}
				args := cs.Common().Args
				if cs.Common().IsInvoke() || idx >= len(args) || cs.Common().StaticCallee() == nil || unwrapBound(cs.Common().StaticCallee()) != f {
					return false, "bound at " + p.InstrPos(cs) + " in a way that is not followed"
				}
				ok, pp := fresh(args[idx], 0, map[ssa.Value]bool{})
				if ok {
					continue
				}
				if pp != nil {
					if ok2, why := paramFresh(cs.Parent(), pp, depth+1); ok2 {
						continue
					} else {
						return false, why
					}
				}
				return false, fmt.Sprintf("%s passes an object that already exists (%s) at %s", FuncName(caller), shortVal18(args[idx]), p.InstrPos(cs))
			}
			if sites == 0 {
				return false, "no call site on the reload path is resolved statically"
			}
			return true, ""
		}
		var fns []*ssa.Function
		for f := range reachE {
			fns = append(fns, f)
		}
		sort.Slice(fns, func(i, j int) bool { return fns[i].Pos() < fns[j].Pos() })
		for _, fn := range fns {
			for _, b := range fn.Blocks {
				for _, ins := range b.Instrs {
					var base ssa.Value
					var what string
					switch x := ins.(type) {
					case *ssa.Store:
						fa, ok := x.Addr.(*ssa.FieldAddr)
						if !ok {
							continue
						}
						n, ok := isHeld(fa.X.Type())
						if !ok {
							continue
						}
						st := n.Underlying().(*types.Struct)
						if namedPkgPath(st.Field(fa.Field).Type()) == "sync" {
							continue
						}
						base, what = fa.X, n.Obj().Name()+"."+st.Field(fa.Field).Name()
					case *ssa.MapUpdate:
						ld, ok := x.Map.(*ssa.UnOp)
						if !ok {
							continue
						}
						fa, ok := ld.X.(*ssa.FieldAddr)
						if !ok {
							continue
						}
						n, ok := isHeld(fa.X.Type())
						if !ok {
							continue
						}
						base, what = fa.X, "map "+n.Obj().Name()+"."+n.Underlying().(*types.Struct).Field(fa.Field).Name()
					default:
						continue
					}
					nStores++
					if insHeld(ins) {
						nLocked++
						continue
					}
					ok, par := fresh(base, 0, map[ssa.Value]bool{})
					why := ""
					if !ok && par != nil {
						ok, why = paramFresh(fn, par, 0)
					} else if !ok {
						why = "the object is " + shortVal18(base)
					}
					if ok {
						nFresh++
						continue
					}
					bad = append(bad, finding{fmt.Sprintf("%s:%s written in %s", ename, what, FuncName(fn)), p.InstrPos(ins),
						fmt.Sprintf("%s is written on the reload path without the write lock, in an object that is not new (%s): the running system changes before — and whether or not — the reload commits (a reload refused at secret loading has already changed live behaviour, and a successful one switches this part at another instant than the rest)", what, why)})
				}
			}
		}
		seenKey := map[string]int{}
		for _, f := range bad {
			seenKey[f.key]++
			k := f.key
			if seenKey[f.key] > 1 {
				k = fmt.Sprintf("%s#%d", f.key, seenKey[f.key])
			}
			c.Fail(rule, k, f.pos, f.msg)
		}
		c.Check(len(bad) == 0 && nStores > 0, rule, ename+":objects written before the commit are new", p.Pos(entry.Pos()),
			fmt.Sprintf("%d store(s) into state-holdable objects on the reload path: %d under the write lock, %d into objects created by the reload itself", nStores, nLocked, nFresh),
			"see findings")
		c.Count("stores into state-holdable objects on the reload path", nStores)
	}
}

// freshResult: result #idx of the call is a new object on every return of the (module) callee.
func freshResult(p *Program, call *ssa.Call, idx int, depth int, fresh func(ssa.Value, int, map[ssa.Value]bool) (bool, *ssa.Parameter)) (bool, *ssa.Parameter) {
	g := call.Call.StaticCallee()
	if g == nil || call.Call.IsInvoke() {
		return false, nil
	}
	if !IsModuleFunc(g) || len(g.Blocks) == 0 {
		// library constructors: a value-returning call of another module hands out what it made (maps.Clone, slices.Clone,
		// make-like helpers); pointers from libraries are not assumed fresh
		if g.Pkg != nil {
			switch g.Pkg.Pkg.Path() + "." + g.Name() {
			case "maps.Clone", "slices.Clone", "bytes.Clone":
				return true, nil
			}
		}
		return false, nil
	}
	if depth > 6 {
		return false, nil
	}
	for _, r := range returnsOf(g) {
		if idx >= len(r.Results) {
			return false, nil
		}
		ok, _ := fresh(r.Results[idx], depth+2, map[ssa.Value]bool{})
		if !ok {
			return false, nil
		}
	}
	return true, nil
}

func shortVal18(v ssa.Value) string {
	s := v.String()
	if len(s) > 60 {
		s = s[:60] + "…"
	}
	if n := v.Name(); n != "" && !strings.Contains(s, n) {
		s = n + " = " + s
	}
	return s
}
