package main

import (
	"fmt"

	"golang.org/x/tools/go/ssa"
)

// C13.R8 — error precedence parity on the enqueue paths.
//
// When a call is refused for two reasons at once (the queue is full and an id already exists) both backends must
// name the same one. SQLite cannot do otherwise than decide capacity first: the duplicate is only discovered by the
// INSERT, which runs after the depth decision inside the same transaction. The memory store is held to the same order:
// in Enqueue and EnqueueBatch no ErrQueueFull return is reachable once a duplicate-id test has been evaluated.

func isGlobalErr(v ssa.Value, name string) bool {
	if mi, ok := v.(*ssa.MakeInterface); ok {
		v = mi.X
	}
	if ci, ok := v.(*ssa.ChangeInterface); ok {
		v = ci.X
	}
	u, ok := v.(*ssa.UnOp)
	if !ok {
		return false
	}
	g, ok := u.X.(*ssa.Global)
	return ok && g.Name() == name
}

func checkErrorPrecedence(c *Ctx, rule string) {
	p := c.P
	n := 0
	for _, name := range []string{"Enqueue", "EnqueueBatch"} {
		fn := p.Func("queue", "(*MemoryStore)."+name)
		if fn == nil {
			c.Fail(rule, "memory."+name+":anchor", "", "method not found")
			continue
		}
		// duplicate-id tests: comma-ok lookups keyed by the envelope id
		var dupBlocks []*ssa.BasicBlock
		for _, b := range fn.Blocks {
			ifi, ok := b.Instrs[len(b.Instrs)-1].(*ssa.If)
			if !ok {
				continue
			}
			found := false
			var walk func(v ssa.Value, d int)
			walk = func(v ssa.Value, d int) {
				if d > 4 || v == nil || found {
					return
				}
				switch x := v.(type) {
				case *ssa.Extract:
					if lk, ok := x.Tuple.(*ssa.Lookup); ok && lk.CommaOk && x.Index == 1 {
						if _, f, ok := fieldOfLoad(lk.Index); ok && f == "ID" {
							found = true
						}
					}
				case *ssa.BinOp:
					walk(x.X, d+1)
					walk(x.Y, d+1)
				case *ssa.UnOp:
					walk(x.X, d+1)
				case *ssa.Phi:
					for _, e := range x.Edges {
						walk(e, d+1)
					}
				}
			}
			walk(ifi.Cond, 0)
			if found {
				dupBlocks = append(dupBlocks, b)
			}
		}
		if len(dupBlocks) == 0 {
			c.Fail(rule, "memory."+name+":duplicate test found", p.Pos(fn.Pos()), "no comma-ok lookup keyed by the envelope id found")
			continue
		}
		var starts []*ssa.BasicBlock
		for _, b := range dupBlocks {
			starts = append(starts, b.Succs...)
		}
		par := reach(starts, nil, nil)
		seenC := map[string]int{}
		k := 0
		for _, ld := range sentinelLoads(fn, "ErrQueueFull") {
			k++
			n++
			_, after := par[ld.Block()]
			// name the refusal by the policy branch it sits on
			kind := "drop_oldest: too few droppable items"
			for _, pc := range dominatingConds(ld.Block(), nil) {
				if bo, ok := pc.Cond.(*ssa.BinOp); ok {
					if _, f, ok := fieldOfLoad(bo.X); ok && f == p.rolesOf("MemoryStore").dropPolicy {
						if a := condAtom(bo, pc.Val); a.Op.String() == "!=" {
							kind = "reject policy"
						}
					}
				}
			}
			construct := fmt.Sprintf("memory.%s:ErrQueueFull (%s) is decided before any duplicate-id test", name, kind)
			if seenC[construct] > 0 {
				construct = fmt.Sprintf("%s #%d", construct, seenC[construct]+1)
			}
			seenC[fmt.Sprintf("memory.%s:ErrQueueFull (%s) is decided before any duplicate-id test", name, kind)]++
			c.Check(!after, rule, construct, p.InstrPos(ld),
				"capacity refusal not reachable after a duplicate test (same order as SQLite, where the duplicate surfaces only at the INSERT)",
				"this ErrQueueFull return is reachable after a duplicate-id test: a call that is both over capacity and repeats an id gets ErrEnvelopeExists from the memory store but ErrQueueFull from SQLite")
		}
		if k == 0 {
			c.Fail(rule, "memory."+name+":capacity refusals found", p.Pos(fn.Pos()), "no ErrQueueFull return")
		}
	}
	// SQLite: the capacity refusal precedes the INSERT in every function that can return both
	for _, s := range p.SQL().Stmts {
		if s.Backend != "sqlite" || s.Verb() != "INSERT" || s.Table() != "queue_items" || s.Fn == nil {
			continue
		}
		call := ssaCallAt(s.Fn, s.Site.call.Lparen)
		holder := s.Fn
		if call == nil {
			for _, a := range allAnon(s.Fn) {
				if cc := ssaCallAt(a, s.Site.call.Lparen); cc != nil {
					call, holder = cc, a
				}
			}
		}
		if call == nil {
			continue
		}
		par := reach(call.Block().Succs, nil, nil)
		bad := false
		has := false
		for _, ld := range sentinelLoads(holder, "ErrQueueFull") {
			has = true
			if _, after := par[ld.Block()]; after {
				bad = true
			}
		}
		if has {
			n++
			c.Check(!bad, rule, "sqlite."+holder.Name()+":ErrQueueFull is decided before the INSERT", s.Pos, "no capacity refusal after the INSERT", "a capacity refusal is reachable after the INSERT (which is where a duplicate id surfaces)")
		}
	}
	c.Floor(rule, "capacity refusals examined", n, 4)
}

// sentinelLoads: loads of the package-level error `name` in fn that are returned/stored (not merely compared with errors.Is).
func sentinelLoads(fn *ssa.Function, name string) []*ssa.UnOp {
	var out []*ssa.UnOp
	for _, b := range fn.Blocks {
		for _, ins := range b.Instrs {
			u, ok := ins.(*ssa.UnOp)
			if !ok {
				continue
			}
			g, ok := u.X.(*ssa.Global)
			if !ok || g.Name() != name {
				continue
			}
			used := false
			for _, ref := range *u.Referrers() {
				if ci, ok := ref.(ssa.CallInstruction); ok && calleeIs(ci, "errors", "", "Is") {
					continue
				}
				used = true
			}
			if used {
				out = append(out, u)
			}
		}
	}
	return out
}
