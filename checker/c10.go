package main

import (
	"os"
	"fmt"
	"go/constant"
	"go/token"
	"go/types"
	"sort"
	"strings"

	"golang.org/x/tools/go/ssa"
)

func init() { register("C10", checkC10) }

// stringAcceptSet: for a func(T) bool predicate, which constants of `domain` for the string
// symbol ending in symSuffix make it return true. undecided lists uninterpreted guards.
func stringAcceptSet(fn *ssa.Function, symSuffix string, domain []string) (map[string]bool, []string) {
	acc := map[string]bool{}
	var und []string
	for _, pa := range enumeratePaths(fn.Blocks[0], 500) {
		for _, u := range pa.Unknown {
			und = append(und, "guard not understood: "+u)
		}
		for _, half := range boolResultPaths(pa) {
			if !half.Ok {
				und = append(und, "return value not understood")
				continue
			}
			if !half.Val {
				continue
			}
			if len(half.St.ints) > 0 || len(half.St.bools) > 0 || len(half.St.rels) > 0 {
				und = append(und, "unexpected non-string guard")
			}
			for _, v := range domain {
				ok := true
				for sym, eq := range half.St.strEq {
					if !strings.HasSuffix(sym, symSuffix) {
						und = append(und, "unexpected symbol "+sym)
					}
					if eq != v {
						ok = false
					}
				}
				for sym, neqs := range half.St.strNeq {
					if !strings.HasSuffix(sym, symSuffix) {
						und = append(und, "unexpected symbol "+sym)
					}
					for _, n := range neqs {
						if n == v {
							ok = false
						}
					}
				}
				if ok {
					acc[v] = true
				}
			}
		}
	}
	return acc, dedup(und)
}

func channelDomain(p *Program) []string {
	var out []string
	pk := p.Pkg("config")
	for _, name := range pk.Types.Scope().Names() {
		if cst, ok := pk.Types.Scope().Lookup(name).(*types.Const); ok && namedName(cst.Type()) == "ChannelType" {
			out = append(out, constant.StringVal(cst.Val()))
		}
	}
	sort.Strings(out)
	return out
}

func checkC10(c *Ctx) {
	p := c.P
	c.Rule("C10.R1", "channel isolation: in the functions wired into ingress.Server.ResolveRoute and AllowedMethodsFor, a route is yielded/considered only behind a test of its ChannelType whose accept set is ⊆ {\"\", inbound}")
	c.Rule("C10.R2", "every criterion is applied: the route-yielding return is behind the true edge of the path, host, header, query, remote-IP and method matchers; every field of config.MatchConfig is read; the allowed-methods function applies the same matchers minus methods")
	c.Rule("C10.R3", "no effect without a route: from the not-resolved edge of the ingress handler no Store call is reachable; it answers 405 (with Allow) only when allowed methods exist, else 404")
	c.Rule("C10.R4", "boundary on partial matches: a wildcard host suffix match includes the '.' label boundary and a path prefix match the '/' segment boundary")
	c.Rule("C10.R5", "a compiled route owns its match lists: every list stored into a config.MatchConfig field is fresh storage (nil, make, append onto its own list), never a named matcher's or other shared slice by reference")
	w := p.wiringTable()
	fs := w[fieldKey{"ingress.Server", "ResolveRoute"}]
	gs := w[fieldKey{"ingress.Server", "AllowedMethodsFor"}]
	var f, g *ssa.Function
	for _, t := range fs {
		if t.Pkg != nil && t.Pkg.Pkg.Path() == modPath+"/internal/app" {
			f = t
		}
	}
	for _, t := range gs {
		if t.Pkg != nil && t.Pkg.Pkg.Path() == modPath+"/internal/app" {
			g = t
		}
	}
	if f == nil || g == nil {
		c.Fail("C10.R1", "wiring:ingress.Server.ResolveRoute/AllowedMethodsFor", "", "the ingress route hooks are not wired to functions of package app")
		return
	}
	domain := channelDomain(p)
	c.Count("C10.R1.channel_types", len(domain))
	// channel predicates: func(CompiledRoute) bool in app, plus inline comparisons
	preds := map[*ssa.Function]bool{}
	for _, fn := range p.FuncsInPkg("app") {
		ps, rs := fn.Signature.Params(), fn.Signature.Results()
		if fn.Parent() == nil && fn.Signature.Recv() == nil && ps.Len() == 1 && rs.Len() == 1 && namedName(ps.At(0).Type()) == "CompiledRoute" && types.Identical(rs.At(0).Type(), types.Typ[types.Bool]) {
			acc, und := stringAcceptSet(fn, ".ChannelType", domain)
			if len(und) > 0 {
				continue
			}
			okSet := len(acc) > 0
			for v := range acc {
				if v != "" && v != "inbound" {
					okSet = false
				}
			}
			if okSet {
				preds[fn] = true
				var vs []string
				for v := range acc {
					vs = append(vs, fmt.Sprintf("%q", v))
				}
				sort.Strings(vs)
				c.Ok("C10.R1", "app."+fn.Name()+":accept-set", p.Pos(fn.Pos()), "ChannelType accept set = {"+strings.Join(vs, ",")+"}")
			}
		}
	}
	channelEdges := func(fn *ssa.Function) []Edge {
		var out []Edge
		for _, b := range fn.Blocks {
			for i := range b.Succs {
				a, ok := edgeAtom(Edge{b, i})
				if !ok {
					continue
				}
				if call, isCall := a.X.(*ssa.Call); isCall && isBoolTrue(a.Y) && a.Op == token.EQL {
					if cf := call.Call.StaticCallee(); cf != nil && preds[cf] {
						out = append(out, Edge{b, i})
					}
				}
				// inline: rt.ChannelType == "" / "inbound"
				if sym, ok := symOf(a.X); ok && strings.HasSuffix(sym, ".ChannelType") && a.Op == token.EQL {
					if cs, ok := constString(a.Y); ok && (cs == "" || cs == "inbound") {
						out = append(out, Edge{b, i})
					}
				}
			}
		}
		return out
	}
	// f: returns yielding a route (second result true)
	yielding := func(fn *ssa.Function) []ssa.Instruction {
		var out []ssa.Instruction
		for _, r := range returnsOf(fn) {
			if len(r.Results) == 2 {
				v := r.Results[1]
				if u, ok := v.(*ssa.UnOp); ok {
					if a, ok := u.X.(*ssa.Alloc); ok {
						for _, ins := range r.Block().Instrs {
							if st, ok := ins.(*ssa.Store); ok && st.Addr == a {
								v = st.Val
							}
						}
					}
				}
				if cst, ok := v.(*ssa.Const); ok && cst.Value != nil && cst.Value.String() == "true" {
					out = append(out, r)
				}
			}
		}
		return out
	}
	// within-iteration must-pass: from the loop header, avoiding `through`, the site must not be reachable before the next iteration
	iterMustPass := func(fn *ssa.Function, site ssa.Instruction, through []Edge) (bool, []string) {
		h := loopHeaderOf(site.Block())
		if h == nil {
			return p.MustPass(fn, site, through)
		}
		av := EdgeSet{}
		av.addAll(through)
		var starts []*ssa.BasicBlock
		for i, s := range h.Succs {
			if !av[Edge{h, i}] {
				starts = append(starts, s)
			}
		}
		par := reach(starts, av, map[*ssa.BasicBlock]bool{h: true})
		if _, ok := par[site.Block()]; ok {
			return false, p.blockPath(par, site.Block())
		}
		return true, nil
	}
	// Helpers of the package are part of the two functions, except the channel predicates and the leaf matchers
	// (bool functions over criteria values, not over a whole route), which the rules refer to by role.
	keepLeaf := func(callee *ssa.Function) bool {
		if preds[callee] {
			return true
		}
		r := callee.Signature.Results()
		if r.Len() != 1 || !types.Identical(r.At(0).Type(), types.Typ[types.Bool]) {
			return false
		}
		ps := callee.Signature.Params()
		for i := 0; i < ps.Len(); i++ {
			if namedName(ps.At(i).Type()) == "CompiledRoute" {
				return false
			}
		}
		return callee.Signature.Recv() == nil
	}
	f = p.ViewKeeping(f, keepLeaf)
	g = p.ViewKeeping(g, keepLeaf)
	ys := yielding(f)
	c.Floor("C10.R1", "route_yielding_returns", len(ys), 1)
	ce := channelEdges(f)
	for i, r := range ys {
		okp, path := iterMustPass(f, r, ce)
		key := fmt.Sprintf("app.%s:route-yield#%d:behind-channel-test", f.Name(), i+1)
		if okp && len(ce) > 0 {
			c.Ok("C10.R1", key, p.InstrPos(r), "a route is returned only behind ChannelType ∈ {\"\", inbound}")
		} else {
			c.Fail("C10.R1", key, p.InstrPos(r), "the resolver can hand a request to a route without testing that its channel type is inbound (outbound/internal routes reachable from ingress)", path...)
		}
	}
	// g: the statements that add methods to the result (append) must be behind the channel test
	ceg := channelEdges(g)
	apps := allCalls(g, func(ci ssa.CallInstruction) bool {
		bi, ok := ci.Common().Value.(*ssa.Builtin)
		return ok && bi.Name() == "append"
	})
	nG := 0
	for _, ap := range apps {
		if loopHeaderOf(ap.Block()) == nil {
			continue
		}
		nG++
		// outermost loop = the route loop: use the outer header
		okp, path := routeLoopMustPass(p, g, ap, ceg)
		key := fmt.Sprintf("app.%s:method-collected#%d:behind-channel-test", g.Name(), nG)
		if okp && len(ceg) > 0 {
			c.Ok("C10.R1", key, p.InstrPos(ap), "methods are collected only from routes with ChannelType ∈ {\"\", inbound}")
		} else {
			c.Fail("C10.R1", key, p.InstrPos(ap), "allowed methods are collected from routes whose channel type is not tested (a 405 would reveal/offer outbound or internal routes)", path...)
		}
	}
	c.Floor("C10.R1", "method_collection_sites", nG, 1)

	// ---- R2 ----
	type matcher struct {
		call  ssa.CallInstruction
		about string
	}
	matchersOf := func(fn *ssa.Function) []matcher {
		var out []matcher
		for _, ci := range allCalls(fn, func(ci ssa.CallInstruction) bool {
			cf := ci.Common().StaticCallee()
			if cf == nil || !IsModuleFunc(cf) || preds[cf] {
				return false
			}
			r := cf.Signature.Results()
			return r.Len() == 1 && types.Identical(r.At(0).Type(), types.Typ[types.Bool])
		}) {
			about := ""
			for _, a := range ci.Common().Args {
				if sym, ok := symOf(a); ok {
					if i := strings.Index(sym, ".Match."); i >= 0 {
						about += sym[i+7:] + "+"
					} else if strings.HasSuffix(sym, ".Path") {
						about += "Path+"
					}
				}
			}
			if about != "" {
				out = append(out, matcher{ci, strings.TrimSuffix(about, "+")})
			}
		}
		return out
	}
	requestNilEdges := func(fn *ssa.Function) []Edge {
		var out []Edge
		for _, b := range fn.Blocks {
			for i := range b.Succs {
				a, ok := edgeAtom(Edge{b, i})
				if ok && isNilConst(a.Y) && a.Op == token.EQL {
					if prm, ok := a.X.(*ssa.Parameter); ok && namedName(prm.Type()) == "Request" {
						out = append(out, Edge{b, i})
					}
				}
			}
		}
		return out
	}
	fm := matchersOf(f)
	c.Floor("C10.R2", "matchers_in_resolver", len(fm), 6)
	seenAbout := map[string]bool{}
	for _, m := range fm {
		seenAbout[m.about] = true
		ok, _, untested := GuardEdges(f, []ssa.CallInstruction{m.call}, BoolTrue)
		key := fmt.Sprintf("app.%s:matcher(%s)", f.Name(), m.about)
		if len(untested) > 0 {
			c.Fail("C10.R2", key, p.InstrPos(m.call), "matcher result is not tested")
			continue
		}
		through := append(append([]Edge{}, ok...), requestNilEdges(f)...)
		c.Assume("C10.R2: the *http.Request parameter is non-nil in production (nil-request edges of " + f.Name() + " accepted as alternative to the header/method matchers)")
		bad := false
		for _, r := range ys {
			if okp, path := iterMustPass(f, r, through); !okp {
				bad = true
				c.Fail("C10.R2", key, p.InstrPos(r), "a route can be yielded without the "+m.about+" criterion having matched", path...)
			}
		}
		if !bad {
			c.Ok("C10.R2", key, p.InstrPos(m.call), "route yielded only on the matcher's true edge")
		}
	}
	for _, want := range []string{"Path", "Hosts", "Methods", "RemoteIPs"} {
		found := false
		for a := range seenAbout {
			if strings.Contains(a, want) {
				found = true
			}
		}
		c.Check(found, "C10.R2", "app."+f.Name()+":criterion-"+want, p.Pos(f.Pos()), want+" criterion evaluated", "no matcher evaluates the "+want+" criterion")
	}
	// all MatchConfig fields read
	if T := p.Named("config", "MatchConfig"); T != nil {
		st := T.Underlying().(*types.Struct)
		for _, fn := range []*ssa.Function{f, g} {
			read := map[string]bool{}
			for _, b := range fn.Blocks {
				for _, ins := range b.Instrs {
					if v, ok := ins.(ssa.Value); ok {
						if sym, ok := symOf(v); ok {
							if i := strings.Index(sym, ".Match."); i >= 0 {
								read[strings.SplitN(sym[i+7:], ".", 2)[0]] = true
							}
						}
					}
				}
			}
			var missing []string
			for i := 0; i < st.NumFields(); i++ {
				if !read[st.Field(i).Name()] {
					missing = append(missing, st.Field(i).Name())
				}
			}
			c.Check(len(missing) == 0, "C10.R2", "app."+fn.Name()+":reads-every-MatchConfig-field", p.Pos(fn.Pos()), fmt.Sprintf("%d fields of MatchConfig read", st.NumFields()), "match criteria never consulted: "+strings.Join(missing, ","))
		}
	}
	// g applies the same matcher functions minus methods
	gm := matchersOf(g)
	gset := map[string]bool{}
	for _, m := range gm {
		gset[m.about] = true
		ok, _, untested := GuardEdges(g, []ssa.CallInstruction{m.call}, BoolTrue)
		key := fmt.Sprintf("app.%s:matcher(%s)", g.Name(), m.about)
		if len(untested) > 0 {
			c.Fail("C10.R2", key, p.InstrPos(m.call), "matcher result is not tested")
			continue
		}
		bad := false
		for _, ap := range apps {
			if loopHeaderOf(ap.Block()) == nil {
				continue
			}
			if okp, path := routeLoopMustPass(p, g, ap, append(append([]Edge{}, ok...), requestNilEdges(g)...)); !okp {
				bad = true
				c.Fail("C10.R2", key, p.InstrPos(ap), "methods collected without the "+m.about+" criterion having matched", path...)
			}
		}
		if !bad {
			c.Ok("C10.R2", key, p.InstrPos(m.call), "methods collected only on the matcher's true edge")
		}
	}
	for a := range seenAbout {
		if strings.Contains(a, "Methods") {
			continue
		}
		c.Check(gset[a], "C10.R2", "app."+g.Name()+":sibling-applies("+a+")", p.Pos(g.Pos()), "same criterion as the resolver", "the allowed-methods function does not apply the "+a+" criterion that the resolver applies")
	}

	// ---- R3 ----
	serve := p.Func("ingress", "(*Server).ServeHTTP")
	if serve == nil {
		c.Fail("C10.R3", "anchor:ingress.ServeHTTP", "", "anchor not found")
	} else {
		res := allCalls(serve, func(ci ssa.CallInstruction) bool {
			cf := ci.Common().StaticCallee()
			if cf == nil {
				return isFieldCall(ci, "Server", "ResolveRoute")
			}
			return cf.Pkg != nil && cf.Pkg.Pkg.Path() == ingressPath && p.FuncReaches(cf, func(x ssa.CallInstruction) bool { return isFieldCall(x, "Server", "ResolveRoute") }, map[*ssa.Function]bool{}) && cf.Signature.Results().Len() == 2
		})
		_, fail, untested := GuardEdges(serve, res, BoolTrue)
		if len(res) == 0 || len(untested) > 0 || len(fail) == 0 {
			c.Fail("C10.R3", "ingress.ServeHTTP:route-resolution-tested", p.Pos(serve.Pos()), "route resolution result not tested")
		} else {
			bad := false
			for _, sc := range allCalls(serve, func(ci ssa.CallInstruction) bool {
				return ci.Common().IsInvoke() && namedPkgPath(ci.Common().Value.Type()) == queuePath
			}) {
				if okn, path := p.NoPathFrom(fail, sc, nil); !okn {
					bad = true
					c.Fail("C10.R3", "ingress.ServeHTTP:no-store-call-without-route", p.InstrPos(sc), "a Store call is reachable although no route matched", path...)
				}
			}
			if !bad {
				c.Ok("C10.R3", "ingress.ServeHTTP:no-store-call-without-route", p.InstrPos(res[0]), "no Store call reachable from the not-resolved edge")
			}
			var starts []*ssa.BasicBlock
			for _, e := range fail {
				starts = append(starts, e.To())
			}
			par := reach(starts, nil, nil)
			var codes []int64
			okAllow := true
			for _, s := range responseSinks(serve) {
				if _, in := par[s.Instr.Block()]; !in {
					continue
				}
				if s.Kind == respStatusConst {
					codes = append(codes, s.Status)
					if s.Status == 405 {
						// behind len(allowed) > 0
						var ge []Edge
						for _, b := range serve.Blocks {
							for i := range b.Succs {
								a, ok := edgeAtom(Edge{b, i})
								if ok && lenArg(a.X) != nil && a.Op == token.GTR && isIntConst(a.Y, 0) {
									ge = append(ge, Edge{b, i})
								}
							}
						}
						if okp, _ := p.MustPass(serve, s.At(), ge); !okp || len(ge) == 0 {
							okAllow = false
						}
					}
				} else if s.Kind == respStatusDyn {
					codes = append(codes, -1)
				}
			}
			sort.Slice(codes, func(i, j int) bool { return codes[i] < codes[j] })
			set := map[int64]bool{}
			for _, cd := range codes {
				set[cd] = true
			}
			okCodes := len(set) == 2 && set[404] && set[405]
			c.Check(okCodes && okAllow, "C10.R3", "ingress.ServeHTTP:not-found-statuses", p.InstrPos(res[0]), "not-resolved answers 405 only behind len(allowed)>0, else 404", fmt.Sprintf("not-resolved path answers %v (405 behind allowed-methods=%v); must be exactly {404, 405-with-Allow}", codes, okAllow))
		}
	}

	// ---- R4 ----
	checkMatchBoundaries(c, "C10.R4", f)
	checkMatchListsOwned(c, "C10.R5")
}

// routeLoopMustPass: like MustPass but relative to the outermost loop containing site.
func routeLoopMustPass(p *Program, fn *ssa.Function, site ssa.Instruction, through []Edge) (bool, []string) {
	h := loopHeaderOf(site.Block())
	for h != nil {
		// climb to the outermost header that still dominates site
		var outer *ssa.BasicBlock
		for _, b := range fn.Blocks {
			if b != h && b.Dominates(h) {
				if hh := loopHeaderOf(b); hh == b {
					// b is a header containing h?
					par := reach([]*ssa.BasicBlock{h}, nil, map[*ssa.BasicBlock]bool{b: true})
					if _, ok := par[b]; ok {
						if outer == nil || b.Dominates(outer) {
							outer = b
						}
					}
				}
			}
		}
		if outer == nil {
			break
		}
		h = outer
	}
	if h == nil {
		return p.MustPass(fn, site, through)
	}
	av := EdgeSet{}
	av.addAll(through)
	var starts []*ssa.BasicBlock
	for i, s := range h.Succs {
		if !av[Edge{h, i}] {
			starts = append(starts, s)
		}
	}
	par := reach(starts, av, map[*ssa.BasicBlock]bool{h: true})
	if _, ok := par[site.Block()]; ok {
		return false, p.blockPath(par, site.Block())
	}
	return true, nil
}

func checkMatchBoundaries(c *Ctx, rule string, resolver *ssa.Function) {
	p := c.P
	n := 0
	for fn := range p.Reach(resolver) {
		if !IsModuleFunc(fn) {
			continue
		}
		// each function in its view (verdict expressions split per path), counting only its own call sites
		fn := p.View(fn)
		for _, ci := range allCalls(fn, func(ci ssa.CallInstruction) bool {
			return calleeIs(ci, "strings", "", "HasSuffix") || calleeIs(ci, "strings", "", "HasPrefix") || calleeIs(ci, "strings", "", "CutPrefix") || calleeIs(ci, "strings", "", "CutSuffix")
		}) {
			if p.InlinedFrom(ci) != nil {
				continue
			}
			call := ci.(*ssa.Call)
			isSuffix := strings.HasSuffix(call.Call.StaticCallee().Name(), "Suffix")
			isCut := strings.HasPrefix(call.Call.StaticCallee().Name(), "Cut")
			pat := call.Call.Args[1]
			if _, isConst := pat.(*ssa.Const); isConst {
				continue // fixed marker such as "*." — not a partial match against configuration
			}
			n++
			if isCut {
				// strings.CutPrefix(x, pattern): the remainder must start (end) with the boundary character wherever the
				// verdict can be true
				key := fmt.Sprintf("%s:%s-boundary", FuncName(fn), map[bool]string{true: "suffix", false: "prefix"}[isSuffix])
				var rest ssa.Value
				for _, ref := range *call.Referrers() {
					if ex, ok := ref.(*ssa.Extract); ok && ex.Index == 0 {
						rest = ex
					}
				}
				bname, bchar := "HasPrefix", "/"
				if isSuffix {
					bname, bchar = "HasSuffix", "."
				}
				var bcalls []ssa.CallInstruction
				bvals := map[ssa.Value]bool{}
				if rest != nil {
					for _, ref := range *rest.Referrers() {
						if bc, ok := ref.(*ssa.Call); ok && calleeIs(bc, "strings", "", bname) && bc.Call.Args[0] == rest {
							if cs, ok := constString(bc.Call.Args[1]); ok && cs == bchar {
								bcalls = append(bcalls, bc)
								bvals[bc] = true
							}
						}
					}
				}
				bTrue, _, _ := GuardEdges(fn, bcalls, BoolTrue)
				// the boundary written out: rest == "" (exact match) or rest[0] == '/' (rest[len(rest)-1] == '.')
				isBoundaryCmp := func(v ssa.Value) bool {
					bo, ok := v.(*ssa.BinOp)
					if !ok || bo.Op != token.EQL || rest == nil {
						return false
					}
					if bo.X == rest {
						if cs, ok := constString(bo.Y); ok && cs == "" {
							return true
						}
					}
					var base, index ssa.Value
					switch ix := bo.X.(type) {
					case *ssa.Lookup:
						base, index = ix.X, ix.Index
					case *ssa.Index:
						base, index = ix.X, ix.Index
					}
					if base == rest && base != nil {
						if n, ok := intConst(bo.Y); ok && n == int64(bchar[0]) {
							if !isSuffix && isIntConst(index, 0) {
								return true
							}
							if isSuffix {
								return true
							}
						}
					}
					return false
				}
				nCmp := 0
				for _, b := range fn.Blocks {
					for _, ins := range b.Instrs {
						if v, ok := ins.(ssa.Value); ok && isBoundaryCmp(v) {
							bvals[v] = true
							nCmp++
						}
					}
					for i := range b.Succs {
						if a, ok := edgeAtom(Edge{b, i}); ok && a.Op == token.EQL {
							probe := &ssa.BinOp{Op: token.EQL, X: a.X, Y: a.Y}
							if isBoundaryCmp(probe) {
								bTrue = append(bTrue, Edge{b, i})
							}
						}
					}
				}
				okB := len(bcalls) > 0 || nCmp > 0
				if os.Getenv("HK_DEBUG") != "" {
					fmt.Println("DEBUG cut", FuncName(fn), "rest", rest != nil, "bcalls", len(bcalls), "nCmp", nCmp, "bTrue", len(bTrue))
				}
				matched, _, _ := GuardEdges(fn, []ssa.CallInstruction{call}, BoolTrue)
				for _, r := range returnsOf(fn) {
					if len(r.Results) == 0 {
						continue
					}
					alts := []ssa.Value{r.Results[0]}
					var via []*ssa.BasicBlock
					if phi, ok := r.Results[0].(*ssa.Phi); ok {
						alts = phi.Edges
						via = phi.Block().Preds
					}
					for ai, alt := range alts {
						if bvals[alt] {
							continue
						}
						if cst, ok := alt.(*ssa.Const); ok && cst.Value != nil && cst.Value.String() == "false" {
							continue
						}
						at := ssa.Instruction(r)
						if via != nil {
							at = via[ai].Instrs[len(via[ai].Instrs)-1]
							// the alternative arrives over a boundary-test edge itself
							overBoundary := false
							for _, be := range bTrue {
								if be.From == via[ai] && be.To() == r.Results[0].(*ssa.Phi).Block() {
									overBoundary = true
								}
							}
							if overBoundary {
								continue
							}
						}
						// a possibly-true verdict: only acceptable when not reachable from the partial match's ok edge
						// without the boundary test's true edge
						if len(matched) > 0 {
							if okn, w := p.NoPathFrom(matched, at, bTrue); !okn {
								if os.Getenv("HK_DEBUG") != "" {
									fmt.Println("DEBUG cut alt", alt.String(), p.InstrPos(at), w)
								}
								okB = false
							}
						}
					}
				}
				c.Check(okB, rule, key, p.InstrPos(call), "the remainder after the configured "+map[bool]string{true: "suffix", false: "prefix"}[isSuffix]+" is tested for the boundary character", "a partial "+map[bool]string{true: "suffix", false: "prefix"}[isSuffix]+" match (Cut) decides routing without a label/segment boundary (look-alike names would match)")
				continue
			}
			key := fmt.Sprintf("%s:%s-boundary", FuncName(fn), map[bool]string{true: "suffix", false: "prefix"}[isSuffix])
			okB := false
			how := ""
			// (a) the pattern itself carries the boundary: "." + x  /  x + "/"
			if bo, ok := pat.(*ssa.BinOp); ok && bo.Op == token.ADD {
				if s, ok := constString(bo.X); ok && isSuffix && s == "." {
					okB, how = true, `pattern = "." + suffix`
				}
				if s, ok := constString(bo.Y); ok && !isSuffix && s == "/" {
					okB, how = true, `pattern = prefix + "/"`
				}
			}
			// (b) suffix taken as h[1:] of a "*.x" pattern (keeps the dot)
			if sl, ok := pat.(*ssa.Slice); ok && isSuffix && sl.Low != nil && isIntConst(sl.Low, 1) {
				okB, how = true, "pattern = wildcard[1:] (keeps the dot)"
			}
			// (c) a `true` verdict after this call is only reachable behind a byte comparison with the boundary character
			if !okB {
				want := int64('/')
				if isSuffix {
					want = int64('.')
				}
				var be []Edge
				for _, b := range fn.Blocks {
					for i := range b.Succs {
						a, ok := edgeAtom(Edge{b, i})
						if ok && a.Op == token.EQL && isIntConst(a.Y, want) {
							be = append(be, Edge{b, i})
						}
					}
				}
				okEdges, _, _ := GuardEdges(fn, []ssa.CallInstruction{call}, BoolTrue)
				if len(be) > 0 && len(okEdges) > 0 {
					okAll := true
					for _, r := range returnsOf(fn) {
						if blockReturnsConstBool(r.Block(), true) {
							// reachable from the partial match's true edge?
							if okn, _ := p.NoPathFrom(okEdges, r, be); !okn {
								// is this return reachable from okEdges at all without passing boundary … only flag returns first reached after the match
								par := reach([]*ssa.BasicBlock{okEdges[0].To()}, nil, nil)
								if _, reached := par[r.Block()]; reached {
									// allow returns that are also reachable without the partial match (exact-match returns)
									if okp, _ := p.MustPass(fn, r, okEdges); okp {
										okAll = false
									}
								}
							}
						}
					}
					if okAll {
						okB, how = true, "verdict behind a comparison with the boundary character"
					}
				}
			}
			c.Check(okB, rule, key, p.InstrPos(call), how, "a partial "+map[bool]string{true: "suffix", false: "prefix"}[isSuffix]+" match decides routing without a label/segment boundary (look-alike names would match)")
		}
	}
	c.Floor(rule, "partial_match_sites", n, 2)
}
