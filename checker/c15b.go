package main

import (
	"fmt"
	"go/token"
	"strings"

	"golang.org/x/tools/go/ssa"
)

// C15.R6 — "resolves to an allowed target": the string a target resolver reports as resolved is a member of
// the allowed list: either an element of the list itself, or the caller's value on a path that compared it
// equal (Go string ==) with an element (modulo the same trimming applied to the element). Any other test —
// case folding, prefix match — returns a spelling that is not in the route's target set; dequeue and dispatch
// match targets byte for byte, so such a message is stored and never delivered.

func derivesFromSliceElem(v ssa.Value, slice ssa.Value, depth int) bool {
	if depth > 5 || v == nil {
		return false
	}
	switch x := v.(type) {
	case *ssa.UnOp:
		if ia, ok := x.X.(*ssa.IndexAddr); ok {
			return sameOriginLoad(ia.X, slice) || ia.X == slice
		}
	case *ssa.Call:
		if g := x.Call.StaticCallee(); g != nil && g.Pkg != nil && g.Pkg.Pkg.Path() == "strings" && (g.Name() == "TrimSpace") {
			return derivesFromSliceElem(x.Call.Args[0], slice, depth+1)
		}
	case *ssa.Phi:
		for _, e := range x.Edges {
			if !derivesFromSliceElem(e, slice, depth+1) {
				return false
			}
		}
		return len(x.Edges) > 0
	}
	return false
}

func checkResolvedTargetAllowed(c *Ctx, rule string) {
	p := c.P
	n := 0
	for _, fn := range p.FuncsInPkg("admin") {
		ps, rs := fn.Signature.Params(), fn.Signature.Results()
		if fn.Signature.Recv() != nil || ps.Len() != 2 || rs.Len() != 2 || !isStringT(ps.At(0).Type()) || !isStringSlice(ps.At(1).Type()) || !isStringT(rs.At(0).Type()) || rs.At(1).Type().String() != "bool" {
			continue
		}
		// a resolver "value within allowed list -> (resolved, ok)": every function of this shape in the package is held to the rule
		n++
		slice := ssa.Value(fn.Params[1])
		k := 0
		for _, pa := range enumeratePaths(fn.Blocks[0], 2000) {
			okV := resolveOnPath(pa.Ret.Results[1], pa)
			if cst, isC := okV.(*ssa.Const); !isC || cst.Value == nil || cst.Value.String() != "true" {
				continue
			}
			k++
			res := resolveOnPath(pa.Ret.Results[0], pa)
			construct := fmt.Sprintf("%s:resolved value #%d is a member of the allowed list", FuncName(fn), k)
			if derivesFromSliceElem(res, slice, 0) {
				c.Ok(rule, construct, p.InstrPos(pa.Ret), "returns an element of the allowed list")
				continue
			}
			// the caller's value: needs an == with an element on the path
			eq := false
			var tests []string
			for _, pc := range pathConds(pa) {
				switch x := pc.Cond.(type) {
				case *ssa.BinOp:
					if (x.Op == token.EQL) == pc.Val && (x.Op == token.EQL || x.Op == token.NEQ) {
						a, b := resolveOnPath(x.X, pa), resolveOnPath(x.Y, pa)
						if (sameOriginLoad(a, res) && derivesFromSliceElem(b, slice, 0)) || (sameOriginLoad(b, res) && derivesFromSliceElem(a, slice, 0)) {
							eq = true
						}
					}
				case *ssa.Call:
					if g := x.Call.StaticCallee(); g != nil && pc.Val {
						tests = append(tests, g.Name())
					}
				}
			}
			c.Check(eq, rule, construct, p.InstrPos(pa.Ret),
				"returns the caller's value only after == with an element of the allowed list",
				"the resolver reports the caller's spelling as resolved without having compared it equal (==) to an allowed target (tests on the path: "+strings.Join(tests, ", ")+"): a target that is not in the route's target set is accepted and stored")
		}
		c.Check(k > 0, rule, FuncName(fn)+":has resolving paths", p.Pos(fn.Pos()), fmt.Sprintf("%d resolving path(s)", k), "no path returns true")
	}
	c.Floor(rule, "target resolvers", n, 1)
}
