package main

// K1: call resolution, reachability and effect summaries.

import (
	"fmt"
	"go/token"
	"go/types"
	"os"
	"runtime/debug"
	"sort"

	"golang.org/x/tools/go/ssa"
)

// funcValueTargets resolves a function-typed SSA value to the functions it can
// denote: *ssa.Function, closures, bound methods ($bound), phi of those.
func funcValueTargets(v ssa.Value, depth int) []*ssa.Function {
	if depth > 6 {
		return nil
	}
	switch x := v.(type) {
	case *ssa.Function:
		return []*ssa.Function{x}
	case *ssa.MakeClosure:
		if f, ok := x.Fn.(*ssa.Function); ok {
			return []*ssa.Function{f}
		}
	case *ssa.ChangeType:
		return funcValueTargets(x.X, depth+1)
	case *ssa.MakeInterface:
		return funcValueTargets(x.X, depth+1)
	case *ssa.Phi:
		var out []*ssa.Function
		for _, e := range x.Edges {
			out = append(out, funcValueTargets(e, depth+1)...)
		}
		return out
	case *ssa.UnOp:
		if x.Op == token.MUL {
			if a, ok := x.X.(*ssa.Alloc); ok {
				if sv := reachingStore(a, x); sv != nil {
					return funcValueTargets(sv, depth+1)
				}
			}
		}
	}
	return nil
}

// unwrapBound: for a synthetic bound-method closure or thunk returns the
// underlying declared method.
func unwrapBound(f *ssa.Function) *ssa.Function {
	if f == nil || f.Synthetic == "" || len(f.Blocks) == 0 {
		return f
	}
	// bound method wrapper / thunk: single call to the real method
	var target *ssa.Function
	n := 0
	for _, b := range f.Blocks {
		for _, ins := range b.Instrs {
			if c, ok := ins.(ssa.CallInstruction); ok {
				n++
				if sc := c.Common().StaticCallee(); sc != nil {
					target = sc
				}
			}
		}
	}
	if n == 1 && target != nil {
		return target
	}
	return f
}

// wiring: function values stored into struct field T.F anywhere in the module.
type fieldKey struct{ typ, field string }

func (p *Program) wiringTable() map[fieldKey][]*ssa.Function {
	if p.wiring != nil {
		return p.wiring
	}
	w := map[fieldKey][]*ssa.Function{}
	for _, fn := range p.SrcFuncs {
		for _, b := range fn.Blocks {
			for _, ins := range b.Instrs {
				st, ok := ins.(*ssa.Store)
				if !ok {
					continue
				}
				fa, ok := st.Addr.(*ssa.FieldAddr)
				if !ok {
					continue
				}
				if _, isSig := st.Val.Type().Underlying().(*types.Signature); !isSig {
					continue
				}
				tn, f, ok := fieldAddrName(fa)
				if !ok || tn == "" {
					continue
				}
				qn := qualTypeName(fa.X.Type())
				for _, t := range funcValueTargets(st.Val, 0) {
					w[fieldKey{qn, f}] = append(w[fieldKey{qn, f}], unwrapBound(t))
				}
			}
		}
	}
	p.wiring = w
	return w
}

// implementers of an interface method among module types (cheap CHA restricted
// to the module).
func (p *Program) implementers(iface *types.Interface, method *types.Func) []*ssa.Function {
	key := method
	if r, ok := p.implCache[key]; ok {
		return r
	}
	var out []*ssa.Function
	for _, pk := range p.Pkgs {
		sc := pk.Types.Scope()
		for _, name := range sc.Names() {
			tn, ok := sc.Lookup(name).(*types.TypeName)
			if !ok || tn.IsAlias() {
				continue
			}
			if _, isIface := tn.Type().Underlying().(*types.Interface); isIface {
				continue
			}
			for _, T := range []types.Type{tn.Type(), types.NewPointer(tn.Type())} {
				if types.Implements(T, iface) {
					sel := p.SSA.MethodSets.MethodSet(T).Lookup(method.Pkg(), method.Name())
					if sel != nil {
						if f := p.SSA.MethodValue(sel); f != nil {
							out = append(out, unwrapBound(f))
						}
					}
					break
				}
			}
		}
	}
	if p.implCache == nil {
		p.implCache = map[*types.Func][]*ssa.Function{}
	}
	p.implCache[key] = out
	return out
}

// Callees resolves the possible module callees of a call instruction:
// static callee, closure/bound method, hook field wiring, interface
// implementers in the module. dynamic=true when the callee could not be
// resolved at all.
func (p *Program) Callees(c ssa.CallInstruction) (fns []*ssa.Function, dynamic bool) {
	com := c.Common()
	if com.IsInvoke() {
		it, ok := com.Value.Type().Underlying().(*types.Interface)
		if !ok {
			return nil, true
		}
		return p.implementers(it, com.Method), false
	}
	if f := com.StaticCallee(); f != nil {
		return []*ssa.Function{unwrapBound(f)}, false
	}
	if _, ok := com.Value.(*ssa.Builtin); ok {
		return nil, false
	}
	if ts := funcValueTargets(com.Value, 0); len(ts) > 0 {
		for i := range ts {
			ts[i] = unwrapBound(ts[i])
		}
		return ts, false
	}
	if _, f, ok := fieldOfLoad(com.Value); ok {
		if ts := p.wiringTable()[fieldKey{qualTypeName(fieldOwnerPtr(com.Value)), f}]; len(ts) > 0 {
			return ts, false
		}
	}
	return nil, true
}

// Reach computes the set of module functions reachable from the roots through
// Callees (plus anonymous functions created inside reached functions).
func (p *Program) Reach(roots ...*ssa.Function) map[*ssa.Function]bool {
	for i, r := range roots {
		if o := p.Orig(r); o != r { // an inlined view: the call graph knows the original
			roots = append([]*ssa.Function(nil), roots...)
			roots[i] = o
		}
	}
	seen := map[*ssa.Function]bool{}
	var work []*ssa.Function
	push := func(f *ssa.Function) {
		// module functions only: the standard library cannot call back into the module except through
		// function values, which are followed at the call site below
		if f != nil && !seen[f] && len(f.Blocks) > 0 && IsModuleFunc(f) {
			seen[f] = true
			work = append(work, f)
		}
	}
	for _, r := range roots {
		if p.rootsUsed != nil && r != nil && IsModuleFunc(r) && !p.auditing {
			if os.Getenv("HK_ROOTDBG") != "" && r.Name() == os.Getenv("HK_ROOTDBG") && !p.rootsUsed[r] {
				fmt.Fprintf(os.Stderr, "ROOTDBG %s\n%s\n", r.Name(), debug.Stack())
			}
			p.rootsUsed[r] = true
		}
		push(r)
	}
	if p.succCache == nil {
		p.succCache = map[*ssa.Function][]*ssa.Function{}
	}
	for len(work) > 0 {
		f := work[len(work)-1]
		work = work[:len(work)-1]
		succ, ok := p.succCache[f]
		if !ok {
			for _, b := range f.Blocks {
				for _, ins := range b.Instrs {
					switch x := ins.(type) {
					case ssa.CallInstruction:
						fs, _ := p.Callees(x)
						succ = append(succ, fs...)
						// function values passed as arguments may be called by the callee
						for _, a := range x.Common().Args {
							for _, g := range funcValueTargets(a, 0) {
								succ = append(succ, unwrapBound(g))
							}
						}
					case *ssa.MakeClosure:
						if g, ok := x.Fn.(*ssa.Function); ok {
							succ = append(succ, g)
						}
					}
				}
			}
			p.succCache[f] = succ
		}
		for _, g := range succ {
			push(g)
		}
	}
	return seen
}

// CallReaches reports whether a call instruction can reach (transitively) a
// call satisfying pred; the call itself counts.
func (p *Program) CallReaches(c ssa.CallInstruction, pred func(ssa.CallInstruction) bool, memo map[*ssa.Function]bool) bool {
	if pred(c) {
		return true
	}
	fs, _ := p.Callees(c)
	for _, a := range c.Common().Args {
		for _, g := range funcValueTargets(a, 0) {
			fs = append(fs, unwrapBound(g))
		}
	}
	for _, f := range fs {
		if p.FuncReaches(f, pred, memo) {
			return true
		}
	}
	return false
}

// FuncReaches: some call satisfying pred is reachable from f.
func (p *Program) FuncReaches(f *ssa.Function, pred func(ssa.CallInstruction) bool, memo map[*ssa.Function]bool) bool {
	f = p.Orig(f)
	if f == nil || len(f.Blocks) == 0 || !IsModuleFunc(f) {
		return false
	}
	if v, ok := memo[f]; ok {
		return v
	}
	memo[f] = false // cycle guard
	for g := range p.Reach(f) {
		for _, b := range g.Blocks {
			for _, ins := range b.Instrs {
				if c, ok := ins.(ssa.CallInstruction); ok && pred(c) {
					memo[f] = true
					return true
				}
			}
		}
	}
	return false
}

func sortedFuncs(m map[*ssa.Function]bool) []*ssa.Function {
	var out []*ssa.Function
	for f := range m {
		out = append(out, f)
	}
	sort.Slice(out, func(i, j int) bool { return out[i].String() < out[j].String() })
	return out
}

// CallSitesOf returns the call instructions in module source functions that
// can invoke fn: static calls, and — when fn is passed as a function value
// (closure, method value) to a static callee — the dynamic calls through the
// corresponding parameter inside that callee.
func (p *Program) CallSitesOf(fn *ssa.Function) []ssa.CallInstruction {
	fn = p.Orig(fn)
	if p.callSites == nil {
		p.callSites = map[*ssa.Function][]ssa.CallInstruction{}
		add := func(f *ssa.Function, c ssa.CallInstruction) {
			p.callSites[f] = append(p.callSites[f], c)
		}
		for _, g := range p.SrcFuncs {
			for _, b := range g.Blocks {
				for _, ins := range b.Instrs {
					c, ok := ins.(ssa.CallInstruction)
					if !ok {
						continue
					}
					if sc := c.Common().StaticCallee(); sc != nil {
						add(unwrapBound(sc), c)
						// function-valued arguments
						for i, a := range c.Common().Args {
							ts := funcValueTargets(a, 0)
							if len(ts) == 0 {
								continue
							}
							pi := i
							if len(sc.Blocks) == 0 || pi >= len(sc.Params) {
								continue
							}
							param := sc.Params[pi]
							for _, b2 := range sc.Blocks {
								for _, ins2 := range b2.Instrs {
									c2, ok := ins2.(ssa.CallInstruction)
									if ok && !c2.Common().IsInvoke() && c2.Common().Value == param {
										for _, t := range ts {
											add(unwrapBound(t), c2)
										}
									}
								}
							}
						}
					} else if !c.Common().IsInvoke() {
						for _, t := range funcValueTargets(c.Common().Value, 0) {
							add(unwrapBound(t), c)
						}
					}
				}
			}
		}
	}
	return p.callSites[fn]
}

// qualTypeName: "pkg.Type" for a (pointer to a) named type.
func qualTypeName(t types.Type) string {
	if t == nil {
		return ""
	}
	if p, ok := t.Underlying().(*types.Pointer); ok {
		t = p.Elem()
	}
	if p, ok := t.(*types.Pointer); ok {
		t = p.Elem()
	}
	if n, ok := t.(*types.Named); ok && n.Obj().Pkg() != nil {
		return n.Obj().Pkg().Name() + "." + n.Obj().Name()
	}
	return ""
}

// fieldOwnerPtr: for a load of a struct field, the type of the struct pointer.
func fieldOwnerPtr(v ssa.Value) types.Type {
	switch x := v.(type) {
	case *ssa.UnOp:
		if fa, ok := x.X.(*ssa.FieldAddr); ok {
			return fa.X.Type()
		}
	case *ssa.Field:
		return x.X.Type()
	}
	return nil
}

// SharedBy: the number of call sites of fn, counted at the first function up its chain of sole callers that has
// more than one — a helper that is only reached through one wrapper is as shared as that wrapper. Used to recognise
// maintenance helpers (retention pruning) that many operations run.
func (p *Program) SharedBy(fn *ssa.Function) int {
	fn = p.Orig(fn)
	seen := map[*ssa.Function]bool{}
	for fn != nil && !seen[fn] {
		seen[fn] = true
		cs := p.CallSitesOf(fn)
		if len(cs) != 1 {
			return len(cs)
		}
		parent := cs[0].Parent()
		for parent != nil && parent.Parent() != nil {
			parent = parent.Parent()
		}
		if parent == nil || parent.Object() == nil || parent.Object().Exported() {
			return 1
		}
		fn = parent
	}
	return 1
}
