package main

import (
	"fmt"
	"go/token"
	"go/types"
	"strings"

	"golang.org/x/tools/go/ssa"
)

func init() { register("C12", checkC12) }

func isEnqueueOp(root string) bool { return root == "Enqueue" || root == "EnqueueBatch" }

func checkC12(c *Ctx) {
	c.Rule("C12.R1", "evict only if stored: in the memory enqueue operations no error return is reachable after an eviction; in the SQL backends eviction and insert share one begin..commit function on its connection")
	c.Rule("C12.R2", "depth comparator: in every backend the queue is treated as full exactly when active + n - max_depth >= 1 (n = 1 for single enqueue, the batch size for batches), with active = queued + leased")
	c.Rule("C12.R3", "ingress refusals are typed and effect-free: body read through MaxBytesReader with the route limit (413), header-size test (413), rate-limit hook (429), enqueue error (503); no refusing edge reaches an enqueue and the header test dominates it")
	c.Rule("C12.R4", "token bucket shape: refill is clamped to burst before the admit test, admit needs tokens >= 1 and takes one, elapsed time is consumed (last = now) on every path on which it is credited or discarded, all under the limiter mutex; a route limiter overrides the global one")
	c.Rule("C12.R5", "an eviction shortfall is detected: a one-at-a-time evictor is called in a depth-driven loop (or once for one message) with its outcome tested; an evictor that takes the number wanted has its result compared with that number before anything is stored")
	checkFailedOpEffectFree(c, "C12.R1", isEnqueueOp)
	checkEvictInsertOneTx(c, "C12.R1")
	checkDepthComparator(c, "C12.R2")
	checkIngressRefusals(c, "C12.R3")
	checkTokenBucket(c, "C12.R4")
	checkEvictionShortfall(c, "C12.R5")
	c.Rule("C12.R6", "a capacity refusal is decided on the stored depth: on the inlined view of each SQLite enqueue operation every point that yields ErrQueueFull is reached only through a call that reads the depth from the database (queue_counters or a COUNT over queue_items) in the same invocation — never from a verdict remembered in process memory, which autocommit writers (operator cancel, retention) do not invalidate")
	checkRefusalReadsStoredDepth(c, "C12.R6")
	c.Rule("C12.R7", "limits follow a reload: every runtimeState field that start-up derives from the compiled configuration — the per-route size limits and rate limiters the admission hooks read among them — is derived again on the reload path (the analysis of C18.R12, claimed here because a size-limit index that only start-up builds lets over-limit requests through after a reload lowered the limit)")
	checkReloadRederives(c, "C12.R7", reloadEntries(c.P))
}

// checkEvictInsertOneTx: SQL drop-oldest statements execute inside the same transaction function as the INSERT.
func checkEvictInsertOneTx(c *Ctx, rule string) {
	p := c.P
	m := p.SQL()
	tx := p.Tx()
	n := 0
	for _, be := range []string{"sqlite", "postgres"} {
		seen := map[*SQLStmt]bool{}
		for _, t := range p.sqlTransitions(be) {
			if !isEnqueueOp(t.Root) || seen[t.Stmt] || t.Kind != "delete" {
				continue
			}
			// drop-oldest = delete {queued} reachable from Enqueue that is not the shared prune helper
			if t.From != ssParse("queued") || p.SharedBy(t.Stmt.Fn) >= 4 {
				continue
			}
			if strings.Contains(strings.ToLower(m.R(t.Stmt, strings.Join(t.Stmt.St.where, " "))), "received_at <=") {
				continue // age-based retention prune
			}
			seen[t.Stmt] = true
			n++
			in, why := siteInsideTx(p, tx, t.Stmt.Fn, t.Stmt.Site.call.Lparen, 0)
			onConn := !strings.HasPrefix(t.Stmt.Site.recvKind, "db")
			key := m.Key(t.Stmt) + ":evict-in-insert-transaction"
			if in && onConn {
				c.Ok(rule, key, t.Pos, "eviction runs on the transaction connection, "+why+" (rolled back with a failed insert)")
			} else if be == "postgres" {
				c.Note("%s: postgres drop-oldest eviction (%s) runs outside the insert transaction (%s); not armed — cannot be demonstrated without a server (DESIGN §4 F8)", rule, m.Key(t.Stmt), why)
				c.Ok(rule, key, t.Pos, "NOTE only (postgres): eviction outside a transaction")
			} else {
				c.Fail(rule, key, t.Pos, "drop-oldest eviction is not inside the transaction that inserts the new message: "+why)
			}
		}
	}
	c.Floor(rule, "sql_drop_oldest_statements", n, 2)
}

func checkIngressRefusals(c *Ctx, rule string) {
	p := c.P
	fn := p.Func("ingress", "(*Server).ServeHTTP")
	if fn == nil {
		c.Fail(rule, "anchor:ingress.ServeHTTP", "", "anchor not found")
		return
	}
	// helpers of the package are part of the handler, except the header-size step, which the rule names by its role
	// (a function of the package returning the stored header map and a verdict)
	isHeaderStep := func(cf *ssa.Function) bool {
		if cf == nil || cf.Pkg == nil || cf.Pkg.Pkg.Path() != ingressPath {
			return false
		}
		r := cf.Signature.Results()
		return r.Len() == 2 && types.Identical(r.At(1).Type(), types.Typ[types.Bool]) && strings.Contains(r.At(0).Type().String(), "map[string]string")
	}
	fn = p.ViewKeeping(fn, isHeaderStep)
	name := "ingress.ServeHTTP"
	enq := allCalls(fn, isAnyEnqueue)
	// body read
	readAll := allCalls(fn, func(ci ssa.CallInstruction) bool { return calleeIs(ci, "io", "", "ReadAll") })
	okMBR := false
	var limitDesc string
	for _, ra := range readAll {
		if mbr, ok := ra.Common().Args[0].(*ssa.Call); ok {
			inner := mbr
			if mi, ok := mbr.Common().Args[0].(*ssa.Call); ok && calleeIs(mbr, "", "", "") {
				inner = mi
			}
			_ = inner
		}
		for _, s := range sourcesOf(ra.Common().Args[0]) {
			if s.Kind == "call" && strings.Contains(s.Desc, "http.MaxBytesReader") {
				okMBR = true
				call := s.Val.(*ssa.Call)
				limitDesc = sourcesString(sourcesOf(call.Call.Args[2]))
				// the limit derives from the LimitsFor hook or the server default
				okLim := false
				for _, ls := range sourcesOf(call.Call.Args[2]) {
					if strings.Contains(ls.Desc, "MaxBodyBytes") || ls.Kind == "call" {
						okLim = true
					}
				}
				c.Check(okLim, rule, name+":body-limit-source", p.InstrPos(call), "limit = route limit (LimitsFor) or server default", "MaxBytesReader limit does not come from the route limits: "+limitDesc)
			}
		}
	}
	// the same bound spelled io.ReadAll(io.LimitReader(body, limit+1)) with len(body) <= limit tested before the enqueue
	lenGuarded := false
	if !okMBR {
		for _, ra := range readAll {
			call, isCall := ra.(*ssa.Call)
			if !isCall {
				continue
			}
			viaLimit := false
			for _, s := range sourcesOf(call.Call.Args[0]) {
				if s.Kind == "call" && strings.Contains(s.Desc, "io.LimitReader") {
					viaLimit = true
				}
			}
			if whole, _ := readsWholeBody(fn, call); whole && viaLimit {
				okMBR, lenGuarded = true, true
			}
		}
	}
	c.Check(okMBR, rule, name+":body-read-bounded", p.Pos(fn.Pos()), "io.ReadAll(http.MaxBytesReader(w, body, limit)) or LimitReader(limit+1) with the length tested", "the request body is not read through http.MaxBytesReader (or a limit+1 reader whose result length is tested)")
	// statuses on refusing edges
	type refusal struct {
		name  string
		calls []ssa.CallInstruction
		oc    Outcome
		want  int64
	}
	hdr := allCalls(fn, func(ci ssa.CallInstruction) bool { return isHeaderStep(ci.Common().StaticCallee()) })
	refusals := []refusal{
		{"rate-limit", allCalls(fn, func(ci ssa.CallInstruction) bool { return isFieldCall(ci, "Server", "AllowRequestFor") }), BoolTrue, 429},
		{"body-read", readAll, ErrNil, 0},
		{"header-size", hdr, BoolTrue, 413},
		{"enqueue", enq, ErrNil, 503},
	}
	for _, r := range refusals {
		key := name + ":" + r.name
		if len(r.calls) == 0 {
			c.Fail(rule, key, p.Pos(fn.Pos()), "the handler has no "+r.name+" step")
			continue
		}
		_, fail, untested := GuardEdges(fn, r.calls, r.oc)
		if len(untested) > 0 || len(fail) == 0 {
			c.Fail(rule, key+":tested", p.InstrPos(r.calls[0]), "result of the "+r.name+" step is not tested")
			continue
		}
		if r.name != "enqueue" {
			bad := false
			for _, e := range enq {
				if okn, path := p.NoPathFrom(fail, e, nil); !okn {
					bad = true
					c.Fail(rule, key+":refusal-never-enqueues", p.InstrPos(e), "an enqueue is reachable after the "+r.name+" refusal", path...)
				}
			}
			if !bad {
				c.Ok(rule, key+":refusal-never-enqueues", p.InstrPos(r.calls[0]), "no enqueue reachable from the refusing edge")
			}
		}
		// status written in the refusing block(s)
		var starts []*ssa.BasicBlock
		for _, e := range fail {
			starts = append(starts, e.To())
		}
		par := reach(starts, nil, nil)
		var codes []int64
		for _, s := range responseSinks(fn) {
			if _, in := par[s.Instr.Block()]; in && s.Kind == respStatusConst {
				codes = append(codes, s.Status)
			}
		}
		if r.want != 0 {
			okc := len(codes) > 0
			for _, cd := range codes {
				if cd != r.want {
					okc = false
				}
			}
			c.Check(okc, rule, key+":status", p.InstrPos(r.calls[0]), fmt.Sprintf("refusal answered %d", r.want), fmt.Sprintf("%s refusal answered %v, must be %d", r.name, codes, r.want))
		} else {
			// body read: 413 on *MaxBytesError, else 400
			has413 := false
			for _, cd := range codes {
				if cd == 413 {
					has413 = true
				}
				if cd >= 200 && cd < 300 {
					has413 = false
				}
			}
			// 413 must be behind errors.As(err, **MaxBytesError)
			asOK, _, _ := GuardEdges(fn, allCalls(fn, func(ci ssa.CallInstruction) bool { return calleeIs(ci, "errors", "", "As") }), BoolTrue)
			c.Check(has413 && (len(asOK) > 0 || lenGuarded), rule, key+":status", p.InstrPos(r.calls[0]), "oversize body answered 413 behind errors.As(*MaxBytesError) or the length test", fmt.Sprintf("body-read failures answered %v; 413 for MaxBytesError expected", codes))
		}
	}
	// header-size test dominates every enqueue
	okH, _, _ := GuardEdges(fn, hdr, BoolTrue)
	for _, e := range enq {
		okp, path := p.MustPass(fn, e, okH)
		if okp && len(okH) > 0 {
			c.Ok(rule, name+":header-size-dominates-enqueue", p.InstrPos(e), "enqueue only behind the header-size test's ok edge")
		} else {
			c.Fail(rule, name+":header-size-dominates-enqueue", p.InstrPos(e), "an enqueue is reachable without the header-size test", path...)
		}
	}
	// the header-size predicate compares the size with its limit parameter using '>'
	for _, h := range hdr {
		hf := h.Common().StaticCallee()
		found := false
		for _, b := range hf.Blocks {
			for i := range b.Succs {
				a, ok := edgeAtom(Edge{b, i})
				if ok && a.Op == token.GTR {
					if _, isP := a.Y.(*ssa.Parameter); isP && blockReturnsSecondFalse(b.Succs[i]) {
						found = true
					}
				}
			}
		}
		c.Check(found, rule, "ingress."+hf.Name()+":size>limit=>refuse", p.Pos(hf.Pos()), "refuses when size > max_headers", "the header-size predicate does not refuse on size > limit")
	}
}

func blockReturnsSecondFalse(b *ssa.BasicBlock) bool {
	if len(b.Instrs) == 0 {
		return false
	}
	r, ok := b.Instrs[len(b.Instrs)-1].(*ssa.Return)
	if !ok || len(r.Results) != 2 {
		return false
	}
	cst, ok := r.Results[1].(*ssa.Const)
	return ok && cst.Value != nil && cst.Value.String() == "false"
}

func checkTokenBucket(c *Ctx, rule string) {
	p := c.P
	// the limiter type: struct in app with float64 fields and a time.Time field, with a method (time.Time) bool
	var allow *ssa.Function
	var tname string
	for _, fn := range p.FuncsInPkg("app") {
		if fn.Signature.Recv() == nil || fn.Parent() != nil {
			continue
		}
		ps, rs := fn.Signature.Params(), fn.Signature.Results()
		if ps.Len() == 1 && isTimeTime(ps.At(0).Type()) && rs.Len() == 1 && types.Identical(rs.At(0).Type(), types.Typ[types.Bool]) {
			st, ok := fn.Signature.Recv().Type().(*types.Pointer)
			if !ok {
				continue
			}
			if s, ok := st.Elem().Underlying().(*types.Struct); ok {
				nf := 0
				for i := 0; i < s.NumFields(); i++ {
					if b, ok := s.Field(i).Type().(*types.Basic); ok && b.Kind() == types.Float64 {
						nf++
					}
				}
				if nf >= 3 {
					allow, tname = fn, namedName(st.Elem())
				}
			}
		}
	}
	if allow == nil {
		c.Fail(rule, "app:token-bucket-limiter", "", "token bucket admit method not found")
		return
	}
	allow = p.View(allow) // the refill step may live in a helper
	name := "app." + tname + "." + allow.Name()
	// classify float fields by role: "tokens" = the field that is decremented by 1; "burst" = the field compared > with tokens and stored into it
	var tokensField, burstField, lastField string
	var minClamp []*ssa.Store
	for _, b := range allow.Blocks {
		for _, ins := range b.Instrs {
			st, ok := ins.(*ssa.Store)
			if !ok {
				continue
			}
			fa, ok := st.Addr.(*ssa.FieldAddr)
			if !ok {
				continue
			}
			_, f, _ := fieldAddrName(fa)
			if bo, ok := st.Val.(*ssa.BinOp); ok && bo.Op == token.SUB {
				if cst, ok := bo.Y.(*ssa.Const); ok && cst.Value != nil && cst.Value.String() == "1" {
					tokensField = f
				}
			}
			if isTimeTime(st.Val.Type()) {
				lastField = f
			}
		}
	}
	for _, b := range allow.Blocks {
		for _, ins := range b.Instrs {
			st, ok := ins.(*ssa.Store)
			if !ok {
				continue
			}
			fa, ok := st.Addr.(*ssa.FieldAddr)
			if !ok {
				continue
			}
			if _, f, _ := fieldAddrName(fa); f == tokensField {
				if _, f2, ok := fieldOfLoad(st.Val); ok && f2 != tokensField {
					burstField = f2
				}
				// clamp written as tokens = math.Min(burst, tokens + …)
				if call, ok := st.Val.(*ssa.Call); ok && (calleeIs(call, "math", "", "Min") || builtinCall(call, "min") != nil) {
					for _, a := range call.Call.Args {
						if _, f2, ok := fieldOfLoad(a); ok && f2 != tokensField {
							burstField = f2
							minClamp = append(minClamp, st)
						}
					}
				}
			}
		}
	}
	if tokensField == "" || burstField == "" || lastField == "" {
		c.Fail(rule, name+":roles", p.Pos(allow.Pos()), fmt.Sprintf("cannot identify the bucket fields (tokens=%q burst=%q last=%q)", tokensField, burstField, lastField))
		return
	}
	c.Ok(rule, name+":roles", p.Pos(allow.Pos()), fmt.Sprintf("tokens=%s burst=%s clock=%s", tokensField, burstField, lastField))
	var refill, clamp, take, adv []*ssa.Store
	for _, b := range allow.Blocks {
		for _, ins := range b.Instrs {
			st, ok := ins.(*ssa.Store)
			if !ok {
				continue
			}
			fa, ok := st.Addr.(*ssa.FieldAddr)
			if !ok {
				continue
			}
			_, f, _ := fieldAddrName(fa)
			switch {
			case f == tokensField:
				if bo, ok := st.Val.(*ssa.BinOp); ok && bo.Op == token.ADD {
					refill = append(refill, st)
				} else if bo, ok := st.Val.(*ssa.BinOp); ok && bo.Op == token.SUB {
					take = append(take, st)
				} else if _, f2, ok := fieldOfLoad(st.Val); ok && f2 == burstField {
					clamp = append(clamp, st)
				}
			case f == lastField:
				adv = append(adv, st)
			}
		}
	}
	// (a) clamp: from each refill, every path to the admit test passes the clamp store or the `tokens > burst` false edge
	var notOver, enough, short []Edge
	var dtPos []Edge
	for _, b := range allow.Blocks {
		for i := range b.Succs {
			a, ok := edgeAtom(Edge{b, i})
			if !ok {
				continue
			}
			_, fx, okx := fieldOfLoad(a.X)
			_, fy, oky := fieldOfLoad(a.Y)
			if okx && oky && fx == tokensField && fy == burstField && a.Op == token.LEQ {
				notOver = append(notOver, Edge{b, i})
			}
			if okx && fx == tokensField {
				if cst, ok := a.Y.(*ssa.Const); ok && cst.Value != nil && cst.Value.String() == "1" {
					if a.Op == token.GEQ {
						enough = append(enough, Edge{b, i})
					}
					if a.Op == token.LSS {
						short = append(short, Edge{b, i})
					}
				}
			}
			// dt > 0 where dt derives from Sub(last)
			if a.Op == token.GTR {
				if cst, ok := a.Y.(*ssa.Const); ok && cst.Value != nil && (cst.Value.String() == "0" || cst.Value.String() == "0.0") {
					if callChainHas(a.X, "time", "Sub", 0) || valueFromTimeSub(a.X) {
						dtPos = append(dtPos, Edge{b, i})
					}
				}
			}
		}
	}
	if len(minClamp) > 0 {
		// refill and clamp in one store: nothing can come between them
		clamp = append(clamp, minClamp...)
		if len(refill) == 0 {
			refill = nil
		}
	}
	c.Check((len(refill) >= 1 || len(minClamp) >= 1) && len(clamp) >= 1 && len(take) >= 1, rule, name+":refill-clamp-take-present", p.Pos(allow.Pos()), fmt.Sprintf("%d refill, %d clamp, %d take store(s)", len(refill), len(clamp), len(take)), "the admit method lacks a refill, a clamp to burst or a take-one store")
	for _, rf := range refill {
		// every path from the refill to a `tokens >= 1` edge passes clamp or notOver
		stop := map[*ssa.BasicBlock]bool{}
		for _, cl := range clamp {
			stop[cl.Block()] = true
		}
		av := EdgeSet{}
		av.addAll(notOver)
		delete(stop, rf.Block())
		par := reach([]*ssa.BasicBlock{rf.Block()}, av, stop)
		bad := false
		for _, e := range enough {
			if _, ok := par[e.From]; ok && !stop[e.From] && e.From != rf.Block() {
				bad = true
			}
		}
		c.Check(!bad, rule, name+":refill-clamped-before-admit", p.InstrPos(rf), "after a refill the bucket is clamped to burst before the admit test", "a refill can reach the admit test without being clamped to burst (the bucket can exceed burst)")
	}
	// (b) admit behind tokens >= 1 and takes one
	nTrue := 0
	for _, r := range returnsOf(allow) {
		if !blockReturnsConstBool(r.Block(), true) {
			continue
		}
		// not the nil-limiter exit
		if okp, _ := p.MustPass(allow, r, enough); !okp {
			// allowed only if it is the `l == nil` exit
			var nilE []Edge
			for _, b := range allow.Blocks {
				for i := range b.Succs {
					a, ok := edgeAtom(Edge{b, i})
					if ok && isNilConst(a.Y) && a.Op == token.EQL {
						nilE = append(nilE, Edge{b, i})
					}
				}
			}
			if okn, _ := p.MustPass(allow, r, nilE); okn && len(nilE) > 0 {
				continue
			}
			c.Fail(rule, name+":admit-needs-a-token", p.InstrPos(r), "a request is admitted without tokens >= 1")
			continue
		}
		nTrue++
		var through []ssa.Instruction
		for _, t := range take {
			through = append(through, t)
		}
		okT, _ := p.MustPassInstr(allow, r, through)
		c.Check(okT, rule, name+":admit-takes-a-token", p.InstrPos(r), "admission preceded by tokens -= 1", "a request is admitted without taking a token")
	}
	c.Check(nTrue >= 1, rule, name+":admit-needs-a-token", p.Pos(allow.Pos()), fmt.Sprintf("%d admitting return(s) behind tokens >= 1", nTrue), "no admitting return behind tokens >= 1")
	// (c) elapsed time consumed whenever dt > 0
	if len(dtPos) == 0 {
		c.Fail(rule, name+":elapsed-time-consumed", p.Pos(allow.Pos()), "no `elapsed > 0` test found")
	} else {
		stop := map[*ssa.BasicBlock]bool{}
		for _, a := range adv {
			stop[a.Block()] = true
		}
		var starts []*ssa.BasicBlock
		for _, e := range dtPos {
			starts = append(starts, e.To())
		}
		par := reach(starts, nil, stop)
		bad := false
		for _, r := range returnsOf(allow) {
			if _, ok := par[r.Block()]; ok && !stop[r.Block()] {
				bad = true
				c.Fail(rule, name+":elapsed-time-consumed", p.InstrPos(r), "after time has elapsed (dt > 0) a path returns without advancing the bucket clock: the same interval is credited again later", p.blockPath(par, r.Block())...)
			}
		}
		if !bad {
			c.Ok(rule, name+":elapsed-time-consumed", p.Pos(allow.Pos()), "every path with dt > 0 stores clock = now")
		}
	}
	// (c2) the bucket clock never moves backwards: every store to it is behind `elapsed > 0` or `clock.IsZero()`
	var zeroE []Edge
	for _, b := range allow.Blocks {
		for i := range b.Succs {
			a, ok := edgeAtom(Edge{b, i})
			if !ok || !isBoolTrue(a.Y) || a.Op != token.EQL {
				continue
			}
			if call, ok := a.X.(*ssa.Call); ok && calleeIs(call, "time", "Time", "IsZero") {
				if _, f, ok := fieldOfLoad(call.Call.Args[0]); ok && f == lastField {
					zeroE = append(zeroE, Edge{b, i})
				}
			}
		}
	}
	for i, a := range adv {
		okM, _ := p.MustPass(allow, a, append(append([]Edge{}, dtPos...), zeroE...))
		c.Check(okM && len(dtPos)+len(zeroE) > 0, rule, fmt.Sprintf("%s:clock-store#%d never moves the clock backwards", name, i+1), p.InstrPos(a),
			"stored only when time has advanced (elapsed > 0) or the clock was unset",
			"the bucket clock is overwritten without knowing that the new instant is later: a request carrying an older timestamp (the clock is read before the limiter's mutex is taken) rewinds it, and the interval already paid out is credited again — more than burst + rps×window is admitted")
	}
	// (d) mutex
	lm := p.lockAnalysis("app", tname, p.mutexField("app", tname))
	nAcc, badL := 0, false
	for _, a := range lm.Accesses {
		if a.Fn == p.Orig(allow) || p.InlinedCallees(allow)[a.Fn] > 0 {
			nAcc++
			if !a.Held {
				badL = true
			}
		}
	}
	c.Check(!badL && nAcc >= 4, rule, name+":under-mutex", p.Pos(allow.Pos()), fmt.Sprintf("%d bucket field accesses under the limiter mutex", nAcc), "bucket state accessed without the limiter mutex")
	// (e) route overrides global: the function wired into AllowRequestFor
	w := p.wiringTable()
	for _, t := range w[fieldKey{"ingress.Server", "AllowRequestFor"}] {
		if t.Signature.Recv() == nil || namedName(t.Signature.Recv().Type()) != "runtimeState" {
			continue
		}
		calls := allCalls(t, func(ci ssa.CallInstruction) bool { return ci.Common().StaticCallee() == p.Orig(allow) })
		// the call on the route limiter must be behind a map hit, and its result returned directly
		okRoute := false
		for _, ci := range calls {
			if lk := lookupOf(ci.Common().Args[0]); lk != nil {
				var hit []Edge
				for _, b := range t.Blocks {
					for i := range b.Succs {
						a, ok := edgeAtom(Edge{b, i})
						if ok && isBoolTrue(a.Y) && a.Op == token.EQL {
							if ex, ok := a.X.(*ssa.Extract); ok && ex.Tuple == lk && ex.Index == 1 {
								hit = append(hit, Edge{b, i})
							}
						}
					}
				}
				if okp, _ := p.MustPass(t, ci, hit); okp && len(hit) > 0 && returnsCallBool(t, ci) {
					okRoute = true
				}
			}
		}
		// one call on a merged limiter: the route's on the hit edge, the global one only on the miss edge
		merged := false
		for _, ci := range calls {
			phi, ok := ci.Common().Args[0].(*ssa.Phi)
			if !ok {
				continue
			}
			hitOK, globalOK := false, false
			var hitAll []Edge
			for i, e := range phi.Edges {
				lk := lookupOf(e)
				if lk == nil {
					continue
				}
				var hit []Edge
				for _, b := range t.Blocks {
					for k := range b.Succs {
						a, ok := edgeAtom(Edge{b, k})
						if ok && isBoolTrue(a.Y) && a.Op == token.EQL {
							if ex, ok := a.X.(*ssa.Extract); ok && ex.Tuple == lk && ex.Index == 1 {
								hit = append(hit, Edge{b, k})
							}
						}
					}
				}
				pred := phi.Block().Preds[i]
				viaHit := false
				for _, he := range hit {
					if he.From == pred && he.To() == phi.Block() {
						viaHit = true // the merge edge is the hit edge itself
					}
				}
				if okp, _ := p.MustPass(t, pred.Instrs[len(pred.Instrs)-1], hit); (okp || viaHit) && len(hit) > 0 {
					hitOK = true
					hitAll = append(hitAll, hit...)
				}
			}
			for i, e := range phi.Edges {
				if lookupOf(e) != nil {
					continue
				}
				if _, _, ok := fieldOfLoad(e); ok {
					pred := phi.Block().Preds[i]
					if okn, _ := p.NoPathFrom(hitAll, pred.Instrs[len(pred.Instrs)-1], nil); okn && len(hitAll) > 0 {
						globalOK = true
					}
				}
			}
			if hitOK && globalOK && returnsCallBool(t, ci) {
				merged = true
			}
		}
		c.Check((okRoute && len(calls) >= 2) || merged, rule, "app.runtimeState."+t.Name()+":route-limiter-overrides-global", p.Pos(t.Pos()), "a configured route limiter decides alone; otherwise the global limiter", "the route limiter does not override the global limiter")
	}
}

func valueFromTimeSub(v ssa.Value) bool {
	for i := 0; i < 6; i++ {
		switch x := v.(type) {
		case *ssa.Call:
			if calleeIs(x, "time", "Time", "Sub") {
				return true
			}
			if len(x.Call.Args) > 0 {
				v = x.Call.Args[0]
				continue
			}
			return false
		case *ssa.UnOp:
			if a, ok := x.X.(*ssa.Alloc); ok {
				for _, ref := range *a.Referrers() {
					if st, ok := ref.(*ssa.Store); ok && st.Addr == a {
						v = st.Val
					}
				}
				continue
			}
			return false
		default:
			return false
		}
	}
	return false
}

func lookupOf(v ssa.Value) *ssa.Lookup {
	if ex, ok := v.(*ssa.Extract); ok {
		if lk, ok := ex.Tuple.(*ssa.Lookup); ok {
			return lk
		}
	}
	if lk, ok := v.(*ssa.Lookup); ok {
		return lk
	}
	return nil
}

func returnsCallBool(fn *ssa.Function, call ssa.CallInstruction) bool {
	cv, ok := call.(ssa.Value)
	if !ok {
		return false
	}
	for _, r := range returnsOf(fn) {
		if len(r.Results) == 1 {
			v := r.Results[0]
			if u, ok := v.(*ssa.UnOp); ok {
				if a, ok := u.X.(*ssa.Alloc); ok {
					for _, ins := range r.Block().Instrs {
						if st, ok := ins.(*ssa.Store); ok && st.Addr == a {
							v = st.Val
						}
					}
				}
			}
			if v == cv {
				return true
			}
		}
	}
	return false
}

func checkDepthComparator(c *Ctx, rule string) {
	checkDepthComparatorImpl(c, rule)
}
