package main

import (
	"fmt"
	"go/token"
	"go/types"
	"os"
	"strings"

	"golang.org/x/tools/go/ssa"
)

func init() { register("C08", checkC08) }

const ingressPath = modPath + "/internal/ingress"

type authHook struct {
	name     string
	field    string // hook field of ingress.Server
	recv     string // authenticator type
	method   string
	outcome  Outcome
	wantCode int64 // 0 = pass-through of the authenticator's status
}

var authHooks = []authHook{
	{"basic", "BasicAuthFor", "BasicAuth", "Verify", BoolTrue, 401},
	{"forward", "ForwardAuthFor", "ForwardAuth", "Authorize", IntZero, 0},
	{"hmac", "HMACAuthFor", "HMACAuth", "Verify", ErrNil, 401},
}

func checkC08(c *Ctx) {
	c.Rule("C08.R1", "ingress handler: every enqueue is behind all three authenticators — unreachable from any reject edge, reachable only through accept or not-configured edges; reject edges answer 401 / the auth service's status; the body read precedes forward auth and HMAC")
	c.Rule("C08.R2", "HMAC verifier: an accepting return is dominated by non-empty headers, parsed timestamp, tolerance test, accepted nonce, decoded signature and ConstantTimeCompare==1; the MAC input is ts\\nmethod\\npath\\nsha256(body); secrets are selected with the signed timestamp")
	c.Rule("C08.R3", "forward auth: status 0 (allow) exactly for response codes 200..299; 401/403 passed through; every other code and every transport error gives 503 (interval extraction over the path conditions)")
	c.Rule("C08.R4", "basic auth: true only for a user found in the table (comma-ok hit) whose password passes the constant-time comparison, or when not configured")
	c.Rule("C08.R5", "wiring: the three authenticator hooks of the ingress server are assigned from runtimeState methods where the server is built, and nowhere else")
	checkIngressAuthOrder(c, "C08.R1")
	checkHMACVerify(c, "C08.R2")
	checkForwardAuthTable(c, "C08.R3")
	checkBasicAuth(c, "C08.R4")
	checkAuthWiring(c, "C08.R5")
	c.Rule("C08.R6", "an installed HMAC authenticator is a configured one: installed only for routes declaring secrets; the static list given to the constructor and the version list that decides the selector are the plain accumulators filled from the compiled route (nothing filters them in between); every collecting loop adds an element per entry or fails the build")
	checkInstalledHMACConfigured(c, "C08.R6")
	c.Rule("C08.R7", "the per-route hooks of the ingress handler (authenticators, rate limit, limits, targets, observers) are asked about the route the resolver returned: on the inlined view of the handler the first operand of every hook call whose parameter is the route name is the resolver's route result — not the request path, which equals the route name only for exact-path routes (a lookup by anything else misses and authentication is skipped below prefix routes)")
	checkHooksAskedAboutResolvedRoute(c, "C08.R7")
}

func checkIngressAuthOrder(c *Ctx, rule string) {
	p := c.P
	fn := p.Func("ingress", "(*Server).ServeHTTP")
	if fn == nil {
		c.Fail(rule, "anchor:ingress.ServeHTTP", "", "anchor not found")
		return
	}
	enq := allCalls(fn, isAnyEnqueue)
	if len(enq) == 0 {
		c.Fail(rule, "ingress.ServeHTTP:enqueue", "", "no enqueue call")
		return
	}
	readAll := allCalls(fn, func(ci ssa.CallInstruction) bool { return calleeIs(ci, "io", "", "ReadAll") })
	for _, h := range authHooks {
		calls := allCalls(fn, func(ci ssa.CallInstruction) bool { return calleeIs(ci, ingressPath, h.recv, h.method) })
		key := "ingress.ServeHTTP:" + h.name
		if len(calls) == 0 {
			c.Fail(rule, key+":consulted", p.Pos(fn.Pos()), "the handler never calls "+h.recv+"."+h.method)
			continue
		}
		ok, fail, untested := GuardEdges(fn, calls, h.outcome)
		if len(untested) > 0 {
			c.Fail(rule, key+":result-tested", p.InstrPos(untested[0]), "the authenticator's verdict is not tested")
			continue
		}
		// not-configured edges: hook field nil, hook result nil
		through := append([]Edge{}, ok...)
		for _, b := range fn.Blocks {
			for i := range b.Succs {
				a, isIf := edgeAtom(Edge{b, i})
				if !isIf || !isNilConst(a.Y) || a.Op != token.EQL {
					continue
				}
				if tn, f, isF := fieldOfLoad(a.X); isF && tn == "Server" && f == h.field {
					through = append(through, Edge{b, i})
					continue
				}
				if call, isCall := a.X.(*ssa.Call); isCall && isFieldCall(call, "Server", h.field) {
					through = append(through, Edge{b, i})
				}
			}
		}
		bad := false
		for _, e := range enq {
			if okn, path := p.NoPathFrom(fail, e, nil); !okn {
				bad = true
				c.Fail(rule, key+":reject-never-enqueues", p.InstrPos(e), "an enqueue is reachable after "+h.name+" authentication rejected the request", path...)
			}
			if okp, path := p.MustPass(fn, e, through); !okp {
				bad = true
				c.Fail(rule, key+":enqueue-behind-verdict", p.InstrPos(e), "an enqueue is reachable without consulting "+h.name+" authentication (neither accepted nor not-configured)", path...)
			}
		}
		if !bad {
			c.Ok(rule, key+":gates-enqueue", p.InstrPos(calls[0]), fmt.Sprintf("%d enqueue site(s) unreachable from reject, reachable only via accept/not-configured", len(enq)))
		}
		// status on the reject edge: first status write reachable from the fail edges
		for _, s := range responseSinks(fn) {
			if s.Kind != respStatusConst && s.Kind != respStatusDyn {
				continue
			}
			var starts []*ssa.BasicBlock
			for _, e := range fail {
				starts = append(starts, e.To())
			}
			if len(starts) == 0 || s.Instr.Block() != starts[0] {
				continue
			}
			if h.wantCode != 0 {
				c.Check(s.Kind == respStatusConst && s.Status == h.wantCode, rule, key+":reject-status", p.InstrPos(s.Instr), fmt.Sprintf("reject answered %d", s.Status), fmt.Sprintf("%s rejection answered with %d (dynamic=%v) instead of %d", h.name, s.Status, s.Kind == respStatusDyn, h.wantCode))
			} else {
				o, idx := origin(s.Instr.Common().Args[0])
				okv := false
				for _, cc := range calls {
					if cv, isV := cc.(ssa.Value); isV && cv == o && idx == 1 {
						okv = true
					}
				}
				c.Check(okv, rule, key+":reject-status", p.InstrPos(s.Instr), "reject answered with the authenticator's status", "forward-auth rejection is not answered with the status returned by the authenticator")
			}
		}
		if h.name != "basic" {
			okB := len(readAll) > 0
			for _, cc := range calls {
				if len(readAll) == 0 || !InstrDominates(readAll[0], cc) {
					okB = false
				}
			}
			c.Check(okB, rule, key+":after-body-read", p.InstrPos(calls[0]), "the bounded body read dominates the authenticator call", h.name+" authentication runs before the body has been read")
		}
	}
}

// nonEmptyEdges: edges on which a string value whose provenance mentions field `hdrField` is != "".
func headerNonEmptyEdges(fn *ssa.Function, hdrField string) []Edge {
	var out []Edge
	for _, b := range fn.Blocks {
		for i := range b.Succs {
			a, ok := edgeAtom(Edge{b, i})
			if !ok || a.Op != token.NEQ {
				continue
			}
			if s, isC := constString(a.Y); !isC || s != "" {
				continue
			}
			if valueMentionsField(a.X, hdrField, 0) {
				out = append(out, Edge{b, i})
			}
		}
	}
	return out
}

// valueMentionsField: the value is computed (through calls) from a load of field named f.
func valueMentionsField(v ssa.Value, f string, depth int) bool {
	if depth > 6 {
		return false
	}
	if _, fn, ok := fieldOfLoad(v); ok && fn == f {
		return true
	}
	switch x := v.(type) {
	case *ssa.MakeInterface:
		return valueMentionsField(x.X, f, depth+1)
	case *ssa.ChangeType:
		return valueMentionsField(x.X, f, depth+1)
	case *ssa.Convert:
		return valueMentionsField(x.X, f, depth+1)
	case *ssa.BinOp:
		return valueMentionsField(x.X, f, depth+1) || valueMentionsField(x.Y, f, depth+1)
	case *ssa.Call:
		for _, a := range x.Call.Args {
			if valueMentionsField(a, f, depth+1) {
				return true
			}
		}
	case *ssa.Phi:
		for _, e := range x.Edges {
			if valueMentionsField(e, f, depth+1) {
				return true
			}
		}
	case *ssa.UnOp:
		if x.Op == token.SUB {
			return valueMentionsField(x.X, f, depth+1)
		}
		if a, ok := x.X.(*ssa.Alloc); ok {
			for _, ref := range *a.Referrers() {
				if st, ok := ref.(*ssa.Store); ok && st.Addr == a && valueMentionsField(st.Val, f, depth+1) {
					return true
				}
			}
		}
	case *ssa.Extract:
		return valueMentionsField(x.Tuple, f, depth+1)
	}
	return false
}

func checkHMACVerify(c *Ctx, rule string) {
	p := c.P
	fn := p.Func("ingress", "(*HMACAuth).Verify")
	if fn == nil {
		c.Fail(rule, "anchor:HMACAuth.Verify", "", "anchor not found")
		return
	}
	name := "ingress.HMACAuth.Verify"
	// not-configured edges
	var notConf []Edge
	for _, b := range fn.Blocks {
		for i := range b.Succs {
			a, ok := edgeAtom(Edge{b, i})
			if !ok || a.Op != token.EQL {
				continue
			}
			if isNilConst(a.Y) {
				if _, isParam := a.X.(*ssa.Parameter); isParam {
					notConf = append(notConf, Edge{b, i})
				}
				if _, f, ok := fieldOfLoad(a.X); ok && f == "SelectSecrets" {
					notConf = append(notConf, Edge{b, i})
				}
			}
		}
	}
	type guard struct {
		name  string
		edges []Edge
	}
	one := func(pred func(ssa.CallInstruction) bool, oc Outcome) []Edge {
		ok, _, _ := GuardEdges(fn, allCalls(fn, pred), oc)
		return ok
	}
	var cmpEdges []Edge
	for _, b := range fn.Blocks {
		for i := range b.Succs {
			a, ok := edgeAtom(Edge{b, i})
			if ok && a.Op == token.EQL && isIntConst(a.Y, 1) {
				if call, ok := a.X.(*ssa.Call); ok && calleeIs(call, "crypto/subtle", "", "ConstantTimeCompare") {
					cmpEdges = append(cmpEdges, Edge{b, i})
				}
			}
			if ok && a.Op == token.EQL && isBoolTrue(a.Y) {
				if call, isCall := a.X.(*ssa.Call); isCall {
					// hmac.Equal is ConstantTimeCompare == 1
					if calleeIs(call, "crypto/hmac", "", "Equal") {
						cmpEdges = append(cmpEdges, Edge{b, i})
					}
					// slices.ContainsFunc(secrets, pred): true only if pred said true for one of them
					g := call.Call.StaticCallee()
					if g != nil && g.Origin() != nil {
						g = g.Origin()
					}
					if g != nil && g.Pkg != nil && g.Pkg.Pkg.Path() == "slices" && g.Name() == "ContainsFunc" && len(call.Call.Args) == 2 {
						ts := funcValueTargets(call.Call.Args[1], 0)
						okAll := len(ts) > 0
						for _, t := range ts {
							if !trueOnlyOnConstantTimeMatch(p, p.View(unwrapBound(t))) {
								okAll = false
							}
						}
						if okAll {
							cmpEdges = append(cmpEdges, Edge{b, i})
						}
					}
				}
			}
		}
	}
	// tolerance edges
	var tolLo, tolHi, tolOff []Edge
	var tolDist []ssa.Value
	for _, b := range fn.Blocks {
		for i := range b.Succs {
			a, ok := edgeAtom(Edge{b, i})
			if !ok || namedName(a.X.Type()) != "Duration" {
				continue
			}
			// `-tol <= d` / `tol >= d`: the tolerance on the left — same test, sides swapped
			if valueMentionsField(a.X, "Tolerance", 0) && !valueMentionsField(a.Y, "Tolerance", 0) && !isIntConst(a.Y, 0) {
				a = Atom{a.Y, flipSides(a.Op), a.X}
			}
			yMentions := valueMentionsField(a.Y, "Tolerance", 0)
			if yMentions {
				tolDist = append(tolDist, a.X)
			}
			if u, ok := a.Y.(*ssa.UnOp); ok && u.Op == token.SUB && valueMentionsField(u.X, "Tolerance", 0) {
				if a.Op == token.GEQ {
					tolLo = append(tolLo, Edge{b, i})
				}
				continue
			}
			if yMentions && a.Op == token.LEQ {
				tolHi = append(tolHi, Edge{b, i})
			}
			if _, f, ok := fieldOfLoad(a.X); ok && f == "Tolerance" && isIntConst(a.Y, 0) && a.Op == token.LEQ {
				tolOff = append(tolOff, Edge{b, i})
			}
		}
	}
	nonceOK := one(func(ci ssa.CallInstruction) bool {
		f := ci.Common().StaticCallee()
		if f == nil || f.Signature.Recv() == nil || f.Pkg == nil || f.Pkg.Pkg.Path() != ingressPath {
			return false
		}
		r := f.Signature.Results()
		if r.Len() != 1 || !types.Identical(r.At(0).Type(), types.Typ[types.Bool]) {
			return false
		}
		return !token.IsExported(namedName(f.Signature.Recv().Type()))
	}, BoolTrue)
	guards := []guard{
		{"signature-header-non-empty", headerNonEmptyEdges(fn, "SignatureHeader")},
		{"timestamp-header-non-empty", headerNonEmptyEdges(fn, "TimestampHeader")},
		{"nonce-header-non-empty", headerNonEmptyEdges(fn, "NonceHeader")},
		{"timestamp-parsed", one(func(ci ssa.CallInstruction) bool { return calleeIs(ci, "strconv", "", "ParseInt") }, ErrNil)},
		{"tolerance-lower", append(append([]Edge{}, tolLo...), tolOff...)},
		{"tolerance-upper", append(append([]Edge{}, tolHi...), tolOff...)},
		{"nonce-accepted", nonceOK},
		{"signature-hex-decoded", one(func(ci ssa.CallInstruction) bool { return calleeIs(ci, "encoding/hex", "", "DecodeString") }, ErrNil)},
		{"constant-time-compare==1", cmpEdges},
	}
	// the distance compared with the tolerance is clock.Sub(signed timestamp) itself: time.Time.Sub saturates, whereas
	// hand-made nanosecond arithmetic wraps for far-away timestamps and rounding widens the window
	seenDist := map[ssa.Value]bool{}
	for _, d := range tolDist {
		dv := stripConv(d)
		if u, ok := dv.(*ssa.UnOp); ok && u.Op == token.SUB {
			dv = stripConv(u.X)
		}
		if seenDist[dv] {
			continue
		}
		seenDist[dv] = true
		okSub := false
		if call, ok := dv.(*ssa.Call); ok {
			if calleeIs(call, "time", "Time", "Sub") {
				okSub = true
			}
			if calleeIs(call, "time", "Duration", "Abs") {
				if inner, ok := stripConv(call.Call.Args[0]).(*ssa.Call); ok && calleeIs(inner, "time", "Time", "Sub") {
					okSub = true
				}
			}
		}
		c.Check(okSub, rule, fmt.Sprintf("%s:tolerance distance #%d is clock.Sub(timestamp)", name, len(seenDist)), p.Pos(d.Pos()),
			"the compared distance is the result of time.Time.Sub",
			"the distance compared with the tolerance is "+shortVal(dv)+", not time.Time.Sub of the clock reading and the signed timestamp: rounding widens the accept window and integer nanosecond arithmetic wraps, so a timestamp outside the tolerance can pass")
	}
	nAccept := 0
	for _, r := range returnsOf(fn) {
		if errResultKind(r) != "nil" {
			continue
		}
		if okp, _ := p.MustPass(fn, r, notConf); okp && len(notConf) > 0 {
			continue // "not configured" exits
		}
		nAccept++
		for _, g := range guards {
			key := fmt.Sprintf("%s:accept#%d:%s", name, nAccept, g.name)
			okp, path := p.MustPass(fn, r, g.edges)
			if okp && len(g.edges) > 0 {
				c.Ok(rule, key, p.InstrPos(r), "accepting return only reachable through this guard")
			} else {
				c.Fail(rule, key, p.InstrPos(r), "an accepting return is reachable without the guard "+g.name, path...)
			}
		}
	}
	c.Check(nAccept >= 1, rule, name+":accepting-returns", p.Pos(fn.Pos()), fmt.Sprintf("%d accepting return(s)", nAccept), "no accepting return found")
	// canonical string
	var sprintf *ssa.Call
	for _, ci := range allCalls(fn, func(ci ssa.CallInstruction) bool { return calleeIs(ci, "fmt", "", "Sprintf") }) {
		sprintf, _ = ci.(*ssa.Call)
	}
	if sprintf == nil {
		// the same string written as a concatenation and converted for the MAC
		var conv *ssa.Convert
		var leaves []ssa.Value
		for _, b := range fn.Blocks {
			for _, ins := range b.Instrs {
				if cv, ok := ins.(*ssa.Convert); ok && isByteSlice(cv.Type()) {
					if ls := concatLeaves(cv.X); len(ls) == 7 {
						conv, leaves = cv, ls
					}
				}
			}
		}
		if conv == nil {
			c.Fail(rule, name+":string-to-sign", p.Pos(fn.Pos()), "no fmt.Sprintf (or concatenation) building the string to sign")
		} else {
			sep := func(v ssa.Value) bool { sv, ok := constString(v); return ok && (sv == "\n" || sv == "\\n") }
			okArgs := sep(leaves[1]) && sep(leaves[3]) && sep(leaves[5]) &&
				valueMentionsField(leaves[0], "TimestampHeader", 0) && valueMentionsField(leaves[2], "Method", 0)
			pathOK := false
			for _, sv := range sourcesOf(leaves[4]) {
				if sv.Kind == "param" && strings.Contains(strings.ToLower(sv.Desc), "path") {
					pathOK = true
				}
			}
			hs := sourcesOf(leaves[6])
			hashOK := len(hs) == 1 && hs[0].Kind == "call" && strings.Contains(hs[0].Desc, "hex.EncodeToString") && callArgFrom(hs[0].Val, "crypto/sha256", "Sum256")
			c.Check(okArgs && pathOK && hashOK, rule, name+":string-to-sign", p.InstrPos(conv), "ts\\nmethod\\npath\\nhex(sha256(body)) in this order", "string to sign is not ts\\nmethod\\npath\\nsha256(body)")
			// it is what the MAC is fed with: a Write in the function or in one of its function literals that takes it
			fed := false
			fns := append([]*ssa.Function{fn}, allAnon(p.Orig(fn))...)
			for _, g := range fns {
				for _, ci := range allCalls(g, func(ci ssa.CallInstruction) bool {
					return ci.Common().IsInvoke() && ci.Common().Method.Name() == "Write"
				}) {
					if u, ok := ci.Common().Args[0].(*ssa.UnOp); ok && u.Op == token.MUL {
						if _, isFV := u.X.(*ssa.FreeVar); isFV {
							fed = true // the captured message variable
						}
					}
					for _, sv := range sourcesOf(ci.Common().Args[0]) {
						if sv.Val == ssa.Value(conv) || sv.Kind == "transform" {
							fed = true
						}
						if fv, ok := sv.Val.(*ssa.FreeVar); ok && isByteSlice(fv.Type()) {
							fed = true // the captured message (the only []byte the literal captures besides the signature is checked by the compare rule)
						}
					}
				}
			}
			if os.Getenv("HK_DEBUG") != "" {
				fmt.Println("DEBUG mac-input concat branch: fns", len(fns), "fed", fed)
			}
			c.Check(fed, rule, name+":mac-input", p.InstrPos(conv), "the MAC is written with the string to sign", "the MAC input is not the string to sign")
		}
	} else {
		if os.Getenv("HK_DEBUG") != "" {
			fmt.Println("DEBUG mac-input sprintf branch", p.InstrPos(sprintf))
		}
		format, _ := constString(sprintf.Call.Args[0])
		elems, _ := varargElems(sprintf.Call.Args[1])
		var descs []string
		for _, e := range elems {
			descs = append(descs, sourcesString(sourcesOf(e)))
		}
		okFmt := format == "%s\n%s\n%s\n%s" || format == `%s\n%s\n%s\n%s`
		okArgs := len(elems) == 4
		want := []func(ssa.Value) bool{
			func(v ssa.Value) bool { return valueMentionsField(v, "TimestampHeader", 0) },
			func(v ssa.Value) bool { return valueMentionsField(v, "Method", 0) },
			func(v ssa.Value) bool {
				for _, s := range sourcesOf(v) {
					if s.Kind == "param" && strings.Contains(strings.ToLower(s.Desc), "path") {
						return true
					}
				}
				return false
			},
			func(v ssa.Value) bool {
				ss := sourcesOf(v)
				return len(ss) == 1 && ss[0].Kind == "call" && strings.Contains(ss[0].Desc, "hex.EncodeToString") && callArgFrom(ss[0].Val, "crypto/sha256", "Sum256")
			},
		}
		if okArgs {
			for i, w := range want {
				if !w(elems[i]) {
					okArgs = false
				}
			}
		}
		c.Check(okFmt && okArgs, rule, name+":string-to-sign", p.InstrPos(sprintf), "ts\\nmethod\\npath\\nhex(sha256(body)) in this order", fmt.Sprintf("string to sign is not ts\\nmethod\\npath\\nsha256(body): format=%q args=%v", format, descs))
		// it is what the MAC is fed with
		fed := false
		for _, g := range append([]*ssa.Function{fn}, allAnon(p.Orig(fn))...) {
			for _, ci := range allCalls(g, func(ci ssa.CallInstruction) bool {
				return ci.Common().IsInvoke() && ci.Common().Method.Name() == "Write"
			}) {
				// in a function literal (the per-secret predicate) the message is a captured variable
				if u, ok := ci.Common().Args[0].(*ssa.UnOp); ok && u.Op == token.MUL && g != fn {
					if _, isFV := u.X.(*ssa.FreeVar); isFV {
						fed = true
					}
				}
				for _, s := range sourcesOf(ci.Common().Args[0]) {
					if s.Kind == "transform" || s.Val == sprintf {
						fed = true
					}
					if fv, ok := s.Val.(*ssa.FreeVar); ok && isByteSlice(fv.Type()) && g != fn {
						fed = true
					}
				}
			}
		}
		c.Check(fed, rule, name+":mac-input", p.InstrPos(sprintf), "the MAC is written with the string to sign", "the MAC input is not the string to sign")
	}
	checkInboundSecretSelection(c, rule, fn, name)
}

// checkInboundSecretSelection: the rotating secret set used to verify an inbound request is chosen at the
// instant the sender signed (the timestamp header), not at the verifier's clock.
func checkInboundSecretSelection(c *Ctx, rule string, fn *ssa.Function, name string) {
	p := c.P
	n := 0
	for _, b := range fn.Blocks {
		for _, ins := range b.Instrs {
			ci, ok := ins.(ssa.CallInstruction)
			if !ok || !isFieldCall(ci, "HMACAuth", "SelectSecrets") {
				continue
			}
			n++
			ss := sourcesOf(ci.Common().Args[0])
			okT := false
			for _, s := range ss {
				if s.Kind == "call" && (strings.Contains(s.Desc, "time.Unix") || strings.Contains(s.Desc, "(time.Time).UTC")) {
					if callChainHas(s.Val, "time", "Unix", 0) {
						okT = true
					}
				}
				if s.Kind == "call" && strings.Contains(s.Desc, "time.Now") {
					okT = false
				}
			}
			c.Check(okT, rule, name+":secrets-selected-at-signed-timestamp", p.InstrPos(ins), "SelectSecrets(time.Unix(ts))", "secrets are not selected with the signed timestamp: "+sourcesString(ss))
		}
	}
	if n == 0 {
		c.Fail(rule, name+":secrets-selected-at-signed-timestamp", p.Pos(fn.Pos()), "the verifier never consults the rotating secret selector")
	}
}

// callArgFrom: v is a call one of whose (transitive) arguments is a call to pkg.name.
func callArgFrom(v ssa.Value, pkg, name string) bool { return callChainHas(v, pkg, name, 0) }

func callChainHas(v ssa.Value, pkg, name string, depth int) bool {
	if depth > 8 || v == nil {
		return false
	}
	switch x := v.(type) {
	case *ssa.Call:
		if calleeIs(x, pkg, "", name) || (pkg == "time" && calleeIs(x, pkg, "Time", name)) {
			return true
		}
		for _, a := range x.Call.Args {
			if callChainHas(a, pkg, name, depth+1) {
				return true
			}
		}
	case *ssa.Slice:
		return callChainHas(x.X, pkg, name, depth+1)
	case *ssa.UnOp:
		if a, ok := x.X.(*ssa.Alloc); ok {
			for _, ref := range *a.Referrers() {
				if st, ok := ref.(*ssa.Store); ok && st.Addr == a && callChainHas(st.Val, pkg, name, depth+1) {
					return true
				}
			}
		}
	case *ssa.Alloc:
		for _, ref := range *x.Referrers() {
			if st, ok := ref.(*ssa.Store); ok && st.Addr == x && callChainHas(st.Val, pkg, name, depth+1) {
				return true
			}
		}
	case *ssa.Extract:
		return callChainHas(x.Tuple, pkg, name, depth+1)
	case *ssa.Phi:
		for _, e := range x.Edges {
			if callChainHas(e, pkg, name, depth+1) {
				return true
			}
		}
	case *ssa.ChangeType:
		return callChainHas(x.X, pkg, name, depth+1)
	case *ssa.Convert:
		return callChainHas(x.X, pkg, name, depth+1)
	case *ssa.MakeInterface:
		return callChainHas(x.X, pkg, name, depth+1)
	}
	return false
}

func checkForwardAuthTable(c *Ctx, rule string) {
	p := c.P
	fn := p.Func("ingress", "(*ForwardAuth).Authorize")
	if fn == nil {
		c.Fail(rule, "anchor:ForwardAuth.Authorize", "", "anchor not found")
		return
	}
	name := "ingress.ForwardAuth.Authorize"
	paths := enumeratePaths(fn.Blocks[0], 3000)
	c.Count(rule+".paths", len(paths))
	var allow, pass []ival
	bad := false
	nOther := 0
	for _, pa := range paths {
		if len(pa.Ret.Results) != 2 {
			continue
		}
		code := []ival{ivalAll}
		sawCode := false
		for sym, iv := range pa.State.ints {
			if strings.HasSuffix(sym, ".StatusCode") {
				code = iv
				sawCode = true
			}
		}
		st := resolveOnPath(pa.Ret.Results[1], pa)
		if n, ok := intConst(st); ok {
			switch {
			case n == 0:
				if sawCode {
					allow = append(allow, code...)
				} else {
					// must be a not-configured exit: a == nil or URL empty — i.e. before any request is made
					if pathCallsDo(pa) {
						bad = true
						c.Fail(rule, name+":allow-only-2xx", p.InstrPos(pa.Ret), "status 0 (allow) returned after the auth request without testing the response code")
					}
				}
			case n == 503:
				nOther++
			default:
				bad = true
				c.Fail(rule, name+":constant-status", p.InstrPos(pa.Ret), fmt.Sprintf("constant status %d returned (only 0 and 503 are documented)", n))
			}
			continue
		}
		if sym, ok := symOf(st); ok && strings.HasSuffix(sym, ".StatusCode") {
			pass = append(pass, code...)
			continue
		}
		bad = true
		c.Undecided(rule, name+":status-value", p.InstrPos(pa.Ret), "returned status not understood")
	}
	allow = mergeIvals(allow)
	pass = mergeIvals(pass)
	c.Check(ivalsEqual(allow, []ival{{200, 299}}), rule, name+":allow-set", p.Pos(fn.Pos()), "allow ⇔ response code ∈ "+ivalsString(allow), "allow set is "+ivalsString(allow)+", must be exactly [200,299]")
	c.Check(ivalsEqual(pass, []ival{{401, 401}, {403, 403}}), rule, name+":pass-through-set", p.Pos(fn.Pos()), "pass-through ⇔ response code ∈ "+ivalsString(pass), "pass-through set is "+ivalsString(pass)+", must be exactly {401,403}")
	c.Check(!bad && nOther > 0, rule, name+":everything-else-503", p.Pos(fn.Pos()), fmt.Sprintf("%d other path(s) all return 503", nOther), "see findings")
}

func pathCallsDo(pa predPath) bool {
	for _, b := range pa.Blocks {
		for _, ins := range b.Instrs {
			if ci, ok := ins.(ssa.CallInstruction); ok && calleeIs(ci, "net/http", "Client", "Do") {
				return true
			}
		}
	}
	return false
}

func checkBasicAuth(c *Ctx, rule string) {
	p := c.P
	fn := p.Func("ingress", "(*BasicAuth).Verify")
	if fn == nil {
		c.Fail(rule, "anchor:BasicAuth.Verify", "", "anchor not found")
		return
	}
	name := "ingress.BasicAuth.Verify"
	var notConf, found, parsed []Edge
	for _, b := range fn.Blocks {
		for i := range b.Succs {
			a, ok := edgeAtom(Edge{b, i})
			if !ok {
				continue
			}
			if a.Op == token.EQL && isNilConst(a.Y) {
				if _, isParam := a.X.(*ssa.Parameter); isParam {
					notConf = append(notConf, Edge{b, i})
				}
			}
			if a.Op == token.EQL && isIntConst(a.Y, 0) && lenArg(a.X) != nil {
				notConf = append(notConf, Edge{b, i})
			}
			if ex, ok := a.X.(*ssa.Extract); ok && isBoolTrue(a.Y) && a.Op == token.EQL {
				if lk, ok := ex.Tuple.(*ssa.Lookup); ok && lk.CommaOk && ex.Index == 1 {
					if _, f, ok := fieldOfLoad(lk.X); ok && f == "Users" {
						found = append(found, Edge{b, i})
					}
				}
				if call, ok := ex.Tuple.(*ssa.Call); ok && calleeIs(call, "net/http", "Request", "BasicAuth") && ex.Index == 2 {
					parsed = append(parsed, Edge{b, i})
				}
			}
		}
	}
	n := 0
	for _, r := range returnsOf(fn) {
		v := r.Results[0]
		if cst, ok := v.(*ssa.Const); ok && cst.Value != nil {
			if cst.Value.String() == "true" {
				n++
				okp, path := p.MustPass(fn, r, notConf)
				if okp && len(notConf) > 0 {
					c.Ok(rule, fmt.Sprintf("%s:return-true#%d", name, n), p.InstrPos(r), "constant true only when no users are configured")
				} else {
					c.Fail(rule, fmt.Sprintf("%s:return-true#%d", name, n), p.InstrPos(r), "constant true returned although users are configured", path...)
				}
			}
			continue
		}
		n++
		key := fmt.Sprintf("%s:verdict#%d", name, n)
		// the verdict: the result of the comparison function, or — when that function is part of this one — a merge
		// of constant false and ConstantTimeCompare(presented, configured) == 1
		var call *ssa.Call
		okCmp := false
		alts := []ssa.Value{v}
		if phi, isPhi := v.(*ssa.Phi); isPhi {
			alts = phi.Edges
		}
		shape := true
		for _, alt := range alts {
			if cst, ok := alt.(*ssa.Const); ok && cst.Value != nil && cst.Value.String() == "false" {
				continue
			}
			if bo, ok := alt.(*ssa.BinOp); ok && bo.Op == token.EQL && isIntConst(bo.Y, 1) {
				if cc, ok := bo.X.(*ssa.Call); ok && calleeIs(cc, "crypto/subtle", "", "ConstantTimeCompare") && call == nil {
					call, okCmp = cc, true
					continue
				}
			}
			if cc, ok := alt.(*ssa.Call); ok && call == nil {
				if f := cc.Call.StaticCallee(); f != nil && trueRequiresConstantTimeCompare(f) {
					call, okCmp = cc, true
					continue
				}
			}
			shape = false
		}
		if !shape || call == nil {
			c.Fail(rule, key, p.InstrPos(r), "verdict is neither a constant nor the result of the comparison function")
			continue
		}
		c.Check(okCmp, rule, key+":constant-time-compare", p.InstrPos(r), "verdict = comparison that is true only when ConstantTimeCompare == 1", "verdict does not come from a constant-time comparison")
		okF, pathF := p.MustPass(fn, r, found)
		c.Check(okF && len(found) > 0, rule, key+":user-found", p.InstrPos(r), "verdict only behind the comma-ok hit in the user table", "a verdict is produced without checking that the user exists in the table"+pathNote(pathF))
		okP, _ := p.MustPass(fn, r, parsed)
		c.Check(okP && len(parsed) > 0, rule, key+":credentials-parsed", p.InstrPos(r), "verdict only behind a successfully parsed Authorization header", "a verdict is produced without a parsed Basic Authorization header")
		// arguments: presented password and the table's value
		okArgs := false
		if len(call.Call.Args) == 2 {
			strip := func(v ssa.Value) ssa.Value {
				if cv, ok := v.(*ssa.Convert); ok {
					return cv.X // []byte(s)
				}
				return v
			}
			a0 := sourcesOf(strip(call.Call.Args[0]))
			a1 := sourcesOf(strip(call.Call.Args[1]))
			okArgs = allSourcesMatch(a0, func(s vsource) bool { return s.Kind == "call" && strings.Contains(s.Desc, "BasicAuth#1") }) &&
				len(a1) > 0
			for _, s := range a1 {
				if ex, ok := s.Val.(*ssa.Extract); !ok || ex.Index != 0 {
					if _, isLk := s.Val.(*ssa.Lookup); !isLk {
						okArgs = false
					}
				}
			}
		}
		c.Check(okArgs, rule, key+":compares-presented-with-configured", p.InstrPos(r), "compares the presented password with the table entry", "comparison arguments are not (presented password, configured password)")
	}
	c.Floor(rule, "returns_examined", n, 2)
}

func pathNote(p []string) string {
	if len(p) == 0 {
		return ""
	}
	return " (path: " + strings.Join(p, " → ") + ")"
}

// trueRequiresConstantTimeCompare: every return of f is false or `ConstantTimeCompare(...) == 1`.
func trueRequiresConstantTimeCompare(f *ssa.Function) bool {
	if len(f.Blocks) == 0 {
		return false
	}
	seen := false
	for _, r := range returnsOf(f) {
		v := r.Results[0]
		if cst, ok := v.(*ssa.Const); ok && cst.Value != nil && cst.Value.String() == "false" {
			continue
		}
		if bo, ok := v.(*ssa.BinOp); ok && bo.Op == token.EQL && isIntConst(bo.Y, 1) {
			if call, ok := bo.X.(*ssa.Call); ok && calleeIs(call, "crypto/subtle", "", "ConstantTimeCompare") {
				seen = true
				continue
			}
		}
		return false
	}
	return seen
}

func checkAuthWiring(c *Ctx, rule string) {
	p := c.P
	w := p.wiringTable()
	for _, h := range authHooks {
		ts := w[fieldKey{"ingress.Server", h.field}]
		// restrict to stores on ingress.Server
		var okTargets []string
		bad := false
		for _, t := range ts {
			if t.Signature.Recv() != nil && namedName(t.Signature.Recv().Type()) == "runtimeState" {
				okTargets = append(okTargets, t.Name())
			} else if t.Pkg != nil && t.Pkg.Pkg.Path() == modPath+"/internal/app" {
				bad = true
			}
		}
		c.Check(len(okTargets) >= 1 && !bad, rule, "app:ingress.Server."+h.field+"<-runtimeState", "", "hook assigned from runtimeState."+strings.Join(dedup(okTargets), ","), fmt.Sprintf("hook %s is not (only) wired to a runtimeState method: %v", h.field, okTargets))
	}
}

// trueOnlyOnConstantTimeMatch: every return of the predicate is constant false, the value of hmac.Equal /
// ConstantTimeCompare(...) == 1, or constant true behind such a match.
func trueOnlyOnConstantTimeMatch(p *Program, f *ssa.Function) bool {
	if f == nil || len(f.Blocks) == 0 {
		return false
	}
	var cmp []Edge
	for _, b := range f.Blocks {
		for i := range b.Succs {
			a, ok := edgeAtom(Edge{b, i})
			if !ok || a.Op != token.EQL {
				continue
			}
			if call, isCall := a.X.(*ssa.Call); isCall {
				if isIntConst(a.Y, 1) && calleeIs(call, "crypto/subtle", "", "ConstantTimeCompare") {
					cmp = append(cmp, Edge{b, i})
				}
				if isBoolTrue(a.Y) && calleeIs(call, "crypto/hmac", "", "Equal") {
					cmp = append(cmp, Edge{b, i})
				}
			}
		}
	}
	seen := false
	for _, r := range returnsOf(f) {
		if len(r.Results) != 1 {
			return false
		}
		alts := []ssa.Value{r.Results[0]}
		if phi, ok := r.Results[0].(*ssa.Phi); ok {
			alts = phi.Edges
		}
		for _, v := range alts {
			if cst, ok := v.(*ssa.Const); ok && cst.Value != nil {
				if cst.Value.String() == "false" {
					continue
				}
				if okp, _ := p.MustPass(f, r, cmp); okp && len(cmp) > 0 {
					seen = true
					continue
				}
				return false
			}
			if call, ok := v.(*ssa.Call); ok && calleeIs(call, "crypto/hmac", "", "Equal") {
				seen = true
				continue
			}
			if bo, ok := v.(*ssa.BinOp); ok && bo.Op == token.EQL && isIntConst(bo.Y, 1) {
				if call, ok := bo.X.(*ssa.Call); ok && calleeIs(call, "crypto/subtle", "", "ConstantTimeCompare") {
					seen = true
					continue
				}
			}
			return false
		}
	}
	return seen
}
